import common

PID = "C06"


def check(tier, seed):
    return common.standard_check(
        PID, tier, seed, families=["c06"],
        trusted_extra=[
            "strconv.ParseInt/ParseUint/ParseFloat: modelled in Lean (Base/Dec, Base/ParseFloat, soft-float Base/F64) and compared bit-for-bit with the Go library on every run (op parsefloat + every infer case)",
        ],
        rule="all strings of length <= 4 (N) / <= 3 (O,A,S) [thorough: 5/4] over a 22-symbol numeric alphabet (one representative per digit class), plus seeded structured numerals at the documented boundaries (2^63, 2^64, 16/17-digit hex, 63-65 digit binary, 21-23 digit octal, float range limits, denormals), random bytes; entry points FromDeferredType (data fields), FromInferredType (JSON numbers, DSL literals), FromString (JSON strings), FindScanType; distinct = distinct protocol lines",
        assumptions=[
            "JSON decoder / DSL literal node wiring to FromInferredType/FromString is covered by the T3 part of C06 only when the mlr binary is used",
        ],
    )


def replay(path):
    return common.standard_replay(PID, path)
