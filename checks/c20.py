import json, os, random, shutil
import common, t3util

PID = "C20"


def t3(rep, tier, seed):
    """The split verb on the real binary: every input record lands in exactly one file, all files are where
    --folder / --prefix say (nothing stray), and with -g every file holds one group."""
    mlr, _ = t3util.binaries(rep)
    if not mlr:
        return
    rng = random.Random(seed)
    base = t3util.scratch("c20")
    n = 0
    try:
        recs = []
        for i in range(1, 41):
            r = {"id": i}
            if rng.random() < 0.75:
                r["shape"] = rng.choice(["circle", "square", "tri angle", "a/b", ""])
            if rng.random() < 0.8:
                r["color"] = rng.choice(["red", "blue"])
            r["v"] = rng.randrange(100)
            recs.append(r)
        data = "".join(json.dumps(r) + "\n" for r in recs).encode()
        variants = []
        for g in (["-g", "shape"], ["-g", "shape,color"], ["-g", "nosuch"], ["-n", "7"], ["-m", "3"]):
            for folder in (None, "outdir", "deep/er"):
                for pre in (None, "part"):
                    for suf in (None, "dat"):
                        variants.append((g, folder, pre, suf))
        if tier == "quick":
            variants = [v for k, v in enumerate(variants) if k % 2 == 0]
        for g, folder, pre, suf in variants:
            cwd = os.path.join(base, "w%d" % n)
            os.makedirs(cwd)
            argv = ["--ijsonl", "--ojsonl", "split"] + g
            if folder:
                os.makedirs(os.path.join(cwd, folder), exist_ok=True)
                argv += ["--folder", folder]
            if pre:
                argv += ["--prefix", pre]
            if suf:
                argv += ["--suffix", suf]
            rc, so, se = t3util.run(mlr, argv, stdin=data, cwd=cwd)
            n += 1
            files = []
            for root, _, fs in os.walk(cwd):
                for f in fs:
                    files.append(os.path.relpath(os.path.join(root, f), cwd))
            problem = None
            if rc != 0:
                problem = "split failed"
            else:
                where = folder or "."
                stray = [f for f in files if os.path.normpath(os.path.dirname(f) or ".") != os.path.normpath(where)]
                if stray:
                    problem = "files written outside the requested folder: %s" % stray
                got = []
                for f in files:
                    rows = [json.loads(l) for l in open(os.path.join(cwd, f)) if l.strip()]
                    got += rows
                    if pre and not os.path.basename(f).startswith(pre + "_") and problem is None:
                        problem = "file name does not start with the prefix: " + f
                    if suf and not f.endswith("." + suf) and problem is None:
                        problem = "file name does not end with the suffix: " + f
                    if g[0] == "-g" and problem is None:
                        keys = set(tuple((k, json.dumps(r.get(k))) if k in r else (k, None) for k in g[1].split(",")) for r in rows)
                        if len(keys) > 1 and not all(any(v is None for _, v in kk) for kk in keys):
                            problem = "a file holds more than one group: " + f
                if problem is None and sorted(json.dumps(r, sort_keys=True) for r in got) != sorted(json.dumps(r, sort_keys=True) for r in recs):
                    problem = "the union of the files is not the input (%d records in, %d in files)" % (len(recs), len(got))
            if problem:
                rep.violation("spec", "split: " + problem, {"argv": ["mlr"] + argv, "exit": rc, "stderr": se.decode(errors="replace")[:300], "files": sorted(files)[:20]}, True)
    finally:
        shutil.rmtree(base, ignore_errors=True)
    rep.coverage.setdefault("t3", {})["split_runs"] = n
    rep.coverage["evaluations"] = rep.coverage.get("evaluations", 0) + n
    rep.coverage["distinct_nontrivial"] = rep.coverage.get("distinct_nontrivial", 0) + n


def check(tier, seed):
    return common.standard_check(
        PID, tier, seed, families=["c20"],
        trusted_extra=[
            "modelled: the file-target path of MultiOutputHandlerManager.getOutputHandlerFor (LRU list, eviction at the capacity regenerated from the source, re-open in append mode, truncation on first open in write mode, one fresh record writer = one document per open). NOT modelled: pipe targets (|), the stdout/stderr single handlers, the split/tee verbs' and the DSL redirects' computation of target names, URL-escaping of names, close errors",
            "the real manager is driven in-process with real files in a scratch directory and the real CSV/DKVP/JSON writers (harness/c20.go); the driver renders the model's documents with its own small writers for these three formats (flat records, text/integer values)",
        ],
        rule="seeded write histories: 1-5 targets x 0-11 writes with arbitrary revisit patterns, and histories over 255/256/257/258/300 targets (single sweep + revisit, double sweep, hot target kept alive + cold revisits, 400 random writes) x write/append mode x 0-2 pre-existing target files x csv/dkvp/json; distinct = distinct protocol lines",
        extra=t3,
    )


def replay(path):
    return common.standard_replay(PID, path)
