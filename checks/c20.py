import common

PID = "C20"


def check(tier, seed):
    return common.standard_check(
        PID, tier, seed, families=["c20"],
        trusted_extra=[
            "modelled: the file-target path of MultiOutputHandlerManager.getOutputHandlerFor (LRU list, eviction at the capacity regenerated from the source, re-open in append mode, truncation on first open in write mode, one fresh record writer = one document per open). NOT modelled: pipe targets (|), the stdout/stderr single handlers, the split/tee verbs' and the DSL redirects' computation of target names, URL-escaping of names, close errors",
            "the real manager is driven in-process with real files in a scratch directory and the real CSV/DKVP/JSON writers (harness/c20.go); the driver renders the model's documents with its own small writers for these three formats (flat records, text/integer values)",
        ],
        rule="seeded write histories: 1-5 targets x 0-11 writes with arbitrary revisit patterns, and histories over 255/256/257/258/300 targets (single sweep + revisit, double sweep, hot target kept alive + cold revisits, 400 random writes) x write/append mode x 0-2 pre-existing target files x csv/dkvp/json; distinct = distinct protocol lines",
    )


def replay(path):
    return common.standard_replay(PID, path)
