import common

PID = "C11"


def check(tier, seed):
    return common.standard_check(
        PID, tier, seed, families=["c11"],
        trusted_extra=[
            "modelled as state machines: head (unkeyed/keyed/all-but-last), tail (last-n, from-start), decimate, tac, group-by, group-like, uniq -a, skip-trivial-records, nothing, cat -n/-N/-g, having-fields (name-list modes). NOT modelled (laws checked on the implementation only): filter, grep, sample, bootstrap, shuffle, having-fields regex modes",
            "the real transformers are driven record by record through climain.ParseCommandLine + Transform, without reader/writer/goroutines (harness/verbs.go)",
        ],
        rule="seeded heterogeneous record streams (0-12 records, 0-4 fields from 5 names, occasionally 13-15 fields; 11 value spellings incl. empty, hex, comma-containing) x counts {0,1,2,N-1,N,N+1} x group-by lists (present, absent, overlapping, two-field) x ~50 verb invocations per stream incl. chains and complementary pairs (grep/grep -v, filter/filter -x on boolean and absent expressions, head -n k/tail -n +(k+1)); distinct = distinct protocol lines",
    )


def replay(path):
    return common.standard_replay(PID, path)
