"""C19: in-place mode. PROVE (Lean over the regenerated step order) + T3 (real processes: stopped at
every hook point with the verif build; real error paths; refusals; multi-file; gzip)."""
import gzip, os, random, shutil, stat, subprocess
import common, verif

PID = "C19"


def _run(binary, argv, env=None, stdin=None, timeout=60):
    e = dict(os.environ)
    e.pop("MLR_VERIF_CRASH", None)
    if env:
        e.update(env)
    return subprocess.run([binary, "--norc"] + argv, capture_output=True, env=e, input=stdin, timeout=timeout)


def _listing(d):
    return sorted(os.listdir(d))


def t3_inplace(rep, tier, seed):
    cov = rep.coverage.setdefault("t3", {})
    mlr, _ = verif.build_mlr()
    mlrv, _ = verif.build_mlr("verif")
    if not mlr or not mlrv:
        rep.violation("build", "mlr (plain or -tags verif) does not build from the current tree", {}, False)
        return
    rng = random.Random(seed)
    base = os.path.join(verif.VERIF, "build", "scratch", f"c19-{os.getpid()}")
    shutil.rmtree(base, ignore_errors=True)
    os.makedirs(base)
    n_eval = 0
    counts = {"success": 0, "crash_points": 0, "error_paths": 0, "multi_file": 0, "refusals": 0, "gzip": 0, "trace": 0}
    try:
        nrec_choices = [0, 1, 2, 7] if tier == "quick" else [0, 1, 2, 3, 7, 40, 501, 1200]
        chains = [
            (["--icsv", "--ocsv"], ["put", "$z = $a . \"-\" . $b"], "csv"),
            (["--icsv", "--ojson"], ["cat", "-n"], "csv"),
            (["--idkvp", "--odkvp"], ["sort", "-nr", "a"], "dkvp"),
            (["--icsv", "--ocsv"], ["head", "-n", "2", "then", "put", "$c = NR"], "csv"),
            (["--icsv", "--opprint"], ["tac"], "csv"),
            (["--icsv", "--ocsv"], ["put", "-q", "tee > \"" + base + "/side.out\", $*; emit mapsum($*, {\"k\": 1})"], "csv"),
        ]
        if tier == "quick":
            chains = chains[:4]

        def make_input(kind, n):
            if kind == "csv":
                return "a,b\n" + "".join(f"{i},{rng.choice(['x','y','zz',''])}{i*7}\n" for i in range(1, n + 1))
            return "".join(f"a={i},b=v{i*3}\n" for i in range(1, n + 1))

        for flags, verb, kind in chains:
            for n in nrec_choices:
                old = make_input(kind, n).encode()
                d = os.path.join(base, f"w{n_eval}")
                os.makedirs(d)
                fn = os.path.join(d, "data." + kind)
                mode = rng.choice([0o600, 0o640, 0o644, 0o755])

                def reset():
                    for x in os.listdir(d):
                        os.remove(os.path.join(d, x))
                    with open(fn, "wb") as f:
                        f.write(old)
                    os.chmod(fn, mode)

                reset()
                ref = _run(mlr, flags + verb + [fn])
                if ref.returncode != 0:
                    continue
                new = ref.stdout
                # 1. success: equals the same command without -I; mode preserved; nothing else left in the directory
                p = _run(mlr, ["-I"] + flags + verb + [fn])
                n_eval += 1
                counts["success"] += 1
                got = open(fn, "rb").read()
                if p.returncode != 0 or got != new or stat.S_IMODE(os.stat(fn).st_mode) != mode or _listing(d) != ["data." + kind]:
                    rep.violation("spec", "in-place result differs from the same command without -I (bytes, mode or leftover files)",
                                  {"argv": ["mlr", "-I"] + flags + verb + ["<file>"], "input": old.decode()[:400], "wanted": new.decode(errors='replace')[:400],
                                   "observed": got.decode(errors='replace')[:400], "exit": p.returncode, "mode": oct(stat.S_IMODE(os.stat(fn).st_mode)), "wanted_mode": oct(mode),
                                   "dir": _listing(d), "stderr": p.stderr.decode(errors='replace')[:300]}, True)
                # 2. every hook point as a crash point
                nout = max(1, new.count(b"\n"))
                sites = ["inplace:temp-created#1", "inplace:stream-done#1", "inplace:temp-closed#1", "inplace:renamed#1",
                         "chain:batch-received#1", "chain:before-batch-send#1", "reader:before-batch-send#1", "stream:before-select#1"]
                ks = sorted(set([1, 2, 3, nout // 2, nout - 1, nout, n]) - {0})
                sites += [f"writer:record-written#{k}" for k in ks if k >= 1]
                for site in sites:
                    reset()
                    p = _run(mlrv, ["-I", "--records-per-batch", "1"] + flags + verb + [fn], env={"MLR_VERIF_CRASH": site})
                    n_eval += 1
                    counts["crash_points"] += 1
                    got = open(fn, "rb").read() if os.path.exists(fn) else None
                    crashed = p.returncode == 137
                    ok = got == old or got == new
                    if ok and got == old and got != new and crashed and stat.S_IMODE(os.stat(fn).st_mode) != mode:
                        ok = False   # still the original file: its mode must be untouched
                    if not ok:
                        rep.violation("spec", f"process stopped at {site}: the named file holds neither its complete original nor its complete transformed bytes",
                                      {"argv": ["mlr-verif", "-I", "--records-per-batch", "1"] + flags + verb + ["<file>"], "env": {"MLR_VERIF_CRASH": site},
                                       "input": old.decode()[:400], "observed": None if got is None else got.decode(errors='replace')[:400],
                                       "wanted_either": [old.decode()[:200], new.decode(errors='replace')[:200]], "exit": p.returncode, "dir": _listing(d)}, True)
                # trace: the order of the hook points in a complete run is the model's order
                reset()
                tr = os.path.join(base, "trace")
                if os.path.exists(tr):
                    os.remove(tr)
                _run(mlrv, ["-I"] + flags + verb + [fn], env={"MLR_VERIF_TRACE": tr})
                n_eval += 1
                counts["trace"] += 1
                seq = [l for l in open(tr).read().split() if l.startswith("inplace:") or l.startswith("writer:")] if os.path.exists(tr) else []
                want_order = ["inplace:temp-created", "inplace:stream-done", "inplace:temp-closed", "inplace:renamed"]
                pos = [seq.index(s) if s in seq else -1 for s in want_order]
                wr = [i for i, s in enumerate(seq) if s == "writer:record-written"]
                if -1 in pos or pos != sorted(pos) or any(not (pos[0] < i < pos[1]) for i in wr):
                    rep.violation("correspondence", "the order of file-system steps observed at the hook points differs from the model's order (temp created < every record written < stream done < temp closed < renamed)",
                                  {"observed_sequence": seq[:60], "argv": ["mlr-verif", "-I"] + flags + verb}, True)

        # 3. failures through the normal error path: no temp left, file untouched, non-zero exit
        err_cases = []
        known_seen = []
        for n, bad in [(1, 1), (5, 1), (5, 3), (5, 5), (600, 501)]:
            rows = "".join(f"{i},{'notanint' if i == bad else i}\n" for i in range(1, n + 1))
            err_cases.append((["--icsv", "--ocsv", "put", "$c = asserting_int($b)"], ("a,b\n" + rows).encode(), "run-time DSL error"))
        err_cases.append((["--icsv", "--ocsv", "cat"], b"a,b\n1,2\n3,4,5\n6,7\n", "malformed input (data length)"))
        err_cases.append((["--icsv", "--ocsv", "cat"], b"a,b\n1,\"unterminated\n", "malformed input (unterminated quote)"))
        err_cases.append((["--ijson", "--ojson", "cat"], b'{"a":1}\n{"a":', "malformed JSON"))
        err_cases.append((["--icsv", "--oxtab", "put", "$* = mapsum($*, {\"new\": {}})" if False else "$c = splitax(\"a,b\", \",\")", "then", "nothing", "then", "nosuchverb"], b"a,b\n1,2\n", "unknown verb"))
        err_cases.append((["--icsv", "--ocsv", "unsparsify", "then", "put", "tee > \"/nonexistent-dir/x/y\", $*"], b"a,b\n1,2\n", "unwritable redirect target"))
        for argv, old, why in err_cases:
            d = os.path.join(base, f"e{n_eval}")
            os.makedirs(d)
            fn = os.path.join(d, "data.txt")
            open(fn, "wb").write(old)
            os.chmod(fn, 0o640)
            p = _run(mlr, ["-I"] + argv + [fn])
            n_eval += 1
            counts["error_paths"] += 1
            got = open(fn, "rb").read()
            if p.returncode == 0:
                # not a failure for this build (e.g. the verb accepted it): then it must equal the non -I output
                continue
            leftovers = [x for x in _listing(d) if x != "data.txt"]
            if (why == "run-time DSL error" and got == old and leftovers and all(x.startswith("mlr-in-place-") for x in leftovers)
                    and stat.S_IMODE(os.stat(fn).st_mode) == 0o640 and p.stderr.strip()):
                k = rep.known_tag("inplace-temp-left-on-dsl-fatal")
                if k is not None:
                    known_seen.append("mlr -I " + " ".join(argv) + " <file with " + str(old.count(b"\n") - 1) + " records> => exit " + str(p.returncode) + ", left " + leftovers[0])
                    continue
            if got != old or _listing(d) != ["data.txt"] or stat.S_IMODE(os.stat(fn).st_mode) != 0o640 or not p.stderr.strip():
                rep.violation("spec", f"failure through the normal error path ({why}): file changed, temporary file left behind, or no diagnostic",
                              {"argv": ["mlr", "-I"] + argv + ["<file>"], "input": old.decode()[:300], "observed": got.decode(errors='replace')[:300],
                               "dir": _listing(d), "exit": p.returncode, "stderr": p.stderr.decode(errors='replace')[:300]}, True)

        if known_seen:
            rep.known_finding(rep.known_tag("inplace-temp-left-on-dsl-fatal"), len(known_seen), known_seen[0])

        # 4. several files: each processed alone (own header, NR, end block, head count); a failure leaves later files untouched
        d = os.path.join(base, "multi")
        os.makedirs(d)
        texts = [b"a,b\n1,2\n3,4\n5,6\n", b"x,y\n7,8\n", b"a,b\n9,10\n11,12\n"]
        fns = []
        for i, t in enumerate(texts):
            fn = os.path.join(d, f"f{i}.csv")
            open(fn, "wb").write(t)
            fns.append(fn)
        argv = ["--icsv", "--ojson", "head", "-n", "2", "then", "put", "begin{@c=0} @c += 1; $nr = NR; $fnr = FNR; end{emit @c}"]
        want = [_run(mlr, argv + [fn]).stdout for fn in fns]
        p = _run(mlr, ["-I"] + argv + fns)
        n_eval += 1
        counts["multi_file"] += 1
        got = [open(fn, "rb").read() for fn in fns]
        if p.returncode != 0 or got != want:
            rep.violation("spec", "with several files, -I does not give each file what the same command prints for that file alone",
                          {"argv": ["mlr", "-I"] + argv + ["f0.csv", "f1.csv", "f2.csv"], "inputs": [t.decode() for t in texts],
                           "wanted": [w.decode() for w in want], "observed": [g.decode(errors='replace') for g in got], "exit": p.returncode}, True)
        for i, t in enumerate(texts):
            open(fns[i], "wb").write(t)
        open(fns[1], "wb").write(b"x,y\n7,8,9\n")
        argv2 = ["--icsv", "--ocsv", "put", "$z = 1"]
        want0 = _run(mlr, argv2 + [fns[0]]).stdout
        p = _run(mlr, ["-I"] + argv2 + fns)
        n_eval += 1
        counts["multi_file"] += 1
        got = [open(fn, "rb").read() for fn in fns]
        if p.returncode == 0 or got[0] != want0 or got[1] != b"x,y\n7,8,9\n" or got[2] != texts[2] or len(_listing(d)) != 3:
            rep.violation("spec", "a failure in the second of three files: earlier file not transformed, failing file changed, later file touched, or a temporary file left",
                          {"argv": ["mlr", "-I"] + argv2 + ["f0.csv", "f1.csv(bad)", "f2.csv"], "observed": [g.decode(errors='replace') for g in got],
                           "dir": _listing(d), "exit": p.returncode}, True)

        # 5. refusals before anything is modified
        d = os.path.join(base, "refuse")
        os.makedirs(d)
        fn = os.path.join(d, "r.csv")
        for argv, name in [(["--prepipe", "cat", "--icsv", "--ocsv", "cat"], fn), (["--icsv", "--ocsv", "cat"], "http://example.invalid/x.csv"),
                           (["--icsv", "--ocsv", "cat"], os.path.join(d, "r.csv.bz2")), (["--bz2in", "--icsv", "--ocsv", "cat"], fn)]:
            open(fn, "wb").write(b"a,b\n1,2\n")
            open(os.path.join(d, "r.csv.bz2"), "wb").write(b"BZh91AY&SYnotreally")
            before = {x: open(os.path.join(d, x), "rb").read() for x in os.listdir(d)}
            p = _run(mlr, ["-I"] + argv + [name])
            n_eval += 1
            counts["refusals"] += 1
            after = {x: open(os.path.join(d, x), "rb").read() for x in os.listdir(d)}
            if p.returncode == 0 or before != after:
                rep.violation("spec", "an input that cannot be updated in place was not refused before anything was modified",
                              {"argv": ["mlr", "-I"] + argv + [name], "exit": p.returncode, "dir_before": sorted(before), "dir_after": sorted(after),
                               "stderr": p.stderr.decode(errors='replace')[:300]}, True)

        # 6. gzip / zlib inputs are rewritten compressed
        d = os.path.join(base, "gz")
        os.makedirs(d)
        plain = b"a,b\n1,2\n3,4\n"
        want = _run(mlr, ["--icsv", "--ocsv", "put", "$c = $a + $b"], stdin=plain).stdout
        for name, flags in [("g.csv.gz", []), ("h.csv", ["--gzin"])]:
            fn = os.path.join(d, name)
            open(fn, "wb").write(gzip.compress(plain))
            p = _run(mlr, ["-I"] + flags + ["--icsv", "--ocsv", "put", "$c = $a + $b", fn])
            n_eval += 1
            counts["gzip"] += 1
            raw = open(fn, "rb").read()
            try:
                got = gzip.decompress(raw)
            except Exception:
                got = None
            if p.returncode != 0 or got != want:
                rep.violation("spec", "a gzip input was not rewritten as the gzip-compressed transformed bytes",
                              {"argv": ["mlr", "-I"] + flags + ["--icsv", "--ocsv", "put", "$c = $a + $b", name], "exit": p.returncode,
                               "file_starts_with": raw[:4].hex(), "decompressed": None if got is None else got.decode(errors='replace'), "wanted": want.decode()}, True)
        # 7. the output file cannot be written completely (file-size limit): for plain and gzip inputs, at limits
        # that make the failure surface during streaming or only when the compressor is closed
        import t3util
        d = os.path.join(base, "fsize")
        os.makedirs(d)
        rows = "".join(f"{i},{(i * 7919) % 1000},{'abcdefghij'[i % 10] * 8}\n" for i in range(1, 301))
        plain = ("k,v,w\n" + rows).encode()
        argvf = ["--icsv", "--ocsv", "sort", "-nr", "v"]
        want = t3util.run(mlr, argvf, stdin=plain)[1]
        counts["write_failure"] = 0
        for name, data, dec in [("p.csv", plain, lambda b: b), ("q.csv.gz", gzip.compress(plain), gzip.decompress)]:
            for limit in [512, 1024, 2048, 4096, 5000, 6000, 8192]:
                fn = os.path.join(d, name)
                for x in os.listdir(d):
                    os.remove(os.path.join(d, x))
                open(fn, "wb").write(data)
                rc, so, se = t3util.run(mlr, ["-I"] + argvf + [fn], fsize_limit=limit)
                n_eval += 1
                counts["write_failure"] += 1
                raw = open(fn, "rb").read()
                try:
                    got = dec(raw)
                except Exception:
                    got = None
                ok = (rc != 0 and raw == data and se.strip()) or (rc == 0 and got == want)
                if not ok or [x for x in _listing(d) if x != name]:
                    rep.violation("spec", "the transformed file could not be written completely (file-size limit) and the run did not end with a non-zero exit, a diagnostic, the named file intact and no temporary file",
                                  {"argv": ["mlr", "-I"] + argvf + [name], "ulimit_f_bytes": limit, "input_bytes": len(data), "exit": rc, "stderr": se.decode(errors="replace")[:200],
                                   "file_bytes_after": len(raw), "file_decodes": got is not None, "equals_original": raw == data, "equals_transformed": got == want, "dir": _listing(d)}, True)
    finally:
        shutil.rmtree(base, ignore_errors=True)
    cov.update(counts)
    rep.coverage["evaluations"] = rep.coverage.get("evaluations", 0) + n_eval
    rep.coverage["distinct_nontrivial"] = rep.coverage.get("distinct_nontrivial", 0) + n_eval


def check(tier, seed):
    return common.standard_check(
        PID, tier, seed, families=[],
        trusted_extra=[
            "the file-system model (two names, create/write/close/rename/chmod/remove; rename atomic; a crash = a prefix of the operation sequence) and the mapping from Go call names to model operations (Model/InPlace.lean opsOfCall); the ORDER of the calls and the cleanup in the error branches are regenerated from entrypoint.processFileInPlace by gofacts",
            "T3: the real binary, plain and built with -tags verif (lib.VerifPoint hooks, commit b0e5a132a) and stopped with MLR_VERIF_CRASH at each hook point; OS-level behaviour of rename(2) is assumed atomic, power-loss durability (fsync) is outside the model",
            "NOT covered: crashes inside a single write(2), inside rename itself, and between rename and chmod leave the mode of the temporary file (0600) on the renamed file until chmod runs - the model states content atomicity, the final mode only for complete runs",
        ],
        rule="T3: 4-6 verb chains (streaming, non-streaming, early-exit head, format-changing, tee side output) x 4-8 input sizes (0 .. 1200 records) x every hook point as a crash point (temp created; after the 1st, 2nd, 3rd, middle, last-but-one and last written record; stream done; temp closed; renamed; reader/chain/stream hand-overs) x 4 file modes; 9 error-path cases (DSL failure at first/middle/last record and beyond one batch, three malformed inputs, unknown verb, unwritable redirect); 2 multi-file cases; 4 refusal cases; 2 gzip cases",
        extra=t3_inplace,
    )


def replay(path):
    import json
    r = json.load(open(path))
    print(json.dumps(r["primary"], indent=1)[:4000])
    print("re-run: ./bin/check C19")
    return 1
