"""Shared shape of a T1+T2 check; per-property modules customise."""
import json, os, subprocess, sys
import verif

BASE_TRUSTED = [
    "Lean 4.33 kernel; axioms limited to propext, Classical.choice, Quot.sound (audited by #print axioms on every theorem); no sorry/native_decide/bv_decide",
    "gofacts translator (go/parser walk over /repo) that regenerates MillerModel/Gen on every run",
    "mharness (in-process Go harness calling the real Miller packages), its generators and canonicalisation; mdriver I/O shell",
    "hand-written Lean model: tied to the code only by the correspondence run (model = implementation on every explored input)",
]


def hexdec(h):
    return b"" if h == "-" else bytes.fromhex(h)


def describe_default(case):
    """Readable rendering of a protocol line (hex payloads decoded)."""
    lhs, _, impl = case.partition(" | ")
    parts = lhs.split(" ")
    outp = [parts[0]]
    def dec(p):
        if p == "-" or (len(p) % 2 == 0 and all(c in "0123456789abcdef" for c in p) and len(p) >= 2):
            return repr(hexdec(p))[1:]
        return None
    for p in parts[1:]:
        try:
            d = dec(p)
            if d is not None:
                outp.append(d)
            elif "," in p and all(dec(q) is not None for q in p.split(",")):
                outp.append("[" + " ".join(dec(q) for q in p.split(",")) + "]")   # argv lists
            else:
                outp.append(p if len(p) < 300 else p[:300] + "...")
        except Exception:
            outp.append(p)
    return " ".join(outp) + " => " + impl


def standard_check(pid, tier, seed, families, trusted_extra=(), rule="", assumptions=(), extra=None, describe=describe_default):
    rep = verif.Report(pid, tier, seed)
    rep.assumptions = list(assumptions)
    verif.build_gofacts_and_gen()          # T1: regenerate Gen/ from the current tree
    pr = verif.prove(pid)                  # PROVE: kernel re-checks theorems against it
    rep.absorb_prove(pr)
    if families:
        mh, out = verif.build_harness()
        if mh is None:
            rep.violation("build", "harness does not build against the current tree", {"log": out[-3000:]}, False)
        elif not os.path.exists(os.path.join(verif.LEAN, ".lake", "build", "bin", "mdriver")):
            rep.violation("build", "mdriver did not build", {"log": pr["log"][-3000:]}, False)
        else:
            tally = verif.run_tie(pid, families, tier, seed, mh)
            rep.absorb_tie(tally, describe)
    if extra:
        extra(rep, tier, seed)
    return rep.finish(level="proof", trusted_base=BASE_TRUSTED + list(trusted_extra), rule=rule)


def standard_replay(pid, path):
    """Re-run the recorded failing case through the real code and the model."""
    r = json.load(open(path))
    case = r["primary"]["detail"].get("case")
    print(json.dumps(r["primary"], indent=1)[:3000])
    if not case:
        print("no concrete input recorded (see 'what'); re-run ./bin/check", pid)
        return 1
    verif.build_gofacts_and_gen()
    verif.lake_build(["mdriver"])
    mh, out = verif.build_harness()
    line = case.split(" | ")[0]
    p1 = subprocess.run([mh, "eval"], input=line + "\n", capture_output=True, text=True, env=verif.GOENV)
    print("implementation now:", p1.stdout.strip() or p1.stderr[-500:])
    p2 = subprocess.run([os.path.join(verif.LEAN, ".lake/build/bin/mdriver")], input=p1.stdout, capture_output=True, text=True)
    print("model/spec verdict:", p2.stdout.strip())
    return 0 if p2.stdout.strip() == "OK" else 1
