"""C14: DSL programs. PROVE (laws of the reference interpreter's building blocks + grammar precedence regenerated
from mlr.bnf) + T2 (generated programs: real `mlr` vs the Lean reference interpreter, byte-equal stdout) +
T3 (the reference documentation's own worked examples replayed against the current build)."""
import os, re, subprocess
import common, verif, t3util, docexamples

PID = "C14"
NUM = re.compile(r"^-?\d+(\.\d+)?(e[-+]?\d+)?$", re.I)


def same_modulo_float_noise(a, b):
    """Token-wise equality where two floating-point renderings may differ in the last digits (the documents
    were generated on another architecture: fused multiply-add changes the round-off of sums of products)."""
    ta, tb = a.split(), b.split()
    if len(ta) != len(tb):
        return False
    for x, y in zip(ta, tb):
        if x == y:
            continue
        if NUM.match(x) and NUM.match(y) and ("." in x + y or "e" in (x + y).lower()):
            fx, fy = float(x), float(y)
            if abs(fx - fy) <= 1e-9 * max(1.0, abs(fx), abs(fy)) or (abs(fx) < 1e-12 and abs(fy) < 1e-12):
                continue
        return False
    return True


def t3(rep, tier, seed):
    mlr, _ = t3util.binaries(rep)
    if not mlr:
        return
    binDir = os.path.join(verif.BUILD, "docbin")
    os.makedirs(binDir, exist_ok=True)
    link = os.path.join(binDir, "mlr")
    if os.path.islink(link) or os.path.exists(link):
        os.remove(link)
    os.symlink(mlr, link)
    env = dict(os.environ)
    env["PATH"] = binDir + ":" + env["PATH"]
    env["MLRRC"] = "__none__"
    n = ok = skipped = 0
    for e in docexamples.examples():
        c = e["cmd"]
        if not c.startswith("mlr") or docexamples.UNSTABLE.search(c) or not re.search(r"\b(put|filter)\b", c):
            skipped += 1
            continue
        n += 1
        try:
            p = subprocess.run(["bash", "-c", c], cwd=docexamples.DOCS, env=env, capture_output=True, timeout=30)
            got = (p.stdout + p.stderr).decode(errors="replace")
        except subprocess.TimeoutExpired:
            got = "TIMEOUT"
        if got == e["want"] or same_modulo_float_noise(got, e["want"]):
            ok += 1
        else:
            rep.violation("spec", "a worked example of the reference documentation no longer prints what the document shows",
                          {"page": e["page"], "command": c, "documented": e["want"][:1500], "observed": got[:1500]}, True)
    rep.coverage.setdefault("t3", {}).update({"documentation_examples_run": n, "reproduced": ok, "skipped_non_dsl_or_unstable": skipped})
    rep.coverage["evaluations"] = rep.coverage.get("evaluations", 0) + n
    rep.coverage["distinct_nontrivial"] = rep.coverage.get("distinct_nontrivial", 0) + n


def check(tier, seed):
    os.environ["MLRRC"] = "__none__"
    mlr, log = verif.build_mlr()          # the `dsl` op runs build/mlr, built from the current tree
    if not mlr:
        rep = verif.Report(PID, tier, seed)
        rep.violation("build", "mlr does not build from the current tree", {"log": (log or "")[-3000:]}, False)
        return rep.finish(trusted_base=[], rule="")
    os.environ["MLR_BIN"] = mlr
    return common.standard_check(
        PID, tier, seed, families=["c14"],
        trusted_extra=[
            "the reference interpreter (Model/DSL.lean, ~1600 lines) is written from the language reference; where the reference is silent or inconsistent it follows the implementation and says so in a comment (emit of map literals and @*/$* by entry; emit with fewer names than levels - the worked example `emit @*,\"a\",\"b\"`; Mlrmap.IsNested looking at the first entry only; void keys accepted at the last index only; an absent inside an array cannot be written). It is tied to the code by the correspondence only",
            "the parser of the covered grammar (Driver/C14Parse.lean) is unverified; it takes its binary levels from the documented precedence table, which a theorem equates with the levels regenerated from mlr.bnf",
            "NOT modelled (reported as outside the model, counted in the evidence): floating-point text, regex operators and captures, lashed emit, emittables with indices, redirected output (tee, print >), ENV, string slices, positional-name unset, higher-order functions on some argument shapes, most built-in functions (only typeof/is_*/length/depth/haskey/mapsum/mapdiff/append/get_keys/get_values/strlen/toupper/abs/min/max), sort on maps, any program the parser rejects. A program that exhausts the interpreter's fuel is also outside the model",
            "T2 runs the real binary built from the working tree (one process per program, JSON-lines in and out); exit status 0 + byte-equal stdout, or non-zero exit on both sides; a Go panic trace or a 20 s timeout is reported as such",
        ],
        rule="T2: 93 hand-written programs (every documented scoping/typing/emit example shape and every defect found) + 4000 (thorough: 40000) generated programs per seed: 0-3 user functions (typed/untyped parameters and returns, recursion on the first argument) and an optional subroutine, optional begin/end blocks, 1-5 main statements from 20 statement forms (assignments to fields/positional names/$*/oosvars/locals incl. indexed and operator-assignment, typed and untyped declarations over a pool of 7 names, unset, if/elif/else, while, do-while, the four for forms, break/continue/return, pattern-action, print/printn/dump/emit1/emitf/emit/emitp with 0-2 names, filter, subroutine calls, function literals in locals), expressions of depth <= 3 over 5 kinds with 1/14 deliberately ill-kinded, over 0-4 JSON records with missing, empty and nested fields; modes put, put -q, filter, filter -x. T3: every put/filter example of 36 documentation pages whose output is deterministic",
        extra=t3,
    )


def replay(path):
    os.environ["MLRRC"] = "__none__"
    verif.build_mlr()
    return common.standard_replay(PID, path)
