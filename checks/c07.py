import common

PID = "C07"


def check(tier, seed):
    return common.standard_check(
        PID, tier, seed, families=["c07"],
        trusted_extra=[
            "soft-float Base/F64 (IEEE-754 binary64 add/sub/mul/div/floor/ceil/min/max/int conversion on exact rationals), compared bit-for-bit with Go's hardware doubles on every run (ops f64, f2i and every mixed/float bin7 case)",
            "math.Pow (libm) is a parameter of the model of **: only the int/float decision around it is modelled",
        ],
        rule="full cross product of an int64 boundary grid (0, +-1, +-2^k, 2^k+-1, +-(2^63-1), -2^63, 2^53+-1, products straddling 2^63 ...) with itself for 18 binary operator tables, shifts with counts 0..128/negative/extreme, int x float and float x float grids (incl. NaN, +-Inf, +-0, subnormals, random bit patterns), seeded random int64 pairs with products within +-2 of 2^63, unary minus/plus/not, abs/ceil/floor/round/sgn on ints, madd/msub/mmul/mexp over grid x moduli (0, 1, small, 2^32+15, 2^62, 2^63-1, negative), int ** int for 21 bases x exponents -3..70; distinct = distinct protocol lines",
        assumptions=["amd64 semantics for float64->int64 conversion of out-of-range values (MinInt64)"],
    )


def replay(path):
    return common.standard_replay(PID, path)
