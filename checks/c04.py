"""C04: batching/scheduling independence and termination. PROVE (batching theorems over the machine
model) + T2 (in-process real pipeline under batch sizes, vs the model) + T3 (real binary under seeded
scheduling perturbation, GOMAXPROCS, timeouts, early exit, tail -f contract)."""
import os, random, select, shutil, subprocess, time
import common, verif, t3util

PID = "C04"


def t3(rep, tier, seed):
    mlr, mlrv = t3util.binaries(rep)
    if not mlr:
        return
    rng = random.Random(seed)
    base = t3util.scratch("c04")
    counts = {"variants": 0, "early_exit": 0, "failing": 0, "seeded_random": 0, "tail_f_lines": 0}
    try:
        def csv(n, off=0):
            return "a,b,c\n" + "".join(f"{rng.choice(['pan','eks','wye'])},{i+off},{(i*37)%11}\n" for i in range(n))
        files = {}
        for name, n in [("e0", 0), ("s1", 1), ("m3", 3), ("b499", 499), ("b500", 500), ("b501", 501), ("big", 1700)]:
            fn = os.path.join(base, name + ".csv")
            open(fn, "w").write(csv(n))
            files[name] = fn
        chains = [
            ["cat"], ["tac"], ["sort", "-nr", "b"], ["head", "-n", "2"], ["head", "-n", "2", "then", "head", "-n", "1"],
            ["tee", os.path.join(base, "tee.out"), "then", "head", "-n", "1"], ["count-distinct", "-f", "a"],
            ["put", "-q", "print \"L\".NR; emit $*"], ["put", "$d = $b . \":\" . NR; if (NR % 400 == 0) {print \"mark \" . NR}"],
            ["stats1", "-a", "sum,count,p50", "-f", "b", "-g", "a"], ["head", "-n", "1", "-g", "a", "then", "put", "end{emit {\"n\": NR}}"],
            ["cat", "-n", "then", "filter", "$n % 3 == 0", "then", "tac"], ["nothing"], ["step", "-a", "delta", "-f", "b"],
        ]
        if tier == "quick":
            chains = chains[:9]
        inputs = [[files["e0"]], [files["m3"]], [files["b500"]], [files["b501"], files["e0"], files["s1"]], [files["big"]]]
        if tier == "quick":
            inputs = [[files["m3"]], [files["b501"], files["e0"], files["s1"]], [files["big"]]]
        nseeds = 2 if tier == "quick" else 8
        for chain in chains:
            for inp in inputs:
                argv0 = ["--icsv", "--ojson"] + chain + inp
                ref = t3util.run(mlr, argv0)
                variants = []
                for b in ["1", "2", "499", "500", "501", "100000"]:
                    variants.append((mlr, ["--records-per-batch", b], {}))
                variants.append((mlr, ["--nr-progress-mod", "100"], {}))
                variants.append((mlr, ["--no-hash-records"], {}))
                variants.append((mlr, ["--hash-records"], {}))
                for procs in ["1", "2", "16"]:
                    variants.append((mlr, ["--records-per-batch", "3"], {"GOMAXPROCS": procs}))
                for k in range(nseeds):
                    variants.append((mlrv, ["--records-per-batch", rng.choice(["1", "2", "7", "500"])],
                                     {"MLR_VERIF_PERTURB": str(seed * 1000 + k), "GOMAXPROCS": rng.choice(["1", "2", "4", "16"])}))
                if tier == "quick":
                    variants = variants[:4] + variants[6:7] + variants[9:]
                for binary, flags, env in variants:
                    got = t3util.run(binary, flags + argv0, env=env, timeout=40)
                    counts["variants"] += 1
                    if got[0] == "timeout" or got[0] != ref[0] or got[1] != ref[1]:
                        rep.violation("spec", "stdout or exit status changed with batch size / scheduling (or the run did not terminate)",
                                      {"argv": ["mlr"] + flags + argv0, "env": env, "binary": os.path.basename(binary), "exit": got[0], "reference_exit": ref[0],
                                       "stdout_head": got[1][:300].decode(errors="replace"), "reference_stdout_head": ref[1][:300].decode(errors="replace"),
                                       "first_difference_at": next((i for i, (x, y) in enumerate(zip(got[1], ref[1])) if x != y), min(len(got[1]), len(ref[1])))}, True)
        # the key index of wide records (built from 12 fields on) vs none: verbs that insert, rename or move fields
        # in the middle of a record, followed by a stage that finds fields BY NAME
        wide = os.path.join(base, "wide.csv")
        hdr = ["k%d" % i for i in range(1, 15)]
        with open(wide, "w") as f:
            f.write(",".join(hdr) + "\n")
            for r in range(1, 8):
                f.write(",".join(("p;q;r" if i == 4 else ["p:1;bare;r:3", "q:0;bare", "s:5"][r % 3] if i == 6 else "%d" % (r * 100 + i)) for i in range(1, 15)) + "\n")
        lookups = ["put", "$z = $k4_2 . \"!\" . $k9 . $new . $k1 . $k14 . $k4_1 . \"!\" . " + " . ".join("$k%d" % i for i in range(1, 15))]
        movers = [
            ["nest", "--explode", "--values", "--across-fields", "--nested-fs", ";", "-f", "k4"],
            ["nest", "--explode", "--values", "--across-records", "--nested-fs", ";", "-f", "k4"],
            ["nest", "--explode", "--pairs", "--across-fields", "--nested-fs", ";", "--nested-ps", ":", "-f", "k6"],
            ["rename", "k9,new"], ["rename", "-r", "^k1(.)$,new\\1"], ["reorder", "-f", "k9"], ["reorder", "-e", "-f", "k2"],
            ["put", "$[[3]] = \"new\""], ["put", "$[[3]] = \"k9\""], ["put", "$[[12]] = \"k1\"; $k1 = 7"], ["put", "$* = mapsum({\"new\": 0}, $*); $[[1]] = \"k9\""], ["put", "$[[[3]]] = \"v\"; unset $k5; $k5 = 1"], ["put", "$* = mapexcept($*, \"k6\"); $new = 5"],
            ["cut", "-o", "-f", "k9,k4,k1,k14"], ["cut", "-x", "-f", "k2"], ["sort-within-records"], ["sort-within-records", "-r"],
            ["sec2gmt", "k9"], ["fill-down", "-f", "k9"], ["unsparsify", "--fill-with", "X", "-f", "new"], ["template", "-f", "k14,new,k4,k1,k9"],
            ["sub", "-f", "k9", "0", "o"], ["split-join" if False else "cat", "-n"], ["label", "new"], ["regularize"], ["altkv" if False else "cat"],
        ]
        for mv in movers:
            for second in [lookups, ["cut", "-x", "-f", "k2,k9"], ["cut", "-o", "-f", "k14,k2,k1"], ["cut", "-o", "-f", "k9,new,k4_2,k1"], ["cut", "-o", "-f", "k6,p,r,k1"], ["put", "$z = $k6 . $p . $r . $k4"], ["sort", "-f", "k9", "-nr", "k1"], ["count-distinct", "-f", "k9,new"], ["head", "-n", "2", "-g", "k4_1"]]:
                argv0 = ["--icsv", "--ojson"] + mv + ["then"] + second + [wide]
                ref = t3util.run(mlr, ["--no-hash-records"] + argv0)
                for flags in [["--hash-records"], [], ["--hash-records", "--records-per-batch", "1"]]:
                    got = t3util.run(mlr, flags + argv0, timeout=40)
                    counts["variants"] += 1
                    if got[0] != ref[0] or got[1] != ref[1]:
                        rep.violation("spec", "stdout or exit status depends on --hash-records / --no-hash-records",
                                      {"argv": ["mlr"] + flags + argv0, "exit": got[0], "reference_exit": ref[0],
                                       "stdout_head": got[1][:400].decode(errors="replace"), "reference_stdout_head": ref[1][:400].decode(errors="replace")}, True)
        # early exit must terminate promptly, whatever the upstream
        for argv in [["seqgen", "--stop", "1000000000", "then", "head", "-n", "3"], ["seqgen", "--stop", "1000000000", "then", "head", "-n", "2", "then", "head", "-n", "1"],
                     ["seqgen", "--stop", "1000000000", "then", "put", "$y = $i * 2", "then", "head", "-n", "4", "then", "tac"]]:
            for binary, env in [(mlr, {}), (mlrv, {"MLR_VERIF_PERTURB": str(seed)}), (mlr, {"GOMAXPROCS": "1"})]:
                t0 = time.time()
                got = t3util.run(binary, ["-n"] + argv if False else argv, env=env, timeout=60)
                counts["early_exit"] += 1
                if got[0] != 0 or time.time() - t0 > 50:
                    rep.violation("spec", "a chain with an early-exit verb did not terminate promptly with status 0",
                                  {"argv": ["mlr"] + argv, "env": env, "exit": got[0], "seconds": round(time.time() - t0, 1), "stdout": got[1][:200].decode(errors="replace")}, True)
        # a run that fails under one setting fails under all
        bad = os.path.join(base, "bad.csv")
        open(bad, "w").write(csv(600) + "1,2,3,4,5\n" + csv(3)[6:])
        for chain in [["cat"], ["head", "-n", "700"], ["tac"]]:
            outcomes = []
            for flags, env, binary in [([], {}, mlr), (["--records-per-batch", "1"], {}, mlr), (["--records-per-batch", "7"], {"GOMAXPROCS": "1"}, mlr),
                                       (["--records-per-batch", "2"], {"MLR_VERIF_PERTURB": str(seed + 1)}, mlrv), (["--records-per-batch", "601"], {"MLR_VERIF_PERTURB": str(seed + 2)}, mlrv)]:
                got = t3util.run(binary, flags + ["--icsv", "--ojson"] + chain + [bad], env=env)
                counts["failing"] += 1
                outcomes.append((flags, env, got[0]))
            if len(set(o[2] != 0 for o in outcomes)) != 1 or any(o[2] == "timeout" for o in outcomes):
                rep.violation("spec", "a run that fails under one batch size / schedule does not fail under all", {"chain": chain, "outcomes": outcomes}, True)
        # randomised verbs and functions are reproducible under --seed
        for chain in [["shuffle"], ["bootstrap"], ["sample", "-k", "5"], ["put", "$r = urandint(1, 1000)"], ["decimate", "-n", "2"]]:
            a = t3util.run(mlr, ["--seed", "987", "--icsv", "--ojson"] + chain + [files["b501"]])
            b = t3util.run(mlrv, ["--seed", "987", "--records-per-batch", "3", "--icsv", "--ojson"] + chain + [files["b501"]], env={"MLR_VERIF_PERTURB": str(seed)})
            counts["seeded_random"] += 1
            if a[0] != 0 or a[:2] != b[:2]:
                rep.violation("spec", "a randomised verb/function is not reproducible under --seed across batch sizes / schedules", {"chain": chain, "exit": [a[0], b[0]]}, True)
        # tail -f contract: with --records-per-batch 1 --fflush each input line's output is readable before the next line is written
        # (the last three chains write TEXT only - print, dump, emit - and no record of their own)
        for chain in [["cat"], ["put", "$z = $x . \"!\""], ["filter", "true", "then", "cat", "-n"],
                      ["put", "-q", 'print "{\\"x\\": " . $x . "}"'], ["put", "-q", "dump $*"], ["put", "-q", "emit mapsum($*, {\"y\": 1})"]]:
            p = subprocess.Popen([mlr, "--norc", "--records-per-batch", "1", "--fflush", "--idkvp", "--ojson"] + chain,
                                 stdin=subprocess.PIPE, stdout=subprocess.PIPE, stderr=subprocess.PIPE)
            ok = True
            try:
                for i in range(6):
                    p.stdin.write(f"x={i}\n".encode())
                    p.stdin.flush()
                    buf = b""
                    t0 = time.time()
                    while b"}" not in buf and time.time() - t0 < 10:
                        r, _, _ = select.select([p.stdout], [], [], 0.5)
                        if r:
                            buf += os.read(p.stdout.fileno(), 65536)
                    counts["tail_f_lines"] += 1
                    if f'"x": {i}'.encode() not in buf:
                        ok = False
                        break
            finally:
                p.stdin.close()
                try:
                    p.wait(timeout=20)
                except Exception:
                    p.kill()
                    ok = False
            if not ok:
                rep.violation("spec", "with --records-per-batch 1 --fflush the output for an input record was not written while the input was still open",
                              {"argv": ["mlr", "--records-per-batch", "1", "--fflush", "--idkvp", "--ojson"] + chain, "stdin": "one line at a time, pipe held open"}, True)
    finally:
        shutil.rmtree(base, ignore_errors=True)
    rep.coverage.setdefault("t3", {}).update(counts)
    tot = sum(counts.values())
    rep.coverage["evaluations"] = rep.coverage.get("evaluations", 0) + tot
    rep.coverage["distinct_nontrivial"] = rep.coverage.get("distinct_nontrivial", 0) + tot


def check(tier, seed):
    return common.standard_check(
        PID, tier, seed, families=["c04"],
        trusted_extra=[
            "modelled: each verb as a state machine fed batch after batch (runSingleTransformerBatch), chains as stage composition. NOT modelled and only exercised: goroutine scheduling, channel capacities, the done-signal relay (HandleDefaultDownstreamDone), termination of the goroutine network, writer flushing - Lean cannot exhibit them; they are the T3 runs below",
            "T2: the real Stream (reader, chain and writer goroutines) in-process under 5 batch sizes x both hashing modes, compared with the model's chainRun where the chain is modelled (harness/c04.go)",
            "T3: the real binary, plain and -tags verif with MLR_VERIF_PERTURB seeds (yield/sleep at the lib.VerifPoint hand-over points, commit b0e5a132a), GOMAXPROCS 1/2/4/16, wall-clock timeouts; a schedule that the perturbation does not reach is not explored",
        ],
        rule="T2: seeded streams (0-40 records) x 43 chains (streaming, non-streaming, early-exit, head after head, tee before head, seqgen then head, emit/print mixing, seeded random verbs) x batch sizes 1,2,3,7,500 x hashing on/off. T3: 9-14 chains x 3-5 input sets (0..1700 records, several files incl. empty) x batch sizes 1,2,499,500,501,100000, --nr-progress-mod, hashing, GOMAXPROCS, 2-8 perturbation seeds; 3 early-exit chains over a 10^9-record generator; failing input under 5 settings; 5 seeded-random chains; tail -f contract on 6 streaming chains (3 of them text-only: print, dump, emit under put -q) x 6 lines",
        extra=t3,
    )


def replay(path):
    return common.standard_replay(PID, path)
