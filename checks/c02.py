import common

PID = "C02"


def check(tier, seed):
    return common.standard_check(
        PID, tier, seed, families=["c02"],
        trusted_extra=[
            "modelled: Flatten / CopyUnflattened / unflattenTerminal / Arrayify on records given as leaf lists in tree order (single-byte separator). NOT modelled: the readers and writers of each format (C01), the decision when flatten/unflatten is appended to the chain (DecideFinalFlatten/Unflatten), the flag-table closures, .mlrrc handling - the flag equivalences and the conversion laws are evaluated on the implementation (real option parser and real pipeline, in-process)",
            "flag equivalence = identical parsed reader/writer option structures, or else identical bytes produced by `cat` on a two-record sample written with the expansion's own input settings; the expansions are the documented ones (X2Y = --iX --oY, X2b = --iX --opprint --barred-output, -i/-o/--io NAME, --fs/--ps/--rs, every named separator)",
        ],
        rule="flags: all 99 X2Y keystroke savers, the X2b forms, -i/-o/--io/--FORMAT for 10 formats, 20 further alias pairs, 27 named separators x 8 separator flags, 2 negative controls; flatten: 400-12000 seeded nested records (depth up to 4; maps, arrays, empty maps/arrays; keys incl. multi-byte, blanks, digits 1..n (the lossy corner), empty, separator-bearing; scalars incl. the sentinel texts {} and []; separators . : _ /); conversions: 60-1500 record sets x random (A,B,C) from 12 formats",
    )


def replay(path):
    return common.standard_replay(PID, path)
