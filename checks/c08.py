import json, subprocess
import common, verif

PID = "C08"

ABSENT_PROGRAM = r'''
  $new = $nosuch;
  $a = $nosuch;
  $[[1]] = $nosuch;
  $[[[2]]] = $nosuch;
  @o = $nosuch;
  @m[1][2] = $nosuch;
  var l = 7;
  l = $nosuch;
  map mm = {};
  mm[1] = $nosuch;
  mm["x"]["y"] = @nosuch;
  $*["zz"] = $nosuch;
  @sum += $nosuch;
  @cnt[$nosuch] = 1;
  @two[$a][$nosuch] = 1;
  @two[$a][$nosuch] += $b;
  @three[$a][$b][$nosuch] = 1;
  @three[$a][$nosuch][$b] = 1;
  mm[$a][$nosuch] = $b;
  $q[$a][$nosuch] = 1;
  $*["r"][$nosuch] = 1;
  @acc[$a] += $x;
  print json_stringify({"rec": $*, "oos": @*, "l": l, "mm": mm});
'''


def t3_assign_absent(rep, tier, seed):
    """T3: assigning absent to every lvalue kind, or assigning under an absent index at any level, creates no key and changes nothing."""
    mlr, out = verif.build_mlr()
    if mlr is None:
        rep.violation("build", "mlr does not build from the current tree", {"log": out[-2000:]}, False)
        return
    inp = "a=1,b=2\na=3,b=4,x=10\na=1,b=5,x=5\n"
    p = subprocess.run([mlr, "put", "-q", ABSENT_PROGRAM], input=inp, capture_output=True, text=True, timeout=60)
    want = [
        {"rec": {"a": 1, "b": 2}, "oos": {}, "l": 7, "mm": {}},
        {"rec": {"a": 3, "b": 4, "x": 10}, "oos": {"acc": {"3": 10}}, "l": 7, "mm": {}},
        {"rec": {"a": 1, "b": 5, "x": 5}, "oos": {"acc": {"3": 10, "1": 5}}, "l": 7, "mm": {}},
    ]
    got = None
    try:
        got = [json.loads(l) for l in p.stdout.splitlines() if l.strip()]
    except Exception:
        pass
    rep.coverage["evaluations"] = rep.coverage.get("evaluations", 0) + 3
    rep.coverage.setdefault("t3", {})["assign_absent_program_records"] = 3
    rep.coverage["samples"].append({"t3_program": ABSENT_PROGRAM.strip().splitlines()[:4], "stdout": p.stdout[:200]})
    if p.returncode != 0 or got != want:
        rep.violation("spec", "assignment of an absent right-hand side, or under an absent index at any level, is not skipped for some lvalue kind (or @acc[$a] += $x does not ignore records lacking x)",
                      {"argv": ["mlr", "put", "-q", ABSENT_PROGRAM], "stdin": inp, "wanted": want, "observed": p.stdout[:2000], "stderr": p.stderr[:500], "exit": p.returncode}, True)


def check(tier, seed):
    return common.standard_check(
        PID, tier, seed, families=["c08"],
        trusted_extra=["the regenerated LR parser (pgpg) and the mlr binary for the T3 assignment program"],
        rule="every exported BIF that dispatches through a 12x12 table (29 tables) x 17x17 representative operand values covering all 12 kinds (two ints, zero, two floats, both booleans, empty, two strings, bytes, array, map, function, error, JSON null, absent); commutative operators additionally evaluated in both orders; 11 unary vectors x 17 values; one DSL program assigning absent to every lvalue kind, and assigning under an absent index at the first, middle and last level of oosvar/local/field lvalues, on 3 records; distinct = distinct protocol lines",
        extra=t3_assign_absent,
    )


def replay(path):
    return common.standard_replay(PID, path)
