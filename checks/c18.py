"""C18: no panic, no hang. PROVE (table-wide no-panic theorems over regenerated tables) + T2 (every
built-in function x argument-kind tuples through the real DSL; mutated documents through every real
reader; token-mutated DSL programs) + T3 (the real binary on a sample, for crash traces and timeouts)."""
import os, random, shutil
import common, verif, t3util

PID = "C18"


def t3(rep, tier, seed):
    mlr, mlrv = t3util.binaries(rep)
    if not mlr:
        return
    rng = random.Random(seed)
    base = t3util.scratch("c18")
    n = 0
    try:
        docs = {
            "--icsv": b'a,b\n1,"x\n', "--ijson": b'{"a":[1,{"b":', "--itsv": b"a\tb\n1\n", "--ixtab": b"a\n\n\nb 1", "--ipprint": b"+--+\n| a\n",
            "--imarkdown": b"| a |\n|", "--inidx": b"\x00\xff \xfe", "--idkvp": b"=,=,,==\n", "--iyaml": b"- a: [1, {b: \n  - ", "--iusv": b"\xe2\x90",
        }
        extras = [[], ["--records-per-batch", "1"], ["--allow-ragged-csv-input"], ["--ifs", ";", "--ips", ":"]]
        outs = ["--ojson", "--ocsv", "--opprint", "--oxtab", "--omd"]
        if tier == "quick":
            extras, outs = extras[:2], outs[:3]
        for flag, doc in docs.items():
            for extra in extras:
                for out in outs:
                    for data in [doc, doc * 50, b"", b"\n" * 3, doc[: len(doc) // 2] + bytes(rng.randrange(256) for _ in range(64))]:
                        rc, so, se = t3util.run(mlr, [flag, out] + extra + ["cat"], stdin=data, timeout=30)
                        n += 1
                        if rc == "timeout" or t3util.crashed(se) or (isinstance(rc, int) and rc not in (0, 1)):
                            rep.violation("spec", "the real binary crashed or hung on malformed input",
                                          {"argv": ["mlr", flag, out] + extra + ["cat"], "stdin_hex": data[:200].hex(), "exit": rc, "stderr": se.decode(errors="replace")[:400]}, True)
        progs = ['$y = strptime($x, $x)', '$y = format_values($x)', '$y = splitax($x, "")', '$y = substr($x, -5, 900)', '$y = $x[1:2][3]', '$*[1][2] = 3', 'unset $*["a"][1]',
                 '$y = fmtnum($x, "%08.3lf%d")', '$y = sub($x, "(", "\\1")', '$y = 1 // 0 . 1 % 0', '$y = msub(5, 6, 0)', '$y = 7 >>> -1', '$y = sec2gmt(1e300)', '$y = strftime(1e18, "%Y")',
                 '$y = percentile([], 50)', '$y = percentiles([1,"a",{}], ["x"])', '$y = sort_by_key(1)', '$y = json_parse("{")', '$y = unformat("{}", 5)', '$y = latin1_to_utf8("\\xff")',
                 '$y = strfntime(-9223372036854775807, "%N")', '$y = dhms2sec("xyz")', '$y = sec2dhms(-9223372036854775807 - 1)', '$y = index("", "")', '$y = leafcount($*)',
                 '$y = strptime("1970-01-01T00:00:00Z", "%Y-%m-%dT%H:%M:%SZ%")', '$y = gssub($x, "", "x")', '$y = format("{}:{}", 1)', '$y = strfntime_local(1, "%A", "nosuch/zone")']
        for p in progs:
            rc, so, se = t3util.run(mlr, ["--icsv", "--ojson", "put", p], stdin=b"x\nabc\n\n-1\n%d\n", timeout=30)
            n += 1
            if rc == "timeout" or t3util.crashed(se) or (isinstance(rc, int) and rc not in (0, 1)):
                rep.violation("spec", "the real binary crashed or hung on a DSL program", {"argv": ["mlr", "--icsv", "--ojson", "put", p], "exit": rc, "stderr": se.decode(errors="replace")[:400]}, True)
    finally:
        shutil.rmtree(base, ignore_errors=True)
    rep.coverage.setdefault("t3", {})["real_binary_runs"] = n
    rep.coverage["evaluations"] = rep.coverage.get("evaluations", 0) + n
    rep.coverage["distinct_nontrivial"] = rep.coverage.get("distinct_nontrivial", 0) + n


def check(tier, seed):
    return common.standard_check(
        PID, tier, seed, families=["c18fn", "c18rd", "c18dsl"],
        trusted_extra=[
            "proved over the model only: the operator tables (regenerated) and kernels (hand models tied by the C07/C08 correspondences), type inference (C06). The functions, readers and parser are NOT modelled for this property: they are swept on the real code in-process (recover() turns a Go panic into the result 'panic'; a 20 s timer into 'hang'; a clean os.Exit inside Miller counts as a reported error) - a crash that is a fatal runtime error rather than a panic (stack exhaustion, concurrent map write) kills the harness and is reported as 'crash'",
            "argument kinds are given as DSL expressions (int, float, boolean, empty, string, array, map, error, JSON null, absent, two function literals, boundary numbers, format strings, broken regexes, time formats, non-UTF-8 text, nested collections); shell-out and environment functions (system, exec, os_type, hostname, version) are excluded",
        ],
        rule="every built-in function (names starting with a letter) x its arities 0-3: all 38 argument expressions at arity 1; at arity 2 every pair involving a core kind plus 1/6 (thorough: all) of the rest; at arity 3 every triple of the 12 core kinds (quick: a third) plus samples. Readers: 13 formats x 1-4 valid documents x 19 option sets, unmutated, empty, and 40-700 byte-level mutations each (truncate, delete, insert/replace specials, bit flips, duplicated spans, 3-6 kB fields). DSL: 35 valid programs x 30-500 token-level mutations over 3 records, plus deep nesting, unbounded recursion and very long programs. T3: real-binary runs on truncated/garbled documents and crash-prone programs",
        extra=t3,
    )


def replay(path):
    return common.standard_replay(PID, path)
