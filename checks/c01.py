import common

PID = "C01"


def check(tier, seed):
    return common.standard_check(
        PID, tier, seed, families=["c01"],
        trusted_extra=[
            "Go encoding/csv and encoding/json as the independent RFC-4180 / RFC-8259 readers (cross-check inside op rt); a 20-line RFC-4180 writer with arbitrary needless quoting in the harness (op style)",
            "modelled: TSV codec/reader/writer, CSV writer + forked encoding/csv reader state machine + header/ragged/implicit-header logic, DKVP reader/writer, DefaultLineReader. NOT modelled (round-trip spec predicate evaluated on the implementation only): JSON, JSON Lines, XTAB, PPRINT (plain, barred, right-aligned), NIDX, markdown, csvlite; YAML, DKVPX, DCF, recutils, gen are not covered",
        ],
        rule="per format/option variant (22 variants: CSV default/quote-all/CRLF/;-separated/TAB-separated/headerless+implicit header, TSV default/headerless, DKVP default/custom single-/multi-byte separators, JSON stacked/unstacked/JSONL, XTAB, PPRINT plain/barred/right, markdown, csvlite, NIDX) seeded record streams (1-4 fields, occasionally 12-17; 0-3 records; cells built from a 36-piece alphabet of separators, quotes, backslashes, CR/LF, multi-byte and control characters): written by the real writer, read back by the real reader, compared with the Lean model's bytes and records and with the round-trip requirement on the format's representable domain; CSV text in arbitrary legal quoting styles read by Miller; readers alone on hand-written and mutated (malformed) documents; distinct = distinct protocol lines",
        assumptions=["valid UTF-8 cells for TSV/JSON (Go ranges over runes there)"],
    )


def replay(path):
    return common.standard_replay(PID, path)
