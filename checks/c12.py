import common

PID = "C12"


def check(tier, seed):
    return common.standard_check(
        PID, tier, seed, families=["c12"],
        trusted_extra=[
            "modelled (string-list modes): cut -f/-o/-x, reorder -f/-e, rename (incl. the live-list walk with collisions), label, regularize, sort-within-records, unsparsify (both modes), sparsify, fill-empty, template, altkv. NOT modelled yet: nest, reshape, flatten/unflatten, json-stringify/json-parse, sec2gmt, case, unspace, sub/gsub/ssub, all regex modes",
        ],
        rule="seeded heterogeneous record streams (0-8 records, 0-4 fields from 5 names, occasionally 13-15 fields) x field lists (present, absent, overlapping, repeated, reversed) x 24 verb invocations per stream incl. rename chains with collisions (a,b,b,a / a,b,b,c / a,a) and multi-verb chains; distinct = distinct protocol lines",
    )


def replay(path):
    return common.standard_replay(PID, path)
