import common

PID = "C10"


def check(tier, seed):
    return common.standard_check(
        PID, tier, seed, families=["c10"],
        trusted_extra=[
            "modelled as the streaming algorithms of the Go verbs: count (-g -d -n -o), count-distinct (-f -n -u -o), uniq -g (-c -n), count-similar, fill-down (-f/--all, -a), stats1 (count, null_count, distinct_count, mode, antimode, sum, mean, min, max, minlen, maxlen, median, pNN non-interpolated; -f/-g name lists), merge-fields (-f/-r/-c, -k, same accumulators), step (delta, shift, shift_lag, rsum, counter). NOT modelled: var/meaneb/skewness/kurtosis, interpolated percentiles (-i), sliding windows, stats1 regex field selection, step ewma/ratio/shift_lead/slwin, top, fraction, histogram, most/least-frequent, the DSL statistics functions",
            "numbers go through the regenerated + / min max disposition tables and the hand models of their int/float kernels (shared with C07); float results are compared by value (bit pattern after parsing the printed text), percentile results by the numeric collation (Go's sort.Slice is unstable among collation-equal values such as 3 and 3.0)",
            "the real transformers are driven record by record through climain.ParseCommandLine + Transform, once with faithful and once with scrambled NR/FNR/FILENAME contexts (harness/verbs.go)",
        ],
        rule="seeded heterogeneous streams (0-14, occasionally up to 40 records; group keys with empties, comma-containing and number-like texts; value fields with ints, floats, hex, int64 max, empties, strings, ties; missing group and value fields) x ~35 verb invocations per stream: count family, uniq, count-similar, fill-down, stats1 with 1-4 random accumulators (repeated names included) over 5 group-by lists, merge-fields -f/-r/-c with and without -k over records with 0-6 collapsible columns, step; distinct = distinct protocol lines",
    )


def replay(path):
    return common.standard_replay(PID, path)
