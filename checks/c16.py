import common

PID = "C16"


def check(tier, seed):
    return common.standard_check(
        PID, tier, seed, families=["c16"],
        trusted_extra=[
            "modelled from first principles (leap rule, month lengths, counting days): sec2gmt (integer seconds, 0 decimals), sec2gmtdate, gmt2sec on the canonical 20-character text, sec2dhms, sec2hms, dhms2sec. NOT modelled (laws evaluated on the implementation only): strftime/strptime and their n/local variants, IANA zone rules and DST, fractional seconds and decimals, fsec2dhms/fsec2hms/dhms2fsec/hms2fsec, hms2sec, datediff, gmt2localtime/localtime2gmt, the sec2gmt/sec2gmtdate verbs, --tz/TZ selection",
            "the real functions are called in-process (pkg/bifs); the canonical texts fed to gmt2sec are produced by an independent Go day-counting routine in the harness, not by Miller",
        ],
        rule="instants: every offset in {0, +-1, +-2, +-59..61, +-3599..3601, +-86399..86401} around 23 anchors (the epoch, leap days of 1972/2000/2024/2400/0400, the non-leap centuries 1900/2100/0100, year ends, 0001-01-01, 9999-12-31T23:59:59, 2^31 boundaries) plus 3000-60000 seeded instants (uniform over years 1..9999, random year boundaries, +-2e9, anchor neighbourhoods) for sec2gmt and sec2gmtdate; gmt2sec on 21 hand-written valid/invalid texts and 1000-20000 independently rendered instants; sec2dhms/sec2hms on unit boundaries, int64 extremes and seeded magnitudes of both signs; dhms2sec/hms2sec on 32 well- and ill-formed texts; strptime(strftime) for 11 formats incl. %j, %s, %1S-%9S, 10 IANA zones; fractional d/h/m/s; sec2gmt decimals",
    )


def replay(path):
    return common.standard_replay(PID, path)
