import json
import common, t3util

PID = "C16"

ZONES = ["Asia/Tokyo", "America/Sao_Paulo", "Europe/London", "America/New_York", "Asia/Kolkata", "Australia/Lord_Howe"]
TEXTS = ["2000-01-01 00:00:00", "2023-07-04 12:34:56", "1999-12-31 23:59:59", "2024-02-29 06:00:00"]
INSTANTS = [0, 946684800, 1700000000, 1719792000, -86400]


def t3(rep, tier, seed):
    """--tz / TZ / ENV["TZ"] select the zone of the *_local functions (also when ENV["TZ"] changes within one
    run) and leave the GMT functions alone. Reference: the same functions given the zone as an explicit argument."""
    mlr, _ = t3util.binaries(rep)
    if not mlr:
        return
    n = 0
    def run(argv, env=None):
        rc, so, se = t3util.run(mlr, argv, env=env, timeout=30)
        return rc, so.decode(errors="replace"), se.decode(errors="replace")
    # reference values with explicit zones, one run
    ref = {}
    prog = "end{" + "".join(
        'print "%s|%s|" . localtime2sec("%s", "%s") . "|" . strptime_local("%s", "%%Y-%%m-%%d %%H:%%M:%%S", "%s");' % (z, t, t, z, t, z)
        for z in ZONES for t in TEXTS) + "".join(
        'print "%s|%d|" . sec2gmt(%d) . "|" . strftime_local(%d, "%%Y-%%m-%%d %%H:%%M:%%S %%Z", "%s") . "|" . sec2gmtdate(%d);' % (z, i, i, i, z, i)
        for z in ZONES for i in INSTANTS) + "}"
    rc, so, se = run(["-n", "put", prog])
    if rc != 0:
        rep.violation("spec", "time functions with explicit zones failed", {"exit": rc, "stderr": se[:300]}, True)
        return
    for l in so.splitlines():
        f = l.split("|")
        ref[(f[0], f[1])] = f[2:]
    def body(z):
        return "".join('print "%s|%s|" . localtime2sec("%s") . "|" . strptime_local("%s", "%%Y-%%m-%%d %%H:%%M:%%S");' % (z, t, t, t) for t in TEXTS) + \
               "".join('print "%s|%d|" . sec2gmt(%d) . "|" . strftime_local(%d, "%%Y-%%m-%%d %%H:%%M:%%S %%Z") . "|" . sec2gmtdate(%d);' % (z, i, i, i, i) for i in INSTANTS)
    def compare(how, out):
        nonlocal n
        for l in out.splitlines():
            f = l.split("|")
            n += 1
            if ref.get((f[0], f[1])) != f[2:]:
                rep.violation("spec", "the zone selected by %s is not the one the *_local functions use (or a GMT function moved)" % how,
                              {"selection": how, "zone": f[0], "argument": f[1], "observed": f[2:], "with_explicit_zone": ref.get((f[0], f[1]))}, True)
    for z in ZONES:
        rc, so, se = run(["--tz", z, "-n", "put", "end{" + body(z) + "}"]); compare("--tz", so)
        rc, so, se = run(["-n", "put", "end{" + body(z) + "}"], env={"TZ": z}); compare("the TZ environment variable", so)
        rc, so, se = run(["-n", "put", 'end{ENV["TZ"] = "%s";' % z + body(z) + "}"]); compare('ENV["TZ"]', so)
    # switching within one run: every ordered pair, then back
    for a in ZONES:
        for b in ZONES:
            if a == b:
                continue
            prog = 'end{ENV["TZ"] = "%s";%s ENV["TZ"] = "%s";%s ENV["TZ"] = "%s";%s}' % (a, body(a), b, body(b), a, body(a))
            rc, so, se = run(["-n", "put", prog]); compare('ENV["TZ"] reassigned within one run', so)
            rc, so, se = run(["--tz", a, "-n", "put", 'end{%s ENV["TZ"] = "%s";%s}' % (body(a), b, body(b))]); compare('--tz then ENV["TZ"]', so)
    rep.coverage.setdefault("t3", {})["zone_selection_results_compared"] = n
    rep.coverage["evaluations"] = rep.coverage.get("evaluations", 0) + n
    rep.coverage["distinct_nontrivial"] = rep.coverage.get("distinct_nontrivial", 0) + n


def check(tier, seed):
    return common.standard_check(
        PID, tier, seed, families=["c16"],
        trusted_extra=[
            "modelled from first principles (leap rule, month lengths, counting days): sec2gmt (integer seconds, 0 decimals), sec2gmtdate, gmt2sec on the canonical 20-character text, sec2dhms, sec2hms, dhms2sec. NOT modelled (laws evaluated on the implementation only): strftime/strptime and their n/local variants, IANA zone rules and DST, fractional seconds and decimals, fsec2dhms/fsec2hms/dhms2fsec/hms2fsec, hms2sec, datediff, gmt2localtime/localtime2gmt, the sec2gmt/sec2gmtdate verbs, --tz/TZ selection",
            "the real functions are called in-process (pkg/bifs); the canonical texts fed to gmt2sec are produced by an independent Go day-counting routine in the harness, not by Miller",
        ],
        rule="instants: every offset in {0, +-1, +-2, +-59..61, +-3599..3601, +-86399..86401} around 23 anchors (the epoch, leap days of 1972/2000/2024/2400/0400, the non-leap centuries 1900/2100/0100, year ends, 0001-01-01, 9999-12-31T23:59:59, 2^31 boundaries) plus 3000-60000 seeded instants (uniform over years 1..9999, random year boundaries, +-2e9, anchor neighbourhoods) for sec2gmt and sec2gmtdate; gmt2sec on 21 hand-written valid/invalid texts and 1000-20000 independently rendered instants; sec2dhms/sec2hms on unit boundaries, int64 extremes and seeded magnitudes of both signs; dhms2sec/hms2sec on 32 well- and ill-formed texts; strptime(strftime) for 11 formats incl. %j, %s, %1S-%9S, 10 IANA zones; fractional d/h/m/s; sec2gmt decimals",
        extra=t3,
    )


def replay(path):
    return common.standard_replay(PID, path)
