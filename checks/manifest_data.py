"""Per-property MANIFEST entries (bin/mkmanifest writes MANIFEST.json from this)."""
COMMON_NOTE = ("Trusted: Lean 4.33 kernel (axioms propext, Classical.choice, Quot.sound only; audited per theorem), "
               "the gofacts translator, the mharness/mdriver correspondence harness. The hand-written model is tied to the code "
               "only by the correspondence run; what is modelled vs. covered by correspondence only is listed in the evidence file and DESIGN.md. ")
CLAIMED = {
 "C12": dict(
   text="Lean 4 theorems for every record / record list over a model of the Mlrmap list surgery and the restructuring verbs: cut -f / cut -x -f are complementary order-preserving parts, rename a,a = id, rename a,b ; rename b,a = id for new b, rename leaves bystanders' values alone, unsparsify is rectangular over the first-seen union of names, sort-within-records permutes, fill-empty/sparsify touch only what they name. Models tied to the real transformers in-process (model = implementation on every explored stream).",
   note="nest, reshape, flatten/unflatten, json-stringify/json-parse, sec2gmt, case, unspace, sub/gsub/ssub and all regex modes are not modelled yet (covered by other properties' checks or not at all; see evidence).",
   technique="Lean 4 proof (list lemmas, induction) + in-process differential correspondence", design="§4 C12"),
 "C11": dict(
   text="Lean 4 theorems for every input list: each selecting verb, modelled as the state machine its Transform method implements, equals a stateless list specification (head = take / first k per group, tail -n +k, decimate, tac = reverse and tac;tac = id, group-by and group-like = first-appearance groups in input order), outputs are sublists / members of the input, |head k| + |tail +(k+1)| = number of keyed records, nothing = []. Machines tied to the real transformers in-process on seeded streams (model = implementation = spec on every case); filter/grep/sample/bootstrap/shuffle checked by partition / permutation / membership laws on the implementation.",
   note="head -n -k, tail -n k, uniq -a, cat -n -g, skip-trivial-records and having-fields have machines tied by correspondence but no theorem yet; filter/grep depend on the DSL/regexp and are not modelled here.",
   technique="Lean 4 proof (invariants over state machines by induction) + in-process differential correspondence", design="§4 C11"),
 "C01": dict(
   text="Lean 4 theorems for all byte strings / all record streams: TSV decode(encode s) = s and separator-freeness, TSV line round trip, CSV field, record and whole-stream round trip through a model of the forked encoding/csv reader state machine (any legal separator, with/without --quote-all, on an explicit representable-domain predicate), split/join law. Models tied to the real readers/writers in-process (identical bytes written, identical records read, on 22 format/option variants), Go encoding/csv + encoding/json as independent standard readers, arbitrary legal quoting styles read by Miller, mutated documents.",
   note="JSON, XTAB, PPRINT, NIDX, markdown, csvlite have no Lean model: their round trip is checked on the implementation only (spec predicate), YAML/DKVPX/DCF/recutils not covered. CSV stream theorem requires CR-free cells (CR not followed by LF is covered by correspondence only) and LF mode.",
   technique="Lean 4 proof (induction over byte lists / record lists) + in-process differential round trip", design="§4 C01"),
 "C06": dict(
   text="Lean 4 theorems over a model of pkg/scan + mlrval_infer.go (scanner = declarative grammar for all strings; inference = grammar classification for all strings outside three decidable overflow classes, each with a kernel-checked counterexample; no panic for all strings; -S/-A/JSON-string laws), with the digit tables, ScanType enum and inferrer tables regenerated from the source on every run and the hand-written inferrer bodies tied by exhaustive short-string + boundary correspondence against the real code.",
   note="Lean models of strconv.ParseInt/ParseFloat compared bit-for-bit with Go on every run. The JSON decoder / DSL literal wiring is covered only through the FromInferredType/FromString entry points.",
   technique="Lean 4 proof over regenerated tables + hand model tied by differential correspondence", design="§4 C06"),
 "C07": dict(
   text="Lean 4 theorems stated through the regenerated disposition tables: + - * exact-or-float, / exact quotient, // floor, % divisor sign, dot operators wrap, bit operators = BitVec 64, madd/msub/mmul/mexp = exact modular arithmetic (incl. the repeated-squaring loop invariant), mixed operands = IEEE op on converted operands, no panic on numeric operands, no kernel routed a wrong kind; for all int64 operands. Kernels hand-modelled and tied by a boundary-grid cross-product correspondence (544k cases) incl. a soft-float reference checked against hardware doubles.",
   note="math.Pow is a parameter (only the int/float decision of ** is modelled); float results compared by bit pattern on amd64.",
   technique="Lean 4 proof (omega/Int lemmas) over regenerated tables + differential correspondence", design="§4 C07"),
 "C08": dict(
   text="The operand-kind matrix is finite, so the theorems are `decide` over the whole regenerated table set (48 tables x 144 cells) read through regenerated body classifications: absent identity laws, empty rules, error absorption, commutativity of result kinds, kind-safety of every cell, guardedness of every Assign call site; full statement + counterexample for the absent-dividend finding. Cell semantics validated by evaluating every real table cell on representative values (T2) and by a DSL program assigning absent to every lvalue kind (T3).",
   note="is_* predicate classification and the per-lvalue Assign bodies are covered by correspondence/T3 only.",
   technique="Lean 4 `decide` over regenerated tables + fact extraction + correspondence", design="§4 C08"),
}
