"""C17: failures are never silent. PROVE (error-delivery protocol for every interleaving, from regenerated
facts) + T3 (real binary: fault kinds x positions x batch sizes x perturbation seeds)."""
import os, random, shutil
import common, verif, t3util

PID = "C17"


def t3(rep, tier, seed):
    mlr, mlrv = t3util.binaries(rep)
    if not mlr:
        return
    rng = random.Random(seed)
    base = t3util.scratch("c17")
    counts = {}
    known = {}
    try:
        def csv(n, bad_at=None, bad="1,2,3,4,5"):
            rows = [f"{i},{i*3}" for i in range(1, n + 1)]
            if bad_at is not None:
                rows[bad_at - 1] = bad
            return ("a,b\n" + "\n".join(rows) + "\n").encode()
        good = os.path.join(base, "good.csv")
        open(good, "wb").write(csv(1203))
        small = os.path.join(base, "small.csv")
        open(small, "wb").write(csv(3))
        bigf = os.path.join(base, "big.csv")
        with open(bigf, "w") as f:
            f.write("a,b\n")
            for i in range(60000):
                f.write(f"{i},{'x' * 40}\n")
        cases = []   # (kind, argv, stdin, stdout_path)
        # 1. missing / unreadable inputs, in each position of the file list
        missing = os.path.join(base, "nosuch.csv")
        adir = os.path.join(base, "adir")
        os.makedirs(adir)
        for files in [[missing], [good, missing], [missing, good], [small, good, missing], [adir], [good, adir]]:
            cases.append(("missing-or-unreadable-input", ["--icsv", "--ojson", "cat"] + files, None, None))
        # a read that fails (here: the path is a directory) in every reader, alone and after a good file of that format
        for fmt in ["csv", "csvlite", "tsv", "json", "jsonl", "dkvp", "nidx", "xtab", "pprint", "markdown", "usv", "asv", "yaml"]:
            cases.append(("unreadable-input-per-format", ["--i" + fmt, "--ojson", "cat", adir], None, None))
            cases.append(("unreadable-input-per-format", ["--i" + fmt, "--ojson", "head", "-n", "1", "then", "put", "$z = 1", adir], None, None))
        cases.append(("missing-or-unreadable-input", ["--icsv", "--ojson", "--from", missing, "cat"], None, None))
        cases.append(("missing-or-unreadable-input", ["--icsv", "--ojson", "join", "-j", "a", "-f", missing, good], None, None))
        cases.append(("failing-prepipe", ["--prepipe", "gunzip", "--icsv", "--ojson", "cat", good], None, None))
        cases.append(("failing-prepipe", ["--prepipe", "exit 3;", "--icsv", "--ojson", "cat", good], None, None))
        # 2. malformed input at first / batch-boundary / last record, per format
        for pos in [1, 2, 499, 500, 501, 502, 1000, 1001, 1203]:
            f = os.path.join(base, f"bad{pos}.csv")
            open(f, "wb").write(csv(1203, pos))
            cases.append(("malformed-csv", ["--icsv", "--ojson", "cat", f], None, None))
            cases.append(("malformed-csv", ["--icsv", "--ojson", "tac", f], None, None))
            cases.append(("malformed-csv", ["--icsv", "--ojson", "head", "-n", "2000", "then", "put", "$c = 1", small, f], None, None))
            g = os.path.join(base, f"badq{pos}.csv")
            open(g, "wb").write(csv(1203, pos, '7,"unterminated'))
            cases.append(("malformed-csv-quote", ["--icsv", "--ojson", "cat", g], None, None))
            h = os.path.join(base, f"bad{pos}.tsv")
            open(h, "wb").write(csv(1203, pos, "1\t2\t3").replace(b",", b"\t"))
            cases.append(("malformed-tsv", ["--itsv", "--ojson", "cat", h], None, None))
            j = os.path.join(base, f"bad{pos}.json")
            recs = [f'{{"a": {i}}}' for i in range(1, 1204)]
            recs[pos - 1] = '{"a": '
            open(j, "w").write("\n".join(recs) + "\n")
            cases.append(("malformed-json", ["--ijson", "--ojson", "cat", j], None, None))
        # 3. DSL run-time failures: main block at a record, end block, each position in the chain
        for pos in [1, 500, 501, 1203]:
            cases.append(("dsl-runtime", ["--icsv", "--ojson", "put", f"if (NR == {pos}) {{$c = asserting_null($a)}}", good], None, None))
            cases.append(("dsl-runtime", ["--icsv", "--ojson", "cat", "then", "put", f"if (NR == {pos}) {{$c = asserting_null($a)}}", "then", "tac", good], None, None))
            cases.append(("dsl-runtime", ["--icsv", "--ojson", "sort", "-nr", "a", "then", "put", "-q", f"if (NR == {pos}) {{$c = asserting_null($a)}} emit $*", good], None, None))
        cases.append(("dsl-runtime-end-block", ["--icsv", "--ojson", "put", "end{x = asserting_null(1)}", good], None, None))
        cases.append(("dsl-runtime-end-block", ["--icsv", "--ojson", "head", "-n", "1", "then", "put", "-q", "end{x = asserting_int(\"a\")}", good], None, None))
        cases.append(("dsl-parse", ["--icsv", "--ojson", "put", "$c = = 1", good], None, None))
        cases.append(("bad-verb-or-option", ["--icsv", "--ojson", "nosuchverb", good], None, None))
        cases.append(("bad-verb-or-option", ["--icsv", "--ojson", "head", "-n", good], None, None))
        cases.append(("bad-verb-or-option", ["--icsv", "--onosuchformat", "cat", good], None, None))
        # 4. records that the output format cannot express
        het = os.path.join(base, "het.json")
        open(het, "w").write("\n".join(['{"a":1,"b":2}'] * 700 + ['{"a":1,"c":3}'] + ['{"a":1,"b":2}'] * 3) + "\n")
        cases.append(("inexpressible-output", ["--ijson", "--ocsv", "cat", het], None, None))
        cases.append(("inexpressible-output", ["--ijson", "--otsv", "cat", het], None, None))
        # ... the same through a redirected emit / tee (the redirect's own writer fails); repeated: the error must never be lost
        for k in range(4):
            cases.append(("inexpressible-redirected-output", ["--ijson", "--ocsv", "put", "-q", 'emit > "' + os.path.join(base, "r%d.csv" % k) + '", $*', het], None, None))
            cases.append(("inexpressible-redirected-output", ["--ijson", "--otsv", "put", "-q", 'tee > "' + os.path.join(base, "t%d.tsv" % k) + '", $*', het], None, None))
        # 5. stdout that cannot be written
        for argv in [["--icsv", "--ojson", "cat", good], ["--icsv", "--ocsv", "tac", good], ["--icsv", "--opprint", "cat", small],
                     ["--icsv", "--ojson", "put", "-q", "print $a", good], ["-n", "put", "end{print 1}"], ["--icsv", "--oxtab", "head", "-n", "1", good]]:
            cases.append(("stdout-full", argv, None, "/dev/full"))
        # 5b. ... reached only through a DSL redirect to the `stdout` / `stderr` keyword while the record writer prints nothing
        for stmt in ["tee > stdout, $*", "emit > stdout, $*", "print > stdout, $a", "dump > stdout, $*", "emitf > stdout, @x", "printn > stdout, $a"]:
            pre = "@x = 1; " if "emitf" in stmt else ""
            cases.append(("stdout-full-redirect", ["--icsv", "--ojson", "put", "-q", pre + stmt, good], None, "/dev/full"))
            cases.append(("stdout-full-redirect", ["--icsv", "--ojson", "put", "-q", pre + stmt, small], None, "/dev/full"))
        cases.append(("stdout-full-redirect", ["-n", "--ojson", "put", 'end{emit > stdout, {"a": 1}}'], None, "/dev/full"))
        cases.append(("stdout-full-redirect", ["-n", "--ojson", "put", 'end{tee > stdout, {"a": 1}}'], None, "/dev/full"))
        # 6. tee / split / redirect targets that cannot be written
        nodir = os.path.join(base, "no", "such", "dir")
        cases.append(("unwritable-tee", ["--icsv", "--ojson", "tee", os.path.join(nodir, "t.out"), good], None, None))
        cases.append(("unwritable-tee", ["--icsv", "--ojson", "tee", "/dev/full", good], None, None))
        cases.append(("unwritable-tee", ["--icsv", "--ojson", "cat", "then", "tee", "/dev/full", "then", "head", "-n", "1", good], None, None))
        cases.append(("unwritable-split", ["--icsv", "--ojson", "split", "-n", "2", "--prefix", os.path.join(nodir, "s"), good], None, None))
        # one chunk / group file of a split that cannot be written (a symlink to /dev/full): first, middle, last
        seven = os.path.join(base, "seven.csv")
        open(seven, "wb").write(csv(7))
        for mode, names in [(["-n", "2"], ["1", "2", "4"]), (["-m", "3"], ["1", "2", "3"]), (["-g", "a"], ["1", "4", "7"])]:
            for nm in names:
                d = os.path.join(base, "spl_" + mode[0].strip("-") + "_" + nm)
                os.makedirs(d)
                os.symlink("/dev/full", os.path.join(d, "sp_" + nm + ".csv"))
                cases.append(("unwritable-split", ["--icsv", "--ocsv", "split"] + mode + ["--prefix", os.path.join(d, "sp"), seven], None, None))
        for stmt in ['tee > "/dev/full", $*', 'print > "/dev/full", $a', 'emit > "/dev/full", $*', 'dump > "/dev/full", $*', 'printn > "/dev/full", $a',
                     'emitf > "/dev/full", @x', 'tee > "' + nodir + '/".$a, $*', 'print | "exit 3", $a', 'tee | "false", $*']:
            pre = "@x = 1; " if "emitf" in stmt else ""
            if "|" in stmt:
                # a write to a pipe fails only once the command has gone AND the pipe buffer is exceeded
                cases.append(("failing-pipe-target", ["--icsv", "--ojson", "put", "-q", pre + stmt, bigf], None, None))
                continue
            cases.append(("unwritable-redirect", ["--icsv", "--ojson", "put", "-q", pre + stmt, good], None, None))
            cases.append(("unwritable-redirect", ["--icsv", "--ojson", "put", "-q", pre + stmt, small], None, None))
        if tier == "quick":
            keep = []
            seen = {}
            for c in cases:
                seen[c[0]] = seen.get(c[0], 0) + 1
                if seen[c[0]] <= (26 if c[0] == "unreadable-input-per-format" else 8):
                    keep.append(c)
            cases = keep
        settings = [(mlr, [], {}), (mlr, ["--records-per-batch", "1"], {}), (mlrv, ["--records-per-batch", "7"], {"MLR_VERIF_PERTURB": str(seed)})]
        if tier != "quick":
            settings += [(mlrv, ["--records-per-batch", rng.choice(["1", "2", "500", "501"])], {"MLR_VERIF_PERTURB": str(seed * 100 + k), "GOMAXPROCS": rng.choice(["1", "2", "16"])}) for k in range(6)]
        for kind, argv, stdin, outpath in cases:
            for binary, flags, env in settings:
                av = (flags if argv[0] != "-n" else []) + argv
                if outpath:
                    import subprocess
                    e = dict(os.environ); e.update(env); e["MLRRC"] = "__none__"
                    with open(outpath, "wb") as out:
                        try:
                            p = subprocess.run([binary] + av, stdout=out, stderr=subprocess.PIPE, env=e, timeout=60)
                            rc, se = p.returncode, p.stderr
                        except subprocess.TimeoutExpired:
                            rc, se = "timeout", b""
                else:
                    rc, so, se = t3util.run(binary, av, env=env, stdin=stdin, timeout=60)
                counts[kind] = counts.get(kind, 0) + 1
                silent = (rc == 0) or rc == "timeout" or not se.strip()
                crash = t3util.crashed(se) or (isinstance(rc, int) and (rc < 0 or rc == 2 and b"goroutine" in se))
                if silent or crash:
                    tag = "silent-" + kind
                    k = rep.known_tag(tag)
                    detail = {"argv": ["mlr"] + av, "env": env, "binary": os.path.basename(binary), "stdout_to": outpath, "exit": rc, "stderr": se.decode(errors="replace")[:300]}
                    if k is not None and not crash and rc != "timeout":
                        known.setdefault(tag, []).append(detail)
                    else:
                        rep.violation("spec", f"fault '{kind}' did not give a non-zero exit with a diagnostic (exit {rc}, {'a crash trace' if crash else 'stderr ' + ('empty' if not se.strip() else 'present')})", detail, True)
        for tag, ds in known.items():
            rep.known_finding(rep.known_tag(tag), len(ds), "mlr " + " ".join(ds[0]["argv"][1:])[:200] + f" => exit {ds[0]['exit']}")
    finally:
        shutil.rmtree(base, ignore_errors=True)
    rep.coverage.setdefault("t3", {}).update(counts)
    tot = sum(counts.values())
    rep.coverage["evaluations"] = rep.coverage.get("evaluations", 0) + tot
    rep.coverage["distinct_nontrivial"] = rep.coverage.get("distinct_nontrivial", 0) + tot


def check(tier, seed):
    return common.standard_check(
        PID, tier, seed, families=[],
        trusted_extra=[
            "the protocol model (Model/ErrorProtocol.lean): one failing verb, one-slot error channel, the writer's done signal, Stream's select loop and final drain as atomic actions; the two facts it hinges on, the channel capacity and the flush check are regenerated from pkg/stream and pkg/transformers by gofacts. NOT modelled: reader-side errors (same shape, exercised only), several simultaneous failures, close-time errors of redirected outputs (ProcessEndOfStream), the exit-code mapping of entrypoint.exitOnError (exercised)",
            "T3: the real binary, plain and -tags verif under MLR_VERIF_PERTURB seeds (hooks commit b0e5a132a); /dev/full and non-existent directories as unwritable sinks; 'unreadable' is a directory or a missing path (the sandbox runs as root, so permission bits cannot make a file unreadable)",
        ],
        rule="T3: fault kinds (missing/unreadable input in each file-list position, failing prepipe, malformed CSV/CSV-quote/TSV/JSON at records 1, 2, 499-502, 1000, 1001 and last, DSL run-time failure at records 1/500/501/last in first/middle/last chain position and in end blocks, parse/option errors, inexpressible CSV/TSV output, stdout = /dev/full for 6 output shapes, unwritable tee/split/redirect/pipe targets for every redirecting statement) x 3-9 settings (batch sizes, perturbation seeds, GOMAXPROCS)",
        extra=t3,
    )


def replay(path):
    import json
    r = json.load(open(path))
    print(json.dumps(r["primary"], indent=1)[:4000])
    print("re-run: ./bin/check C17")
    return 1
