import common

PID = "C09"


def check(tier, seed):
    return common.standard_check(
        PID, tier, seed, families=["c09", "c09dsl"],
        trusted_extra=[
            "modelled: lexical / case-fold (ASCII) / numeric comparators through the regenerated cmp_dispositions matrix, the sort verb's grouping + multi-key comparison (as the relation sortRel; Go's sort.Slice is unstable). NOT modelled: natural order (facette/natsort is a parameter: only permutation/grouping laws are checked for -t keys), sort_by_key/sort_by_value (not present in this tree), top, sort-within-records (see C12), user-comparator sorts",
        ],
        rule="comparators: all ordered pairs of a 30-value mixed pool (ints, floats, hex, 1 vs 1.0 vs 0x1, -0/0.0, 2^53, 2^63-1, case variants, empty, near-numeric strings) against the model, and pool triples for reflexivity/totality/sign-antisymmetry/transitivity on the implementation; sort verb: seeded streams (0-13, occasionally 20-40 records; keys a,b,c each missing with prob 1/8) x 1-3 keys x 11 flag spellings (-f -r -nf -nr -n -c '-c -r' -t '-t -r' '-n -r' '-n -f'), output checked against sortRel; DSL sort() on arrays with 10 flag strings; distinct = distinct protocol lines",
    )


def replay(path):
    return common.standard_replay(PID, path)
