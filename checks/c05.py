"""C05: then = pipe; inputs concatenate; contexts. PROVE + T2 (in-process) + T3 (real binary: input sources)."""
import bz2, gzip, os, random, shutil, zlib
import common, verif, t3util

PID = "C05"


def t3(rep, tier, seed):
    mlr, mlrv = t3util.binaries(rep)
    if not mlr:
        return
    rng = random.Random(seed)
    base = t3util.scratch("c05")
    counts = {"sources": 0, "then_vs_pipe": 0, "multi_file": 0, "nf": 0}
    try:
        plain = ("a,b\n" + "".join(f"{rng.choice(['x','y'])},{i}\n" for i in range(1, 1203))).encode()
        fn = os.path.join(base, "p.csv")
        open(fn, "wb").write(plain)
        argv = ["--icsv", "--ojson", "put", "$nr = NR; $fnr = FNR; $f = sub(FILENAME, \".*/\", \"\")"]
        ref = t3util.run(mlr, argv + [fn])
        import re
        norm = lambda b: re.sub(rb'"f": "[^"]*"', b'"f": "F"', b)
        # the same records whatever the source of the bytes
        variants = []
        open(fn + ".gz", "wb").write(gzip.compress(plain))
        open(fn + ".bz2", "wb").write(bz2.compress(plain))
        open(fn + ".z", "wb").write(zlib.compress(plain))
        open(os.path.join(base, "gznoext"), "wb").write(gzip.compress(plain))
        open(os.path.join(base, "bznoext"), "wb").write(bz2.compress(plain))
        open(os.path.join(base, "znoext"), "wb").write(zlib.compress(plain))
        variants.append(("stdin", argv, plain))
        variants.append(("--from", ["--from", fn] + argv, None))
        variants.append(("gz by extension", argv + [fn + ".gz"], None))
        variants.append(("bz2 by extension", argv + [fn + ".bz2"], None))
        variants.append(("zlib by extension", argv + [fn + ".z"], None))
        variants.append(("--gzin", ["--gzin"] + argv + [os.path.join(base, "gznoext")], None))
        variants.append(("--bz2in", ["--bz2in"] + argv + [os.path.join(base, "bznoext")], None))
        variants.append(("--zin", ["--zin"] + argv + [os.path.join(base, "znoext")], None))
        variants.append(("--prepipe gunzip", ["--prepipe", "gunzip"] + argv + [fn + ".gz"], None))
        variants.append(("--prepipex gunzip <", ["--prepipex", "gunzip <"] + argv + [fn + ".gz"], None))
        variants.append(("--prepipe cat", ["--prepipe", "cat"] + argv + [fn], None))
        variants.append(("batch 1", ["--records-per-batch", "1"] + argv + [fn], None))
        reps = 12 if tier == "quick" else 80     # sources that involve a child process are raced repeatedly
        runs = []
        for name, av, stdin in variants:
            for k in range(reps if "prepipe" in name else 1):
                runs.append((name, av, stdin))
        for name, av, stdin in runs:
            got = t3util.run(mlr, av, stdin=stdin)
            counts["sources"] += 1
            if got[0] != 0 or norm(got[1]) != norm(ref[1]):
                rep.violation("spec", f"input source '{name}' does not deliver the same records as the plain file",
                              {"argv": ["mlr"] + av, "exit": got[0], "stderr": got[2][:300].decode(errors="replace"),
                               "stdout_head": got[1][:200].decode(errors="replace"), "reference_head": ref[1][:200].decode(errors="replace")}, True)
        # then-chaining equals piping through every lossless intermediate format, on the real binary
        chains = [(["sort", "-f", "a"], ["head", "-n", "3", "-g", "a"]), (["cut", "-f", "b"], ["tac"]), (["count-distinct", "-f", "a"], ["sort", "-nr", "count"]),
                  (["put", "$c = $a . $b"], ["uniq", "-g", "a"]), (["head", "-n", "700"], ["tail", "-n", "3"]), (["cat"], ["stats1", "-a", "sum,count", "-f", "b", "-g", "a"])]
        for A, B in chains:
            one = t3util.run(mlr, ["--icsv", "--ojson"] + A + ["then"] + B + [fn])
            for mid in ["json", "csv", "tsv", "dkvp", "xtab", "jsonl"]:
                m = t3util.run(mlr, ["--icsv", "--o" + mid] + A + [fn])
                two = t3util.run(mlr, ["--i" + mid, "--ojson"] + B, stdin=m[1])
                counts["then_vs_pipe"] += 1
                if one[0] != 0 or two[0] != 0 or one[1] != two[1]:
                    rep.violation("spec", f"`A then B` differs from `A | B` through intermediate format {mid}",
                                  {"A": A, "B": B, "exit": [one[0], m[0], two[0]], "then_head": one[1][:300].decode(errors="replace"), "pipe_head": two[1][:300].decode(errors="replace")}, True)
        # ... also on data with empty cells and all-empty rows, for verbs whose presence anywhere in the chain
        # might influence an earlier stage (the reader included)
        sparse = b"a,b,c\n1,,3\n,,\n4,5,\n,,\n,,9\n7,8,9\n"
        sf = os.path.join(base, "sparse.csv")
        open(sf, "wb").write(sparse)
        # (B never reads NR: after a stage that drops records, NR in a chain is still the reader's count - by design)
        stages = [["fill-empty"], ["fill-empty", "-v", "X"], ["fill-down", "--all"], ["fill-down", "-a", "-f", "a,b"], ["skip-trivial-records"], ["cat", "-n"],
                  ["unsparsify"], ["sec2gmt", "a"], ["nothing"], ["tac"], ["head", "-n", "4"], ["count"], ["put", "$n = NF"], ["put", "-q", "@c += 1; end{emit @c}"]]
        for A in stages + [["put", "$nr = NR"]]:
            for B in stages:
                one = t3util.run(mlr, ["--icsv", "--ojsonl"] + A + ["then"] + B + [sf])
                for mid in ["json", "jsonl"]:
                    m = t3util.run(mlr, ["--icsv", "--o" + mid] + A + [sf])
                    two = t3util.run(mlr, ["--i" + mid, "--ojsonl"] + B, stdin=m[1])
                    counts["then_vs_pipe"] += 1
                    if one[0] != 0 or two[0] != 0 or one[1] != two[1]:
                        rep.violation("spec", f"`A then B` differs from `A | B` through intermediate format {mid} (input with empty cells and all-empty rows)",
                                      {"A": A, "B": B, "exit": [one[0], m[0], two[0]], "then_head": one[1][:400].decode(errors="replace"), "pipe_head": two[1][:400].decode(errors="replace")}, True)
        # files with different headers, an empty file, a header-only file: concatenation of each alone
        # (per reader: explicit headers, implicit/positional headers with files of DIFFERING widths, ragged, key-value and JSON inputs)
        configs = [
            (["--icsv"], [b"a,b\n1,2\n3,4\n", b"", b"c\n5\n", b"a,b\n", b"a,b\n6,7\n"]),
            (["--icsv", "--implicit-csv-header"], [b"1,2\n3,4\n", b"", b"5\n", b"6,7,8\n9,10,11\n", b"12,13\n"]),
            (["--icsv", "--hi"], [b"1,2,3\n", b"4\n5\n", b"6,7\n"]),
            (["--icsv", "--allow-ragged-csv-input"], [b"a,b\n1,2,3\n4\n", b"c\n5,6\n", b"a,b,c,d\n7\n"]),
            (["--icsv", "--implicit-csv-header", "--allow-ragged-csv-input"], [b"1,2\n3\n", b"4,5,6\n7\n", b"8\n"]),
            (["--icsvlite"], [b"a,b\n1,2\n\nc\n3\n", b"", b"c\n5\n", b"a,b\n6,7\n"]),
            (["--icsvlite", "--implicit-csv-header"], [b"1,2\n3,4\n", b"5\n", b"6,7,8\n"]),
            (["--itsv"], [b"a\tb\n1\t2\n", b"", b"c\n5\n", b"a\tb\n6\t7\n"]),
            (["--itsv", "--implicit-tsv-header"], [b"1\t2\n", b"5\n", b"6\t7\t8\n"]),
            (["--ipprint"], [b"a b\n1 2\n", b"", b"c\n5\n", b"a   b\n6   7\n"]),
            (["--ipprint", "--hi"], [b"1 2\n", b"5\n", b"6 7 8\n"]),
            (["--inidx", "--ifs", ","], [b"1,2\n", b"", b"5\n", b"6,7,8\n"]),
            (["--idkvp"], [b"a=1,b=2\n", b"", b"c=5\n", b"a=6\n"]),
            (["--ixtab"], [b"a 1\nb 2\n\na 3\n", b"", b"c 5\n", b"a 6\nb 7\n"]),
            (["--ijsonl"], [b'{"a":1,"b":2}\n', b"", b'{"c":5}\n{"a":6}\n']),
            (["--ijson"], [b'[{"a":1,"b":2}]', b"", b'{"c":5}{"a":6}', b"[]"]),
        ]
        for ci, (flags, texts) in enumerate(configs):
            fns = []
            for i, t in enumerate(texts):
                f = os.path.join(base, f"m{ci}_{i}.txt")
                open(f, "wb").write(t)
                fns.append(f)
            prog = flags + ["--ojsonl", "put", "-q", "print FNR . \":\" . FILENUM . \":\" . NF . \":\" . joink($*, \",\") . \":\" . joinv($*, \",\"); end{print \"end:\" . NR}"]
            allf = t3util.run(mlr, prog + fns)
            each = [t3util.run(mlr, prog + [f]) for f in fns]
            counts["multi_file"] += 1
            def lines(b):
                return [l for l in b.decode().splitlines() if not l.startswith("end:")]
            want = []
            for i, e in enumerate(each):
                for l in lines(e[1]):
                    p = l.split(":")
                    want.append(":".join([p[0], str(i + 1)] + p[2:]))
            got = lines(allf[1])
            endl = [l for l in allf[1].decode().splitlines() if l.startswith("end:")]
            if any(e[0] != 0 for e in each):
                continue    # a file this reader rejects on its own: outside the statement
            if allf[0] != 0 or got != want or endl != [f"end:{len(want)}"]:
                rep.violation("spec", "reading files f1..fn is not the concatenation of reading each alone (FNR, FILENUM, field names and values per file, final NR)",
                              {"argv": ["mlr"] + prog + ["f1..fn"], "inputs": [t.decode() for t in texts], "observed": allf[1].decode()[:600], "stderr": allf[2].decode(errors="replace")[:300] if len(allf) > 2 else "", "wanted_lines": want, "exit": allf[0]}, True)
        # NF is the current field count even mid-expression
        nf2 = t3util.run(mlr, ["--icsv", "--ojson", "put", "$n1 = NF; $n2 = NF; unset $a; $n3 = NF", fn])
        counts["nf"] += 1
        first = nf2[1].decode().split("}")[0]
        if nf2[0] != 0 or '"n1": 2' not in first or '"n2": 3' not in first or '"n3": 3' not in first:
            rep.violation("spec", "NF is not the current field count mid-expression", {"observed": first, "wanted": "n1=2 n2=3 n3=3"}, True)
    finally:
        shutil.rmtree(base, ignore_errors=True)
    rep.coverage.setdefault("t3", {}).update(counts)
    tot = sum(counts.values())
    rep.coverage["evaluations"] = rep.coverage.get("evaluations", 0) + tot
    rep.coverage["distinct_nontrivial"] = rep.coverage.get("distinct_nontrivial", 0) + tot


def check(tier, seed):
    return common.standard_check(
        PID, tier, seed, families=["c05"],
        trusted_extra=[
            "modelled: chains as composition of verb machines (chainRun), the reader's context bookkeeping (NR/FNR/FILENUM/FILENAME per record over a file list). NOT modelled: the bytes-to-records path of each reader, decompression, prepipes, stdin - exercised by T3 only; 'lossless intermediate format' is C01's subject",
            "T2: real Stream in-process: `A then B` vs `A` piped into `B` through JSON for random chains of 31 type-stable verbs; contexts printed by a DSL program over file lists with empty files under batch sizes 1/2/500, compared with the Lean model (harness/c04.go)",
            "T3: the real binary on files, stdin, --from, gzip/bzip2/zlib by extension and by flag, --prepipe/--prepipex; six intermediate formats; per-file headers",
        ],
        rule="T2: seeded streams x 6 random (A, B) pairs of chains of length 1-2 from 31 type-stable verbs; 30-400 file lists of 1-4 files with 0,1,2,3-7 or 499-502 records x batch sizes 1,2,500. T3: 12 input sources for one 1202-record file; 6 (A,B) pairs x 6 intermediate formats; 16 reader configurations (CSV, CSV-lite, TSV, PPRINT with explicit and implicit headers, ragged, headerless; NIDX, DKVP, XTAB, JSON, JSON Lines) x 3-5-file lists with differing headers/widths, empty and header-only files; NF mid-expression",
        extra=t3,
    )


def replay(path):
    return common.standard_replay(PID, path)
