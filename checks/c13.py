import common

PID = "C13"


def check(tier, seed):
    return common.standard_check(
        PID, tier, seed, families=["c13"],
        trusted_extra=[
            "modelled: the default unsorted (half-streaming) join: left buckets, pairing, record composition with -j/-l/-r/--lp/--rp/--lk, unpaired emission with renaming, --np/--ul/--ur/--ignore-empty. NOT modelled: the doubly-streaming merge join (-s, join_bucket_keeper.go): on inputs sorted by the join keys its output is required to be the same multiset as the model's default-mode output (law on the implementation)",
            "the left file is written by the real JSON writer and read back by the real reader inside the real join transformer (in-process); right records are fed record by record (harness/c13.go)",
        ],
        rule="seeded left/right record lists (0-6 records per side; duplicate keys on both sides, missing join fields, empty keys, number-like keys 1/01/1.0, comma-bearing keys, payload-name collisions between sides and with output join names, payload-before-key field order) x one- and two-field joins with equal or different -j/-l/-r names x --lp/--rp/--lk x the 6 emit-flag combinations x --ignore-empty x (1 in 4) sorted-input mode on key-complete sorted inputs; distinct = distinct protocol lines",
    )


def replay(path):
    return common.standard_replay(PID, path)
