"""Helpers for the T3 (real binary) layers."""
import os, shutil, subprocess
import verif


def binaries(rep):
    mlr, _ = verif.build_mlr()
    mlrv, _ = verif.build_mlr("verif")
    if not mlr or not mlrv:
        rep.violation("build", "mlr (plain or -tags verif) does not build from the current tree", {}, False)
        return None, None
    return mlr, mlrv


def run(binary, argv, env=None, stdin=None, timeout=60, cwd=None, fsize_limit=None):
    e = dict(os.environ)
    for k in ("MLR_VERIF_CRASH", "MLR_VERIF_PERTURB", "MLR_VERIF_TRACE", "MLRRC"):
        e.pop(k, None)
    e["MLRRC"] = "__none__"
    if env:
        e.update(env)
    try:
        pre = None
        if fsize_limit is not None:
            import resource, signal
            def pre():
                signal.signal(signal.SIGXFSZ, signal.SIG_IGN)
                resource.setrlimit(resource.RLIMIT_FSIZE, (fsize_limit, fsize_limit))
        p = subprocess.run([binary] + argv, capture_output=True, env=e, input=stdin, timeout=timeout, cwd=cwd, preexec_fn=pre)
        return p.returncode, p.stdout, p.stderr
    except subprocess.TimeoutExpired as x:
        return "timeout", x.stdout or b"", x.stderr or b""


def scratch(name):
    base = os.path.join(verif.VERIF, "build", "scratch", f"{name}-{os.getpid()}")
    shutil.rmtree(base, ignore_errors=True)
    os.makedirs(base)
    return base


def crashed(stderr):
    s = stderr.decode(errors="replace")
    return "panic:" in s or "fatal error:" in s or "goroutine " in s
