import common

PID = "C03"


def check(tier, seed):
    return common.standard_check(
        PID, tier, seed, families=["c03"],
        trusted_extra=[
            "modelled: the Mlrval cell (printrep, printrepValid, deferred type, payload), Type() JIT inference, String()/setPrintRep, Copy, the read accessors. The verbs and DSL statements that read a field are NOT modelled here: their effect on an unassigned field is checked on the implementation (op bystand: in-process chains of reading verbs / put expressions)",
        ],
        rule="read-op sequences (1-10 ops from 21 accessors/BIFs/comparators: Type, GetNumeric, String, Copy, OriginalString, +, unary -, dot, <, ==, numeric/lexical/case-fold comparators, is_*, typeof, abs, strlen) on real Mlrvals built from a 40-spelling corpus (hex, binary, octal, +5, -0, leading zeros, exponent forms, trailing zeros, 41-digit ints, non-UTF-8 bytes ...) and seeded boundary numerals, under each of -S/-A/-O/default; 28 chains of reading verbs/DSL statements over records carrying the corpus, checking the multiset of texts of the unassigned field; distinct = distinct protocol lines",
        assumptions=["JSON/YAML output and --ofmt re-rendering are the documented exceptions and are not exercised here"],
    )


def replay(path):
    return common.standard_replay(PID, path)
