"""C15: string / regex / formatting / hash functions. PROVE + T2 (str correspondence) + T3 (real binary vs
independent references: Python hashlib, Python % formatting = C printf, function-per-field for the verbs)."""
import hashlib, json, os, random, shutil
import common, verif, t3util

PID = "C15"


def t3(rep, tier, seed):
    mlr, _ = t3util.binaries(rep)
    if not mlr:
        return
    rng = random.Random(seed)
    counts = {"digests": 0, "fmtnum": 0, "verbs_vs_functions": 0}
    # --- digests vs hashlib (standard digests)
    texts = ["", "a", "abc", "hello world", "héllo", "日本語", "The quick brown fox jumps over the lazy dog", "x" * 55, "x" * 56, "x" * 63, "x" * 64, "x" * 65, "y" * 1000]
    texts += ["".join(rng.choice("abc XYZ019-_") for _ in range(rng.randrange(0, 200))) for _ in range(20 if tier == "quick" else 300)]
    recs = "\n".join(json.dumps({"s": t}, ensure_ascii=False) for t in texts) + "\n"
    rc, so, se = t3util.run(mlr, ["--ijsonl", "--ojsonl", "put", "$md5 = md5($s); $sha1 = sha1($s); $sha256 = sha256($s); $sha512 = sha512($s)"], stdin=recs.encode())
    if rc != 0:
        rep.violation("spec", "digest functions failed", {"exit": rc, "stderr": se.decode(errors="replace")[:300]}, True)
    else:
        import zlib
        for line, t in zip(so.decode().splitlines(), texts):
            o = json.loads(line)
            b = t.encode()
            want = {"md5": hashlib.md5(b).hexdigest(), "sha1": hashlib.sha1(b).hexdigest(), "sha256": hashlib.sha256(b).hexdigest(), "sha512": hashlib.sha512(b).hexdigest()}
            counts["digests"] += 4
            for k, w in want.items():
                if str(o.get(k)) != str(w):
                    rep.violation("spec", f"{k} differs from the standard digest", {"input": t[:80], "observed": o.get(k), "wanted": w}, True)
    # --- fmtnum / fmtifnum / hexfmt / --ofmt vs C printf (Python's % operator implements the same conversions)
    ints = [0, 1, -1, 7, 42, -42, 255, 4096, 123456789, -123456789, 2 ** 31, 2 ** 53, 9223372036854775807, -9223372036854775808]
    floats = [0.0, 1.0, -1.0, 0.5, 3.14159265358979, -2.718281828, 1e10, 1.5e-7, 123456.789, 1e300, 0.1, 2.5, 3.5, 0.125, 1e-320]
    ifmts = ["%d", "%5d", "%-5d", "%05d", "%+d", "%x", "%08x", "%lld", "%llx", "%08llx", "%ld", "%lx", "%3d", "%-8x", "% d", "%+5d", "%-05d"]
    ffmts = ["%f", "%.3f", "%8.3f", "%-10.2f", "%08.3f", "%+.1f", "%e", "%.2e", "%12.4e", "%g", "%.3g", "%lf", "%.3lf", "%08.3lf", "%le", "%.4le", "%lg", "%.0f", "%5.0f", "% .2f", "%+08.2f", "%.10g"]
    cases = []
    for v in ints:
        for f in ifmts:
            cases.append((v, f))
        for f in ffmts[:8]:
            cases.append((v, f))     # ints under float formats
    for v in floats:
        for f in ffmts:
            cases.append((v, f))
        for f in ["%d", "%x", "%5d", "%08llx"]:
            cases.append((v, f))     # floats under int formats
    known_g = []
    prog = "".join(f'$o{i} = fmtnum($v{i}, "{f}");' for i, (v, f) in enumerate(cases))
    rec = json.dumps({f"v{i}": v for i, (v, f) in enumerate(cases)})
    rc, so, se = t3util.run(mlr, ["--ijsonl", "--otsv", "put", "-q", prog + " emit mapexcept($*, " + ",".join(f'"v{i}"' for i in range(len(cases))) + ")"], stdin=(rec + "\n").encode())
    if rc != 0:
        rep.violation("spec", "fmtnum program failed", {"exit": rc, "stderr": se.decode(errors="replace")[:300]}, True)
    else:
        hdr, vals = [l.split("\t") for l in so.decode().split("\n")[:2]]
        o = dict(zip(hdr, vals))
        for i, (v, f) in enumerate(cases):
            cf = f.replace("ll", "").replace("lf", "f").replace("le", "e").replace("lg", "g").replace("ld", "d").replace("lx", "x")
            conv = cf.rstrip("|")[-1]
            got = str(o.get(f"o{i}"))
            counts["fmtnum"] += 1
            try:
                if conv in "dxXo":
                    if isinstance(v, float):
                        # Miller documents: a float under an int format is formatted as a float-compatible rendering; not a C printf case
                        continue
                    vv = v
                    if conv in "xXo" and v < 0:
                        vv = v + 2 ** 64     # two's complement, as C's unsigned conversions
                    want = cf % vv
                else:
                    want = cf % float(v)
            except Exception:
                continue
            if got != want and conv == "g" and "." not in cf:
                k = rep.known_tag("fmtnum-g-default-precision")
                if k is not None:
                    known_g.append(f"fmtnum({v}, \"{f}\") => {got} (C printf: {want})")
                    continue
            if got != want:
                # exponent width: C prints at least two exponent digits, as does Go - identical; sign of zero etc. fall here
                rep.violation("spec", "fmtnum does not render as C printf would", {"value": v, "format": f, "observed": got, "wanted": want}, True)
    if known_g:
        rep.known_finding(rep.known_tag("fmtnum-g-default-precision"), len(known_g), known_g[0])
    # --- `=~` and its \0-\9 captures (and the "..."i form) vs Python's re on the shared syntax
    import re as pyre
    regexes = ["(a)(b)(c)(d)(e)(f)(g)(h)(i)", "(.)(.)(.)(.)(.)(.)(.)(.)(.)(.)", "([a-c]+)-([0-9]+)", "^(.)(.*)$", "(x)|(y)", "b+", "(b+)(c*)",
               "^([^-]*)-(.*)$", "(a|b)(c|d)?", "([0-9]+)\\.([0-9]+)", "((a)(b))((c))", "(é)(l+)"]
    subjects = ["abcdefghij", "abc-123", "xyz", "y", "abbbc", "hello-world-x", "bd", "3.14", "abcd", "héllo", "", "ABCDEFGHIJ", "0123456789abc"]
    tmpl = ":".join("\\%d" % k for k in range(10))
    counts["match_captures"] = 0
    lines = []
    cases_m = []
    for rx in regexes:
        for ci in (False, True):
            lit = '"%s"%s' % (rx, "i" if ci else "")
            prog = 'if ($s =~ %s) { $o = "%s" } else { $o = "NOMATCH" }' % (lit, tmpl)
            data = "".join(json.dumps({"s": t}, ensure_ascii=False) + "\n" for t in subjects)
            rc, so, se = t3util.run(mlr, ["--ijsonl", "--ojsonl", "put", prog], stdin=data.encode())
            if rc != 0:
                rep.violation("spec", "a =~ program failed", {"program": prog, "exit": rc, "stderr": se.decode(errors="replace")[:300]}, True)
                continue
            pat = pyre.compile(rx.replace("\\\\", "\\"), pyre.I if ci else 0)
            for line, t in zip(so.decode().splitlines(), subjects):
                got = json.loads(line).get("o")
                m = pat.search(t)
                if m is None:
                    want = "NOMATCH"
                else:
                    gs = [m.group(0)] + [(g or "") for g in m.groups()]
                    want = ":".join((gs[k] if k < len(gs) else "") for k in range(10))
                counts["match_captures"] += 1
                if str(got) != want:
                    rep.violation("spec", "=~ captures differ from the reference regex engine", {"regex": lit, "subject": t, "observed": got, "wanted": want}, True)
    # --- the wrapping verbs equal the function applied per field
    recs = [{"a": "Hello  World ", "b": " x\ty ", "c": "abcabc", "d": "3.14159", "e": "17", "f": "héllo wörld"}] * 2
    text = "\n".join(json.dumps(r, ensure_ascii=False) for r in recs) + "\n"
    pairs = [
        (["sub", "-f", "a,c", "l", "L"], 'for (k in ["a","c"]) { $[k] = sub($[k], "l", "L") }'),
        (["gsub", "-f", "a,c", "b", "<B>"], 'for (k in ["a","c"]) { $[k] = gsub($[k], "b", "<B>") }'),
        (["ssub", "-f", "a,c", "a.c", "Z"], 'for (k in ["a","c"]) { $[k] = ssub($[k], "a.c", "Z") }'),
        (["gsub", "-a", "[aeiou]", "_"], 'for (k, v in $*) { $[k] = gsub(v, "[aeiou]", "_") }'),
        (["case", "-v", "-u", "-f", "a,f"], 'for (k in ["a","f"]) { $[k] = toupper($[k]) }'),
        (["case", "-k", "-u", "-f", "a"], 'map o = {}; for (k, v in $*) { if (k == "a") { o[toupper(k)] = v } else { o[k] = v } } $* = o'),
        (["clean-whitespace"], 'map o = {}; for (k, v in $*) { o[clean_whitespace(k)] = clean_whitespace(v) } $* = o'),
        (["clean-whitespace", "-v"], 'for (k, v in $*) { $[k] = clean_whitespace(v) }'),
        (["format-values", "-n", "-f", "%.3f"], 'for (k, v in $*) { if (is_numeric(v)) { $[k] = fmtnum(v, "%.3f") } }'),
        (["utf8-to-latin1"], 'map o = {}; for (k, v in $*) { o[utf8_to_latin1(k)] = utf8_to_latin1(v) } $* = o'),
        (["unspace"], 'map o = {}; for (k, v in $*) { o[gsub(k, " ", "_")] = gsub(v, " ", "_") } $* = o'),
    ]
    for verb, prog in pairs:
        a = t3util.run(mlr, ["--ijsonl", "--ojsonl"] + verb, stdin=text.encode())
        b = t3util.run(mlr, ["--ijsonl", "--ojsonl", "put", prog], stdin=text.encode())
        counts["verbs_vs_functions"] += 1
        if a[0] != 0 or b[0] != 0 or a[1] != b[1]:
            rep.violation("spec", "a wrapping verb differs from its function applied per field",
                          {"verb": verb, "program": prog, "exit": [a[0], b[0]], "verb_output": a[1][:300].decode(errors="replace"), "function_output": b[1][:300].decode(errors="replace"),
                           "stderr": (a[2] + b[2])[:300].decode(errors="replace")}, True)
    rep.coverage.setdefault("t3", {}).update(counts)
    tot = sum(counts.values())
    rep.coverage["evaluations"] = rep.coverage.get("evaluations", 0) + tot
    rep.coverage["distinct_nontrivial"] = rep.coverage.get("distinct_nontrivial", 0) + tot


def check(tier, seed):
    return common.standard_check(
        PID, tier, seed, families=["c15"],
        trusted_extra=[
            "modelled: strlen, substr/substr0/substr1, truncate, leftpad, rightpad, lstrip/rstrip/strip, collapse_whitespace, toupper/tolower/capitalize (ASCII), ssub, gssub, base64 and hex encode/decode, and - through the Lean regex engine tied to Go's regexp in C12 - sub, gsub (non-empty matches), regextract with \\0-\\9 captures and the \"...\"i form on ASCII subjects. NOT modelled: case mapping and regexes on non-ASCII text, clean_whitespace's re-inference, format/unformat, latin1/utf8, json_stringify/json_parse, splitax/joinv (inverse-pair laws on the implementation), digests, fmtnum/fmtifnum/hexfmt/--ofmt, the wrapping verbs (T3 references)",
            "T3 references: Python hashlib and zlib for md5/sha1/sha256/sha512/crc32; Python's % operator for the printf conversions d x X o f e g E G with flags - + 0 space, width and precision (it implements C's conversions); the verbs compared with a DSL program applying the function per field",
        ],
        rule="T2: 47 texts (empty, ASCII, multi-byte, combining marks, invalid and truncated UTF-8, surrogates, NUL, regex and printf metacharacters) x every modelled function x index grids -7..100 (all pairs in thorough), 6 pad strings, 13 literal patterns x 5 replacements, 20 regexes x 6 replacements; 300-3600 random byte strings for strlen/substr/truncate/strip/base64/hex and the decoders on near-valid texts. T3: 33-313 texts x 5 digests; 14 ints and 15 floats x 37 formats; 11 verb/function pairs",
        extra=t3,
    )


def replay(path):
    return common.standard_replay(PID, path)
