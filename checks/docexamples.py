"""Extract the worked examples of the reference documentation (docs/src/*.md: a command in a
<pre class="pre-highlight-in-pair"> block followed by its output in a <pre class="pre-non-highlight-in-pair">
block) so that they can be replayed against the current build: the documentation's own statement of what a
program means, independent of the implementation under test."""
import html, os, re

DOCS = "/repo/docs/src"

PAGES = [
    "reference-dsl-variables.md", "reference-dsl-control-structures.md", "reference-dsl-output-statements.md",
    "reference-dsl-user-defined-functions.md", "reference-dsl-higher-order-functions.md", "reference-dsl-operators.md",
    "reference-dsl-unset-statements.md", "reference-dsl-filter-statements.md", "reference-dsl-syntax.md",
    "reference-main-maps.md", "reference-main-arrays.md", "reference-main-null-data.md", "reference-main-arithmetic.md",
    "reference-main-data-types.md", "reference-dsl-operator-assignments.md", "questions-about-the-dsl.md",
    "operating-on-all-records.md", "operating-on-all-fields.md", "special-symbols-and-formatting.md",
    "reference-main-strings.md", "reference-main-regular-expressions.md", "dates-and-times.md", "shapes-of-data.md",
    "programming-examples.md", "misc-examples.md", "two-pass-algorithms.md", "reference-dsl-builtin-functions.md",
    "reference-verbs.md", "questions-about-joins.md", "record-heterogeneity.md", "flatten-unflatten.md", "sorting.md",
    "statistics-examples.md", "shell-commands.md", "dkvp-examples.md", "csv-with-and-without-headers.md",
]

PAIR = re.compile(r'<pre class="pre-highlight-in-pair">\n(.*?)</pre>\n<pre class="pre-non-highlight-in-pair">\n(.*?)</pre>', re.S)


def examples(pages=None):
    out = []
    for page in pages or PAGES:
        p = os.path.join(DOCS, page)
        if not os.path.exists(p):
            continue
        text = open(p, encoding="utf-8").read()
        for m in PAIR.finditer(text):
            cmd_lines = []
            for l in m.group(1).splitlines():
                l = re.sub(r"^<b>(.*)</b>$", r"\1", l)
                cmd_lines.append(html.unescape(l))
            cmd = "\n".join(cmd_lines)
            want = html.unescape(m.group(2))
            out.append({"page": page, "cmd": cmd, "want": want})
    return out


UNSTABLE = re.compile(r"urand|systime|sysntime|uptime|hostname|os_type|version|exec\(|system\(|--seed|shuffle|bootstrap|sample|ENV|\bsec2date\b.*systime|strfntime_local|localtime|--tz|TZ=|seqgen -f|split |tee |--ofmt %.9le|nothing|case|summary|gmt2localtime|localtime2gmt|strftime_local|strptime_local|sec2gmt.*local")
