package main

import (
	"fmt"
	"go/ast"
	"go/token"
	"sort"
	"strings"
)

// genSigs: for every function named in a disposition-table cell, classify its body.
func genSigs(cellNames map[string]bool) {
	funcs := map[string]*ast.FuncDecl{}
	fsets := map[string]*token.FileSet{}
	for _, rel := range []string{"pkg/bifs", "pkg/mlrval"} {
		p := loadPkg(rel)
		for _, fn := range p.names {
			for _, d := range p.files[fn].Decls {
				if fd, ok := d.(*ast.FuncDecl); ok && fd.Recv == nil {
					if _, dup := funcs[fd.Name.Name]; !dup {
						funcs[fd.Name.Name] = fd
						fsets[fd.Name.Name] = p.fset
					}
				}
			}
		}
	}
	var names []string
	for n := range cellNames {
		names = append(names, n)
	}
	sort.Strings(names)
	var b strings.Builder
	b.WriteString("import MillerModel.Base.Sig\nimport MillerModel.Gen.Disp\nnamespace Miller.Gen\n\n")
	b.WriteString("/-- Body classification of every cell function (see Base/Sig.lean). -/\ndef kernelSig : K → Sig\n")
	for _, n := range names {
		fd := funcs[n]
		sig := "{ ret := .other, acq1 := [], acq2 := [], divides := false }"
		if fd != nil && fd.Body != nil {
			sig = classify(fsets[n], fd)
		} else {
			sig = "{ ret := .other, acq1 := [], acq2 := [], divides := false } /- body not found -/"
		}
		fmt.Fprintf(&b, "  | .%s => %s\n", leanIdent(n), sig)
	}
	b.WriteString("\nend Miller.Gen\n")
	emit("KernelSigs.lean", b.String())
}

func paramNames(fd *ast.FuncDecl) []string {
	var out []string
	for _, f := range fd.Type.Params.List {
		for _, n := range f.Names {
			out = append(out, n.Name)
		}
	}
	return out
}

func classify(fset *token.FileSet, fd *ast.FuncDecl) string {
	params := paramNames(fd)
	p1, p2 := "", ""
	if len(params) > 0 {
		p1 = params[0]
	}
	if len(params) > 1 {
		p2 = params[1]
	}
	ret := ".other"
	if len(fd.Body.List) == 1 {
		if rs, ok := fd.Body.List[0].(*ast.ReturnStmt); ok && len(rs.Results) == 1 {
			x := exprString(fset, rs.Results[0])
			switch {
			case x == "mlrval.ABSENT" || x == "ABSENT":
				ret = ".absent"
			case x == "mlrval.VOID" || x == "VOID":
				ret = ".void"
			case x == "mlrval.NULL" || x == "NULL":
				ret = ".null"
			case x == "mlrval.TRUE":
				ret = ".true_"
			case x == "mlrval.FALSE":
				ret = ".false_"
			case x == p1 && p1 != "":
				ret = ".in1"
			case x == p2 && p2 != "":
				ret = ".in2"
			case strings.HasPrefix(x, "mlrval.FromTypeError") || strings.HasPrefix(x, "mlrval.FromNot") || strings.HasPrefix(x, "mlrval.FromError") || strings.HasPrefix(x, "mlrval.FromAnonymousError"):
				ret = ".error"
			case x == "mlrval.FromInt(0)":
				ret = ".intLit 0"
			case x == "mlrval.FromInt(1)":
				ret = ".intLit 1"
			case x == "mlrval.FromInt(-1)":
				ret = ".intLit (-1)"
			case x == "mlrval.FromFloat(0)":
				ret = ".float0"
			case x == "BIF_minus_unary("+p2+")":
				ret = ".neg2"
			case x == "mlrval.FromString("+p1+".String())":
				ret = ".str1"
			case x == "mlrval.FromString("+p2+".String())":
				ret = ".str2"
			}
		}
	}
	acq := map[string][]string{}
	divides := false
	ast.Inspect(fd.Body, func(n ast.Node) bool {
		switch x := n.(type) {
		case *ast.CallExpr:
			if sel, ok := x.Fun.(*ast.SelectorExpr); ok {
				if id, ok := sel.X.(*ast.Ident); ok && strings.HasPrefix(sel.Sel.Name, "Acquire") && strings.HasSuffix(sel.Sel.Name, "Value") {
					kind := strings.ToLower(strings.TrimSuffix(strings.TrimPrefix(sel.Sel.Name, "Acquire"), "Value"))
					acq[id.Name] = append(acq[id.Name], "."+kind)
				}
			}
		case *ast.BinaryExpr:
			if x.Op == token.QUO || x.Op == token.REM {
				// integer division if neither side is visibly a float conversion / float call
				l, r := exprString(fset, x.X), exprString(fset, x.Y)
				if !strings.Contains(l, "float64") && !strings.Contains(r, "float64") && !strings.Contains(l, "Float") && !strings.Contains(r, "Float") {
					divides = true
				}
			}
		}
		return true
	})
	list := func(xs []string) string { return "[" + strings.Join(xs, ", ") + "]" }
	return fmt.Sprintf("{ ret := %s, acq1 := %s, acq2 := %s, divides := %v }", ret, list(acq[p1]), list(acq[p2]), divides)
}
