module verif/gofacts

go 1.25.0
