package main

// Operator precedence REGENERATED from pkg/parsing/mlr.bnf: the chain of nonterminals from Rvalue
// down to the atoms, each with the operator symbols it introduces and its associativity (read off
// the shape of its productions: `X op Y` with X the level itself is left-associative, `Y op X`
// right-associative, `op X` a prefix level).

import (
	"os"
	"path/filepath"
	"regexp"
	"strings"
)

func genGrammar() {
	src, err := os.ReadFile(filepath.Join(*repo, "pkg/parsing/mlr.bnf"))
	if err != nil {
		fatal("mlr.bnf: " + err.Error())
	}
	text := string(src)
	// token definitions: op_xxx ::= 'c' 'c' ;
	tokRe := regexp.MustCompile(`(?m)^(op_[a-z_]+|colon)\s*::=\s*((?:'[^']+'\s*)+);`)
	toks := map[string]string{}
	for _, m := range tokRe.FindAllStringSubmatch(text, -1) {
		sym := ""
		for _, c := range regexp.MustCompile(`'([^']+)'`).FindAllStringSubmatch(m[2], -1) {
			sym += c[1]
		}
		toks[m[1]] = sym
	}
	// productions: Name ::= alt | alt ... ;   (strip comments and AST hints)
	noComments := regexp.MustCompile(`(?m)#.*$`).ReplaceAllString(text, "")
	noHints := regexp.MustCompile(`(?s)->\s*\{.*?\}`).ReplaceAllString(noComments, "")
	prodRe := regexp.MustCompile(`(?s)([A-Z][A-Za-z]*)\s*::=(.*?);`)
	prods := map[string][][]string{}
	for _, m := range prodRe.FindAllStringSubmatch(noHints, -1) {
		var alts [][]string
		for _, alt := range strings.Split(m[2], "|") {
			f := strings.Fields(alt)
			if len(f) > 0 {
				alts = append(alts, f)
			}
		}
		prods[m[1]] = alts
	}
	type level struct {
		name  string
		ops   []string
		assoc string
	}
	var chain []level
	cur := "Rvalue"
	seen := map[string]bool{}
	for !seen[cur] {
		seen[cur] = true
		alts, ok := prods[cur]
		if !ok {
			break
		}
		lv := level{name: cur}
		next := ""
		for _, a := range alts {
			switch {
			case len(a) == 1:
				if _, isProd := prods[a[0]]; isProd && next == "" {
					next = a[0]
				}
			case len(a) == 3 && toks[a[1]] != "": // binary
				lv.ops = append(lv.ops, toks[a[1]])
				as := "none"
				if a[0] == cur {
					as = "left"
				} else if a[2] == cur || a[2] == "UnarySignedPowRhs" {
					as = "right"
				}
				if lv.assoc == "" {
					lv.assoc = as
				} else if lv.assoc != as {
					lv.assoc = "mixed"
				}
			case len(a) == 2 && toks[a[0]] != "": // prefix
				lv.ops = append(lv.ops, toks[a[0]])
				if lv.assoc == "" {
					lv.assoc = "prefix"
				} else if lv.assoc != "prefix" {
					lv.assoc = "mixed"
				}
			case len(a) == 5 && toks[a[1]] != "" && toks[a[3]] != "": // ternary
				lv.ops = append(lv.ops, toks[a[1]]+toks[a[3]])
				if a[4] == cur {
					lv.assoc = "right"
				} else {
					lv.assoc = "left"
				}
			}
		}
		if len(lv.ops) > 0 {
			chain = append(chain, lv)
		}
		if next == "" || next == "MlrvalOrFunction" {
			break
		}
		cur = next
	}
	var b strings.Builder
	b.WriteString("namespace Miller.Gen\n\n")
	b.WriteString("/-- Operator levels of pkg/parsing/mlr.bnf from the LOOSEST (first) to the tightest: the operator\n")
	b.WriteString("symbols each level introduces (deduplicated, in order of appearance) and its associativity. -/\n")
	b.WriteString("def bnfPrecedence : List (List String × String) := [\n")
	for i, lv := range chain {
		var ops []string
		dup := map[string]bool{}
		for _, o := range lv.ops {
			if !dup[o] {
				dup[o] = true
				ops = append(ops, `"`+o+`"`)
			}
		}
		sep := ","
		if i == len(chain)-1 {
			sep = ""
		}
		b.WriteString("  ([" + strings.Join(ops, ", ") + `], "` + lv.assoc + `")` + sep + "   -- " + lv.name + "\n")
	}
	b.WriteString("]\n\nend Miller.Gen\n")
	emit("Grammar.lean", b.String())
}
