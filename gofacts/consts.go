package main

import "strings"

func genConsts() {
	var b strings.Builder
	b.WriteString("namespace Miller.Gen\n\nend Miller.Gen\n")
	emit("Consts.lean", b.String())
}

func genFacts() {
	var b strings.Builder
	b.WriteString("namespace Miller.Gen\n\nend Miller.Gen\n")
	emit("Facts.lean", b.String())
}
