package main

import (
	"fmt"
	"go/ast"
	"strings"
)

func genConsts() {
	var b strings.Builder
	b.WriteString("namespace Miller.Gen\n\nend Miller.Gen\n")
	emit("Consts.lean", b.String())
}

// enclosingFunc names for call sites
func funcName(fd *ast.FuncDecl) string {
	if fd.Recv != nil && len(fd.Recv.List) > 0 {
		t := fd.Recv.List[0].Type
		if st, ok := t.(*ast.StarExpr); ok {
			t = st.X
		}
		if id, ok := t.(*ast.Ident); ok {
			return id.Name + "." + fd.Name.Name
		}
	}
	return fd.Name.Name
}

func genFacts() {
	var b strings.Builder
	b.WriteString("namespace Miller.Gen\n\n")
	// --- C08: every call of an lvalue's Assign(...) in pkg/dsl/cst and whether it sits inside an
	// `if` whose condition tests IsAbsent() of the value being assigned.
	cst := loadPkg("pkg/dsl/cst")
	type site struct {
		where   string
		guarded bool
	}
	var sites []site
	for _, fn := range cst.names {
		f := cst.files[fn]
		for _, d := range f.Decls {
			fd, ok := d.(*ast.FuncDecl)
			if !ok || fd.Body == nil {
				continue
			}
			var walk func(n ast.Node, guarded bool)
			walk = func(n ast.Node, guarded bool) {
				if n == nil {
					return
				}
				switch x := n.(type) {
				case *ast.IfStmt:
					cond := exprString(cst.fset, x.Cond)
					g := guarded || strings.Contains(cond, "!") && strings.Contains(cond, "IsAbsent()")
					if x.Init != nil {
						walk(x.Init, guarded)
					}
					walk(x.Body, g)
					if x.Else != nil {
						walk(x.Else, guarded)
					}
					return
				case *ast.CallExpr:
					if sel, ok := x.Fun.(*ast.SelectorExpr); ok && (sel.Sel.Name == "Assign" || sel.Sel.Name == "AssignIndexed") {
						recv := exprString(cst.fset, sel.X)
						// calls from one lvalue node to another inside lvalues.go are delegation, not entry points
						if fn != "lvalues.go" {
							sites = append(sites, site{fmt.Sprintf("%s:%s:%s.%s", fn, funcName(fd), recv, sel.Sel.Name), guarded})
						}
					}
				}
				ast.Inspect(n, func(c ast.Node) bool {
					if c == n {
						return true
					}
					if c != nil {
						walk(c, guarded)
					}
					return false
				})
			}
			walk(fd.Body, false)
		}
	}
	b.WriteString("/-- C08: call sites of `<lvalue>.Assign…(…)` outside lvalues.go, and whether each is guarded by\n`if !rvalue.IsAbsent()`. -/\ndef assignCallSites : List (String × Bool) := [")
	for i, s := range sites {
		if i > 0 {
			b.WriteString(", ")
		}
		fmt.Fprintf(&b, "(%s, %v)", leanString(s.where), s.guarded)
	}
	b.WriteString("]\n\n")
	b.WriteString("end Miller.Gen\n")
	emit("Facts.lean", b.String())
}
