package main

import (
	"fmt"
	"go/ast"
	"go/token"
	"sort"
	"strings"
)

// intConst finds `const name = <int literal>` (or in a const block) in a package.
func intConst(p *pkgFiles, name string) string {
	for _, fn := range p.names {
		for _, d := range p.files[fn].Decls {
			gd, ok := d.(*ast.GenDecl)
			if !ok || gd.Tok != token.CONST {
				continue
			}
			for _, sp := range gd.Specs {
				vs := sp.(*ast.ValueSpec)
				for i, id := range vs.Names {
					if id.Name == name && i < len(vs.Values) {
						if bl, ok := vs.Values[i].(*ast.BasicLit); ok && bl.Kind == token.INT {
							return bl.Value
						}
					}
				}
			}
		}
	}
	fatal("integer constant %s not found", name)
	return ""
}

func genConsts() {
	var b strings.Builder
	b.WriteString("namespace Miller.Gen\n\n")
	out := loadPkg("pkg/output")
	b.WriteString("/-- pkg/output/file_output_handlers.go: how many redirected-output files are held open at once. -/\n")
	b.WriteString("def lruFileHandlerCapacity : Nat := " + intConst(out, "lruFileHandlerCapacity") + "\n")
	b.WriteString("\nend Miller.Gen\n")
	emit("Consts.lean", b.String())
}

// enclosingFunc names for call sites
func funcName(fd *ast.FuncDecl) string {
	if fd.Recv != nil && len(fd.Recv.List) > 0 {
		t := fd.Recv.List[0].Type
		if st, ok := t.(*ast.StarExpr); ok {
			t = st.X
		}
		if id, ok := t.(*ast.Ident); ok {
			return id.Name + "." + fd.Name.Name
		}
	}
	return fd.Name.Name
}

func genFacts() {
	var b strings.Builder
	b.WriteString("namespace Miller.Gen\n\n")
	// --- C08: every call of an lvalue's Assign(...) in pkg/dsl/cst and whether it sits inside an
	// `if` whose condition tests IsAbsent() of the value being assigned.
	cst := loadPkg("pkg/dsl/cst")
	type site struct {
		where   string
		guarded bool
	}
	var sites []site
	for _, fn := range cst.names {
		f := cst.files[fn]
		for _, d := range f.Decls {
			fd, ok := d.(*ast.FuncDecl)
			if !ok || fd.Body == nil {
				continue
			}
			var walk func(n ast.Node, guarded bool)
			walk = func(n ast.Node, guarded bool) {
				if n == nil {
					return
				}
				switch x := n.(type) {
				case *ast.IfStmt:
					cond := exprString(cst.fset, x.Cond)
					g := guarded || strings.Contains(cond, "!") && strings.Contains(cond, "IsAbsent()")
					if x.Init != nil {
						walk(x.Init, guarded)
					}
					walk(x.Body, g)
					if x.Else != nil {
						walk(x.Else, guarded)
					}
					return
				case *ast.CallExpr:
					if sel, ok := x.Fun.(*ast.SelectorExpr); ok && (sel.Sel.Name == "Assign" || sel.Sel.Name == "AssignIndexed") {
						recv := exprString(cst.fset, sel.X)
						// calls from one lvalue node to another inside lvalues.go are delegation, not entry points
						if fn != "lvalues.go" {
							sites = append(sites, site{fmt.Sprintf("%s:%s:%s.%s", fn, funcName(fd), recv, sel.Sel.Name), guarded})
						}
					}
				}
				ast.Inspect(n, func(c ast.Node) bool {
					if c == n {
						return true
					}
					if c != nil {
						walk(c, guarded)
					}
					return false
				})
			}
			walk(fd.Body, false)
		}
	}
	b.WriteString("/-- C08: call sites of `<lvalue>.Assign…(…)` outside lvalues.go, and whether each is guarded by\n`if !rvalue.IsAbsent()`. -/\ndef assignCallSites : List (String × Bool) := [")
	for i, s := range sites {
		if i > 0 {
			b.WriteString(", ")
		}
		fmt.Fprintf(&b, "(%s, %v)", leanString(s.where), s.guarded)
	}
	b.WriteString("]\n\n")
	// --- C03: which functions of pkg/mlrval write the retained text (printrep / printrepValid)
	mvp := loadPkg("pkg/mlrval")
	writers := map[string]bool{}
	for _, fn := range mvp.names {
		f := mvp.files[fn]
		for _, d := range f.Decls {
			switch x := d.(type) {
			case *ast.FuncDecl:
				if x.Body == nil {
					continue
				}
				name := funcName(x)
				ast.Inspect(x.Body, func(n ast.Node) bool {
					switch y := n.(type) {
					case *ast.AssignStmt:
						for _, l := range y.Lhs {
							if sel, ok := l.(*ast.SelectorExpr); ok && (sel.Sel.Name == "printrep" || sel.Sel.Name == "printrepValid") {
								writers[name] = true
							}
						}
					case *ast.KeyValueExpr:
						if id, ok := y.Key.(*ast.Ident); ok && (id.Name == "printrep" || id.Name == "printrepValid") {
							writers[name] = true
						}
					case *ast.StarExpr:
					}
					return true
				})
				// whole-struct overwrite "*mv = ..." also rewrites the text
				ast.Inspect(x.Body, func(n ast.Node) bool {
					if as, ok := n.(*ast.AssignStmt); ok {
						for _, l := range as.Lhs {
							if st, ok := l.(*ast.StarExpr); ok {
								if id, ok := st.X.(*ast.Ident); ok && x.Recv != nil && len(x.Recv.List) > 0 && len(x.Recv.List[0].Names) > 0 && id.Name == x.Recv.List[0].Names[0].Name {
									if strings.Contains(exprString(mvp.fset, x.Recv.List[0].Type), "Mlrval") {
										writers[name+"(*recv=)"] = true
									}
								}
							}
						}
					}
					return true
				})
			case *ast.GenDecl:
				// package-level composite literals (constants such as VOID, TRUE …)
				ast.Inspect(x, func(n ast.Node) bool {
					if kv, ok := n.(*ast.KeyValueExpr); ok {
						if id, ok := kv.Key.(*ast.Ident); ok && (id.Name == "printrep" || id.Name == "printrepValid") {
							writers["<package-level literal in "+fn+">"] = true
						}
					}
					return true
				})
			}
		}
	}
	var wl []string
	for w := range writers {
		wl = append(wl, w)
	}
	sort.Strings(wl)
	b.WriteString("/-- C03: every function of pkg/mlrval that assigns `printrep`/`printrepValid` (the retained\noriginal text of a value) or builds a Mlrval literal with them. -/\ndef printrepWriters : List String := [")
	for i, w := range wl {
		if i > 0 {
			b.WriteString(", ")
		}
		b.WriteString(leanString(w))
	}
	b.WriteString("]\n\n")
	// --- C03: in mlrval_infer.go, what text do the inference setters receive?
	b.WriteString("/-- C03: `(enclosing function, setter, first argument)` of every `SetFrom…String` call in\npkg/mlrval/mlrval_infer.go: the text handed to the setter that overwrites `printrep`. -/\ndef inferSetterCalls : List (String × String × String) := [")
	first := true
	if f := mvp.files["mlrval_infer.go"]; f != nil {
		for _, d := range f.Decls {
			fd, ok := d.(*ast.FuncDecl)
			if !ok || fd.Body == nil {
				continue
			}
			ast.Inspect(fd.Body, func(n ast.Node) bool {
				if ce, ok := n.(*ast.CallExpr); ok {
					if sel, ok := ce.Fun.(*ast.SelectorExpr); ok && strings.HasPrefix(sel.Sel.Name, "SetFrom") && len(ce.Args) > 0 {
						if !first {
							b.WriteString(", ")
						}
						first = false
						fmt.Fprintf(&b, "(%s, %s, %s)", leanString(funcName(fd)), leanString(sel.Sel.Name), leanString(exprString(mvp.fset, ce.Args[0])))
					}
				}
				return true
			})
		}
	}
	b.WriteString("]\n\n")
	genInPlaceFacts(&b)
	genErrorProtocolFacts(&b)
	b.WriteString("end Miller.Gen\n")
	emit("Facts.lean", b.String())
}


// --- C19: the ordered effectful calls of entrypoint.processFileInPlace, each with whether the
// `if err != nil` block that follows it removes the temporary file.
func genInPlaceFacts(b *strings.Builder) {
	ep := loadPkg("pkg/entrypoint")
	type step struct {
		call    string
		removes bool
		checked bool
	}
	var steps []step
	var fd *ast.FuncDecl
	for _, fn := range ep.names {
		for _, d := range ep.files[fn].Decls {
			if x, ok := d.(*ast.FuncDecl); ok && x.Name.Name == "processFileInPlace" {
				fd = x
			}
		}
	}
	if fd == nil {
		fatal("processFileInPlace not found")
	}
	callName := func(e ast.Expr) string {
		if c, ok := e.(*ast.CallExpr); ok {
			return exprString(ep.fset, c.Fun)
		}
		return ""
	}
	containsRemove := func(n ast.Node) bool {
		found := false
		ast.Inspect(n, func(c ast.Node) bool {
			if ce, ok := c.(*ast.CallExpr); ok && exprString(ep.fset, ce.Fun) == "os.Remove" {
				found = true
			}
			return true
		})
		return found
	}
	var walkStmt func(st ast.Stmt)
	walkBlock := func(bl *ast.BlockStmt) {
		for _, st := range bl.List {
			walkStmt(st)
		}
	}
	noteCalls := func(rhs []ast.Expr) {
		for _, e := range rhs {
			if n := callName(e); n != "" && n != "lib.VerifPoint" && n != "os.Remove" && n != "handle.Name" && n != "path.Dir" && n != "fileInfo.Mode" && n != "os.IsNotExist" {
				steps = append(steps, step{call: n})
			}
		}
	}
	walkStmt = func(st ast.Stmt) {
		switch x := st.(type) {
		case *ast.AssignStmt:
			noteCalls(x.Rhs)
		case *ast.ExprStmt:
			noteCalls([]ast.Expr{x.X})
		case *ast.IfStmt:
			if x.Init != nil {
				walkStmt(x.Init)
			}
			cond := exprString(ep.fset, x.Cond)
			if cond == "err != nil" || strings.Contains(cond, "os.IsNotExist(err)") {
				if len(steps) > 0 && !steps[len(steps)-1].checked {
					steps[len(steps)-1].checked = true
					steps[len(steps)-1].removes = containsRemove(x.Body)
				}
			} else {
				walkBlock(x.Body)
			}
		case *ast.ReturnStmt:
		}
	}
	walkBlock(fd.Body)
	b.WriteString("/-- C19: the effectful calls of entrypoint.processFileInPlace in statement order; for each, is its\nerror checked, and does the error branch remove the temporary file. -/\ndef inPlaceSteps : List (String × Bool × Bool) := [")
	for i, s := range steps {
		if i > 0 {
			b.WriteString(", ")
		}
		fmt.Fprintf(b, "(%s, %v, %v)", leanString(s.call), s.checked, s.removes)
	}
	b.WriteString("]\n\n")
}


// --- C17: the error-delivery protocol between a failing transformer, the writer and Stream.
func genErrorProtocolFacts(b *strings.Builder) {
	tr := loadPkg("pkg/transformers")
	st := loadPkg("pkg/stream")
	findFunc := func(p *pkgFiles, name string) *ast.FuncDecl {
		for _, fn := range p.names {
			for _, d := range p.files[fn].Decls {
				if x, ok := d.(*ast.FuncDecl); ok && x.Name.Name == name {
					return x
				}
			}
		}
		fatal("function %s not found", name)
		return nil
	}
	// F1: inside runSingleTransformerBatch, in the block guarded by `err != nil` that follows the
	// Transform call, the send on dataProcessingErrorChannel textually precedes the send on outputRecordChannel.
	rb := findFunc(tr, "runSingleTransformerBatch")
	errPos, markerPos := -1, -1
	ast.Inspect(rb.Body, func(n ast.Node) bool {
		ifs, ok := n.(*ast.IfStmt)
		if !ok || exprString(tr.fset, ifs.Cond) != "err != nil" {
			return true
		}
		ast.Inspect(ifs.Body, func(c ast.Node) bool {
			if s, ok := c.(*ast.SendStmt); ok {
				ch := exprString(tr.fset, s.Chan)
				if ch == "dataProcessingErrorChannel" && errPos < 0 {
					errPos = int(s.Pos())
				}
				if ch == "outputRecordChannel" && markerPos < 0 {
					markerPos = int(s.Pos())
				}
			}
			return true
		})
		return false
	})
	fmt.Fprintf(b, "/-- C17: in runSingleTransformerBatch's error branch the error is sent on dataProcessingErrorChannel\nBEFORE the end-of-stream marker is forwarded on outputRecordChannel. -/\ndef errorSendBeforeMarkerForward : Bool := %v\n\n", errPos >= 0 && markerPos >= 0 && errPos < markerPos)
	// F2/F3: in Stream, after the select loop: non-blocking receives (select with default) from the
	// error channels, and the final Flush error assigned to retval.
	sf := findFunc(st, "Stream")
	var drains []string
	flushChecked := false
	afterLoop := false
	for _, stmt := range sf.Body.List {
		if _, ok := stmt.(*ast.ForStmt); ok {
			afterLoop = true
			continue
		}
		if !afterLoop {
			continue
		}
		ast.Inspect(stmt, func(n ast.Node) bool {
			if sel, ok := n.(*ast.SelectStmt); ok {
				hasDefault := false
				var recv string
				for _, cc := range sel.Body.List {
					c := cc.(*ast.CommClause)
					if c.Comm == nil {
						hasDefault = true
						continue
					}
					ast.Inspect(c.Comm, func(m ast.Node) bool {
						if u, ok := m.(*ast.UnaryExpr); ok && u.Op == token.ARROW {
							recv = exprString(st.fset, u.X)
						}
						return true
					})
					// the received value must reach retval
					got := false
					for _, bs := range c.Body {
						if as, ok := bs.(*ast.AssignStmt); ok && len(as.Lhs) == 1 && exprString(st.fset, as.Lhs[0]) == "retval" {
							got = true
						}
					}
					if !got {
						recv = ""
					}
				}
				if hasDefault && recv != "" {
					drains = append(drains, recv)
				}
			}
			if ifs, ok := n.(*ast.IfStmt); ok && ifs.Init != nil && strings.Contains(exprString(st.fset, ifs.Cond), "err != nil") {
				if as, ok := ifs.Init.(*ast.AssignStmt); ok && len(as.Rhs) == 1 && strings.HasSuffix(callNameOf(st, as.Rhs[0]), ".Flush") {
					for _, bs := range ifs.Body.List {
						if a2, ok := bs.(*ast.AssignStmt); ok && exprString(st.fset, a2.Lhs[0]) == "retval" {
							flushChecked = true
						}
					}
				}
			}
			return true
		})
	}
	sort.Strings(drains)
	b.WriteString("/-- C17: channels that Stream drains with a non-blocking receive into retval after its select loop. -/\ndef streamFinalDrains : List String := [")
	for i, d := range drains {
		if i > 0 {
			b.WriteString(", ")
		}
		b.WriteString(leanString(d))
	}
	b.WriteString("]\n\n")
	fmt.Fprintf(b, "/-- C17: the error of the final bufferedOutputStream.Flush() is assigned to retval. -/\ndef streamFlushErrorChecked : Bool := %v\n\n", flushChecked)
	// capacity of the error channels
	caps := map[string]string{}
	ast.Inspect(sf.Body, func(n ast.Node) bool {
		if as, ok := n.(*ast.AssignStmt); ok && len(as.Lhs) == 1 && len(as.Rhs) == 1 {
			if ce, ok := as.Rhs[0].(*ast.CallExpr); ok && exprString(st.fset, ce.Fun) == "make" && len(ce.Args) == 2 {
				caps[exprString(st.fset, as.Lhs[0])] = exprString(st.fset, ce.Args[1])
			}
		}
		return true
	})
	fmt.Fprintf(b, "/-- C17: buffer capacity of dataProcessingErrorChannel (an error send must never block the sender). -/\ndef dataErrorChannelCapacity : Nat := %s\n\n", orZero(caps["dataProcessingErrorChannel"]))
}

func callNameOf(p *pkgFiles, e ast.Expr) string {
	if c, ok := e.(*ast.CallExpr); ok {
		return exprString(p.fset, c.Fun)
	}
	return ""
}

func orZero(s string) string {
	if s == "" {
		return "0"
	}
	return s
}
