#!/usr/bin/env python3
"""Common machinery of the checks (see DESIGN.md section 2.3).

A check = PROVE (lake build of the property's theorems against the regenerated Gen/ files,
axiom audit) + TIE (model vs real code on the same inputs, spec predicates evaluated on the
implementation's results) + SEARCH/REPORT (replay files, evidence, exit status).
"""
import fcntl
import hashlib
import json
import os
import re
import shutil
import subprocess
import sys
import time

VERIF = os.path.dirname(os.path.dirname(os.path.abspath(__file__)))
REPO = os.environ.get("VERIF_REPO", "/repo")
BUILD = os.path.join(VERIF, "build")
LEAN = os.path.join(VERIF, "lean")
GOENV = dict(os.environ, GOFLAGS="-mod=mod", GOPROXY="off")
GOENV.pop("GOTOOLCHAIN", None)
GOENV.pop("GOSUMDB", None)
ALLOWED_AXIOMS = {"propext", "Classical.choice", "Quot.sound"}
FORBIDDEN = re.compile(r"\b(sorry|admit|native_decide|bv_decide|implemented_by)\b|^axiom |unsafe |maxHeartbeats 0", re.M)


def log(*a):
    print(*a, file=sys.stderr, flush=True)


class Lock:
    def __init__(self, name):
        os.makedirs(BUILD, exist_ok=True)
        self.path = os.path.join(BUILD, "." + name + ".lock")

    def __enter__(self):
        self.f = open(self.path, "w")
        fcntl.flock(self.f, fcntl.LOCK_EX)
        return self

    def __exit__(self, *a):
        fcntl.flock(self.f, fcntl.LOCK_UN)
        self.f.close()


def run(cmd, cwd=None, env=None, timeout=None, stdin=None):
    p = subprocess.run(cmd, cwd=cwd, env=env, timeout=timeout, input=stdin,
                       stdout=subprocess.PIPE, stderr=subprocess.STDOUT, text=True, errors="replace")
    return p.returncode, p.stdout


# ----------------------------------------------------------------------------- build steps

def tree_fingerprint():
    """Cheap fingerprint of /repo's Go sources (mtime+size), to skip rebuilding when unchanged."""
    h = hashlib.sha256()
    for root, dirs, files in os.walk(REPO):
        dirs[:] = [d for d in dirs if d not in (".git", "docs", "test", "man")]
        for f in sorted(files):
            if f.endswith((".go", ".bnf", ".mod", ".sum")):
                p = os.path.join(root, f)
                st = os.stat(p)
                h.update(f"{p}:{st.st_mtime_ns}:{st.st_size}\n".encode())
    return h.hexdigest()


def build_gofacts_and_gen():
    """T1: regenerate MillerModel/Gen from /repo's current sources."""
    with Lock("gofacts"):
        exe = os.path.join(BUILD, "gofacts")
        rc, out = run(["go", "build", "-o", exe, "."], cwd=os.path.join(VERIF, "gofacts"), env=GOENV)
        if rc != 0:
            raise RuntimeError("gofacts build failed:\n" + out)
        rc, out = run([exe, "-repo", REPO, "-out", os.path.join(LEAN, "MillerModel", "Gen")])
        if rc != 0:
            raise RuntimeError("gofacts failed:\n" + out)


def build_harness():
    """Build mharness against /repo's current tree (module replace => /repo)."""
    with Lock("harness"):
        hd = os.path.join(VERIF, "harness")
        shutil.copyfile(os.path.join(REPO, "go.sum"), os.path.join(hd, "go.sum"))
        overlay = ensure_overlay()
        exe = os.path.join(BUILD, "mharness")
        rc, out = run(["go", "build", "-overlay", overlay, "-o", exe, "."], cwd=hd, env=GOENV)
        if rc != 0:
            return None, out
        return exe, out


def ensure_overlay():
    """The LR parser (pkg/parsing/parser/parser.go) is an empty file at the pinned commit; it is
    regenerated from mlr.bnf (cached by the grammar's hash) and substituted with -overlay."""
    ov = os.path.join(BUILD, "overlay.json")
    rc, out = run([os.path.join(VERIF, "bin", "build-mlr"), "overlay-only"], env=GOENV)
    if rc != 0:
        raise RuntimeError("parser regeneration failed:\n" + out)
    return ov


def build_mlr(tags=""):
    with Lock("mlr" + tags):
        rc, out = run([os.path.join(VERIF, "bin", "build-mlr")] + ([tags] if tags else []), env=GOENV)
        if rc != 0:
            return None, out
        return out.strip().splitlines()[-1], out


def lake_build(targets):
    with Lock("lake"):
        rc, out = run(["lake", "build"] + targets, cwd=LEAN)
    return rc, out


# ----------------------------------------------------------------------------- PROVE

def strip_comments(src):
    src = re.sub(r"/-.*?-/", "", src, flags=re.S)
    src = re.sub(r"--.*", "", src)
    return src


def theorem_names(path):
    src = open(path).read()
    names = []
    for m in re.finditer(r"^theorem\s+([A-Za-z0-9_'.]+)", strip_comments(src), re.M):
        names.append(m.group(1))
    return names


def theorem_lines(path):
    out = []
    for i, l in enumerate(open(path).read().splitlines(), 1):
        m = re.match(r"^theorem\s+([A-Za-z0-9_'.]+)", l)
        if m:
            out.append((i, m.group(1)))
    return out


def forbidden_scan():
    hits = []
    for root, _, files in os.walk(os.path.join(LEAN, "MillerModel")):
        for f in files:
            if f.endswith(".lean"):
                p = os.path.join(root, f)
                src = strip_comments(open(p).read())
                for m in FORBIDDEN.finditer(src):
                    hits.append(f"{os.path.relpath(p, LEAN)}: {m.group(0).strip()}")
    return hits


def prove(pid):
    """Build Props/<pid> against the regenerated Gen files; audit axioms.
    Returns dict(obligations, discharged, theorems: {name: {ok, axioms, why}}, log)."""
    mod = f"MillerModel.Props.{pid}"
    path = os.path.join(LEAN, "MillerModel", "Props", pid + ".lean")
    names = theorem_names(path)
    res = {n: {"ok": False, "axioms": None, "why": "not checked"} for n in names}
    rc, out = lake_build([mod, "mdriver"])
    buildlog = out
    if rc == 0:
        # axiom audit
        os.makedirs(os.path.join(BUILD, "audit"), exist_ok=True)
        ap = os.path.join(BUILD, "audit", pid + ".lean")
        with open(ap, "w") as f:
            f.write(f"import {mod}\n")
            for n in names:
                f.write(f"#print axioms Miller.Props.{pid}.{n}\n")
        rc2, aout = run(["lake", "env", "lean", ap], cwd=LEAN)
        buildlog += aout
        cur = None
        text = aout.replace("\n  ", " ")
        for m in re.finditer(r"'Miller\.Props\.%s\.([^']+)' (does not depend on any axioms|depends on axioms: \[([^\]]*)\])" % pid, text):
            n = m.group(1)
            axs = [a.strip() for a in (m.group(3) or "").split(",") if a.strip()]
            if n in res:
                bad = [a for a in axs if a not in ALLOWED_AXIOMS]
                res[n] = {"ok": not bad, "axioms": axs, "why": "" if not bad else "disallowed axioms " + ",".join(bad)}
        for n in names:
            if res[n]["axioms"] is None:
                res[n]["why"] = "no #print axioms output"
    else:
        # which theorems failed?  Elaborate the file directly if its imports built.
        rc3, eout = run(["lake", "env", "lean", path], cwd=LEAN)
        buildlog += eout
        tl = theorem_lines(path)
        deps_failed = ("error:" in out and pid + ".lean" not in out) or "unknown module" in eout or "object file" in eout
        errlines = [int(m.group(1)) for m in re.finditer(r"%s\.lean:(\d+):\d+: error" % pid, eout)]
        if deps_failed or (rc3 != 0 and not errlines):
            for n in names:
                res[n]["why"] = "dependency failed to build"
        else:
            failed = set()
            for el in errlines:
                owner = None
                for (ln, n) in tl:
                    if ln <= el:
                        owner = n
                if owner:
                    failed.add(owner)
                else:
                    failed.update(names)
            for n in names:
                if n in failed:
                    res[n] = {"ok": False, "axioms": None, "why": "proof no longer checks"}
                else:
                    res[n] = {"ok": True, "axioms": None, "why": "elaborated (module failed elsewhere; axioms not audited)"}
    hits = forbidden_scan()
    return {
        "obligations": len(names),
        "discharged": sum(1 for n in names if res[n]["ok"]) if not hits else 0,
        "theorems": res,
        "forbidden": hits,
        "log": buildlog[-6000:],
        "build_ok": rc == 0,
    }


# ----------------------------------------------------------------------------- TIE (T2)

def run_tie(pid, families, tier, seed, mharness, extra_ops_files=()):
    """corpus first, then generated cases: gen | eval | mdriver.  Returns tally dict."""
    os.makedirs(os.path.join(BUILD, "tie"), exist_ok=True)
    opsf = os.path.join(BUILD, "tie", f"{pid}.ops")
    casesf = os.path.join(BUILD, "tie", f"{pid}.cases")
    verdf = os.path.join(BUILD, "tie", f"{pid}.verdicts")
    with open(opsf, "w") as f:
        corpus = os.path.join(VERIF, "corpus", pid + ".ops")
        if os.path.exists(corpus):
            f.write(open(corpus).read())
        for p in extra_ops_files:
            f.write(open(p).read())
        f.flush()
        for fam in families:
            rc = subprocess.run([mharness, "gen", fam, tier, str(seed)], stdout=f, env=GOENV).returncode
            if rc != 0:
                raise RuntimeError(f"mharness gen {fam} failed")
    crash = None
    # Miller code may call os.Exit (clean "mlr: ..." error exits) or die with a fatal Go error inside
    # the in-process harness: restart after the offending op and record it as "exit" / "crash".
    env = dict(GOENV, GOMEMLIMIT="8GiB")
    remaining = [l.rstrip("\n") for l in open(opsf) if l.strip() and not l.startswith("#")]
    restarts = 0
    CHUNK = 4000     # ops handed to one harness process: a death forfeits (and re-sends) at most the chunk's remainder
    pos = 0
    # generated programs may write files (tee > $a.".tmp"): the harness runs in a scratch directory of its own
    scratch = os.path.join(BUILD, "tie", f"cwd-{pid}")
    shutil.rmtree(scratch, ignore_errors=True)
    os.makedirs(scratch)
    with open(casesf, "w") as fout:
        while pos < len(remaining):
            chunk = remaining[pos:pos + CHUNK]
            hung = False
            try:
                p = subprocess.run([mharness, "eval"], input="\n".join(chunk) + "\n", stdout=subprocess.PIPE,
                                   stderr=subprocess.PIPE, env=env, text=True, errors="replace", timeout=900, cwd=scratch)
            except subprocess.TimeoutExpired as te:
                # an op that never returns inside the real code: everything printed before it is kept
                hung = True
                class _P: pass
                p = _P()
                so = te.stdout or ""
                p.stdout = so if isinstance(so, str) else so.decode(errors="replace")
                se = te.stderr or ""
                p.stderr = se if isinstance(se, str) else se.decode(errors="replace")
                p.returncode = -9
            lines = p.stdout.split("\n")
            if lines and lines[-1] == "":
                lines.pop()
            elif lines:
                lines.pop()  # incomplete last line
            lines = lines[:len(chunk)]
            for l in lines:
                fout.write(l + "\n")
            pos += len(lines)
            if len(lines) >= len(chunk):
                continue
            culprit = chunk[len(lines)]
            err = p.stderr[-600:]
            kind = "exit" if (p.returncode == 1 and "mlr" in err and "goroutine" not in err and "panic" not in err) else "crash"
            if hung:
                kind = "hang"
            fout.write(culprit + " | " + kind + "\n")
            if kind in ("crash", "hang") and crash is None:
                crash = {"op": culprit, "stderr": err}
            pos += 1
            restarts += 1
            if restarts > 40000:
                raise RuntimeError("too many harness restarts")
    shutil.rmtree(scratch, ignore_errors=True)
    mdriver = os.path.join(LEAN, ".lake", "build", "bin", "mdriver")
    with open(casesf) as fin, open(verdf, "w") as fout:
        p = subprocess.run([mdriver], stdin=fin, stdout=fout, stderr=subprocess.PIPE, text=True, errors="replace")
        if p.returncode != 0:
            raise RuntimeError("mdriver failed: " + p.stderr[-2000:])
    tally = {"evaluations": 0, "ok": 0, "diff": [], "spec": {}, "bad": [], "by_op": {}, "distinct": set(),
             "impl_kinds": {}, "samples": [], "crash": None}
    nops = sum(1 for l in open(opsf) if l.strip() and not l.startswith("#"))
    with open(casesf) as fc, open(verdf) as fv:
        for case, verdict in zip(fc, fv):
            case = case.rstrip("\n")
            verdict = verdict.rstrip("\n")
            tally["evaluations"] += 1
            op = case.split(" ", 1)[0]
            tally["by_op"][op] = tally["by_op"].get(op, 0) + 1
            impl = case.rsplit(" | ", 1)[-1]
            m0 = re.match(r"[A-Za-z_]+", impl)
            kind = op + ":" + (m0.group(0)[:12] if m0 else ("empty" if impl in ("", "-") else "data"))
            tally["impl_kinds"][kind] = tally["impl_kinds"].get(kind, 0) + 1
            tally["distinct"].add(hash(case))
            if len(tally["samples"]) < 12 and tally["evaluations"] % 9973 == 1:
                tally["samples"].append(case)
            if verdict == "OK" or verdict == "OK unmodelled":
                tally["ok"] += 1
                if verdict != "OK":
                    tally["unmodelled"] = tally.get("unmodelled", 0) + 1
                    if len(tally.setdefault("unmodelled_examples", [])) < 3:
                        tally["unmodelled_examples"].append(case[:200])
                continue
            if verdict.startswith("BAD"):
                tally["bad"].append((case, verdict))
                continue
            if verdict.startswith("DIFF"):
                if len(tally["diff"]) < 50:
                    tally["diff"].append((case, verdict))
                else:
                    tally["diff_more"] = tally.get("diff_more", 0) + 1
            m = re.search(r"SPEC tag=(\S+) want=(.*)$", verdict)
            if m:
                tag = m.group(1)
                e = tally["spec"].setdefault(tag, {"count": 0, "examples": []})
                e["count"] += 1
                if len(e["examples"]) < 5:
                    e["examples"].append((case, m.group(2)))
    if crash is not None:
        tally["crash"] = crash
    tally["harness_restarts"] = restarts
    tally["distinct"] = len(tally["distinct"])
    return tally


# ----------------------------------------------------------------------------- findings / report

def load_known():
    p = os.path.join(VERIF, "known_findings.json")
    if not os.path.exists(p):
        return []
    return json.load(open(p)).get("findings", [])


class Report:
    def __init__(self, pid, tier, seed):
        self.pid, self.tier, self.seed = pid, tier, seed
        self.t0 = time.time()
        self.violations = []   # dicts: {kind, what, failing_input(bool), detail}
        self.known_lines = []
        self.coverage = {"samples": []}
        self.assumptions = []
        self.known = [k for k in load_known() if k["property"] == pid]

    def known_tag(self, tag):
        for k in self.known:
            if k.get("tag") == tag:
                return k
        return None

    def violation(self, kind, what, detail, failing_input):
        self.violations.append({"kind": kind, "what": what, "detail": detail, "failing_input": failing_input})

    def known_finding(self, k, count, example):
        self.known_lines.append(f"KNOWN-FINDING: property={self.pid} {k['what']} [tag={k.get('tag')}, {count} case(s) this run, e.g. {example[:400]}]")

    def absorb_prove(self, pr):
        cov = self.coverage
        cov["obligations"] = pr["obligations"]
        cov["discharged"] = pr["discharged"]
        cov["theorems"] = {n: (("ok " + ",".join(t["axioms"] or [])) if t["ok"] else "FAILED: " + t["why"]) for n, t in pr["theorems"].items()}
        cov["checker_cmd"] = f"cd lean && lake build MillerModel.Props.{self.pid} && lake env lean ../build/audit/{self.pid}.lean  (#print axioms for every theorem)"
        if pr["forbidden"]:
            self.violation("proof", "forbidden construct in Lean sources: " + "; ".join(pr["forbidden"][:5]), {}, False)
        for n, t in pr["theorems"].items():
            if not t["ok"]:
                self.violation("proof", f"theorem Miller.Props.{self.pid}.{n} no longer checks ({t['why']})",
                               {"theorem": n, "log_tail": pr["log"][-1500:]}, False)

    def absorb_tie(self, tally, describe=lambda case: case):
        cov = self.coverage
        cov["evaluations"] = cov.get("evaluations", 0) + tally["evaluations"]
        cov["distinct_nontrivial"] = cov.get("distinct_nontrivial", 0) + tally["distinct"]
        cov.setdefault("correspondence", {})
        cov["correspondence"].update({"cases": tally["evaluations"], "agree": tally["ok"], "by_op": tally["by_op"],
                                      "impl_result_kinds": tally["impl_kinds"],
                                      "model_diffs": len(tally["diff"]) + tally.get("diff_more", 0),
                                      "outside_model_cases": tally.get("unmodelled", 0),
                                      "outside_model_examples": tally.get("unmodelled_examples", []),
                                      "spec_failures_by_tag": {t: e["count"] for t, e in tally["spec"].items()}})
        cov["samples"].extend(tally["samples"])
        for case, verdict in tally["bad"][:3]:
            self.violation("harness", "malformed protocol line (harness/driver bug)", {"case": case, "verdict": verdict}, False)
        for tag, e in tally["spec"].items():
            k = self.known_tag(tag)
            case, want = e["examples"][0]
            if k is not None and tag != "-":
                self.known_finding(k, e["count"], describe(case))
            else:
                self.violation("spec", f"implementation result violates the property (class {tag}): {describe(case)} ; the property requires {want}",
                               {"case": case, "wanted": want, "tag": tag, "count": e["count"], "more": e["examples"][1:]}, True)
        for case, verdict in tally["diff"][:5]:
            # the model is proved to meet the specification, so an input on which the implementation
            # departs from the model is a concrete input on which the implementation departs from it too
            self.violation("correspondence", f"model and implementation disagree: {describe(case)} ; {verdict}",
                           {"case": case, "verdict": verdict}, True)
        if tally["crash"]:
            self.violation("crash", "the in-process harness died (fatal Go error) while evaluating: " + tally["crash"]["op"],
                           {"case": tally["crash"]["op"], "stderr": tally["crash"]["stderr"]}, True)

    def finish(self, level="proof", trusted_base=(), rule=""):
        cov = self.coverage
        cov["trusted_base"] = list(trusted_base)
        cov["rule"] = rule
        cov.setdefault("evaluations", 0)
        cov.setdefault("distinct_nontrivial", 0)
        cov["known_findings_seen"] = len(self.known_lines)
        ev = {
            "property_id": self.pid, "tier": self.tier, "seed": self.seed, "level": level,
            "coverage": cov, "assumptions": self.assumptions,
            "wall_s": round(time.time() - self.t0, 2), "violations": len(self.violations),
        }
        os.makedirs(os.path.join(VERIF, "evidence"), exist_ok=True)
        with open(os.path.join(VERIF, "evidence", self.pid + ".json"), "w") as f:
            json.dump(ev, f, indent=1, default=str)
        for l in self.known_lines:
            print(l)
        if not self.violations:
            print(f"OK property={self.pid} tier={self.tier} seed={self.seed} obligations={cov.get('obligations')} discharged={cov.get('discharged')} evaluations={cov['evaluations']} wall_s={ev['wall_s']}")
            return 0
        # one replay file; prefer a violation that carries a failing input
        os.makedirs(os.path.join(VERIF, "replays"), exist_ok=True)
        withinput = [v for v in self.violations if v["failing_input"]]
        k = 1
        while os.path.exists(os.path.join(VERIF, "replays", f"{self.pid}-{k}.json")):
            k += 1
        rp = os.path.join("replays", f"{self.pid}-{k}.json")
        with open(os.path.join(VERIF, rp), "w") as f:
            json.dump({"property": self.pid, "tier": self.tier, "seed": self.seed,
                       "failing_input_found": bool(withinput),
                       "primary": (withinput or self.violations)[0],
                       "all": self.violations[:40],
                       "replay": f"./bin/check {self.pid} --replay {rp}"}, f, indent=1, default=str)
        for v in self.violations[:10]:
            log("violation:", v["kind"], "-", v["what"][:400])
        suffix = "" if withinput else " no-failing-input-found"
        print(f"VIOLATION property={self.pid} replay={rp}{suffix}")
        return 1
