namespace Tsv

abbrev Bytes := List UInt8

abbrev bs : UInt8 := 92   -- '\\'
abbrev lf : UInt8 := 10
abbrev cr : UInt8 := 13
abbrev tab : UInt8 := 9

/-- TSVEncodeField, on bytes (valid for valid-UTF-8 input: the Go loop ranges over runes but only
ASCII runes are rewritten, all others are re-emitted unchanged). -/
def encode : Bytes → Bytes
  | [] => []
  | c :: rest =>
    if c = bs then bs :: bs :: encode rest
    else if c = lf then bs :: 110 :: encode rest
    else if c = cr then bs :: 114 :: encode rest
    else if c = tab then bs :: 116 :: encode rest
    else c :: encode rest

/-- TSVDecodeField. -/
def decode : Bytes → Bytes
  | [] => []
  | [c] => [c]
  | c :: d :: rest =>
    if c = bs then
      if d = bs then bs :: decode rest
      else if d = 110 then lf :: decode rest
      else if d = 114 then cr :: decode rest
      else if d = 116 then tab :: decode rest
      else c :: decode (d :: rest)
    else c :: decode (d :: rest)

theorem decode_cons_ne (c : UInt8) (rest : Bytes) (h : c ≠ bs) :
    decode (c :: rest) = c :: decode rest := by
  cases rest with
  | nil => simp [decode]
  | cons d r => simp [decode, h]

theorem decode_encode (s : Bytes) : decode (encode s) = s := by
  induction s with
  | nil => simp [encode, decode]
  | cons c rest ih =>
    unfold encode
    split
    · next h => subst h; simp [decode, ih]
    · split
      · next h => subst h; simp [decode, ih, bs, lf]
      · split
        · next h => subst h; simp [decode, ih, bs, cr]
        · split
          · next h => subst h; simp [decode, ih, bs, tab]
          · next h1 h2 h3 h4 => rw [decode_cons_ne _ _ h1, ih]

/-- encoded text never contains a raw TAB / LF / CR: fields and lines split unambiguously -/
theorem encode_no_sep (s : Bytes) : tab ∉ encode s ∧ lf ∉ encode s ∧ cr ∉ encode s := by
  induction s with
  | nil => simp [encode]
  | cons c rest ih =>
    unfold encode
    obtain ⟨h1, h2, h3⟩ := ih
    split
    · simp_all <;> decide
    · split
      · simp_all <;> decide
      · split
        · simp_all <;> decide
        · split
          · simp_all <;> decide
          · simp_all
            refine ⟨?_, ?_, ?_⟩ <;> intro h <;> simp_all
end Tsv
