namespace Pipe
abbrev Item := Nat

/-- a stage as a causal stream function: total output after having consumed `recv` -/
structure Cell where
  f      : List Item → List Item
  chanIn : List Item      -- FIFO queue feeding this stage
  recv   : List Item      -- everything consumed so far
  sent   : Nat            -- how many of `f recv` have been forwarded
  cap    : Nat            -- capacity of chanIn

def Causal (f : List Item → List Item) : Prop := ∀ xs ys, f xs <+: f (xs ++ ys)

structure St where
  input : List Item
  k     : Nat              -- how many input items the source has pushed
  cells : List Cell
  chanW : List Item        -- chain -> writer
  capW  : Nat
  out   : List Item        -- stdout

/-- push `x` into the queue that follows a given suffix of cells (next cell's chanIn, or chanW) -/
def pushNext (x : Item) : List Cell → List Item → Option (List Cell × List Item)
  | [], w => some ([], w ++ [x])
  | c :: cs, w => some ({ c with chanIn := c.chanIn ++ [x] } :: cs, w)

def roomNext (capW : Nat) : List Cell → List Item → Bool
  | [], w => w.length < capW
  | c :: _, _ => c.chanIn.length < c.cap

/-- one step somewhere inside the cell list: consume or produce at some position -/
inductive CellStep (capW : Nat) : List Cell → List Item → List Cell → List Item → Prop
  | consume (c : Cell) (x : Item) (q : List Item) (cs : List Cell) (w : List Item)
      (h : c.chanIn = x :: q) :
      CellStep capW (c :: cs) w ({ c with chanIn := q, recv := c.recv ++ [x] } :: cs) w
  | produce (c : Cell) (x : Item) (cs cs' : List Cell) (w w' : List Item)
      (hx : (c.f c.recv)[c.sent]? = some x) (hroom : roomNext capW cs w = true)
      (hp : pushNext x cs w = some (cs', w')) :
      CellStep capW (c :: cs) w ({ c with sent := c.sent + 1 } :: cs') w'
  | tail (c : Cell) (cs cs' : List Cell) (w w' : List Item)
      (h : CellStep capW cs w cs' w') : CellStep capW (c :: cs) w (c :: cs') w'

inductive Step : St → St → Prop
  | source (s : St) (x : Item) (cs' : List Cell) (w' : List Item)
      (hx : s.input[s.k]? = some x) (hroom : roomNext s.capW s.cells s.chanW = true)
      (hp : pushNext x s.cells s.chanW = some (cs', w')) :
      Step s { s with k := s.k + 1, cells := cs', chanW := w' }
  | inner (s : St) (cs' : List Cell) (w' : List Item)
      (h : CellStep s.capW s.cells s.chanW cs' w') : Step s { s with cells := cs', chanW := w' }
  | write (s : St) (x : Item) (q : List Item) (h : s.chanW = x :: q) :
      Step s { s with chanW := q, out := s.out ++ [x] }

/-- history invariant, threaded from upstream to downstream -/
def InvFrom (hist : List Item) : List Cell → List Item → List Item → Prop
  | [], w, out => out ++ w = hist
  | c :: cs, w, out =>
      c.recv ++ c.chanIn = hist ∧ c.sent ≤ (c.f c.recv).length ∧
      InvFrom ((c.f c.recv).take c.sent) cs w out

def Inv (s : St) : Prop := s.k ≤ s.input.length ∧ InvFrom (s.input.take s.k) s.cells s.chanW s.out

def specFrom (hist : List Item) : List Cell → List Item
  | [] => hist
  | c :: cs => specFrom (c.f hist) cs

def spec (s : St) : List Item := specFrom s.input s.cells

theorem invFrom_push (x : Item) : ∀ (cs : List Cell) (w out hist : List Item) cs' w',
    InvFrom hist cs w out → pushNext x cs w = some (cs', w') → InvFrom (hist ++ [x]) cs' w' out := by
  intro cs w out hist cs' w' h hp
  cases cs with
  | nil => simp [pushNext] at hp; obtain ⟨rfl, rfl⟩ := hp; simp [InvFrom] at *; rw [← h]; simp
  | cons c cs =>
    simp [pushNext] at hp; obtain ⟨rfl, rfl⟩ := hp
    obtain ⟨h1, h2, h3⟩ := h
    exact ⟨by simp [← h1], h2, h3⟩

theorem take_succ_getElem? {l : List Item} {n : Nat} {x : Item} (h : l[n]? = some x) :
    l.take (n+1) = l.take n ++ [x] := by
  rw [List.take_add_one, h]; rfl

theorem cellStep_inv (capW : Nat) : ∀ cs w cs' w', CellStep capW cs w cs' w' →
    ∀ hist out, (∀ c ∈ cs, Causal c.f) → InvFrom hist cs w out → InvFrom hist cs' w' out := by
  intro cs w cs' w' hstep
  induction hstep with
  | consume c x q cs w h =>
    intro hist out hc ⟨h1, h2, h3⟩
    refine ⟨by simp [← h1, h], ?_, ?_⟩
    · have := (hc c (by simp)) c.recv [x]
      exact Nat.le_trans h2 this.length_le
    · have hp := (hc c (by simp)) c.recv [x]
      have : (c.f (c.recv ++ [x])).take c.sent = (c.f c.recv).take c.sent := by
        obtain ⟨t, ht⟩ := hp
        rw [← ht, List.take_append_of_le_length h2]
      simpa [this] using h3
  | produce c x cs cs' w w' hx hroom hp =>
    intro hist out hc ⟨h1, h2, h3⟩
    have hlt : c.sent < (c.f c.recv).length := by
      rcases Nat.lt_or_ge c.sent (c.f c.recv).length with h | h
      · exact h
      · rw [List.getElem?_eq_none h] at hx; cases hx
    refine ⟨h1, hlt, ?_⟩
    show InvFrom ((c.f c.recv).take (c.sent + 1)) cs' w' out
    rw [take_succ_getElem? hx]
    exact invFrom_push x cs w out _ cs' w' h3 hp
  | tail c cs cs' w w' _ ih =>
    intro hist out hc ⟨h1, h2, h3⟩
    exact ⟨h1, h2, ih _ _ (fun d hd => hc d (by simp [hd])) h3⟩

theorem step_inv (s s' : St) (hc : ∀ c ∈ s.cells, Causal c.f) (h : Step s s') (hi : Inv s) : Inv s' := by
  obtain ⟨hk, hi⟩ := hi
  cases h with
  | source x cs' w' hx hroom hp =>
    have hlt : s.k < s.input.length := by
      rcases Nat.lt_or_ge s.k s.input.length with h | h
      · exact h
      · rw [List.getElem?_eq_none h] at hx; cases hx
    refine ⟨hlt, ?_⟩
    show InvFrom (s.input.take (s.k+1)) cs' w' s.out
    rw [take_succ_getElem? hx]
    exact invFrom_push x _ _ _ _ _ _ hi hp
  | inner cs' w' h => exact ⟨hk, cellStep_inv _ _ _ _ _ h _ _ hc hi⟩
  | write x q h =>
    refine ⟨hk, ?_⟩
    show InvFrom _ s.cells q (s.out ++ [x])
    have : ∀ cs hist, InvFrom hist cs s.chanW s.out → InvFrom hist cs q (s.out ++ [x]) := by
      intro cs
      induction cs with
      | nil => intro hist hh; simp only [InvFrom] at *; rw [← hh, h]; simp
      | cons c cs ih => intro hist ⟨a, b, c'⟩; exact ⟨a, b, ih _ c'⟩
    exact this _ _ hi

/-- monotonicity of the spec in the upstream history -/
theorem specFrom_mono : ∀ (cs : List Cell), (∀ c ∈ cs, Causal c.f) →
    ∀ h h', h <+: h' → specFrom h cs <+: specFrom h' cs := by
  intro cs
  induction cs with
  | nil => intro _ h h' hp; exact hp
  | cons c cs ih =>
    intro hc h h' ⟨t, ht⟩
    apply ih (fun d hd => hc d (by simp [hd]))
    rw [← ht]; exact hc c (by simp) h t

/-- SAFETY: under every schedule stdout is a prefix of the sequential spec -/
theorem out_prefix : ∀ (cs : List Cell), (∀ c ∈ cs, Causal c.f) →
    ∀ hist w out, InvFrom hist cs w out → out <+: specFrom hist cs := by
  intro cs
  induction cs with
  | nil => intro _ hist w out h; exact ⟨w, h⟩
  | cons c cs ih =>
    intro hc hist w out ⟨h1, h2, h3⟩
    have hc' : ∀ d ∈ cs, Causal d.f := fun d hd => hc d (by simp [hd])
    have p1 := ih hc' _ _ _ h3
    have p2 : (c.f c.recv).take c.sent <+: c.f hist := by
      have := hc c (by simp) c.recv c.chanIn
      rw [h1] at this
      exact (List.take_prefix _ _).trans this
    exact p1.trans (specFrom_mono cs hc' _ _ p2)

theorem safety (s : St) (hc : ∀ c ∈ s.cells, Causal c.f) (hi : Inv s) : s.out <+: spec s := by
  obtain ⟨hk, hi⟩ := hi
  have := out_prefix s.cells hc _ _ _ hi
  exact this.trans (specFrom_mono _ hc _ _ (List.take_prefix _ _))

end Pipe
