namespace Arith

def wrap (x : Int) : Int := (x + 9223372036854775808) % 18446744073709551616 - 9223372036854775808
def fits (x : Int) : Bool := decide (-9223372036854775808 ≤ x) && decide (x ≤ 9223372036854775807)

inductive Num where
  | int (v : Int)
  | flt (exact : Int)
deriving DecidableEq, Repr

def plus_n_ii (a b : Int) : Num :=
  let c := wrap (a + b)
  let overflowed :=
    if 0 < a then (decide (0 < b) && decide (c < 0))
    else if a < 0 then (decide (b < 0) && decide (0 < c))
    else false
  if overflowed then .flt (a + b) else .int c

def plus_spec (a b : Int) : Num :=
  if fits (a+b) then .int (a+b) else .flt (a+b)

theorem plus_n_ii_wraps : plus_n_ii (-9223372036854775808) (-9223372036854775808) ≠ plus_spec (-9223372036854775808) (-9223372036854775808) := by decide

theorem plus_n_ii_partial (a b : Int) (ha : fits a = true) (hb : fits b = true)
    (h : ¬ (a = -9223372036854775808 ∧ b = -9223372036854775808)) : plus_n_ii a b = plus_spec a b := by
  simp [fits] at ha hb
  simp only [plus_n_ii, plus_spec, fits, wrap]
  by_cases h1 : 0 < a <;> by_cases h2 : a < 0 <;> by_cases h3 : 0 < b <;> by_cases h4 : b < 0 <;>
    simp [h1, h2, h3, h4] <;> (try split) <;> (try split) <;> (try simp) <;> omega
end Arith
