-- originally: import Spike.Pipe (PipeSafety.lean)
namespace Pipe

def Cell.quiet (c : Cell) : Prop := c.chanIn = [] ∧ c.sent = (c.f c.recv).length

def Finished (s : St) : Prop :=
  s.k = s.input.length ∧ (∀ c ∈ s.cells, c.quiet) ∧ s.chanW = []

def CapsPos (s : St) : Prop := 0 < s.capW ∧ ∀ c ∈ s.cells, 0 < c.cap

theorem pushNext_some (x : Item) (cs : List Cell) (w : List Item) :
    ∃ cs' w', pushNext x cs w = some (cs', w') := by
  cases cs <;> simp [pushNext]

/-- in a suffix of cells whose downstream queue has room: either some cell can move or all are quiet -/
theorem cells_progress (capW : Nat) (hW : 0 < capW) : ∀ (cs : List Cell) (w : List Item),
    (∀ c ∈ cs, 0 < c.cap) → (∀ c ∈ cs, c.sent ≤ (c.f c.recv).length) → w = [] →
    (∃ cs' w', CellStep capW cs w cs' w') ∨ (∀ c ∈ cs, c.quiet) := by
  intro cs
  induction cs with
  | nil => intro w _ _ _; right; simp
  | cons c cs ih =>
    intro w hcap hsent hw
    have hcap' : ∀ d ∈ cs, 0 < d.cap := fun d hd => hcap d (by simp [hd])
    have hsent' : ∀ d ∈ cs, d.sent ≤ (d.f d.recv).length := fun d hd => hsent d (by simp [hd])
    rcases ih w hcap' hsent' hw with ⟨cs', w', h⟩ | hq
    · exact Or.inl ⟨_, _, CellStep.tail c cs cs' w w' h⟩
    · -- everything downstream is quiet, so the queue after `c` is empty: room
      have hroom : roomNext capW cs w = true := by
        cases cs with
        | nil => simp [roomNext, hw, hW]
        | cons d ds =>
          have := (hq d (by simp)).1
          simp [roomNext, this, hcap d (by simp)]
      cases hci : c.chanIn with
      | cons x q => exact Or.inl ⟨_, _, CellStep.consume c x q cs w hci⟩
      | nil =>
        rcases Nat.lt_or_ge c.sent (c.f c.recv).length with hlt | hge
        · obtain ⟨cs', w', hp⟩ := pushNext_some ((c.f c.recv)[c.sent]) cs w
          exact Or.inl ⟨_, _, CellStep.produce c _ cs cs' w w' (List.getElem?_eq_getElem hlt) hroom hp⟩
        · right
          intro d hd
          rcases List.mem_cons.mp hd with rfl | hd
          · exact ⟨hci, Nat.le_antisymm (hsent _ (by simp)) hge⟩
          · exact hq d hd

theorem invFrom_sent_le : ∀ (cs : List Cell) hist w out, InvFrom hist cs w out →
    ∀ c ∈ cs, c.sent ≤ (c.f c.recv).length := by
  intro cs
  induction cs with
  | nil => intro _ _ _ _ c hc; cases hc
  | cons d ds ih =>
    intro hist w out ⟨_, h2, h3⟩ c hc
    rcases List.mem_cons.mp hc with rfl | hc
    · exact h2
    · exact ih _ _ _ h3 c hc

/-- DEADLOCK FREEDOM: every reachable-invariant, unfinished state can step -/
theorem no_deadlock (s : St) (hcaps : CapsPos s) (hi : Inv s) (hnf : ¬ Finished s) :
    ∃ s', Step s s' := by
  obtain ⟨hW, hC⟩ := hcaps
  cases hw : s.chanW with
  | cons x q => exact ⟨_, Step.write s x q hw⟩
  | nil =>
    rcases cells_progress s.capW hW s.cells s.chanW hC (invFrom_sent_le _ _ _ _ hi.2) hw with
      ⟨cs', w', h⟩ | hq
    · exact ⟨_, Step.inner s cs' w' h⟩
    · rcases Nat.lt_or_ge s.k s.input.length with hlt | hge
      · have hroom : roomNext s.capW s.cells s.chanW = true := by
          cases hcs : s.cells with
          | nil => simp [roomNext, hw, hW]
          | cons d ds =>
            have hd : d ∈ s.cells := by simp [hcs]
            simp [roomNext, (hq d hd).1, hC d hd]
        obtain ⟨cs', w', hp⟩ := pushNext_some (s.input[s.k]) s.cells s.chanW
        exact ⟨_, Step.source s _ cs' w' (List.getElem?_eq_getElem hlt) hroom hp⟩
      · exact absurd ⟨Nat.le_antisymm hi.1 hge, hq, hw⟩ hnf

/-- at a finished state stdout IS the spec -/
theorem finished_out : ∀ (cs : List Cell) hist w out, InvFrom hist cs w out → (∀ c ∈ cs, c.quiet) →
    w = [] → out = specFrom hist cs := by
  intro cs
  induction cs with
  | nil => intro hist w out h _ hw; simp [InvFrom, hw] at h; simpa [specFrom] using h
  | cons c cs ih =>
    intro hist w out ⟨h1, _, h3⟩ hq hw
    have ⟨q1, q2⟩ := hq c (by simp)
    have hrecv : c.recv = hist := by simpa [q1] using h1
    have := ih _ _ _ h3 (fun d hd => hq d (by simp [hd])) hw
    rw [this, q2, List.take_length, hrecv]; rfl

theorem terminal_output (s : St) (hi : Inv s) (hf : Finished s) : s.out = spec s := by
  obtain ⟨hk, hq, hw⟩ := hf
  have := finished_out _ _ _ _ hi.2 hq hw
  rw [this, hk, List.take_length]; rfl
end Pipe
