namespace Fl
/-- round a natural number to 53 significant bits, ties to even (IEEE-754 binary64 on integers below 2^1024) -/
def rne53N (n : Nat) : Nat :=
  if n < 2^53 then n else
    let e := Nat.log2 n - 52
    let q := n >>> e
    let r := n % 2^e
    let half := 2^(e-1)
    let q' := if r > half then q+1 else if r < half then q else (if q % 2 = 0 then q else q+1)
    q' <<< e

def rne53 (x : Int) : Int := if x < 0 then -(rne53N x.natAbs) else rne53N x.natAbs

def wrap (x : Int) : Int := (x + 9223372036854775808) % 18446744073709551616 - 9223372036854775808

inductive Num where
  | int (v : Int)
  | flt (v : Int)     -- an integer-valued double
deriving DecidableEq, Repr

def times_n_ii (a b : Int) : Num :=
  let c := rne53 (rne53 a * rne53 b)
  if c.natAbs > 9223372036854774784 then .flt c else .int (wrap (a*b))

#eval times_n_ii 16440948372290153 561
#eval times_n_ii 9223372036854775807 1
#eval times_n_ii 3037000500 3037000500

theorem times_wraps : times_n_ii 16440948372290153 561 = .int (-9223372036854775783) := by decide
theorem times_wraps' : times_n_ii 16440948372290153 561 ≠ .flt (rne53 (16440948372290153 * 561)) := by decide
end Fl
