import Spike.Basic
def hexVal (c : Char) : UInt8 :=
  if c.isDigit then (c.toNat - 48).toUInt8 else (c.toNat - 87).toUInt8
def unhex (s : String) : List UInt8 :=
  let rec go : List Char → List UInt8
    | a :: b :: r => (hexVal a * 16 + hexVal b) :: go r
    | _ => []
  go s.toList
def hexDigit (n : UInt8) : Char := if n < 10 then Char.ofNat (48 + n.toNat) else Char.ofNat (87 + n.toNat)
def hex (bs : List UInt8) : String := String.mk (bs.flatMap fun b => [hexDigit (b / 16), hexDigit (b % 16)])
partial def loop (h : IO.FS.Stream) (out : IO.FS.Stream) : IO Unit := do
  let line ← h.getLine
  if line.isEmpty then return ()
  match (line.trimRight).splitOn " " with
  | ["tsvenc", x] => out.putStrLn (hex (Tsv.encode (unhex x)))
  | ["tsvdec", x] => out.putStrLn (hex (Tsv.decode (unhex x)))
  | _ => out.putStrLn "bad-op"
  loop h out
def main : IO Unit := do loop (← IO.getStdin) (← IO.getStdout)
