import Driver.Proto
namespace Driver.C18

/-- `fn`, `rdz`, `dslr`: laws on the implementation only — whatever the argument kinds, bytes or
tokens, the outcome is a result or a reported error; never a panic, never a hang. (The harness
reports `loops`, which is allowed, when a generated program that did not end contains a `while`,
`do`-`while` or C-style `for` of its own: that is the program's non-termination.) -/
def noCrash : Handler
  | _, impl =>
    some { model := impl, unmodelled := true,
           spec := if impl == "panic" then some ("-", "a result or an `mlr:` error, never a Go panic")
                   else if impl == "hang" then some ("-", "termination on finite input")
                   else none }

/-- `recur`: a user function that calls itself without a base case. Miller has no recursion limit:
the run neither ends nor reports an error within the time allowed (known finding
unbounded-user-recursion); a Go panic would still be a separate violation. -/
def recur : Handler
  | _, impl =>
    some { model := impl, unmodelled := true,
           spec := if impl == "panic" then some ("-", "a result or an `mlr:` error, never a Go panic")
                   else if impl == "hang" then some ("unbounded-user-recursion", "an `mlr:` error (recursion too deep) and a non-zero exit")
                   else none }

end Driver.C18
