import Driver.Proto
import Driver.Verbs
import MillerModel.Model.Verbs.Join
namespace Driver.C13
open Miller Miller.Verbs Driver.Verbs

structure Parsed where
  o : JoinOpts
  sorted : Bool := false
  j : Option (List Bytes) := none
  l : Option (List Bytes) := none
  r : Option (List Bytes) := none

/-- The join flags exactly as transformerJoinParseCLI reads them (format flags for the left file
and `-f` are consumed and ignored here). -/
def parseJoin : List String → Parsed → Option Parsed
  | [], p => some p
  | "-j" :: v :: rest, p => parseJoin rest { p with j := some (fieldsOf v) }
  | "-l" :: v :: rest, p => parseJoin rest { p with l := some (fieldsOf v) }
  | "-r" :: v :: rest, p => parseJoin rest { p with r := some (fieldsOf v) }
  | "--lk" :: v :: rest, p => parseJoin rest { p with o := { p.o with lk := some (fieldsOf v) } }
  | "--lp" :: v :: rest, p => parseJoin rest { p with o := { p.o with lp := Bytes.ofString v } }
  | "--rp" :: v :: rest, p => parseJoin rest { p with o := { p.o with rp := Bytes.ofString v } }
  | "--np" :: rest, p => parseJoin rest { p with o := { p.o with emitPaired := false } }
  | "--ul" :: rest, p => parseJoin rest { p with o := { p.o with ul := true } }
  | "--ur" :: rest, p => parseJoin rest { p with o := { p.o with ur := true } }
  | "--ignore-empty" :: rest, p => parseJoin rest { p with o := { p.o with ignoreEmpty := true } }
  | "-u" :: rest, p => parseJoin rest { p with sorted := false }
  | "-s" :: rest, p => parseJoin rest { p with sorted := true }
  | "-i" :: _ :: rest, p => parseJoin rest p
  | "-f" :: _ :: rest, p => parseJoin rest p
  | "--ijson" :: rest, p => parseJoin rest p
  | "--ijsonl" :: rest, p => parseJoin rest p
  | "--icsv" :: rest, p => parseJoin rest p
  | w :: rest, p => if w.startsWith "@fmt:" then parseJoin rest p else none

def finish (p : Parsed) : Option Parsed := do
  let j ← p.j
  let l := p.l.getD j
  let r := p.r.getD j
  if l.length != j.length || r.length != j.length then none
  if !p.o.emitPaired && !p.o.ul && !p.o.ur then none
  pure { p with o := { p.o with lf := l, rf := r, oj := j } }

/-- `join <argv> <left records> <right records> | <records out>` -/
def join : Handler
  | [av, lsS, rsS], impl => do
    let ls ← Rec.parseList lsS
    let rs ← Rec.parseList rsS
    match argvOf av with
    | "join" :: flags =>
      match (parseJoin flags { o := { lf := [], rf := [], oj := [] } }).bind finish with
      | none => pure { model := impl, unmodelled := true }
      | some p =>
        let mo := Verbs.join p.o ls rs
        if p.sorted then
          -- sorted-input mode on sorted inputs: the same multiset as the default mode
          match Rec.parseList impl with
          | some out =>
            if isPermOf out mo then pure { model := impl }
            else pure { model := impl, spec := some ("-", "the same multiset of records as the unsorted mode: " ++ Rec.showList mo) }
          | none => pure { model := impl, spec := some ("-", "records") }
        else pure { model := Rec.showList mo }
    | _ => none
  | _, _ => none

end Driver.C13
