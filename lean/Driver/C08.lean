import Driver.Proto
import MillerModel.Spec.NullData
namespace Driver.C08
open Miller Miller.Spec.NullData

def accNum : List String := ["bifs.plus_dispositions", "bifs.minus_dispositions", "bifs.times_dispositions",
  "bifs.dot_plus_dispositions", "bifs.dotminus_dispositions", "bifs.dottimes_dispositions",
  "bifs.dotdivide_dispositions", "bifs.min_dispositions", "bifs.max_dispositions"]
def divLike : List String := ["bifs.divide_dispositions", "bifs.int_divide_dispositions", "bifs.pow_dispositions", "bifs.modulus_dispositions"]
def bitw : List String := ["bifs.bitwise_and_dispositions", "bifs.bitwise_or_dispositions", "bifs.bitwise_xor_dispositions",
  "bifs.left_shift_dispositions", "bifs.signed_right_shift_dispositions", "bifs.unsigned_right_shift_dispositions"]

def isNum : Val → Bool | .int _ => true | .float _ => true | _ => false
def isInt : Val → Bool | .int _ => true | _ => false
def isScalarForError : Val → Bool
  | .int _ => true | .float _ => true | .bool _ => true | .void => true | .str _ => true | .error => true | _ => false

/-- The property's requirement on the implementation's result for `a op b`, when it makes one:
`(tag, wanted)`. -/
def require (t : String) (a b : Val) : Option (String × String) :=
  let acc := accNum.contains t || divLike.contains t || bitw.contains t
  if !acc then none
  else
    let okFor (x : Val) : Bool := if bitw.contains t then isInt x else isNum x
    match a, b with
    | .absent, .absent => some ("-", Val.absent.show)
    | .absent, x => if okFor x then some (if divLike.contains t then "absent-dividend" else "-", x.show) else none
    | x, .absent => if okFor x then some ("-", x.show) else none
    | .error, x => if isScalarForError x then some ("-", Val.error.show) else none
    | x, .error => if isScalarForError x then some ("-", Val.error.show) else none
    | _, _ => none

/-- `bin8 <table> <v1> <v2>` over all operand-kind pairs. -/
def bin8 : Handler
  | [t, s1, s2], impl => do
    let a ← Val.parse s1
    let b ← Val.parse s2
    let tbl ← Disp.binaryTable t
    let m := Disp.evalBinary tbl Gen.bifs_uneg_dispositions a b
    let model := if m == .unmodelled then impl else m.show
    let spec :=
      if impl == "panic" then some ("-", "a value, never a panic")
      else match require t a b with
        | some (tag, w) => if w == impl then none else some (tag, w)
        | none => none
    pure { model, spec }
  | _, _ => none

/-- `comm8 <table> <v1> <v2> | <r(a,b)> <r(b,a)>`: result kinds of a commutative operator. -/
def comm8 : Handler
  | [_, _, _], impl =>
    match impl.splitOn " " with
    | [r1, r2] =>
      let cls (s : String) : String :=
        match Val.parse s with
        | some (.int _) => "num" | some (.float _) => "num" | some .void => "text" | some (.str _) => "text"
        | some v => toString v.kind | none => s
      some { model := impl, spec := if cls r1 == cls r2 then none else some ("-", s!"same result kind for (a,b) and (b,a); got {cls r1} vs {cls r2}") }
    | _ => none
  | _, _ => none


def cls (s : String) : String :=
  match Val.parse s with
  | some (.int _) => "num" | some (.float _) => "num" | some .void => "text" | some (.str _) => "text"
  | some v => toString v.kind | none => s

/-- `nary8 <min|max> <v>…  | <r(vs)> <r(reverse vs)>`: the variadic min/max. Model = the fold over
the regenerated tables; spec = absent arguments are ignored wherever they stand (identity),
a lone argument comes back unchanged (scalars, JSON null, absent), absent arguments among the
documented ordered kinds (numbers < booleans < empty < strings) are ignored, and for two arguments the result kind is independent of
argument order. -/
def nary8 : Handler
  | f :: ss, impl => do
    let vs ← ss.mapM Val.parse
    let (bt, ut) ← if f == "min" then some (Gen.bifs_min_dispositions, Gen.bifs_min_unary_dispositions)
                   else if f == "max" then some (Gen.bifs_max_dispositions, Gen.bifs_max_unary_dispositions) else none
    let (r1, r2) ← match impl.splitOn " " with | [a, b] => some (a, b) | _ => none
    let m1 := Disp.variadic bt ut Gen.bifs_uneg_dispositions vs
    let m2 := Disp.variadic bt ut Gen.bifs_uneg_dispositions vs.reverse
    let sh (m : Out) (r : String) : String := if m == .unmodelled then r else m.show
    let model := sh m1 r1 ++ " " ++ sh m2 r2
    let simple (v : Val) : Bool := isScalarForError v || v == .null || v == .absent
    let ordered (v : Val) : Bool := isNum v || (match v with | .bool _ => true | .void => true | .str _ => true | _ => false)
    let noAbs := vs.filter (· != .absent)
    let mNoAbs := Disp.variadic bt ut Gen.bifs_uneg_dispositions noAbs
    let spec :=
      if r1 == "panic" || r2 == "panic" then some ("-", "a value, never a panic")
      else if vs.length == 2 && cls r1 != cls r2 then some ("-", s!"same result kind in either argument order; got {cls r1} vs {cls r2}")
      else match vs with
        | [v] => if simple v && r1 != v.show then some ("-", v.show) else none
        | _ =>
          if vs.all (fun v => ordered v || v == .absent) && noAbs.length < vs.length && !noAbs.isEmpty && mNoAbs != .unmodelled && mNoAbs.show != r1
          then some ("-", s!"{mNoAbs.show} (absent arguments ignored)") else none
    pure { model, spec }
  | _, _ => none

/-- `un8 <table> <v>`: unary vectors over all kinds. -/
def un8 : Handler
  | [t, s1], impl => do
    let a ← Val.parse s1
    let tbl ← Disp.unaryTable t
    let m := Disp.evalUnary tbl a
    let model := if m == .unmodelled then impl else m.show
    let spec :=
      if impl == "panic" then some ("-", "a value, never a panic")
      else if (t == "bifs.mudispo" || t == "bifs.imudispo") && a == .absent && impl != "x" then some ("-", "x")
      else none
    pure { model, spec }
  | _, _ => none

end Driver.C08
