import Driver.Proto
import MillerModel.Spec.NumberGrammar
namespace Driver.C06
open Miller Miller.Infer

def showInferred : Inferred → String
  | .int v => s!"int:{v}"
  | .float b => s!"float:{F64.toHex16 b}"
  | .string => "string"
  | .void => "void"
  | .boolean b => s!"bool:{b}"

def showOutcome : Outcome → String
  | .ok r => showInferred r
  | .panic => "panic"

def parseFlag : String → Option Flag
  | "N" => some .normal | "O" => some .octal | "A" => some .intAsFloat | "S" => some .stringOnly
  | _ => none

def findingTag (f : Flag) (s : Bytes) : String :=
  match Spec.NumberGrammar.findingClass f s with
  | some c => c.name
  | none => "-"

/-- `infer <flag> <hex>`: mlrval.FromDeferredType(s).Type() under the flag's inferrer. -/
def infer : Handler
  | [fl, hx], impl => do
    let f ← parseFlag fl
    let s := Bytes.ofHex hx
    let model := showOutcome (Infer.infer f s)
    let want := showInferred (Spec.NumberGrammar.classify f s)
    pure { model, spec := if want == impl then none else some (findingTag f s, want) }
  | _, _ => none

/-- `inferlit <flag> <hex>`: mlrval.FromInferredType (JSON numbers, DSL literals, -s files). -/
def inferlit : Handler
  | [fl, hx], impl => do
    let f ← parseFlag fl
    let s := Bytes.ofHex hx
    let model := showOutcome (Infer.fromInferredType f s)
    let wantI := if s == str "true" then Inferred.boolean true else if s == str "false" then .boolean false
                 else Spec.NumberGrammar.classify f s
    let want := showInferred wantI
    pure { model, spec := if want == impl then none else some (findingTag f s, want) }
  | _, _ => none

/-- `fromstring <hex>`: mlrval.FromString (JSON string values) — never inferred. -/
def fromstring : Handler
  | [hx], impl =>
    let s := Bytes.ofHex hx
    let r := showInferred (Infer.fromString s)
    some { model := r, spec := if r == impl then none else some ("-", r) }
  | _, _ => none

/-- `scan <hex>`: scan.FindScanType, by Go constant value. -/
def scan : Handler
  | [hx], impl =>
    let s := Bytes.ofHex hx
    let m := toString (Scan.findScanType s).index
    let w := toString (Spec.NumberGrammar.scanClass s).index
    some { model := m, spec := if w == impl then none else some ("-", w) }
  | _, _ => none

/-- `parsefloat <hex>`: strconv.ParseFloat on the float alphabet (validates the Lean reference). -/
def parsefloat : Handler
  | [hx], _ =>
    let s := Bytes.ofHex hx
    let m := match ParseFloat.parse s with
      | some b => s!"ok:{F64.toHex16 b}"
      | none => "err"
    some { model := m }
  | _, _ => none

end Driver.C06
