/-
C14 driver: `dsl <mode> <program hex> <input hex> | <impl>`.
mode: put | putq | filter | filterx;  input: one JSON object per line (the generator's subset, which
is also DSL map-literal syntax);  impl: `0:<stdout hex>` for exit status 0, `err` otherwise.
The model's answer is the stdout text the reference interpreter computes, byte for byte.
-/
import Driver.Proto
import Driver.C14Parse
namespace Driver
namespace C14
open Miller Miller.DSL

def fuelFor (_p : Prog) : Nat := 400

def constRecord (e : Expr) : Option Fields :=
  match ((eval {} 200 e).run).run {} with
  | (.ok (.map kvs), _) => some kvs
  | _ => none

def runModel (mode : String) (src input : String) : Except String (Res Bytes) := do
  let some prog ← DSLParse.parseProgram src | pure (.error .fatal)
  let lines := (input.splitOn "\n").filter (fun l => !l.trimAscii.toString.isEmpty)
  let recs ← lines.mapM fun l => do
    let e ← DSLParse.parseRecord l
    match constRecord e with
    | some r => pure r
    | none => throw "input record"
  let cfg : Run := { isFilter := mode.startsWith "filter", quiet := mode == "putq", invert := mode == "filterx" }
  pure (DSL.run prog cfg (fuelFor prog) (Miller.str "(stdin)") recs)

def dsl : Handler
  | [mode, progH, inputH], impl =>
    let src := String.fromUTF8! (ByteArray.mk ((Bytes.ofHex progH).map (·.toUInt8)).toArray)
    let input := String.fromUTF8! (ByteArray.mk ((Bytes.ofHex inputH).map (·.toUInt8)).toArray)
    match runModel mode src input with
    | .error why => some { model := impl, unmodelled := true, spec := if impl == "crash" then some ("-", "no crash (parse: " ++ why ++ ")") else none }
    | .ok (.ok out) => some { model := "0:" ++ (if out.isEmpty then "-" else Bytes.toHex out) }
    | .ok (.error .fatal) => some { model := "err" }
    | .ok (.error _) => some { model := impl, unmodelled := true }
  | _, _ => none

def dslwhy : Handler
  | [mode, progH, inputH], _ =>
    let src := String.fromUTF8! (ByteArray.mk ((Bytes.ofHex progH).map (·.toUInt8)).toArray)
    let input := String.fromUTF8! (ByteArray.mk ((Bytes.ofHex inputH).map (·.toUInt8)).toArray)
    some { model := (match runModel mode src input with
      | .error w => "parse:" ++ w.replace " " "_"
      | .ok (.ok _) => "ok"
      | .ok (.error e) => ((reprStr e).replace " " "_").replace "\n" "_") }
  | _, _ => none

/-- `why`: debugging aid - why a case is outside the model. -/
def why (mode src input : String) : String :=
  match runModel mode src input with
  | .error w => "parse: " ++ w
  | .ok (.ok out) => "ok: " ++ Bytes.toAscii out
  | .ok (.error e) => "error: " ++ reprStr e

end C14
end Driver
