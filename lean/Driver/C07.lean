import Driver.Proto
import MillerModel.Model.Disp
import MillerModel.Spec.Arith
namespace Driver.C07
open Miller

/-- The spec's answer for a binary arithmetic table on two numeric operands (none = no claim). -/
def specBinary (table : String) (a b : Val) : Option Val :=
  let num (v : Val) : Option Nat := match v with | .int x => some (Arith.fi x) | .float x => some x | _ => none
  let mixed (f : Nat → Nat → Nat) : Option Val := do
    let x ← num a; let y ← num b; pure (.float (f x y))
  let fmod (x y : Nat) : Nat := F64.sub x (F64.mul y (F64.floor (F64.div x y)))
  match table, a, b with
  | "bifs.plus_dispositions", .int x, .int y => some (Spec.Arith.plus x y)
  | "bifs.minus_dispositions", .int x, .int y => some (Spec.Arith.minus x y)
  | "bifs.times_dispositions", .int x, .int y => some (Spec.Arith.times x y)
  | "bifs.divide_dispositions", .int x, .int y => some (Spec.Arith.divide x y)
  | "bifs.int_divide_dispositions", .int x, .int y => some (Spec.Arith.intDivide x y)
  | "bifs.modulus_dispositions", .int x, .int y => some (Spec.Arith.modulus x y)
  | "bifs.dot_plus_dispositions", .int x, .int y => some (.int (wrap (x + y)))
  | "bifs.dotminus_dispositions", .int x, .int y => some (.int (wrap (x - y)))
  | "bifs.dottimes_dispositions", .int x, .int y => some (.int (wrap (x * y)))
  | "bifs.dotdivide_dispositions", .int x, .int y =>
    some (if y = 0 then .float (F64.div (Arith.fi x) (Arith.fi y)) else .int (wrap (Int.tdiv x y)))
  | "bifs.bitwise_and_dispositions", .int x, .int y => some (Arith.bitand x y)
  | "bifs.bitwise_or_dispositions", .int x, .int y => some (Arith.bitor x y)
  | "bifs.bitwise_xor_dispositions", .int x, .int y => some (Arith.bitxor x y)
  | "bifs.left_shift_dispositions", .int x, .int y => some (Arith.lsh x y)
  | "bifs.signed_right_shift_dispositions", .int x, .int y => some (Arith.srsh x y)
  | "bifs.unsigned_right_shift_dispositions", .int x, .int y => some (Arith.ursh x y)
  | "bifs.min_dispositions", .int x, .int y => some (.int (min x y))
  | "bifs.max_dispositions", .int x, .int y => some (.int (max x y))
  -- mixed / float operands: the IEEE operation on the converted operands
  | "bifs.plus_dispositions", _, _ => mixed F64.add
  | "bifs.minus_dispositions", _, _ => mixed F64.sub
  | "bifs.times_dispositions", _, _ => mixed F64.mul
  | "bifs.divide_dispositions", _, _ => mixed F64.div
  | "bifs.int_divide_dispositions", _, _ => mixed (fun x y => F64.floor (F64.div x y))
  | "bifs.modulus_dispositions", _, _ => mixed fmod
  | "bifs.dot_plus_dispositions", _, _ => mixed F64.add
  | "bifs.dotminus_dispositions", _, _ => mixed F64.sub
  | "bifs.dottimes_dispositions", _, _ => mixed F64.mul
  | "bifs.dotdivide_dispositions", _, _ => mixed F64.div
  | _, _, _ => none

def isNumeric : Val → Bool | .int _ => true | .float _ => true | _ => false

/-- `bin7 <table> <v1> <v2>`: exported BIF dispatching through that table. -/
def bin7 : Handler
  | [t, s1, s2], impl => do
    let a ← Val.parse s1
    let b ← Val.parse s2
    let tbl ← Disp.binaryTable t
    let m := Disp.evalBinary tbl Gen.bifs_uneg_dispositions a b
    let model := if m == .unmodelled then impl else m.show
    let spec := if isNumeric a && isNumeric b then
        match specBinary t a b with
        | some w => if w.show == impl then none else some ("-", w.show)
        | none => none
      else (if impl == "panic" then some ("-", "a value or an error, never a panic") else none)
    pure { model, spec }
  | _, _ => none

def parseModOp : String → Option Arith.ModOp
  | "madd" => some .add | "msub" => some .sub | "mmul" => some .mul | "mexp" => some .exp | _ => none

/-- `modop <op> <a> <b> <m>` on three ints. -/
def modop : Handler
  | [o, sa, sb, sm], impl => do
    let op ← parseModOp o
    let a ← sa.toInt?
    let b ← sb.toInt?
    let m ← sm.toInt?
    let model := (Arith.modop op a b m).show
    let want : Option Val :=
      if m < 0 then none   -- negative modulus: no claim beyond "no panic"
      else some (match op with
        | .add => Spec.Arith.madd a b m | .sub => Spec.Arith.msub a b m
        | .mul => Spec.Arith.mmul a b m
        | .exp => if b > 4096 then (Arith.modop op a b m) else Spec.Arith.mexp a b m)
    let spec := match want with
      | some w => if w.show == impl then none else some ("-", w.show)
      | none => if impl == "panic" then some ("-", "no panic") else none
    pure { model, spec }
  | _, _ => none

/-- `pow <a> <b> <powF>`: `**` on two ints; `powF` = math.Pow(float64 a, float64 b) (libm parameter). -/
def pow : Handler
  | [sa, sb, pf], impl => do
    let a ← sa.toInt?
    let b ← sb.toInt?
    let p := hexNat pf
    let model := (Arith.pow_f_ii p).show
    let spec := match Spec.Arith.powExact a b with
      | some e => if (Val.int e).show == impl then none
                  else some (if e.natAbs ≥ 2 ^ 53 then "pow-inexact-above-2^53" else "-", (Val.int e).show)
      | none => if impl.startsWith "f:" then none else
                  (if b ≥ 0 then some ("pow-overflow-not-float", "a float") else some ("-", "a float"))
    pure { model, spec }
  | _, _ => none

def mathFn : String → Option (Nat → Nat)
  | "abs" => some F64.abs | "ceil" => some Arith.fid | "floor" => some Arith.fid
  | "round" => some Arith.fid | "sgn" => some Arith.fsgn | _ => none

/-- `imath <fn> <a>`: abs/ceil/floor/round/sgn on an int: int-preserving; exact up to 2^53. -/
def imath : Handler
  | [fn, sa], impl => do
    let f ← mathFn fn
    let a ← sa.toInt?
    let model := (Arith.math_unary_i_i f a).show
    let exact : Int := match fn with
      | "abs" => if a < 0 then -a else a
      | "sgn" => if a > 0 then 1 else if a < 0 then -1 else 0
      | _ => a
    let spec :=
      if !impl.startsWith "i:" then some ("-", "an int (int-preserving function)")
      else if a.natAbs ≤ 2 ^ 53 && (Val.int exact).show != impl then some ("-", (Val.int exact).show)
      else none
    pure { model, spec }
  | _, _ => none

/-- `un7 <table> <v>`: unary tables (unary minus, plus, bitwise not). -/
def un7 : Handler
  | [t, s1], impl => do
    let a ← Val.parse s1
    let tbl ← Disp.unaryTable t
    let m := Disp.evalUnary tbl a
    let model := if m == .unmodelled then impl else m.show
    pure { model, spec := if impl == "panic" then some ("-", "no panic") else none }
  | _, _ => none

/-- `f64 <op> <x> <y>`: the soft-float reference against Go's hardware doubles. -/
def f64 : Handler
  | [o, sx, sy], _ => do
    let x := hexNat sx
    let y := hexNat sy
    let canon (b : Nat) : Nat := if F64.isNaN b then F64.nan else b
    let r ← match o with
      | "add" => some (F64.add x y) | "sub" => some (F64.sub x y) | "mul" => some (F64.mul x y)
      | "div" => some (F64.div x y) | "floor" => some (F64.floor x) | "ceil" => some (F64.ceil x)
      | "min" => some (Arith.fmin x y) | "max" => some (Arith.fmax x y)
      | "ofint" => some (F64.ofInt (u2i x)) | _ => none
    pure { model := F64.toHex16 (canon r) }
  | _, _ => none

/-- `f2i <x>`: Go's int64(f). -/
def f2i : Handler
  | [sx], _ => some { model := toString (F64.toInt64 (hexNat sx)) }
  | _, _ => none

end Driver.C07
