/-
A recursive-descent parser for the covered part of the Miller DSL, written from the grammar
description of the reference (reference-dsl-syntax.md) and the documented operator-precedence table
(reference-dsl-operators.md: `Props.C14.documentedPrecedence`).  It is deliberately independent of
pkg/parsing: the same program TEXT goes to the real `mlr` and to this parser + the Lean reference
interpreter, so a precedence or associativity change in mlr.bnf shows as a different result.
Not verified (part of the correspondence harness); anything it cannot parse is reported as
"outside the model", never as agreement.
-/
import MillerModel.Model.DSL
namespace Miller
namespace DSLParse
open DSL

inductive Tok where
  | num (v : Int)
  | flt (s : String)
  | str (b : Bytes)
  | field (b : Bytes)
  | oos (b : Bytes)
  | ident (s : String)
  | sym (s : String)
  | eof
  deriving Repr, BEq, Inhabited

def isIdStart (c : Char) : Bool := c.isAlpha || c == '_'
def isIdChar (c : Char) : Bool := c.isAlphanum || c == '_'

def symbols : List String :=
  ["$[[[", "$[[", "$[", "@[", "$*", "@*",
   ">>>=", "???=", "!=~", ">>>", "<<=", ">>=", "<=>", "**=", "//=", "??=", "???", "&&=", "||=", "^^=",
   ".+", ".-", ".*", "./", "**", "//", "??", "&&", "||", "^^", "==", "!=", ">=", "<=", "<<", ">>", "=~",
   "+=", "-=", "*=", "/=", "%=", ".=", "&=", "|=", "^=",
   "(", ")", "{", "}", "[", "]", ",", ";", ":", "?", "=", "<", ">", "+", "-", "*", "/", "%", ".", "!", "~", "&", "|", "^"]

partial def lexStr (cs : List Char) (acc : List Char) : Except String (List Char × List Char) :=
  match cs with
  | [] => .error "unterminated string"
  | '"' :: rest => .ok (acc.reverse, rest)
  | '\\' :: _ => .error "string escape"
  | c :: rest => lexStr rest (c :: acc)

partial def lex (cs : List Char) (acc : Array Tok) : Except String (Array Tok) :=
  match cs with
  | [] => .ok (acc.push .eof)
  | c :: rest =>
    if c == ' ' || c == '\n' || c == '\t' then lex rest acc
    else if c == '#' then lex (rest.dropWhile (· != '\n')) acc
    else if c == '"' then do
      let (s, rest') ← lexStr rest []
      lex rest' (acc.push (.str (Bytes.ofString (String.ofList s))))
    else if c.isDigit then
      let ds := cs.takeWhile Char.isDigit
      let after := cs.dropWhile Char.isDigit
      match after with
      | '.' :: d :: _ =>
        if d.isDigit then
          let frac := (after.drop 1).takeWhile Char.isDigit
          lex ((after.drop 1).dropWhile Char.isDigit) (acc.push (.flt (String.ofList (ds ++ ['.'] ++ frac))))
        else lex after (acc.push (.num (String.ofList ds).toNat!))
      | 'x' :: _ => .error "hex literal"
      | 'e' :: _ => .error "exponent literal"
      | _ => lex after (acc.push (.num (String.ofList ds).toNat!))
    else if c == '$' || c == '@' then
      match rest with
      | '{' :: r2 =>
        let name := r2.takeWhile (· != '}')
        let r3 := (r2.dropWhile (· != '}')).drop 1
        let b := Bytes.ofString (String.ofList name)
        lex r3 (acc.push (if c == '$' then .field b else .oos b))
      | d :: _ =>
        if isIdChar d then
          let name := rest.takeWhile isIdChar
          let b := Bytes.ofString (String.ofList name)
          lex (rest.dropWhile isIdChar) (acc.push (if c == '$' then .field b else .oos b))
        else lexSym cs acc
      | [] => .error "dangling sigil"
    else if isIdStart c then
      let name := cs.takeWhile isIdChar
      let after := cs.dropWhile isIdChar
      let n := String.ofList name
      -- min= and max= operator-assignments
      match after with
      | '=' :: a2 :: _ =>
        if (n == "min" || n == "max") && a2 != '=' then lex (after.drop 1) (acc.push (.sym (n ++ "=")))
        else lex after (acc.push (.ident n))
      | _ => lex after (acc.push (.ident n))
    else lexSym cs acc
where
  lexSym (cs : List Char) (acc : Array Tok) : Except String (Array Tok) :=
    let s := String.ofList (cs.take 4)
    match symbols.find? (fun sym => s.startsWith sym) with
    | some sym => lex (cs.drop sym.length) (acc.push (.sym sym))
    | none => .error ("unexpected character " ++ String.ofList (cs.take 1))

structure PS where
  toks : Array Tok
  pos : Nat := 0
  lits : Array FuncDef := #[]
  inBE : Bool := false           -- inside a begin or end block
  beRec : Bool := false          -- ... which mentions the current record ($x, $*, ...): a parse-time error
  topKind : Nat := 0             -- 1: inside a top-level func, 2: inside a top-level subr
  badReturn : Bool := false      -- `return` without a value inside a func / with one inside a subr (literals included)

abbrev P := StateT PS (Except String)

def peek : P Tok := do let s ← get; pure (s.toks.getD s.pos .eof)
def peek2 : P Tok := do let s ← get; pure (s.toks.getD (s.pos + 1) .eof)
def adv : P Unit := modify fun s => { s with pos := s.pos + 1 }
def isSym (s : String) : P Bool := do pure ((← peek) == .sym s)
def fail {α} (m : String) : P α := fun _ => .error m
def expect (s : String) : P Unit := do
  if (← peek) == .sym s then adv else fail s!"expected {s}, got {repr (← peek)}"
def accept (s : String) : P Bool := do
  if (← peek) == .sym s then adv; pure true else pure false
def acceptId (s : String) : P Bool := do
  if (← peek) == .ident s then adv; pure true else pure false

def noteRec : P Unit := modify fun s => if s.inBE then { s with beRec := true } else s

def tyOf : String → Option Ty
  | "var" => some .var | "any" => some .any | "str" => some .str | "num" => some .num | "int" => some .int
  | "float" => some .float | "bool" => some .bool | "map" => some .map | "arr" => some .arr | "funct" => some .funct
  | _ => none

def ctxNames : List String :=
  ["NR", "FNR", "NF", "FILENAME", "FILENUM", "M_PI", "M_E", "IPS", "IFS", "IRS", "OPS", "OFS", "ORS", "FLATSEP"]

/-- Binary levels, loosest first, all left-associative: derived from the documented table. -/
def binLevels : List (List String) := DSL.binaryLevels

def toLHS : Expr → Option LHS
  | .field n => some (.field n)
  | .ifield e => some (.ifield e)
  | .posName e => some (.posName e)
  | .posVal e => some (.posVal e)
  | .srec => some .srec
  | .oos n => some (.oos n)
  | .ioos e => some (.ioos e)
  | .oosAll => some .oosAll
  | .loc n => some (.loc n)
  | .index b i =>
    match toLHS b with
    | some (.indexed base idx) => some (.indexed base (idx ++ [i]))
    | some base => some (.indexed base [i])
    | none => none
  | _ => none

mutual
  partial def parseExpr : P Expr := parseTernary

  partial def parseTernary : P Expr := do
    let c ← parseLevel 0
    if ← accept "?" then
      let a ← parseTernary
      expect ":"
      let b ← parseTernary
      pure (.tern c a b)
    else pure c

  partial def parseLevel (i : Nat) : P Expr := do
    match binLevels[i]? with
    | none => parseDot
    | some ops => do
      let mut lhs ← parseLevel (i + 1)
      repeat
        match ← peek with
        | .sym s =>
          if ops.contains s then
            adv
            let rhs ← parseLevel (i + 1)
            lhs := .bin s lhs rhs
          else break
        | _ => break
      pure lhs

  partial def parseDot : P Expr := do
    let mut lhs ← parseUnary
    repeat
      if ← accept "." then
        let rhs ← parseUnary
        lhs := .dot lhs rhs
      else break
    pure lhs

  partial def parseUnary : P Expr := do
    match ← peek with
    | .sym "!" => adv; let e ← parseUnary; pure (.un "!" e)
    | .sym "~" => adv; let e ← parseUnary; pure (.un "~" e)
    | .sym "-" => adv; let e ← parseUnary; pure (.un "-" e)
    | .sym "+" => adv; let e ← parseUnary; pure (.un "+" e)
    | _ => parseAbsentCoalesce

  partial def parseAbsentCoalesce : P Expr := do
    let mut lhs ← parseEmptyCoalesce
    repeat
      if ← accept "??" then
        let rhs ← parseEmptyCoalesce
        lhs := .bin "??" lhs rhs
      else break
    pure lhs

  partial def parseEmptyCoalesce : P Expr := do
    let mut lhs ← parsePow
    repeat
      if ← accept "???" then
        let rhs ← parsePow
        lhs := .bin "???" lhs rhs
      else break
    pure lhs

  partial def parsePow : P Expr := do
    let base ← parsePostfix
    if ← accept "**" then
      -- right-associative; the exponent may carry its own sign
      if ← accept "-" then
        let e ← parsePow
        pure (.bin "**" base (.un "-" e))
      else if ← accept "+" then
        let e ← parsePow
        pure (.bin "**" base (.un "+" e))
      else
        let e ← parsePow
        pure (.bin "**" base e)
    else pure base

  partial def parsePostfix : P Expr := do
    let mut e ← parsePrimary
    repeat
      if ← accept "[" then
        let i ← parseExpr
        if ← accept ":" then
          let j ← parseExpr
          expect "]"
          e := .slice e i j
        else
          expect "]"
          e := .index e i
      else break
    pure e

  partial def parseArgs (close : String) : P (List Expr) := do
    if ← accept close then pure []
    else
      let mut xs := #[]
      repeat
        let e ← parseExpr
        xs := xs.push e
        if ← accept "," then
          if ← accept close then break     -- trailing comma
          else continue
        else
          expect close
          break
      pure xs.toList

  partial def parseParams : P (List (String × Ty)) := do
    expect "("
    if ← accept ")" then pure []
    else
      let mut ps := #[]
      repeat
        match ← peek, ← peek2 with
        | .ident t, .ident n =>
          match tyOf t with
          | some ty => adv; adv; ps := ps.push (n, ty)
          | none => fail "bad parameter type"
        | .ident n, _ => adv; ps := ps.push (n, Ty.any)
        | _, _ => fail "bad parameter"
        if ← accept "," then continue
        else
          expect ")"
          break
      pure ps.toList

  partial def parseRetTy : P Ty := do
    if ← accept ":" then
      match ← peek with
      | .ident t => match tyOf t with | some ty => adv; pure ty | none => fail "bad return type"
      | _ => fail "bad return type"
    else pure .any

  partial def parsePrimary : P Expr := do
    match ← peek with
    | .num v => adv; pure (.lit (.int v))
    | .flt _ => adv; pure (.call "__float_literal" [])
    | .str b => adv; pure (.lit (if b.isEmpty then .void else .str b))
    | .field b => adv; noteRec; pure (.field b)
    | .oos b => adv; pure (.oos b)
    | .sym "$*" => adv; noteRec; pure .srec
    | .sym "@*" => adv; pure .oosAll
    | .sym "$[[[" => adv; noteRec; let e ← parseExpr; expect "]"; expect "]"; expect "]"; pure (.posVal e)
    | .sym "$[[" => adv; noteRec; let e ← parseExpr; expect "]"; expect "]"; pure (.posName e)
    | .sym "$[" => adv; noteRec; let e ← parseExpr; expect "]"; pure (.ifield e)
    | .sym "@[" => adv; let e ← parseExpr; expect "]"; pure (.ioos e)
    | .sym "(" => adv; let e ← parseExpr; expect ")"; pure e
    | .sym "[" => adv; let xs ← parseArgs "]"; pure (.arrLit xs)
    | .sym "{" =>
      adv
      if ← accept "}" then pure (.mapLit [])
      else
        let mut kvs := #[]
        repeat
          let k ← parseExpr
          expect ":"
          let v ← parseExpr
          kvs := kvs.push (k, v)
          if ← accept "," then
            if ← accept "}" then break else continue
          else
            expect "}"
            break
        pure (.mapLit kvs.toList)
    | .ident "true" => adv; pure (.lit (.bool true))
    | .ident "false" => adv; pure (.lit (.bool false))
    | .ident "absent" => adv; pure (.lit .absent)
    | .ident "func" =>
      adv
      let ps ← parseParams
      let rt ← parseRetTy
      let body ← parseBlock
      let id := (← get).lits.size
      modify fun s => { s with lits := s.lits.push { name := "#" ++ toString id, params := ps, ret := rt, body, isLit := true } }
      pure (.funcLit id)
    | .ident n =>
      adv
      if ctxNames.contains n then pure (.ctx n)
      else if ← accept "(" then
        let args ← parseArgs ")"
        pure (.call n args)
      else pure (.loc n)
    | t => fail s!"unexpected token {repr t}"

  partial def parseBlock : P (List Stmt) := do
    expect "{"
    let ss ← parseStmts
    expect "}"
    pure ss

  partial def parseStmts : P (List Stmt) := do
    let mut out := #[]
    repeat
      while ← accept ";" do pure ()
      match ← peek with
      | .sym "}" => break
      | .eof => break
      | _ =>
        let s ← parseStmt
        out := out.push s
    pure out.toList

  partial def parseEmittable : P Expr := parsePostfix

  partial def parseStmt : P Stmt := do
    match ← peek with
    | .ident "if" =>
      adv
      let mut branches := #[]
      expect "("; let c ← parseExpr; expect ")"
      let b ← parseBlock
      branches := branches.push (c, b)
      let mut els : List Stmt := []
      repeat
        if ← acceptId "elif" then
          expect "("; let c ← parseExpr; expect ")"
          let b ← parseBlock
          branches := branches.push (c, b)
        else if ← acceptId "else" then
          els ← parseBlock
          -- an empty else block still is a block; represent by a no-op
          if els.isEmpty then els := [.unset []]
          break
        else break
      pure (.ifChain branches.toList els)
    | .ident "while" =>
      adv; expect "("; let c ← parseExpr; expect ")"
      let b ← parseBlock
      pure (.while c b)
    | .ident "do" =>
      adv
      let b ← parseBlock
      if !(← acceptId "while") then fail "expected while"
      expect "("; let c ← parseExpr; expect ")"
      pure (.doWhile b c)
    | .ident "for" =>
      adv; expect "("
      -- multi-key form
      if ← accept "(" then
        let mut ks := #[]
        repeat
          match ← peek with
          | .ident k => adv; ks := ks.push k
          | _ => fail "for: key name"
          if ← accept "," then continue else expect ")"; break
        expect ","
        let v ← (do match ← peek with | .ident v => adv; pure v | _ => fail "for: value name")
        if !(← acceptId "in") then fail "expected in"
        let e ← parseExpr
        expect ")"
        let b ← parseBlock
        pure (.forMulti ks.toList v e b)
      else
        match ← peek, ← peek2 with
        | .ident k, .ident "in" =>
          adv; adv
          let e ← parseExpr; expect ")"
          let b ← parseBlock
          pure (.forK k e b)
        | .ident k, .sym "," =>
          -- either `k, v in e` or a triple-for whose start has several assignments: look further
          let save ← get
          adv; adv
          match ← peek, ← peek2 with
          | .ident v, .ident "in" =>
            adv; adv
            let e ← parseExpr; expect ")"
            let b ← parseBlock
            pure (.forKV k v e b)
          | _, _ => set save; parseTripleFor
        | _, _ => parseTripleFor
    | .ident "break" => adv; pure .brk
    | .ident "continue" => adv; pure .cont
    | .ident "return" =>
      adv
      match ← peek with
      | .sym ";" | .sym "}" | .eof =>
        modify fun s => if s.topKind == 1 then { s with badReturn := true } else s
        pure (.ret none)
      | _ =>
        modify fun s => if s.topKind == 2 then { s with badReturn := true } else s
        let e ← parseExpr; pure (.ret (some e))
    | .ident "call" =>
      adv
      match ← peek with
      | .ident n => adv; expect "("; let args ← parseArgs ")"; pure (.callSub n args)
      | _ => fail "call: name"
    | .ident "print" => adv; parsePrintArgs true
    | .ident "printn" => adv; parsePrintArgs false
    | .ident "dump" =>
      adv
      match ← peek with
      | .sym ";" | .sym "}" | .eof => pure (.dump none)
      | _ => let e ← parseExpr; pure (.dump (some e))
    | .ident "emit1" => adv; let e ← parseExpr; pure (.emit1 e)
    | .ident "emitf" =>
      adv
      let mut xs := #[]
      repeat
        let e ← parseEmittable
        xs := xs.push e
        if ← accept "," then continue else break
      pure (.emitf xs.toList)
    | .ident "emit" => adv; parseEmit false
    | .ident "emitp" => adv; parseEmit true
    | .ident "filter" => adv; let e ← parseExpr; pure (.filter e)
    | .ident "unset" =>
      adv
      if ← acceptId "all" then pure .unsetAll
      else
        let mut ts := #[]
        repeat
          let e ← parsePostfix
          match toLHS e with
          | some l => ts := ts.push l
          | none => fail "unset: not an lvalue"
          if ← accept "," then continue else break
        pure (.unset ts.toList)
    | .ident "tee" | .ident "eprint" | .ident "eprintn" | .ident "edump" => fail "redirected / stderr output statement"
    | .ident t =>
      match tyOf t, ← peek2 with
      | some ty, .ident n =>
        adv; adv
        expect "="
        let e ← parseExpr
        pure (.decl ty n e)
      | _, _ => parseExprStmt
    | _ => parseExprStmt

  partial def parsePrintArgs (nl : Bool) : P Stmt := do
    match ← peek with
    | .sym ";" | .sym "}" | .eof => pure (.print nl [])
    | _ =>
      let mut xs := #[]
      repeat
        let e ← parseExpr
        xs := xs.push e
        if ← accept "," then continue else break
      pure (.print nl xs.toList)

  partial def parseEmit (isP : Bool) : P Stmt := do
    let mut ems := #[]
    let mut lashed := false
    if ← accept "(" then
      lashed := true
      repeat
        let e ← parseEmittable
        ems := ems.push e
        if ← accept "," then continue else expect ")"; break
    else
      let e ← parseEmittable
      ems := ems.push e
    let mut names := #[]
    while ← accept "," do
      let n ← parseExpr
      names := names.push n
    pure (.emit isP lashed ems.toList names.toList)

  partial def parseSimpleList (close : String) : P (List Stmt) := do
    let mut out := #[]
    if (← peek) == .sym close then pure []
    else
      repeat
        let s ← parseStmt
        out := out.push s
        if ← accept "," then continue else break
      pure out.toList

  partial def parseTripleFor : P Stmt := do
    let init ← parseSimpleList ";"
    expect ";"
    let cond ← parseSimpleList ";"
    expect ";"
    let upd ← parseSimpleList ")"
    expect ")"
    let b ← parseBlock
    pure (.forC init cond upd b)

  partial def parseExprStmt : P Stmt := do
    let e ← parseExpr
    match ← peek with
    | .sym "=" =>
      adv
      let rhs ← parseExpr
      match toLHS e with
      | some l => pure (.assign l rhs)
      | none => fail "assignment to a non-lvalue"
    | .sym "{" =>
      let b ← parseBlock
      pure (.cond e b)
    | .sym s =>
      if s.endsWith "=" && s != "==" && s != "!=" && s != ">=" && s != "<=" then
        adv
        let rhs ← parseExpr
        match toLHS e with
        | some l => pure (.opAssign l (String.ofList s.toList.dropLast) e rhs)
        | none => fail "assignment to a non-lvalue"
      else pure (.bare e)
    | _ => pure (.bare e)
end

partial def parseTop : P Prog := do
  let mut prog : Prog := {}
  let mut main := #[]
  repeat
    while ← accept ";" do pure ()
    match ← peek with
    | .eof => break
    | .ident "begin" => adv; modify (fun s => { s with inBE := true }); let b ← parseBlock; modify (fun s => { s with inBE := false }); prog := { prog with begins := prog.begins ++ [b] }
    | .ident "end" => adv; modify (fun s => { s with inBE := true }); let b ← parseBlock; modify (fun s => { s with inBE := false }); prog := { prog with ends := prog.ends ++ [b] }
    | .ident "func" =>
      match ← peek2 with
      | .ident n =>
        adv; adv
        let ps ← parseParams
        let rt ← parseRetTy
        modify fun s => { s with topKind := 1 }
        let body ← parseBlock
        modify fun s => { s with topKind := 0 }
        prog := { prog with funcs := prog.funcs ++ [{ name := n, params := ps, ret := rt, body }] }
      | _ => let s ← parseStmt; main := main.push s
    | .ident "subr" =>
      adv
      match ← peek with
      | .ident n =>
        adv
        let ps ← parseParams
        modify fun s => { s with topKind := 2 }
        let body ← parseBlock
        modify fun s => { s with topKind := 0 }
        prog := { prog with subrs := prog.subrs ++ [{ name := n, params := ps, ret := .any, body }] }
      | _ => fail "subr: name"
    | _ => let s ← parseStmt; main := main.push s
  pure { prog with main := main.toList }

/-- `none`: the program is rejected before it runs (a begin/end block mentions the current record). -/
def parseProgram (src : String) : Except String (Option Prog) := do
  let toks ← lex src.toList #[]
  let (p, st) ← parseTop.run { toks }
  if st.pos + 1 < st.toks.size then throw "trailing tokens"
  if st.beRec || st.badReturn then pure none
  else pure (some { p with lits := st.lits.toList })

/-- One input record: a JSON object of the generator's subset = a DSL map literal. -/
def parseRecord (src : String) : Except String Expr := do
  let toks ← lex src.toList #[]
  let (e, _) ← parseExpr.run { toks }
  pure e

end DSLParse
end Miller
