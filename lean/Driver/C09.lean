import Driver.Proto
import Driver.Verbs
import MillerModel.Model.Verbs.Sort
namespace Driver.C09
open Miller Miller.Verbs Driver.Verbs

/-- Parse `sort` flags into (fields, kinds) exactly as transformerSortParseCLI maps them. -/
def parseSort : List String → List Bytes → List SortKind → Option (List Bytes × List SortKind)
  | [], fs, ks => if fs.isEmpty then none else some (fs, ks)
  | "-f" :: v :: rest, fs, ks => let l := fieldsOf v; parseSort rest (fs ++ l) (ks ++ l.map fun _ => .lexAsc)
  | "-r" :: "-t" :: v :: rest, fs, ks => let l := fieldsOf v; parseSort rest (fs ++ l) (ks ++ l.map fun _ => .natAsc)
  | "-r" :: v :: rest, fs, ks => let l := fieldsOf v; parseSort rest (fs ++ l) (ks ++ l.map fun _ => .lexDesc)
  | "-nf" :: v :: rest, fs, ks => let l := fieldsOf v; parseSort rest (fs ++ l) (ks ++ l.map fun _ => .numAsc)
  | "-nr" :: v :: rest, fs, ks => let l := fieldsOf v; parseSort rest (fs ++ l) (ks ++ l.map fun _ => .numDesc)
  | "-n" :: "-f" :: v :: rest, fs, ks => let l := fieldsOf v; parseSort rest (fs ++ l) (ks ++ l.map fun _ => .numAsc)
  | "-n" :: "-r" :: v :: rest, fs, ks => let l := fieldsOf v; parseSort rest (fs ++ l) (ks ++ l.map fun _ => .numDesc)
  | "-n" :: v :: rest, fs, ks => let l := fieldsOf v; parseSort rest (fs ++ l) (ks ++ l.map fun _ => .numAsc)
  | "-c" :: "-r" :: v :: rest, fs, ks => let l := fieldsOf v; parseSort rest (fs ++ l) (ks ++ l.map fun _ => .foldDesc)
  | "-c" :: v :: rest, fs, ks => let l := fieldsOf v; parseSort rest (fs ++ l) (ks ++ l.map fun _ => .foldAsc)
  | "-t" :: "-r" :: v :: rest, fs, ks => let l := fieldsOf v; parseSort rest (fs ++ l) (ks ++ l.map fun _ => .natAsc)
  | "-t" :: v :: rest, fs, ks => let l := fieldsOf v; parseSort rest (fs ++ l) (ks ++ l.map fun _ => .natDesc)
  | _, _, _ => none

/-- `sortv <argv> <records> | <records out>`: the output must satisfy the relational spec. -/
def sortv : Handler
  | [av, rsS], impl => do
    let rs ← Rec.parseList rsS
    match argvOf av with
    | "sort" :: flags =>
      match parseSort flags [] [] with
      | none => pure { model := impl }
      | some (fs, ks) =>
        match Rec.parseList impl with
        | some out =>
          -- natsort's Compare is not a preorder on every set of strings: when the comparator chain is
          -- inconsistent on the key values present, the order is only checked on the keys that
          -- precede the first natural-order key
          let isNat (k : SortKind) : Bool := k == SortKind.natAsc || k == SortKind.natDesc
          let present := (rs.filterMap (keyVals fs)).eraseDups
          let ksChecked := if consistentOn ks present then ks else ks.takeWhile (fun k => !isNat k)
          if sortRel fs ksChecked rs out then pure { model := impl }
          else
            let canon := Rec.showList (sortCanonical fs ks rs)
            pure { model := canon, spec := some ("-", "an output satisfying sortRel, e.g. " ++ canon) }
        | none => pure { model := Rec.showList (sortCanonical fs ks rs), spec := some ("-", "records") }
    | _ => none
  | _, _ => none

def kindOf : String → Option SortKind
  | "lex" => some .lexAsc | "num" => some .numAsc | "fold" => some .foldAsc | "nat" => some .natAsc | _ => none

/-- `cmp <kind> <a> <b> | <-1|0|1>` -/
def cmp : Handler
  | [k, a, b], _ => do
    let kd ← kindOf k
    pure { model := toString (cmpOf kd (Bytes.ofHex a) (Bytes.ofHex b)) }
  | _, _ => none

/-- `cmp3 <kind> <a> <b> <c> | <ab> <bc> <ac> <ba> <aa>`: preorder laws on the implementation. -/
def cmp3 : Handler
  | [_, _, _, _], impl =>
    match (impl.splitOn " ").map String.toInt? with
    | [some ab, some bc, some ac, some ba, some aa] =>
      let ok := aa == 0 && (ab ≤ 0 || ba ≤ 0) && (ab == -ba) && (!(ab ≤ 0 && bc ≤ 0) || ac ≤ 0)
      some { model := impl, spec := if ok then none else some ("-", "reflexive, total, antisymmetric in sign, transitive") }
    | _ => none
  | _, _ => none

/-- `dslsort <flags> <items> | <output text>`: the DSL `sort` function on an array: a permutation
of the items, ordered by the collation the flags select. -/
def dslsort : Handler
  | [fh, itemsS], impl => do
    let flags := String.ofList ((Bytes.ofHex fh).map Char.ofNat)
    let items := (argvOf itemsS).map Bytes.ofString
    let outText := Bytes.ofHex impl
    -- strip the trailing newline of print
    let outText := if outText.getLast? == some 10 then outText.dropLast else outText
    let out := if items.isEmpty then [] else Split.split [59] outText
    -- decodeSortFlags: the LAST of n/f/c/t wins; r anywhere reverses
    let ty : Char := flags.toList.foldl (fun t c => if c == 'n' || c == 'f' || c == 'c' || c == 't' then c else t) 'n'
    let rev := flags.contains 'r'
    let recOf (l : List Bytes) : List Rec := l.map fun v => [(str "v", v)]
    let perm := isPermOf (recOf out) (recOf items)
    let ordered :=
      if ty == 't' then
        -- sort.Slice with less = natsort.Compare (arguments swapped for r); equal texts are ties.
        -- Only when that is a strict weak order on the items present does "sorted" follow.
        let less (a b : Bytes) : Bool := a != b && (if rev then natLess b a else natLess a b)
        let inc (a b : Bytes) : Bool := !less a b && !less b a
        let ds := items.eraseDups
        let swo := ds.all (fun a => ds.all fun b => !(less a b && less b a)) &&
          ds.all (fun a => ds.all fun b => ds.all fun c =>
            (!(less a b && less b c) || less a c) && (!(inc a b && inc b c) || inc a c))
        !swo || (out.zip (out.drop 1)).all fun p => !less p.2 p.1
      else
        let kind : SortKind :=
          if ty == 'c' then (if rev then .foldDesc else .foldAsc)
          else if ty == 'f' then (if rev then .lexDesc else .lexAsc)
          else (if rev then .numDesc else .numAsc)
        (out.zip (out.drop 1)).all fun p => cmpOf kind p.1 p.2 ≤ 0
    pure { model := impl, spec := if perm && ordered then none else some ("-", "a permutation of the items in non-decreasing order under the selected collation") }
  | _, _ => none

end Driver.C09
