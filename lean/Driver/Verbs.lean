import Driver.Proto
import MillerModel.Spec.Select
import MillerModel.Model.Verbs.Restructure
import MillerModel.Model.Verbs.Stats
namespace Driver.Verbs
open Miller Miller.Verbs

def argvOf (s : String) : List String :=
  if s == "-" then [] else (s.splitOn ",").map fun h => String.ofList ((Bytes.ofHex h).map Char.ofNat)

def fieldsOf (s : String) : List Bytes := (s.splitOn ",").map Bytes.ofString

/-- Options as (flag, value) pairs for flags that take one argument, plus bare flags. -/
structure Opts where
  vals : List (String × String) := []
  flags : List String := []

def parseOpts (withArg : List String) : List String → Opts → Option Opts
  | [], o => some o
  | f :: rest, o =>
    if withArg.contains f then
      match rest with
      | v :: rest' => parseOpts withArg rest' { o with vals := o.vals ++ [(f, v)] }
      | [] => none
    else parseOpts withArg rest { o with flags := o.flags ++ [f] }

def Opts.get (o : Opts) (f : String) : Option String := (o.vals.find? (·.1 == f)).map (·.2)
def Opts.has (o : Opts) (f : String) : Bool := o.flags.contains f

/-- (model, spec) for one verb invocation; `none` = verb/option outside the model. -/
def evalVerb (argv : List String) : Option ((List Rec → List Rec) × Option (List Rec → List Rec)) :=
  match argv with
  | "head" :: rest => do
    let o ← parseOpts ["-n", "-g"] rest {}
    if !o.flags.isEmpty then none
    let nI ← ((o.get "-n").getD "10").toInt?
    let g := (o.get "-g").map fieldsOf
    if nI < 0 then
      pure ((headAllButLast nI.natAbs (g.getD [])).run, none)
    else match g with
      | none => pure ((headUnkeyed nI.toNat).run, some (fun xs => xs.take nI.toNat))
      | some fs => pure ((headKeyed nI.toNat fs).run, some (Spec.Select.head nI.toNat fs))
  | "tail" :: rest => do
    let o ← parseOpts ["-n", "-g"] rest {}
    if !o.flags.isEmpty then none
    let ns := (o.get "-n").getD "10"
    let g := ((o.get "-g").map fieldsOf).getD []
    if ns.startsWith "+" then do
      let k ← (ns.drop 1).toString.toNat?
      pure ((tailFromStart (k - 1) g).run, some (Spec.Select.tailFrom (k - 1) g))
    else do
      let nI ← ns.toInt?
      pure ((tailLastN nI.natAbs g).run, some (Spec.Select.tail nI.natAbs g))
  | "decimate" :: rest => do
    let o ← parseOpts ["-n", "-g"] rest {}
    let n ← ((o.get "-n").getD "10").toNat?
    if n == 0 then none
    let g := ((o.get "-g").map fieldsOf).getD []
    let rem := if o.has "-b" && !o.has "-e" then 0 else n - 1
    pure ((Verbs.decimate n rem g).run, some (Spec.Select.decimate n rem g))
  | ["tac"] => some (tac.run, some List.reverse)
  | ["group-by", fs] => some ((Verbs.groupBy (fieldsOf fs)).run, some (Spec.Select.groupBy (fieldsOf fs)))
  | ["group-like"] => some (groupLike.run, none)
  | ["skip-trivial-records"] => some (skipTrivial.run, none)
  | ["nothing"] => some (Verbs.nothing.run, some (fun _ => []))
  | "cat" :: rest => do
    let o ← parseOpts ["-g", "-N"] rest {}
    if o.flags.any (fun f => f != "-n") then none
    let numbered := o.has "-n" || (o.get "-N").isSome
    let name := Bytes.ofString ((o.get "-N").getD "n")
    let g := (o.get "-g").map fieldsOf
    if !numbered then pure (id, some id)
    else pure ((catN name g).run, (g.map fun fs => Spec.Select.catN name fs))
  | "having-fields" :: rest => do
    let o ← parseOpts ["--at-least", "--which-are", "--at-most"] rest {}
    match o.vals with
    | [("--at-least", fs)] => pure ((havingFields .atLeast (fieldsOf fs)).run, none)
    | [("--which-are", fs)] => pure ((havingFields .whichAre (fieldsOf fs)).run, none)
    | [("--at-most", fs)] => pure ((havingFields .atMost (fieldsOf fs)).run, none)
    | _ => none
  | "count" :: rest => do
    let o ← parseOpts ["-g", "-o"] rest {}
    if o.flags.any (fun f => f != "-n") then none
    pure (countVerb ((o.get "-g").map fieldsOf) (o.has "-n") (Bytes.ofString ((o.get "-o").getD "count")), none)
  | "count-distinct" :: rest => do
    let o ← parseOpts ["-f", "-g", "-o"] rest {}
    if o.flags.any (fun f => f != "-n" && f != "-u") then none
    let fs ← ((o.get "-f").orElse fun _ => o.get "-g").map fieldsOf
    if o.has "-u" then pure (countDistinctUnlashed fs, none)
    else pure (countDistinct fs (o.has "-n") (Bytes.ofString ((o.get "-o").getD "count")), none)
  | "uniq" :: rest => do
    let o ← parseOpts ["-f", "-g", "-o"] rest {}
    if o.has "-a" then (if rest == ["-a"] then pure (uniqAll.run, none) else none)
    else
      if o.flags.any (fun f => f != "-n" && f != "-c") then none
      let fs ← ((o.get "-g").orElse fun _ => o.get "-f").map fieldsOf
      pure (uniqGroup fs (o.has "-c") (o.has "-n") (Bytes.ofString ((o.get "-o").getD "count")), none)
  | "count-similar" :: rest => do
    let o ← parseOpts ["-g", "-o"] rest {}
    if !o.flags.isEmpty then none
    let fs ← (o.get "-g").map fieldsOf
    pure (countSimilar fs (Bytes.ofString ((o.get "-o").getD "count")), none)
  | "fill-down" :: rest => do
    let o ← parseOpts ["-f"] rest {}
    if o.flags.any (fun f => !["-a", "--only-if-absent", "--all"].contains f) then none
    let all := o.has "--all"
    let fs := (o.get "-f").map fieldsOf
    if !all && fs.isNone then none
    pure ((fillDown (if all then none else fs) (o.has "-a" || o.has "--only-if-absent")).run, none)
  | "stats1" :: rest => do
    let o ← parseOpts ["-a", "-f", "-g"] rest {}
    if !o.flags.isEmpty then none
    let accs ← (o.get "-a").map fun s => s.splitOn ","
    let vfs ← (o.get "-f").map fieldsOf
    let gfs := ((o.get "-g").map fieldsOf).getD []
    -- only if every accumulator is modelled
    if accs.any (fun a => (({} : Acc).emit a).isNone) then none
    pure (fun xs => (stats1 accs vfs gfs xs).getD [], none)
  | "merge-fields" :: rest => do
    let o ← parseOpts ["-a", "-f", "-r", "-c", "-o"] rest {}
    if o.flags.any (fun f => f != "-k") then none
    let accs ← (o.get "-a").map fun s => s.splitOn ","
    if accs.any (fun a => (({} : Acc).emit a).isNone) then none
    let keep := o.has "-k"
    -- the last of -f/-r/-c on the command line selects the mode
    let mode ← (o.vals.filter fun p => p.1 == "-f" || p.1 == "-r" || p.1 == "-c").getLast?
    let out := Bytes.ofString ((o.get "-o").getD "")
    match mode.1 with
    | "-f" =>
      if out.isEmpty then none
      pure (List.filterMap (mergeByNames accs (fieldsOf mode.2) out keep), none)
    | "-r" =>
      if out.isEmpty then none
      let cs ← (fieldsOf mode.2).mapM Regex.compileMiller
      pure (List.filterMap (mergeByRegex accs cs out keep), none)
    | _ =>
      let cs ← (fieldsOf mode.2).mapM Regex.compileMiller
      pure (List.filterMap (mergeCollapse accs cs keep), none)
  | "step" :: rest => do
    let o ← parseOpts ["-a", "-f", "-g"] rest {}
    if !o.flags.isEmpty then none
    let sts ← (o.get "-a").map fun s => s.splitOn ","
    if sts.any (fun s => !["delta", "shift", "shift_lag", "rsum", "counter"].contains s) then none
    let fs ← (o.get "-f").map fieldsOf
    pure ((stepVerb sts fs (((o.get "-g").map fieldsOf).getD [])).run, none)
  | "cut" :: rest => do
    let o ← parseOpts ["-f"] rest {}
    let fs ← (o.get "-f").map fieldsOf
    if o.flags.any (fun f => f != "-o" && f != "-x" && f != "-r") then none
    if o.has "-r" then
      let cs ← fs.mapM Regex.compileMiller
      return (List.map (cutRegex cs (o.has "-o") (o.has "-x")), none)
    if o.has "-x" then pure (List.map (cutExclude fs), none)
    else if o.has "-o" then pure (List.map (cutIncludeArgOrder fs), none)
    else pure (List.map (cutInclude fs), none)
  | "reorder" :: rest => do
    let o ← parseOpts ["-f"] rest {}
    let fs ← (o.get "-f").map fieldsOf
    if o.flags.any (fun f => f != "-e") then none
    if o.has "-e" then pure (List.map (reorderToEnd fs), none) else pure (List.map (reorderToStart fs), none)
  | ["rename", names] =>
    let ns := fieldsOf names
    if ns.length % 2 != 0 then none else some (List.map (renameVerb ns), none)
  | ["label", names] =>
    let ns := fieldsOf names
    if ns.eraseDups.length != ns.length then none else some (List.map (fun r => label r ns), none)
  | ["regularize"] => some (regularize.run, none)
  | ["sort-within-records"] => some (List.map (sortWithinRecords false), none)
  | ["sort-within-records", "-r"] => some (List.map (sortWithinRecords false), none)  -- -r = recurse into submaps
  | "unsparsify" :: rest => do
    let o ← parseOpts ["--fill-with", "-f"] rest {}
    if !o.flags.isEmpty then none
    let fill := Bytes.ofString ((o.get "--fill-with").getD "")
    let fs := match (o.vals.filter (·.1 == "-f")).getLast? with | some p => fieldsOf p.2 | none => []  -- the last -f wins
    if fs.isEmpty then pure ((unsparsify fill).run, none) else pure (List.map (unsparsifyStreaming fs fill), none)
  | "sparsify" :: rest => do
    let o ← parseOpts ["-s", "-f"] rest {}
    if !o.flags.isEmpty then none
    pure (List.map (sparsify (Bytes.ofString ((o.get "-s").getD "")) ((o.get "-f").map fieldsOf)), none)
  | "fill-empty" :: rest => do
    let o ← parseOpts ["-v"] rest {}
    if !o.flags.isEmpty then none
    pure (List.map (fillEmpty (Bytes.ofString ((o.get "-v").getD "N/A"))), none)
  | "template" :: rest => do
    let o ← parseOpts ["-f", "--fill-with"] rest {}
    if !o.flags.isEmpty then none
    let fs ← (o.get "-f").map fieldsOf
    pure (List.map (template fs (Bytes.ofString ((o.get "--fill-with").getD ""))), none)
  | ["altkv"] => some (List.map altkv, none)
  | _ => none

def splitThen : List String → List (List String)
  | [] => [[]]
  | "then" :: rest => [] :: splitThen rest
  | x :: rest => match splitThen rest with
    | h :: t => (x :: h) :: t
    | [] => [[x]]

/-- Model and spec of a whole `then` chain (spec only if every verb has one). -/
def evalChain (argv : List String) : Option ((List Rec → List Rec) × Option (List Rec → List Rec)) := do
  let parts ← (splitThen argv).mapM evalVerb
  let model := parts.foldl (fun f p => p.1 ∘ f) id
  let spec := parts.foldl (fun (f : Option (List Rec → List Rec)) p =>
    match f, p.2 with | some f, some s => some (s ∘ f) | _, _ => none) (some id)
  pure (model, spec)

def isSublist : List Rec → List Rec → Bool
  | [], _ => true
  | _ :: _, [] => false
  | a :: as, b :: bs => if a == b then isSublist as bs else isSublist (a :: as) bs

def countOf (r : Rec) (xs : List Rec) : Nat := (xs.filter (· == r)).length
def isPerm (xs ys : List Rec) : Bool := xs.length == ys.length && xs.all fun r => countOf r xs == countOf r ys
def allMem (xs ys : List Rec) : Bool := xs.all ys.contains

/-- Laws for verbs outside the model (randomised or regex/DSL based): checked on the implementation. -/
def lawFor (argv : List String) (input out : List Rec) : Option String :=
  match argv with
  | "shuffle" :: _ => if isPerm out input then none else some "a permutation of the input"
  | "bootstrap" :: _ => if out.length == input.length && allMem out input then none else some "N records, each an input record"
  | "sample" :: _ => if allMem out input && out.all (fun r => countOf r out ≤ countOf r input) then none else some "a sub-multiset of the input"
  | "grep" :: _ => if isSublist out input then none else some "a sublist of the input"
  | "filter" :: _ => if isSublist out input then none else some "a sublist of the input"
  | _ => none

/-- `pair <argvA> <argvB> <records> | <outA> <outB>`: two complementary selections partition the input. -/
def pair : Handler
  | [_, _, rsS], impl => do
    let rs ← Rec.parseList rsS
    match impl.splitOn " " with
    | [a, b] => do
      let oa ← Rec.parseList a
      let ob ← Rec.parseList b
      let ok := isSublist oa rs && isSublist ob rs && isPerm (oa ++ ob) rs
      pure { model := impl, spec := if ok then none else some ("-", "the two outputs partition the input (both sublists, together a permutation)") }
    | _ => pure { model := impl, spec := some ("-", "two record lists") }
  | _, _ => none

/-- Does the implementation's text match the model's value?  A model value that starts with the
0-byte marker is a float given by its bits: the implementation's text must parse back to it. -/
def valMatches (modelV implV : Bytes) : Bool :=
  match modelV with
  | 0 :: hex =>
    let bits := hexNat (String.ofList (hex.map Char.ofNat))
    let parsed : Option Nat :=
      if implV == str "+Inf" then some F64.posInf else if implV == str "-Inf" then some F64.negInf
      else if implV == str "NaN" then some F64.nan
      else ParseFloat.parseSat implV
    parsed == some bits
  | 1 :: txt => cmpNumeric txt implV == 0
  | _ => modelV == implV

def recsMatch (model impl : List Rec) : Bool :=
  model.length == impl.length && (model.zip impl).all fun (a, b) =>
    a.length == b.length && (a.zip b).all fun (p, q) => p.1 == q.1 && valMatches p.2 q.2

/-- `pctidx <p> <n> | <index>`: the non-interpolated percentile index. -/
def pctidx : Handler
  | [ps, ns], _ => do
    let pb ← ParseFloat.parse (ps.toList.map Char.toNat)
    let n ← ns.toNat?
    pure { model := toString (percentileIndexB pb n) }
  | _, _ => none

/-- `verbs <argv> <records> | <records out>` -/
def verbs : Handler
  | [av, rsS], impl => do
    let rs ← Rec.parseList rsS
    match evalChain (argvOf av) with
    | none =>
      let spec := if impl == "panic" || impl == "hang" then some ("-", "records or an error")
        else match Rec.parseList impl with
          | some out => (lawFor (argvOf av) rs out).map fun w => ("-", w)
          | none => none
      pure { model := impl, spec, unmodelled := true }
    | some (m, s) =>
      let mo := m rs
      -- floats computed by the model are compared by value with the implementation's text
      let model := match Rec.parseList impl with
        | some io => if recsMatch mo io then impl else Rec.showList mo
        | none => Rec.showList mo
      let spec := match s with
        | some f => let w := Rec.showList (f rs); if w == impl then none else some ("-", w)
        | none => none
      pure { model, spec }
  | _, _ => none

/-- `perrec`: a law on the implementation only - a verb that keeps no state across records gives, on a
stream, the concatenation of what it gives on each record alone. -/
def perrec : Handler
  | [_, _], impl =>
    some { model := impl, unmodelled := true,
           spec := if impl == "same" || impl == "err" then none else some ("-", "same output as record by record (no state carried from one record to the next)") }
  | _, _ => none

end Driver.Verbs
