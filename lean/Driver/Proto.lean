/-
Line protocol shared by all driver ops.

  input  line:  <op> <arg>* | <impl-result>
  output line:  OK | OK unmodelled                              (the latter: outside the model, counted)
             |  DIFF model=<model-result>                       (correspondence broken)
             |  SPEC tag=<tag> want=<spec-result>               (impl result violates the property)
             |  DIFF model=<...> SPEC tag=<tag> want=<...>      (both)
             |  BAD <why>                                       (malformed line: harness bug)

`tag` names the exclusion class of the matching `_partial` theorem (so that known findings are
matched by the *same* predicate the theorem excludes) or `-` when the input is in no such class.
-/
namespace Driver

structure Verdict where
  model : String                 -- model's result in canonical text
  spec : Option (String × String) := none   -- (tag, wanted) when impl's result violates the spec
  unmodelled : Bool := false     -- the model has no opinion on this case (only implementation-level laws applied)

abbrev Handler := List String → String → Option Verdict   -- args → impl result → verdict (none = BAD)

def render (impl : String) (v : Verdict) : String :=
  let d := if v.model == impl then "" else s!"DIFF model={v.model}"
  let s := match v.spec with
    | none => ""
    | some (tag, want) => s!"SPEC tag={tag} want={want}"
  if d.isEmpty && s.isEmpty then (if v.unmodelled then "OK unmodelled" else "OK")
  else if d.isEmpty then s
  else if s.isEmpty then d
  else d ++ " " ++ s

end Driver
