import Driver.Proto
import MillerModel.Model.Regex
namespace Driver.Re
open Miller

/-- `re <pattern> <subject> | none | s,e,g1s,g1e,… | badre` -/
def re : Handler
  | [ph, sh], impl =>
    let pat := Bytes.ofHex ph
    let subj := Bytes.ofHex sh
    match Regex.parse pat with
    | none => some { model := impl }    -- outside the modelled subset: skipped
    | some (r, ng) =>
      let model := match Regex.search r subj pat 0 with
        | none => "none"
        | some (s, e, caps) =>
          let gs := (List.range ng).map fun i =>
            match caps.getD i none with
            | some (a, b) => s!"{a},{b}"
            | none => "-1,-1"
          String.intercalate "," (s!"{s},{e}" :: gs)
      some { model }
  | _, _ => none

end Driver.Re
