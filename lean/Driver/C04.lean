import Driver.Proto
import Driver.Verbs
import MillerModel.Model.Pipeline
namespace Driver.C04
open Miller Miller.Verbs Miller.Pipeline Driver.Verbs

/-- `chainb <argv> <records> | <records>`: the real pipeline under five batch sizes x both record
hashing modes gave one and the same output (else the harness says BATCHDIFF); where the chain is
modelled, that output is the model's `chainRun`. -/
def chainb : Handler
  | [av, rsS], impl => do
    let rs ← Rec.parseList rsS
    if impl.startsWith "BATCHDIFF" then
      return { model := impl, spec := some ("-", "the same output for every batch size and hashing mode") }
    if impl == "panic" || impl == "hang" then
      return { model := impl, spec := some ("-", "records or an error, for every batch size") }
    match evalChain (argvOf av) with
    | none => pure { model := impl, unmodelled := true }
    | some (m, _) =>
      let mo := m rs
      let model := match Rec.parseList impl with
        | some io => if recsMatch mo io then impl else Rec.showList mo
        | none => Rec.showList mo
      pure { model }
  | _, _ => none

/-- `thenpipe <A> <B> <records> | same` -/
def thenpipe : Handler
  | [_, _, _], impl =>
    some { model := impl, spec := if impl == "same" then none else some ("-", "`A then B` and `A | B` give the same output") }
  | _, _ => none

/-- `ctxs <counts> <batch> | nr,fnr,filenum,fileindex;…;end,N` -/
def ctxs : Handler
  | [cs, _], _ => do
    let counts ← (cs.splitOn ",").mapM String.toNat?
    let lines := (contexts counts).map fun c => s!"{c.nr},{c.fnr},{c.filenum},{c.filename}"
    pure { model := String.intercalate ";" (lines ++ [s!"end,{counts.sum}"]) }
  | _, _ => none

end Driver.C04
