import Driver.Proto
import MillerModel.Model.Strings
import MillerModel.Model.Regex
namespace Driver.C15
open Miller Miller.Strings

def res (b : Bytes) : String := "s" ++ Bytes.toHex b
def isAscii (s : Bytes) : Bool := s.all (· < 128)
def natText (n : Nat) : Bytes := (toString n).toList.map Char.toNat

/-- Replace `\0`..`\9` in the replacement by the captures (group 0 = whole match; missing = empty). -/
def interpolate (rep : Bytes) (subj : Bytes) (whole : Nat × Nat) (caps : Regex.Caps) : Bytes :=
  let cap (d : Nat) : Bytes :=
    if d == 0 then (subj.drop whole.1).take (whole.2 - whole.1)
    else match caps.getD (d - 1) none with
      | some (a, b) => (subj.drop a).take (b - a)
      | none => []
  let rec go : Bytes → Bytes
    | 92 :: d :: rest => if 48 ≤ d && d ≤ 57 then cap (d - 48) ++ go rest else 92 :: go (d :: rest)
    | c :: rest => c :: go rest
    | [] => []
  go rep

/-- All non-overlapping matches left to right; `none` if one of them is empty (outside the model). -/
def allMatches (re : Regex.Re) (subj pat : Bytes) : Nat → Nat → Option (List (Nat × Nat × Regex.Caps))
  | 0, _ => some []
  | fuel + 1, frm =>
    match Regex.search re subj pat frm with
    | none => some []
    | some (s, e, c) => if s == e then none else (allMatches re subj pat fuel e).map fun l => (s, e, c) :: l

/-- `str <fn> <args…> | <result>` -/
def str : Handler
  | fn :: args, impl =>
    let um : Option Verdict := some { model := impl, unmodelled := true }
    let want (b : Bytes) : Option Verdict := some { model := res b }
    match fn, args with
    | "strlen", [s] => want (natText (strlen (Bytes.ofHex s)))
    | "toupper", [s] => let b := Bytes.ofHex s; if isAscii b then want (toupper b) else um
    | "tolower", [s] => let b := Bytes.ofHex s; if isAscii b then want (tolower b) else um
    | "capitalize", [s] => let b := Bytes.ofHex s; if isAscii b then want (capitalize b) else um
    | "lstrip", [s] => want (lstrip (Bytes.ofHex s))
    | "rstrip", [s] => want (rstrip (Bytes.ofHex s))
    | "strip", [s] => want (strip (Bytes.ofHex s))
    | "collapse_whitespace", [s] => let b := Bytes.ofHex s; if isAscii b then want (collapseWs b) else um
    | "truncate", [s, k] => k.toNat?.bind fun n => want (truncate (Bytes.ofHex s) n)
    | "leftpad", [s, k, p] => k.toInt?.bind fun n => want (leftpad (Bytes.ofHex s) n (Bytes.ofHex p))
    | "rightpad", [s, k, p] => k.toInt?.bind fun n => want (rightpad (Bytes.ofHex s) n (Bytes.ofHex p))
    | "substr1", [s, m, k] => m.toInt?.bind fun a => k.toInt?.bind fun b => want (substr1 (Bytes.ofHex s) a b)
    | "substr0", [s, m, k] => m.toInt?.bind fun a => k.toInt?.bind fun b => want (substr0 (Bytes.ofHex s) a b)
    | "ssub", [s, o, n] => want (ssub (Bytes.ofHex s) (Bytes.ofHex o) (Bytes.ofHex n))
    | "gssub", [s, o, n] => let ob := Bytes.ofHex o; if ob.isEmpty then um else want (gssub (Bytes.ofHex s) ob (Bytes.ofHex n))
    | "base64_encode", [s] => want (b64encode (Bytes.ofHex s))
    | "hex_encode", [s] => want (hexEncode (Bytes.ofHex s))
    | "base64_decode", [s] =>
      let b := Bytes.ofHex s
      -- Go's decoder skips CR and LF; the model takes the strict alphabet only
      if b.any (fun c => c == 10 || c == 13) then um
      else (match b64decode b with | some d => want d | none => some { model := "(error)" })
    | "hex_decode", [s] => (match hexDecode (Bytes.ofHex s) with | some d => want d | none => some { model := "(error)" })
    | "b64rt", [s] => some { model := impl, spec := if impl == res (Bytes.ofHex s) then none else some ("-", "base64_decode(base64_encode(s)) = s") }
    | "hexrt", [s] => some { model := impl, spec := if impl == res (Bytes.ofHex s) then none else some ("-", "hex_decode(hex_encode(s)) = s") }
    | "latin1rt", [s] => some { model := impl, unmodelled := true, spec := if impl == res (Bytes.ofHex s) || impl == "(error)" then none else some ("-", "utf8_to_latin1(latin1_to_utf8(s)) = s") }
    | "jsonrt", [s] =>
      -- JSON text is UTF-8: the law is about texts that are valid UTF-8
      let b := Bytes.ofHex s
      let valid := ofRunes (runes b) == b
      some { model := impl, unmodelled := true, spec := if !valid || impl == res b then none else some ("-", "json_parse(json_stringify(s)) = s") }
    | "splitjoin", [s, _] => some { model := impl, unmodelled := true, spec := if impl == res (Bytes.ofHex s) then none else some ("-", "joinv(splitax(s, sep), sep) = s") }
    | "sub", [s, r, p] =>
      let subj := Bytes.ofHex s
      if !isAscii subj then um else
      (match Regex.compileMiller (Bytes.ofHex r) with
       | none => um
       | some c =>
         match Regex.search c.1 subj c.2.2 0 with
         | none => want subj
         | some (a, e, caps) => want (subj.take a ++ interpolate (Bytes.ofHex p) subj (a, e) caps ++ subj.drop e))
    | "gsub", [s, r, p] =>
      let subj := Bytes.ofHex s
      if !isAscii subj then um else
      (match Regex.compileMiller (Bytes.ofHex r) with
       | none => um
       | some c =>
         match allMatches c.1 subj c.2.2 (subj.length + 2) 0 with
         | none => um
         | some ms =>
           let rep := Bytes.ofHex p
           let (out, last) := ms.foldl (fun (acc : Bytes × Nat) (m : Nat × Nat × Regex.Caps) =>
             (acc.1 ++ (subj.drop acc.2).take (m.1 - acc.2) ++ interpolate rep subj (m.1, m.2.1) m.2.2, m.2.1)) (([] : Bytes), 0)
           want (out ++ subj.drop last))
    | "regextract", [s, r] =>
      let subj := Bytes.ofHex s
      if !isAscii subj || subj.isEmpty then um else
      (match Regex.compileMiller (Bytes.ofHex r) with
       | none => um
       | some c =>
         match Regex.search c.1 subj c.2.2 0 with
         | none => some { model := "(absent)" }
         | some (a, e, _) => want ((subj.drop a).take (e - a)))
    | _, _ => none
  | _, _ => none

end Driver.C15
