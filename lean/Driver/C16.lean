import Driver.Proto
import MillerModel.Model.Time
namespace Driver.C16
open Miller Miller.Time

def showOptInt : Option Int → String | some n => toString n | none => "(error)"

/-- `tm <fn> <arg> | <result>`: the model's value for the function. -/
def tm : Handler
  | [fn, arg], impl =>
    match fn with
    | "sec2gmt" => arg.toInt?.map fun t => { model := Bytes.toHex (sec2gmt t) }
    | "sec2gmtdate" => arg.toInt?.map fun t => { model := Bytes.toHex (sec2gmtdate t) }
    | "gmt2sec" =>
      -- the model covers the canonical 20-character text; other spellings the implementation may accept are outside it
      let s := Bytes.ofHex arg
      if s.length == 20 then some { model := showOptInt (gmt2sec s) } else some { model := impl, unmodelled := true }
    | "sec2dhms" => arg.toInt?.map fun t =>
        -- the most negative int64 has no int64 absolute value: outside the model
        if t == -9223372036854775808 then { model := impl, unmodelled := true } else { model := Bytes.toHex (sec2dhms t) }
    | "sec2hms" => arg.toInt?.map fun t =>
        if t == -9223372036854775808 then { model := impl, unmodelled := true } else { model := Bytes.toHex (sec2hms t) }
    | "dhms2sec" =>
      let s := Bytes.ofHex arg
      match dhms2sec s with
      | some n => some { model := toString n }
      | none => some { model := impl, unmodelled := true }   -- Sscanf is more lenient than the canonical grammar (signs, blanks): outside the model
    | "hms2sec" => some { model := impl, unmodelled := true }
    | _ => none
  | _, _ => none

/-- `tmrt <kind> … | …`: laws evaluated on the implementation. -/
def tmrt : Handler
  | kind :: args, impl =>
    let parts := impl.splitOn " "
    match kind, args, parts with
    | "strf", [t, fh], [_, back] =>
      let f := String.ofList ((Bytes.ofHex fh).map Char.ofNat)
      let tag := if (f.splitOn "%s").length > 1 && back == "(error)" then "strptime-no-percent-s" else "-"
      some { model := impl, unmodelled := true, spec := if back == t then none else some (tag, s!"strptime(strftime(t, f), f) = t = {t}") }
    | "strfn", [t, fh], [_, back] =>
      -- the format determines the instant only to the precision of its seconds code
      let f := String.ofList ((Bytes.ofHex fh).map Char.ofNat)
      let unit : Int := if (f.splitOn "%9S").length > 1 then 1 else if (f.splitOn "%6S").length > 1 then 1000
                        else if (f.splitOn "%3S").length > 1 then 1000000 else 1000000000
      let want := t.toInt?.map fun n => (n / unit) * unit
      some { model := impl, unmodelled := true,
             spec := if want.map toString == some back then none
                     else some (if (f.splitOn "%s").length > 1 && back == "(error)" then "strptime-no-percent-s" else "-",
                                s!"strpntime(strfntime(t, f), f) = t to the precision of f = {want}") }
    | "strfl", [t, _, _], [txt, back, _, again] =>
      -- in a DST overlap a zone-less local text names two instants: the parse may return either (same text again)
      some { model := impl, unmodelled := true,
             spec := if back == t || (again == txt && back != "(error)") then none
                     else some ("-", s!"strptime_local(strftime_local(t, f, tz), f, tz) = t = {t} (or the other instant with the same local text)") }
    | "fdhms", [_], [_, ok1, _, ok2] =>
      some { model := impl, unmodelled := true, spec := if ok1 == "ok" && ok2 == "ok" then none else some ("-", "dhms2fsec(fsec2dhms(x)) = x and hms2fsec(fsec2hms(x)) = x to 1e-6") }
    | "decimals", [_, _], [_] => some { model := impl, unmodelled := true }
    | _, _, _ => some { model := impl, spec := some ("-", "a well-formed result") }
  | _, _ => none

end Driver.C16
