import Driver.Proto
import MillerModel.Model.Flatten
import MillerModel.Model.Formats.Rec
namespace Driver.C02
open Miller Miller.Flatten

def parseComp (s : String) : Option Comp :=
  match s.toList with
  | 'k' :: rest => some { key := Bytes.ofHex (String.ofList rest), idx := false }
  | 'i' :: rest => some { key := Bytes.ofHex (String.ofList rest), idx := true }
  | _ => none

def parseLeaf (s : String) : Option Leaf :=
  match s.toList with
  | ['M'] => some .emptyMap
  | ['A'] => some .emptyArr
  | 's' :: rest => some (.scalar (Bytes.ofHex (String.ofList rest)))
  | _ => none

def parseDoc (s : String) : Option Doc :=
  if s == "-" then some [] else
  (s.splitOn ";").mapM fun e =>
    match e.splitOn "=" with
    | [p, l] => do
      let comps ← (p.splitOn "/").mapM parseComp
      let leaf ← parseLeaf l
      pure (comps, leaf)
    | _ => none

def showDoc (d : Doc) : String :=
  if d.isEmpty then "-" else
  String.intercalate ";" (d.map fun e =>
    String.intercalate "/" (e.1.map fun c => (if c.idx then "i" else "k") ++ Bytes.toHex c.key) ++ "=" ++
      (match e.2 with | .emptyMap => "M" | .emptyArr => "A" | .scalar s => "s" ++ Bytes.toHex s))

/-- The four decidable conditions of `Props.C02.Representable`. -/
def representable (sep : Nat) (d : Doc) : Bool :=
  let ks : List (List Bytes × Leaf) := d.map fun e => (e.1.map (·.key), e.2)
  d.all (fun e => !e.1.isEmpty && e.1.all fun c => !c.key.isEmpty && !c.key.contains sep) &&
  d.all (fun e => match e.2 with | .scalar s => s != [123, 125] && s != [91, 93] | _ => true) &&
  regroup ((ks.map (·.1.length)).foldl max 0 + 1) 0 ks == ks &&
  d.all (fun e => tagPath (ks.map (·.1)) (e.1.map (·.key)) == e.1)

/-- No flattened key denotes a path that is a prefix of (or equal to) another key's path. When two
do (possible only when a key of the document itself contains the separator, e.g. {"a":1,"a.b":2}
under "."), CopyUnflattened is "best-effort" (PutIndexed overwrites or gives up): outside the model. -/
def conflictFree (sep : Nat) (fr : Rec) : Bool :=
  let ps := fr.map fun p => keyPath sep p.1
  let ips := (List.range ps.length).zip ps
  ips.all fun a => ips.all fun b => a.1 == b.1 || !(a.2.isPrefixOf b.2)

/-- `flat <sep> <doc> | <doc as built> <flat record> <doc after unflatten>` -/
def flat : Handler
  | [sepH, _], impl =>
    match impl.splitOn " " with
    | [builtS, flatS, unS] => do
      let sep ← match Bytes.ofHex sepH with | [b] => some b | _ => none
      let built ← parseDoc builtS
      let fr := flatten sep built
      let un := unflatten sep fr
      let model := builtS ++ " " ++ Rec.showList [fr] ++ " " ++ showDoc un
      -- the property: a representable record comes back unchanged
      let spec := if representable sep built && unS != builtS then some ("-", "the record back unchanged: " ++ builtS) else none
      -- flattening an EMPTY record or one whose every value is scalar is the identity: shown as is
      if !conflictFree sep fr then
        pure { model := impl, spec, unmodelled := true }
      else
      pure { model := if flatS == Rec.showList [fr] && unS == showDoc un then impl else model, spec }
    | _ => some { model := impl, spec := if impl == "panic" then some ("-", "no panic") else none, unmodelled := true }
  | _, _ => none

/-- `optseq <A> <B> | same` and `optne <A> <B> | diff…` -/
def optseq : Handler
  | [_, _], impl => some { model := impl, unmodelled := true, spec := if impl == "same" then none else some ("-", "the flag and its documented expansion select the same formats, separators and behaviour") }
  | _, _ => none
def optne : Handler
  | [_, _], impl => some { model := impl, unmodelled := true, spec := if impl.startsWith "diff" then none else some ("-", "different settings reported as different (the comparison is not vacuous)") }
  | _, _ => none

/-- `conv3 <A> <B> <C> <records> | same` -/
def conv3 : Handler
  | [a, b, c, rs], impl =>
    -- numbers that pass through YAML are re-rendered (7e3 becomes 7000): known finding, recognised by a
    -- YAML leg plus a number whose spelling is not Go's canonical one among the values
    let viaYaml := a == "yaml" || b == "yaml" || c == "yaml"
    let hasOddNumber := (rs.splitOn "376533").length > 1
    let tag := if viaYaml && hasOddNumber && impl != "err" then "yaml-number-formatting" else "-"
    some { model := impl, unmodelled := true, spec := if impl == "same" then none else some (tag, "A->B->A reproduces the records and A->B = A->C->B") }
  | _, _ => none

end Driver.C02
