import Driver.Proto
import MillerModel.Model.Fanout
import MillerModel.Gen.Consts
namespace Driver.C20
open Miller Miller.Fanout

def bs (s : String) : Bytes := s.toList.map Char.toNat

/-- Bytes of one document in the given format, as the real writer produces them for the flat
records of this op (k: text, v: integer). -/
def renderDoc (fmt : String) (d : Doc) : Bytes :=
  let fieldsOf (r : Rec) : List (Bytes × Bytes) := r
  match fmt with
  | "csv" =>
    match d with
    | [] => []
    | r0 :: _ =>
      let line (xs : List Bytes) : Bytes := Split.join [44] xs ++ [10]
      line (fieldsOf r0 |>.map (·.1)) ++ (d.flatMap fun r => line (r.map (·.2)))
  | "dkvp" => d.flatMap fun r => Split.join [44] (r.map fun p => p.1 ++ [61] ++ p.2) ++ [10]
  | _ => -- json, multi-line list
    let isNum (v : Bytes) : Bool := !v.isEmpty && v.all fun c => 48 ≤ c && c ≤ 57
    let recText (r : Rec) : Bytes :=
      bs "{\n" ++ Split.join (bs ",\n") (r.map fun p =>
        bs "  \"" ++ p.1 ++ bs "\": " ++ (if isNum p.2 then p.2 else bs "\"" ++ p.2 ++ bs "\"")) ++ bs "\n}"
    bs "[\n" ++ Split.join (bs ",\n") (d.map recText) ++ bs "\n]\n"

def parseHist (s : String) : Option (List (Nat × Rec)) :=
  if s == "-" then some [] else
  (s.splitOn ",").mapM fun w =>
    match w.splitOn ":" with
    | [t, v] => t.toNat?.map fun tn => (tn, [(bs "k", bs ("t" ++ t)), (bs "v", bs v)])
    | _ => none

/-- `fanout <w|a> <fmt> <pre> <hist> | <t=hex;...>` -/
def fanout : Handler
  | [mode, fmt, preS, histS], impl => do
    let am := mode == "a"
    let pre ← preS.toNat?
    let hist ← parseHist histS
    let old : Rec := [(bs "k", bs "old"), (bs "v", bs "0")]
    let f0 : Files := (List.range pre).map fun t => (t, [[old]])
    let st := run Gen.lruFileHandlerCapacity am { files := f0 } hist
    let targets := ((List.range pre) ++ hist.map (·.1)).eraseDups
    let sorted := targets.foldl (fun acc t =>
      let rec ins : List Nat → List Nat
        | [] => [t]
        | h :: rest => if t < h then t :: h :: rest else h :: ins rest
      ins acc) []
    let model := if sorted.isEmpty then "-" else
      String.intercalate ";" (sorted.map fun t =>
        toString t ++ "=" ++ Bytes.toHex ((docsOf st.files t).flatMap (renderDoc fmt)))
    -- the property: one document per target (after the previous contents in append mode)
    let bad := sorted.filter fun t =>
      let want := (if am then docsOf f0 t else []) ++ (if (routed hist t).isEmpty then [] else [routed hist t])
      let want := if (routed hist t).isEmpty then docsOf f0 t else want
      docsOf st.files t != want
    let spec := match bad with
      | [] => none
      | t :: _ => some ("evicted-target-revisited", s!"target {t}: one document holding its {(routed hist t).length} records; the file holds {(docsOf st.files t).length} documents")
    -- the spec verdict is about the implementation: only when it agrees with the model
    pure { model, spec := if model == impl then spec else none }
  | _, _ => none

end Driver.C20
