import Driver.Proto
import Driver.C06
import Driver.C07
import Driver.C08
import Driver.C01
import Driver.Verbs
import Driver.C03
import Driver.C09
import Driver.Re
import Driver.C13
import Driver.C20
import Driver.C04
import Driver.C18
import Driver.C16
import Driver.C14
import Driver.C02
import Driver.C15
namespace Driver

def dispatch (op : String) : Option Handler :=
  match op with
  | "infer" => some C06.infer
  | "inferlit" => some C06.inferlit
  | "fromstring" => some C06.fromstring
  | "scan" => some C06.scan
  | "parsefloat" => some C06.parsefloat
  | "bin7" => some C07.bin7
  | "un7" => some C07.un7
  | "modop" => some C07.modop
  | "pow" => some C07.pow
  | "imath" => some C07.imath
  | "f64" => some C07.f64
  | "f2i" => some C07.f2i
  | "verbs" => some Verbs.verbs
  | "verbsx" => some Verbs.verbs
  | "readops" => some C03.readops
  | "sortv" => some C09.sortv
  | "cmp" => some C09.cmp
  | "cmp3" => some C09.cmp3
  | "dslsort" => some C09.dslsort
  | "dslsortmv" => some C09.dslsort      -- a map sorted by value: the same law on its values ("v" is no collation flag)
  | "join" => some C13.join
  | "pctidx" => some Verbs.pctidx
  | "perrec" => some Verbs.perrec
  | "fanout" => some C20.fanout
  | "chainb" => some C04.chainb
  | "str" => some C15.str
  | "flat" => some C02.flat
  | "optseq" => some C02.optseq
  | "optne" => some C02.optne
  | "conv3" => some C02.conv3
  | "tm" => some C16.tm
  | "dsl" => some C14.dsl
  | "dslwhy" => some C14.dslwhy
  | "tmrt" => some C16.tmrt
  | "fn" => some C18.noCrash
  | "rdz" => some C18.noCrash
  | "dslr" => some C18.noCrash
  | "recur" => some C18.recur
  | "thenpipe" => some C04.thenpipe
  | "ctxs" => some C04.ctxs
  | "re" => some Re.re
  | "bystand" => some C03.bystand
  | "pair" => some Verbs.pair
  | "rt" => some C01.rt
  | "rd" => some C01.rd
  | "style" => some C01.style
  | "bin8" => some C08.bin8
  | "comm8" => some C08.comm8
  | "un8" => some C08.un8
  | "nary8" => some C08.nary8
  | _ => none

def processLine (line : String) : String :=
  match line.splitOn " | " with
  | [lhs, impl] =>
    match lhs.splitOn " " with
    | op :: args =>
      match dispatch op with
      | some h =>
        -- "exit": the real code ended the process with a clean `mlr:` error exit (allowed);
        -- "crash": it died with a fatal Go error inside the harness (never allowed)
        if impl == "exit" then "OK"
        else if impl == "crash" then "SPEC tag=- want=no-crash"
        else match h args impl with
        | some v => render impl v
        | none => "BAD args"
      | none => "BAD op"
    | [] => "BAD empty"
  | _ => "BAD format"

partial def loop (hin hout : IO.FS.Stream) : IO Unit := do
  let line ← hin.getLine
  if line.isEmpty then return ()
  let l := if line.endsWith "\n" then (line.dropEnd 1).toString else line
  hout.putStrLn (processLine l)
  loop hin hout

end Driver

def main : IO Unit := do
  Driver.loop (← IO.getStdin) (← IO.getStdout)
