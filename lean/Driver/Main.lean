import Driver.Proto
import Driver.C06
namespace Driver

def dispatch (op : String) : Option Handler :=
  match op with
  | "infer" => some C06.infer
  | "inferlit" => some C06.inferlit
  | "fromstring" => some C06.fromstring
  | "scan" => some C06.scan
  | "parsefloat" => some C06.parsefloat
  | _ => none

def processLine (line : String) : String :=
  match line.splitOn " | " with
  | [lhs, impl] =>
    match lhs.splitOn " " with
    | op :: args =>
      match dispatch op with
      | some h =>
        match h args impl with
        | some v => render impl v
        | none => "BAD args"
      | none => "BAD op"
    | [] => "BAD empty"
  | _ => "BAD format"

partial def loop (hin hout : IO.FS.Stream) : IO Unit := do
  let line ← hin.getLine
  if line.isEmpty then return ()
  let l := if line.endsWith "\n" then (line.dropEnd 1).toString else line
  hout.putStrLn (processLine l)
  loop hin hout

end Driver

def main : IO Unit := do
  Driver.loop (← IO.getStdin) (← IO.getStdout)
