import Driver.Proto
import Driver.C06
import Driver.Verbs
import MillerModel.Model.Mlrval
namespace Driver.C03
open Miller Miller.Mlrval

def opOf : Char → ReadOp
  | 't' | 'y' | 'f' | 'v' | 'h' | 'a' => .typeOf
  | 'n' | 'i' | 'p' | 'm' | 'l' | 'j' | 'b' => .numeric
  | 's' | 'd' | 'q' | 'x' | 'k' | 'g' => .string
  | 'c' => .copy
  | _ => .originalString

/-- `readops <flag> <text> <ops> | <final String()>` -/
def readops : Handler
  | [fl, hx, opsS], impl => do
    let f ← C06.parseFlag fl
    let s := Bytes.ofHex hx
    let c := (opsS.toList.map opOf).foldl (applyRead f) (fromDeferred s)
    let model := Bytes.toHex (stringOf f c)
    pure { model, spec := if impl == hx then none else some ("-", hx) }
  | _, _ => none

/-- `bystand <flag> <argv> <records> <field> | n=<k>,<sorted texts>`: the texts of a field no verb
assigns are, as a multiset, exactly the input's (for chains that keep every record). -/
def bystand : Handler
  | [_, _, rsS, fh], impl => do
    let rs ← Rec.parseList rsS
    let f := Bytes.ofHex fh
    let texts := (rs.filterMap fun r => (Verbs.get r f).map Bytes.toHex)
    let sorted := texts.toArray.qsort (· < ·) |>.toList
    let want := String.intercalate "," (s!"n={rs.length}" :: sorted)
    pure { model := impl, spec := if impl == want then none else some ("-", want) }
  | _, _ => none

end Driver.C03
