import Driver.Proto
import MillerModel.Spec.Repr
import MillerModel.Spec.NumberGrammar
namespace Driver.C01
open Miller

def flagsOf (s : String) : List String :=
  if s == "-" then [] else (s.splitOn ",").map fun h => String.ofList ((Bytes.ofHex h).map Char.ofNat)

def argAfter (fl : List String) (name : String) : Option String :=
  match fl.dropWhile (· != name) with
  | _ :: v :: _ => some v
  | _ => none

def sepBytes (s : String) : Bytes :=
  match s with
  | "semicolon" => [59] | "comma" => [44] | "tab" => [9] | "pipe" => [124] | "colon" => [58]
  | "space" => [32] | "crlf" => [13, 10] | "lf" => [10]
  | other => Bytes.ofString other

inductive Fmt where | csv | tsv | dkvp | other (name : String)
  deriving Repr, BEq

def wfmt (fl : List String) : Fmt :=
  if fl.contains "--ocsv" || fl.contains "--csv" then .csv
  else if fl.contains "--otsv" || fl.contains "--tsv" then .tsv
  else if fl.contains "--odkvp" || fl.contains "--dkvp" then .dkvp
  else .other (fl.headD "?")

def csvW (fl : List String) : Csv.WOpts :=
  { comma := ((argAfter fl "--ofs").map sepBytes |>.getD [44]).headD 44,
    quoteAll := fl.contains "--quote-all",
    crlf := (argAfter fl "--ors") == some "crlf",
    headerless := fl.contains "--headerless-csv-output" }

def csvR (fl : List String) : Csv.ROpts :=
  { comma := ((argAfter fl "--ifs").map sepBytes |>.getD [44]).headD 44,
    implicitHeader := fl.contains "--implicit-csv-header",
    allowRagged := fl.contains "--allow-ragged-csv-input" }

def tsvW (fl : List String) : Tsv.WOpts :=
  { headerless := fl.contains "--headerless-tsv-output", crlf := (argAfter fl "--ors") == some "crlf" }
def tsvR (fl : List String) : Tsv.ROpts :=
  { implicitHeader := fl.contains "--implicit-tsv-header" }

def dkvpO (fl : List String) (w : Bool) : Dkvp.Opts :=
  { ifs := (argAfter fl (if w then "--ofs" else "--ifs")).map sepBytes |>.getD [44],
    ips := (argAfter fl (if w then "--ops" else "--ips")).map sepBytes |>.getD [61] }

/-- Representable domains of the formats that have no Lean reader/writer model (spec predicate on
the implementation only). -/
def reprOther (name : String) (rs : List Rec) : Bool :=
  let cells := Spec.Repr.cells rs
  let keys := Spec.Repr.allKeys rs
  let vals := Spec.Repr.allVals rs
  let uniq := rs.all Spec.Repr.uniqueKeys
  let utf8 := cells.all Spec.Repr.validUtf8
  let noCtl (bs : List Nat) (c : Bytes) := Spec.Repr.noByte bs c
  match name with
  | "--ojson" | "--ojsonl" =>
    uniq && utf8 && vals.all fun v =>
      (match Spec.NumberGrammar.classify .normal v with | .string => true | .void => true | _ => false)
      || Spec.Repr.jsonNumber v
  | "--oxtab" =>
    uniq && rs.all (fun r => !r.isEmpty) &&
    keys.all (fun k => !k.isEmpty && noCtl [32, 10, 13, 9] k) &&
    vals.all (fun v => !v.isEmpty && noCtl [10, 13] v && v.head? != some 32 && v.getLast? != some 32)
  | "--opprint-barred" =>
    uniq && rs.all (fun r => !r.isEmpty) &&
    keys.all (fun k => !k.isEmpty && noCtl [32, 10, 13, 9, 124] k) &&
    vals.all (fun v => noCtl [32, 10, 13, 9, 124] v)
  | "--opprint" =>
    uniq && rs.all (fun r => !r.isEmpty) &&
    keys.all (fun k => !k.isEmpty && noCtl [32, 10, 13, 9] k && k != [45]) &&
    vals.all (fun v => noCtl [32, 10, 13, 9] v && v != [45])
  | "--onidx" =>
    rs.all (fun r => !r.isEmpty && r.keys == (List.range r.length).map (fun i => Split.itoa (i + 1))) &&
    vals.all (fun v => !v.isEmpty && noCtl [32, 10, 13, 9] v)
  | "--omd" =>
    uniq && Spec.Repr.sameKeys rs && rs.all (fun r => !r.isEmpty) &&
    cells.all (fun c => noCtl [124, 10, 13] c && !c.isEmpty && !(c.all fun b => b == 45 || b == 58) &&
      !([32, 9].contains (c.headD 0)) && !([32, 9].contains (c.getLastD 0)))
  | "--ocsvlite" =>
    -- csvlite does no quoting at all on output
    uniq && rs.all (fun r => !r.isEmpty && !(r.length == 1 && r.vals.all List.isEmpty)) &&
    cells.all (fun c => noCtl [44, 34, 13, 10] c) && keys.all (fun k => !k.isEmpty)
  | _ => false

def implicitRename (rs : List Rec) : List Rec :=
  rs.map fun r => r.zipIdx.map fun (p, i) => (Split.itoa (i + 1), p.2)

/-- `rt <wflags> <rflags> <records> | <text> <records back>` (or `werr`, `<text> rerr`). -/
def rt : Handler
  | [wf, rf, rsS], impl => do
    let rs ← Rec.parseList rsS
    let wfl := flagsOf wf
    let rfl := flagsOf rf
    let fmt := wfmt wfl
    -- model
    let (modelText, modelBack) : Option (Except Unit Bytes) × (Bytes → Option (Except Unit (List Rec))) :=
      match fmt with
      | .csv => (some (match Csv.write (csvW wfl) rs with | .ok t => .ok t | .error _ => .error ()),
                 fun t => some (match Csv.read (csvR rfl) t with | .ok r => .ok r | .error _ => .error ()))
      | .tsv => (some (match Tsv.write (tsvW wfl) rs with | .ok t => .ok t | .error _ => .error ()),
                 fun t => some (match Tsv.read (tsvR rfl) t with | .ok r => .ok r | .error _ => .error ()))
      | .dkvp => (some (.ok (Dkvp.write (dkvpO wfl true) rs)), fun t => some (.ok (Dkvp.read (dkvpO rfl false) t)))
      | .other _ => (none, fun _ => none)
    let implParts := impl.splitOn " "
    let model : String :=
      match modelText with
      | none => impl
      | some (.error _) => "werr"
      | some (.ok t) =>
        match modelBack t with
        | some (.ok back) => Bytes.toHex t ++ " " ++ Rec.showList back
        | some (.error _) => Bytes.toHex t ++ " rerr"
        | none => impl
    -- spec: on the representable domain the records come back unchanged
    let headerless := wfl.contains "--headerless-csv-output" || wfl.contains "--headerless-tsv-output"
    let want := if headerless then implicitRename rs else rs
    let (inDomain, tag) : Bool × String :=
      match fmt with
      | .csv => (Spec.Repr.csv (csvW wfl) rs, "-")
      | .tsv => if Spec.Repr.tsv rs && Spec.Repr.tsvEmptyLine rs then (true, "tsv-empty-line") else (Spec.Repr.tsv rs, "-")
      | .dkvp => (Spec.Repr.dkvp (dkvpO wfl true) rs, "-")
      | .other name => (reprOther (if wfl.contains "--barred" then name ++ "-barred" else name) rs, "-")
    -- impl = "<text> <back> [x=<ok|diff|na>]": third token = an independent standard reader
    -- (Go encoding/csv, encoding/json) on Miller's text
    let implCore := String.intercalate " " (implParts.take 2)
    let xres := (implParts.drop 2).headD "x=na"
    let spec :=
      if !inDomain then none
      else match implParts.take 2 with
        | [_, back] =>
          if back != Rec.showList want then some (tag, Rec.showList want)
          else if xres == "x=diff" then some ("-", "an independent RFC-4180 / RFC-8259 reader recovers the same cells from the written text")
          else none
        | _ => some (tag, Rec.showList want)
    let model := if model == implCore then impl else model
    pure { model, spec }
  | _, _ => none

/-- `style <bits> <crlf> <records> | <text> <records>`: Miller reading text in an arbitrary legal
quoting style (RFC 4180 writer with needless quotes, LF or CRLF). -/
def style : Handler
  | [_, crlf, rsS], impl => do
    let rs ← Rec.parseList rsS
    let parts := impl.splitOn " "
    let text := Bytes.ofHex (parts.headD "-")
    let model := match Csv.read {} text with
      | .ok r => parts.headD "-" ++ " " ++ Rec.showList r
      | .error _ => parts.headD "-" ++ " rerr"
    -- domain: rectangular, unique non-empty keys; with CRLF line ends no cell may END in CR... (CR LF
    -- inside a quoted cell is normalised by every RFC reader) so: no CR LF inside cells
    let crlfMode := crlf == "1"
    let inDomain := Spec.Repr.csv { crlf := false } rs &&
      (!crlfMode || (Spec.Repr.cells rs).all (fun c => c.getLast? != some 13)) &&
      -- a first key starting with the UTF-8 BOM is stripped by design
      !(match rs with | r :: _ => (match r.keys with | k :: _ => Split.hasPrefix k [0xEF, 0xBB, 0xBF] | [] => false) | [] => false)
    let spec := if !inDomain then none
      else match parts with
        | [_, back] => if back == Rec.showList rs then none else some ("-", Rec.showList rs)
        | _ => some ("-", Rec.showList rs)
    pure { model, spec }
  | _, _ => none

/-- `rd <rflags> <text>`: reader alone, on arbitrary (also malformed) text. -/
def rd : Handler
  | [rf, th], impl =>
    let rfl := flagsOf rf
    let t := Bytes.ofHex th
    let model : String :=
      if rfl.contains "--icsv" then (match Csv.read (csvR rfl) t with | .ok r => Rec.showList r | .error _ => "rerr")
      else if rfl.contains "--itsv" then (match Tsv.read (tsvR rfl) t with | .ok r => Rec.showList r | .error _ => "rerr")
      else if rfl.contains "--idkvp" then Rec.showList (Dkvp.read (dkvpO rfl false) t)
      else impl
    some { model, spec := if impl == "panic" then some ("-", "records or an error, never a panic") else none }
  | _, _ => none

end Driver.C01
