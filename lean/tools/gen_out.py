allfns = ["eval","evalList","evalKVs","callFn","hof","anyEvery","mapFn","mapKV","foldFn","foldKV","sortFn","insertFn","execBlock","execStmts",
          "assignTo","unsetOne","unsetList","execIf","execWhile","execForKV","execForMulti","forMultiOne","forCGo","execForC","exec"]
sig = {"eval":"e","evalList":"es","evalKVs":"kvs","callFn":"f args","hof":"n args","anyEvery":"b f xs","mapFn":"f xs","mapKV":"f kvs",
       "foldFn":"f acc xs","foldKV":"f acc kvs","sortFn":"f xs","insertFn":"f x ys","execBlock":"body","execStmts":"body","assignTo":"lhs path v",
       "unsetOne":"lhs path","unsetList":"ls","execIf":"bs els","execWhile":"c body","execForKV":"k v es body","execForMulti":"ks v sofar es body",
       "forMultiOne":"ks v here val body","forCGo":"c","execForC":"c u body","exec":"st"}
cases = {"eval":"e","evalList":"es","evalKVs":"kvs","anyEvery":"xs","mapFn":"xs","mapKV":"kvs","foldFn":"xs","foldKV":"kvs","sortFn":"xs","insertFn":"ys",
         "execStmts":"body","assignTo":"lhs","unsetOne":"lhs","unsetList":"ls","execIf":"bs","execForKV":"es","execForMulti":"es","exec":"st"}
fw='''/-
OUTPUT IS APPEND-ONLY: whatever a piece of program does and however it ends, everything printed or
emitted before it is still there afterwards, in the same order, at the front of the output - nothing
already produced is ever changed, dropped or reordered.  Third induction over the interpreter.
-/
import MillerModel.Lemmas.C14Interp
namespace Miller
namespace DSL

/-- `m` only appends to the output. -/
def Appends {α} (m : M α) : Prop := ∀ s, s.out <+: (runM m s).2.out

theorem Appends.out {α} {m : M α} (h : Appends m) {s : St} {r : Except Err α} {s' : St} (hr : runM m s = (r, s')) : s.out <+: s'.out := by
  have := h s; rw [hr] at this; exact this

theorem appends_of {α} {m : M α} (h : ∀ s r s', runM m s = (r, s') → s.out <+: s'.out) : Appends m := by
  intro s
  cases hr : runM m s with
  | mk r s' => exact h s r s' hr

theorem appends_pure {α} (a : α) : Appends (pure a : M α) := fun _ => List.prefix_refl _
theorem appends_failM {α} (e : Err) : Appends (failM e : M α) := fun _ => List.prefix_refl _
theorem appends_bind {α β} (m : M α) (f : α → M β) (hm : Appends m) (hf : ∀ a, Appends (f a)) : Appends (m >>= f) := by
  apply appends_of
  intro s r s' h
  simp only [runM_bind] at h
  split at h
  · rename_i a s1 h1
    exact (hm.out h1).trans ((hf a).out h)
  · rename_i e s1 h1
    have := hm.out h1
    simp at h
    rw [← h.2]; exact this
theorem appends_tryCatch {α} (m : M α) (h : Err → M α) (hm : Appends m) (hh : ∀ e, Appends (h e)) : Appends (tryCatch m h) := by
  apply appends_of
  intro s r s' hr
  rw [runM_tryCatch] at hr
  split at hr
  · rename_i a s1 h1
    have := hm.out h1
    simp at hr; rw [← hr.2]; exact this
  · rename_i e s1 h1
    exact (hm.out h1).trans ((hh e).out hr)

theorem appends_withStack {α} (enter : Stack → Stack) (leave : Stack → Stack → Stack) (m : M α) (hm : Appends m) :
    Appends (withStack enter leave m) := by
  apply appends_of
  intro s r s' h
  unfold withStack at h
  simp only [runM_bind, runM_get, runM_modify, runM_tryCatch, runM_pure, runM_throw] at h
  split at h
  · rename_i a s1 h1
    split at h1
    · rename_i a2 s2 h2
      have := hm.out h2
      simp at h1 h
      rw [← h.2, ← h1.2]
      simpa using this
    · simp at h1
  · rename_i e s1 h1
    split at h1
    · simp at h1
    · rename_i e2 s2 h2
      have := hm.out h2
      simp at h1 h
      rw [← h.2, ← h1.2]
      simpa using this

theorem appends_bodyValue (blk : M Sig) (h : Appends blk) : Appends (bodyValue blk) := by
  apply appends_tryCatch
  · exact appends_bind _ _ h (fun _ => appends_pure _)
  · intro e
    cases e <;> first | exact appends_pure _ | exact appends_failM _

theorem appends_andThen {α β} (a : M α) (b : M β) (ha : Appends a) (hb : Appends b) : Appends (andThen a b) :=
  appends_bind _ _ ha (fun _ => hb)

'''
struct="structure AllAppends (p : Prog) (fuel : Nat) : Prop where\n"+"".join(f"  {n} : ∀ {sig[n]}, Appends ({n} p fuel {sig[n]})\n" for n in allfns)
macro='''
macro "out_step" : tactic => `(tactic| (
  apply appends_of
  intro s r s' h
  repeat' (first
    | (simp only [runM_bind, runM_map, runM_get, runM_set, runM_modify, runM_pure, runM_failM, runM_throw, runM_liftR, emitRec, emitRecs, emitLine] at h)
    | (split at h))
  all_goals (try simp at h)
  all_goals (try grind [List.prefix_refl, List.IsPrefix.trans, List.prefix_append])))

'''
ctx="".join(f"  have h_{n} := ih.{n}\n" for n in allfns)+'''  have h_truthy := runM_truthy
  have h_call : ∀ (isLit : Bool) (frame : Frame) (body : List Stmt), Appends (inCall isLit frame (bodyValue (execBlock p fuel body))) :=
    fun isLit frame body => appends_withStack _ _ _ (appends_bodyValue _ (ih.execBlock body))
  have h_sub : ∀ (frame : Frame) (body : List Stmt), Appends (inCall false frame (execBlock p fuel body)) :=
    fun frame body => appends_withStack _ _ _ (ih.execBlock body)
  have h_loopKV : ∀ k v es body, Appends (inNewFrame (execForKV p fuel k v es body)) :=
    fun k v es body => appends_withStack _ _ _ (ih.execForKV k v es body)
  have h_loopMulti : ∀ ks v sofar es body, Appends (inNewFrame (execForMulti p fuel ks v sofar es body)) :=
    fun ks v sofar es body => appends_withStack _ _ _ (ih.execForMulti ks v sofar es body)
  have h_loopC : ∀ init c u body, Appends (inNewFrame (andThen (execStmts p fuel init) (execForC p fuel c u body))) :=
    fun init c u body => appends_withStack _ _ _ (appends_andThen _ _ (ih.execStmts init) (ih.execForC c u body))
  unfold Appends at '''+" ".join("h_"+n for n in allfns)+''' h_call h_sub h_loopKV h_loopMulti h_loopC
'''
body=[]
for name in allfns:
    if name=="execBlock": continue
    args=sig[name]
    body.append(f"set_option maxHeartbeats 4000000 in\ntheorem appends_{name}_step (p : Prog) (fuel : Nat) (ih : AllAppends p fuel) : ∀ {args}, Appends ({name} p (fuel + 1) {args}) := by\n  intro {args}\n"+ctx+f"  unfold {name}\n"+ (f"  cases {cases[name]} <;> out_step\n" if name in cases else "  out_step\n"))
main='''
theorem appends_execBlock_step (p : Prog) (fuel : Nat) (ih : AllAppends p fuel) : ∀ body, Appends (execBlock p (fuel + 1) body) := by
  intro body
  unfold execBlock
  exact appends_withStack _ _ _ (ih.execStmts body)

theorem allAppends_zero (p : Prog) : AllAppends p 0 := by
  constructor <;> intros <;> first
'''+"\n".join("    | (unfold %s; exact appends_failM _)" % n for n in allfns)+'''

/-- THE INDUCTION: at every fuel, every function of the interpreter only appends to the output. -/
theorem allAppends (p : Prog) : ∀ fuel, AllAppends p fuel
  | 0 => allAppends_zero p
  | fuel + 1 =>
    have ih := allAppends p fuel
    { '''+",\n      ".join(f"{n} := appends_{n}_step p fuel ih" for n in allfns)+''' }

end DSL
end Miller
'''
open('/verif/lean/MillerModel/Lemmas/C14Output.lean','w').write(fw+struct+macro+"\n".join(body)+main)
