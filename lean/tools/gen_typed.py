p='/verif/lean/MillerModel/Lemmas/C14Typed.lean'
s=open(p).read()
marker='/-! ### the invariant through the monad -/'
if marker in s:
    s=s[:s.index(marker)]
else:
    s=s[:s.index('end DSL\nend Miller')]
allfns = ["eval","evalList","evalKVs","callFn","hof","anyEvery","mapFn","mapKV","foldFn","foldKV","sortFn","insertFn","execBlock","execStmts",
          "assignTo","unsetOne","unsetList","execIf","execWhile","execForKV","execForMulti","forMultiOne","forCGo","execForC","exec"]
sig = {"eval":"e","evalList":"es","evalKVs":"kvs","callFn":"f args","hof":"n args","anyEvery":"b f xs","mapFn":"f xs","mapKV":"f kvs",
       "foldFn":"f acc xs","foldKV":"f acc kvs","sortFn":"f xs","insertFn":"f x ys","execBlock":"body","execStmts":"body","assignTo":"lhs path v",
       "unsetOne":"lhs path","unsetList":"ls","execIf":"bs els","execWhile":"c body","execForKV":"k v es body","execForMulti":"ks v sofar es body",
       "forMultiOne":"ks v here val body","forCGo":"c","execForC":"c u body","exec":"st"}
cases = {"eval":"e","evalList":"es","evalKVs":"kvs","anyEvery":"xs","mapFn":"xs","mapKV":"kvs","foldFn":"xs","foldKV":"kvs","sortFn":"xs","insertFn":"ys",
         "execStmts":"body","assignTo":"lhs","unsetOne":"lhs","unsetList":"ls","execIf":"bs","execForKV":"es","execForMulti":"es","exec":"st"}
fw=marker+'''

/-- `m` keeps the stack well-typed, whatever its outcome. -/
def Keeps {α} (m : M α) : Prop := ∀ s, wtB s.stack = true → wtB (runM m s).2.stack = true

theorem Keeps.out {α} {m : M α} (h : Keeps m) {s : St} {r : Except Err α} {s' : St} (hs : wtB s.stack = true)
    (hr : runM m s = (r, s')) : wtB s'.stack = true := by
  have := h s hs; rw [hr] at this; exact this

theorem keeps_of {α} {m : M α} (h : ∀ s r s', wtB s.stack = true → runM m s = (r, s') → wtB s'.stack = true) : Keeps m := by
  intro s hs
  cases hr : runM m s with
  | mk r s' => exact h s r s' hs hr

theorem keeps_pure {α} (a : α) : Keeps (pure a : M α) := fun _ h => h
theorem keeps_failM {α} (e : Err) : Keeps (failM e : M α) := fun _ h => h
theorem keeps_bind {α β} (m : M α) (f : α → M β) (hm : Keeps m) (hf : ∀ a, Keeps (f a)) : Keeps (m >>= f) := by
  apply keeps_of
  intro s r s' hs h
  simp only [runM_bind] at h
  split at h
  · rename_i a s1 h1
    exact (hf a).out (hm.out hs h1) h
  · rename_i e s1 h1
    have := hm.out hs h1
    simp at h
    rw [← h.2]; exact this
theorem keeps_tryCatch {α} (m : M α) (h : Err → M α) (hm : Keeps m) (hh : ∀ e, Keeps (h e)) : Keeps (tryCatch m h) := by
  apply keeps_of
  intro s r s' hs hr
  rw [runM_tryCatch] at hr
  split at hr
  · rename_i a s1 h1
    have := hm.out hs h1
    simp at hr; rw [← hr.2]; exact this
  · rename_i e s1 h1
    exact (hh e).out (hm.out hs h1) hr

theorem keeps_withStack {α} (enter : Stack → Stack) (leave : Stack → Stack → Stack) (m : M α) (hm : Keeps m)
    (he : ∀ saved, wtB saved = true → wtB (enter saved) = true)
    (hl : ∀ saved cur, wtB saved = true → wtB cur = true → wtB (leave saved cur) = true) :
    Keeps (withStack enter leave m) := by
  apply keeps_of
  intro s r s' hs h
  unfold withStack at h
  simp only [runM_bind, runM_get, runM_modify, runM_tryCatch, runM_pure, runM_throw] at h
  split at h
  · rename_i a s1 h1
    split at h1
    · rename_i a2 s2 h2
      have := hm.out (s := { s with stack := enter s.stack }) (by simpa using he _ hs) h2
      simp at h1 h
      rw [← h.2, ← h1.2]
      exact hl _ _ hs this
    · simp at h1
  · rename_i e s1 h1
    split at h1
    · simp at h1
    · rename_i e2 s2 h2
      have := hm.out (s := { s with stack := enter s.stack }) (by simpa using he _ hs) h2
      simp at h1 h
      rw [← h.2, ← h1.2]
      exact hl _ _ hs this

theorem keeps_inNewFrame {α} (m : M α) (hm : Keeps m) : Keeps (inNewFrame m) := by
  apply keeps_withStack _ _ _ hm
  · intro saved h; simpa [wtB_cons, Frame.wt] using h
  · intro saved cur _ h; exact drop_wt cur 1 h

theorem keeps_inCall {α} (isLit : Bool) (frame : Frame) (m : M α) (hf : Frame.wt frame = true) (hm : Keeps m) :
    Keeps (inCall isLit frame m) := by
  apply keeps_withStack _ _ _ hm
  · intro saved h
    cases isLit
    · show wtB [frame] = true
      simp [wtB, hf]
    · show wtB (frame :: saved) = true
      rw [wtB_cons, hf, h]; rfl
  · intro saved cur hs h
    cases isLit
    · simpa using hs
    · simpa using drop_wt cur 1 h

theorem keeps_bodyValue (blk : M Sig) (h : Keeps blk) : Keeps (bodyValue blk) := by
  apply keeps_tryCatch
  · exact keeps_bind _ _ h (fun _ => keeps_pure _)
  · intro e
    cases e <;> first | exact keeps_pure _ | exact keeps_failM _

theorem keeps_andThen {α β} (a : M α) (b : M β) (ha : Keeps a) (hb : Keeps b) : Keeps (andThen a b) :=
  keeps_bind _ _ ha (fun _ => hb)

theorem runM_truthy_stack (v : DV) (s : St) : (runM (truthy v) s).2 = s := runM_truthy v s

'''
struct="/-- Everything the interpreter is made of, at one fuel. -/\nstructure AllKeeps (p : Prog) (fuel : Nat) : Prop where\n"+"".join(f"  {n} : ∀ {sig[n]}, Keeps ({n} p fuel {sig[n]})\n" for n in allfns)
macro='''
macro "inv_step" : tactic => `(tactic| (
  apply keeps_of
  intro s r s' hs h
  repeat' (first
    | (simp only [runM_bind, runM_map, runM_get, runM_set, runM_modify, runM_pure, runM_failM, runM_throw, runM_liftR, emitRec, emitRecs, emitLine] at h)
    | (split at h))
  all_goals (try simp at h)
  all_goals (try grind)))

'''
ctx="".join(f"  have h_{n} := ih.{n}\n" for n in allfns)+'''  have h_truthy := runM_truthy
  have h_define := define_wt
  have h_assign := assign_wt
  have h_setAtScope := setAtScope_wt
  have h_setOpt := setOpt_wt
  have h_unset := unset_wt
  have h_foldSet := foldlM_setAtScope_wt
  have h_frame := paramFrame_wt
  have h_call : ∀ (isLit : Bool) (frame : Frame) (body : List Stmt), Frame.wt frame = true → Keeps (inCall isLit frame (bodyValue (execBlock p fuel body))) :=
    fun isLit frame body hf => keeps_inCall _ _ _ hf (keeps_bodyValue _ (ih.execBlock body))
  have h_sub : ∀ (frame : Frame) (body : List Stmt), Frame.wt frame = true → Keeps (inCall false frame (execBlock p fuel body)) :=
    fun frame body hf => keeps_inCall _ _ _ hf (ih.execBlock body)
  have h_loopKV : ∀ k v es body, Keeps (inNewFrame (execForKV p fuel k v es body)) :=
    fun k v es body => keeps_inNewFrame _ (ih.execForKV k v es body)
  have h_loopMulti : ∀ ks v sofar es body, Keeps (inNewFrame (execForMulti p fuel ks v sofar es body)) :=
    fun ks v sofar es body => keeps_inNewFrame _ (ih.execForMulti ks v sofar es body)
  have h_loopC : ∀ init c u body, Keeps (inNewFrame (andThen (execStmts p fuel init) (execForC p fuel c u body))) :=
    fun init c u body => keeps_inNewFrame _ (keeps_andThen _ _ (ih.execStmts init) (ih.execForC c u body))
  unfold Keeps at '''+" ".join("h_"+n for n in allfns)+''' h_call h_sub h_loopKV h_loopMulti h_loopC
'''
body=[]
for name in allfns:
    if name=="execBlock": continue
    args=sig[name]
    body.append(f"set_option maxHeartbeats 4000000 in\ntheorem keeps_{name}_step (p : Prog) (fuel : Nat) (ih : AllKeeps p fuel) : ∀ {args}, Keeps ({name} p (fuel + 1) {args}) := by\n  intro {args}\n"+ctx+f"  unfold {name}\n"+ (f"  cases {cases[name]} <;> inv_step\n" if name in cases else "  inv_step\n"))
main='''
theorem keeps_execBlock_step (p : Prog) (fuel : Nat) (ih : AllKeeps p fuel) : ∀ body, Keeps (execBlock p (fuel + 1) body) := by
  intro body
  unfold execBlock
  exact keeps_inNewFrame _ (ih.execStmts body)

theorem allKeeps_zero (p : Prog) : AllKeeps p 0 := by
  constructor <;> intros <;> first
'''+"\n".join("    | (unfold %s; exact keeps_failM _)" % n for n in allfns)+'''

/-- THE INDUCTION: at every fuel, every function of the interpreter keeps the stack well-typed. -/
theorem allKeeps (p : Prog) : ∀ fuel, AllKeeps p fuel
  | 0 => allKeeps_zero p
  | fuel + 1 =>
    have ih := allKeeps p fuel
    { '''+",\n      ".join(f"{n} := keeps_{n}_step p fuel ih" for n in allfns)+''' }

end DSL
end Miller
'''
open(p,'w').write(s+fw+struct+macro+"\n".join(body)+main)
