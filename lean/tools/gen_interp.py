p='/verif/lean/MillerModel/Lemmas/C14Interp.lean'
s=open(p).read()
i=s.index('/-- Everything the interpreter is made of, at one fuel. -/')
head=s[:i]
if True:
    head=head[:head.index('/-! The stack primitives keep the number of frames. -/')] if '/-! The stack primitives keep the number of frames. -/' in head else head
    head+='''/-! The stack primitives keep the number of frames. -/

theorem frame_update_length (f : Frame) (x : String) (v : DV) : (Frame.update f x v).length = f.length := by
  induction f with
  | nil => rfl
  | cons b rest ih => unfold Frame.update; split <;> simp [ih]

theorem define_length (st : Stack) (x : String) (ty : Ty) (v : DV) (st' : Stack)
    (h : Stack.define st x ty v = .ok st') : st'.length = st.length := by
  unfold Stack.define at h
  split at h
  · cases h
  · split at h
    · cases h
    · split at h
      · cases h
      · cases h; rfl

theorem setAtScope_length (st : Stack) (x : String) (v : DV) (st' : Stack)
    (h : Stack.setAtScope st x v = .ok st') : st'.length = st.length := by
  unfold Stack.setAtScope at h
  split at h
  · cases h
  · split at h
    · split at h
      · cases h; rfl
      · cases h
    · cases h; rfl

theorem assign_length : ∀ (st : Stack) (x : String) (v : DV) (st' : Stack),
    Stack.assign st x v = .ok st' → st'.length = st.length
  | [], _, _, _, h => by simp [Stack.assign] at h
  | [f], x, v, st', h => by
    unfold Stack.assign at h
    split at h
    · split at h
      · cases h; rfl
      · cases h
    · cases h; rfl
  | f :: g :: rest, x, v, st', h => by
    unfold Stack.assign at h
    split at h
    · split at h
      · cases h; rfl
      · cases h
    · split at h
      · cases hr : Stack.assign (g :: rest) x v with
        | error e => rw [hr] at h; cases h
        | ok r =>
          rw [hr] at h
          have := assign_length (g :: rest) x v r hr
          cases h
          simp [this]
      · cases h; rfl

theorem setOpt_length (st : Stack) (x : Option String) (v : DV) (st' : Stack)
    (h : Stack.setOpt st x v = .ok st') : st'.length = st.length := by
  cases x with
  | none => simp [Stack.setOpt] at h; cases h; rfl
  | some k => exact setAtScope_length st k v st' h

theorem unset_length : ∀ (st : Stack) (x : String), (Stack.unset st x).length = st.length
  | [], _ => rfl
  | f :: rest, x => by
    unfold Stack.unset
    split
    · rfl
    · simp [unset_length rest x]

theorem foldlM_setAtScope_length : ∀ (kvs : List (String × DV)) (st st' : Stack),
    kvs.foldlM (fun (st : Stack) (kv : String × DV) => st.setAtScope kv.1 kv.2) st = .ok st' → st'.length = st.length
  | [], st, st', h => by simp [List.foldlM] at h; cases h; rfl
  | (k, v) :: rest, st, st', h => by
    simp only [List.foldlM] at h
    cases hs : Stack.setAtScope st k v with
    | error e => rw [hs] at h; cases h
    | ok s1 =>
      rw [hs] at h
      have h1 := setAtScope_length st k v s1 hs
      have h2 := foldlM_setAtScope_length rest s1 st' h
      omega

'''
fns = [
 ("eval", "e", ["e"]), ("evalList", "es", ["es"]), ("evalKVs", "kvs", ["kvs"]), ("callFn", "f args", []), ("hof", "n args", []),
 ("anyEvery", "b f xs", ["xs"]), ("mapFn", "f xs", ["xs"]), ("mapKV", "f kvs", ["kvs"]), ("foldFn", "f acc xs", ["xs"]),
 ("foldKV", "f acc kvs", ["kvs"]), ("sortFn", "f xs", ["xs"]), ("insertFn", "f x ys", ["ys"]), ("execStmts", "body", ["body"]),
 ("assignTo", "lhs path v", ["lhs"]), ("unsetOne", "lhs path", ["lhs"]), ("unsetList", "ls", ["ls"]), ("execIf", "bs els", ["bs"]),
 ("execWhile", "c body", []), ("execForKV", "k v es body", ["es"]), ("execForMulti", "ks v sofar es body", ["es"]),
 ("forMultiOne", "ks v here val body", []), ("forCGo", "c", []), ("execForC", "c u body", []), ("exec", "st", ["st"]),
]
allfns = ["eval","evalList","evalKVs","callFn","hof","anyEvery","mapFn","mapKV","foldFn","foldKV","sortFn","insertFn","execBlock","execStmts",
          "assignTo","unsetOne","unsetList","execIf","execWhile","execForKV","execForMulti","forMultiOne","forCGo","execForC","exec"]
sig = {"eval":"e","evalList":"es","evalKVs":"kvs","callFn":"f args","hof":"n args","anyEvery":"b f xs","mapFn":"f xs","mapKV":"f kvs",
       "foldFn":"f acc xs","foldKV":"f acc kvs","sortFn":"f xs","insertFn":"f x ys","execBlock":"body","execStmts":"body","assignTo":"lhs path v",
       "unsetOne":"lhs path","unsetList":"ls","execIf":"bs els","execWhile":"c body","execForKV":"k v es body","execForMulti":"ks v sofar es body",
       "forMultiOne":"ks v here val body","forCGo":"c","execForC":"c u body","exec":"st"}
struct="/-- Everything the interpreter is made of, at one fuel. -/\nstructure AllPres (p : Prog) (fuel : Nat) : Prop where\n"+"".join(f"  {n} : ∀ {sig[n]}, Pres ({n} p fuel {sig[n]})\n" for n in allfns)
macro='''
/-- One step of the automation: unfold the run of a do-block into matches on the runs of its parts,
split them all, and let the hypotheses about the parts close the arithmetic on lengths. -/
macro "pres_step" : tactic => `(tactic| (
  apply pres_of
  intro s r s' h
  repeat' (first
    | (simp only [runM_bind, runM_map, runM_get, runM_set, runM_modify, runM_pure, runM_failM, runM_throw, runM_liftR, emitRec, emitRecs, emitLine] at h)
    | (split at h))
  all_goals (try simp at h)
  all_goals (try grind)))

'''
ctx="".join(f"  have h_{n} := ih.{n}\n" for n in allfns)+'''  have h_truthy := runM_truthy
  have h_define := define_length
  have h_assign := assign_length
  have h_setAtScope := setAtScope_length
  have h_setOpt := setOpt_length
  have h_unset := unset_length
  have h_foldSet := foldlM_setAtScope_length
  have h_call : ∀ (isLit : Bool) (frame : Frame) (body : List Stmt), Pres (inCall isLit frame (bodyValue (execBlock p fuel body))) :=
    fun isLit frame body => pres_inCall _ _ _ (pres_bodyValue _ (ih.execBlock body))
  have h_sub : ∀ (frame : Frame) (body : List Stmt), Pres (inCall false frame (execBlock p fuel body)) :=
    fun frame body => pres_inCall _ _ _ (ih.execBlock body)
  have h_loopKV : ∀ k v es body, Pres (inNewFrame (execForKV p fuel k v es body)) :=
    fun k v es body => pres_inNewFrame _ (ih.execForKV k v es body)
  have h_loopMulti : ∀ ks v sofar es body, Pres (inNewFrame (execForMulti p fuel ks v sofar es body)) :=
    fun ks v sofar es body => pres_inNewFrame _ (ih.execForMulti ks v sofar es body)
  have h_loopC : ∀ init c u body, Pres (inNewFrame (andThen (execStmts p fuel init) (execForC p fuel c u body))) :=
    fun init c u body => pres_inNewFrame _ (pres_andThen _ _ (ih.execStmts init) (ih.execForC c u body))
  unfold Pres at '''+" ".join("h_"+n for n in allfns)+''' h_call h_sub h_loopKV h_loopMulti h_loopC
'''
body=[]
for name,args,cs in fns:
    body.append(f"set_option maxHeartbeats 4000000 in\ntheorem pres_{name}_step (p : Prog) (fuel : Nat) (ih : AllPres p fuel) : ∀ {args}, Pres ({name} p (fuel + 1) {args}) := by\n  intro {args}\n"+ctx+f"  unfold {name}\n"+ (f"  cases {cs[0]} <;> pres_step\n" if cs else "  pres_step\n"))
main='''
theorem pres_execBlock_step (p : Prog) (fuel : Nat) (ih : AllPres p fuel) : ∀ body, Pres (execBlock p (fuel + 1) body) := by
  intro body
  unfold execBlock
  exact pres_inNewFrame _ (ih.execStmts body)

theorem allPres_zero (p : Prog) : AllPres p 0 := by
  constructor <;> intros <;> first
'''+"\n".join("    | (unfold %s; exact pres_failM _)" % n for n in allfns)+'''

/-- THE INDUCTION: at every fuel, every function of the interpreter leaves the frame stack balanced. -/
theorem allPres (p : Prog) : ∀ fuel, AllPres p fuel
  | 0 => allPres_zero p
  | fuel + 1 =>
    have ih := allPres p fuel
    { '''+",\n      ".join(f"{n} := pres_{n}_step p fuel ih" for n in allfns)+''' }

end DSL
end Miller
'''
open(p,'w').write(head+struct+macro+"\n".join(body)+main)
