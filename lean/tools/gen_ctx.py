src=open('/verif/lean/MillerModel/Lemmas/C14Output.lean').read()
i=src.index('structure AllAppends')
body=src[i:]
hdr='''/-
NR, FNR, FILENAME AND THE MODE ARE READ-ONLY FOR PROGRAMS: whatever a piece of program does and however
it ends, the record counters, the file name, whether a record is current and the put/filter mode are
afterwards what they were before - only the driver (runRecord / runAll) moves them.  Fourth induction
over the interpreter, generated from the third (tools/gen_ctx.py).
-/
import MillerModel.Lemmas.C14Interp
namespace Miller
namespace DSL

/-- The context a program can read but not write. -/
def ctxOf (s : St) : Nat × Nat × Bytes × Bool × Bool := (s.nr, s.fnr, s.filename, s.isFilter, s.hasRec)

/-- `m` leaves the context alone. -/
def KeepsCtx {α} (m : M α) : Prop := ∀ s, ctxOf (runM m s).2 = ctxOf s

theorem KeepsCtx.out {α} {m : M α} (h : KeepsCtx m) {s : St} {r : Except Err α} {s' : St} (hr : runM m s = (r, s')) : ctxOf s' = ctxOf s := by
  have := h s; rw [hr] at this; exact this

theorem ctx_of {α} {m : M α} (h : ∀ s r s', runM m s = (r, s') → ctxOf s' = ctxOf s) : KeepsCtx m := by
  intro s
  cases hr : runM m s with
  | mk r s' => exact h s r s' hr

theorem ctx_pure {α} (a : α) : KeepsCtx (pure a : M α) := fun _ => rfl
theorem ctx_failM {α} (e : Err) : KeepsCtx (failM e : M α) := fun _ => rfl
theorem ctx_bind {α β} (m : M α) (f : α → M β) (hm : KeepsCtx m) (hf : ∀ a, KeepsCtx (f a)) : KeepsCtx (m >>= f) := by
  apply ctx_of
  intro s r s' h
  simp only [runM_bind] at h
  split at h
  · rename_i a s1 h1
    exact ((hf a).out h).trans (hm.out h1)
  · rename_i e s1 h1
    have := hm.out h1
    simp at h
    rw [← h.2]; exact this
theorem ctx_tryCatch {α} (m : M α) (h : Err → M α) (hm : KeepsCtx m) (hh : ∀ e, KeepsCtx (h e)) : KeepsCtx (tryCatch m h) := by
  apply ctx_of
  intro s r s' hr
  rw [runM_tryCatch] at hr
  split at hr
  · rename_i a s1 h1
    have := hm.out h1
    simp at hr; rw [← hr.2]; exact this
  · rename_i e s1 h1
    exact ((hh e).out hr).trans (hm.out h1)

theorem ctx_withStack {α} (enter : Stack → Stack) (leave : Stack → Stack → Stack) (m : M α) (hm : KeepsCtx m) :
    KeepsCtx (withStack enter leave m) := by
  apply ctx_of
  intro s r s' h
  unfold withStack at h
  simp only [runM_bind, runM_get, runM_modify, runM_tryCatch, runM_pure, runM_throw] at h
  split at h
  · rename_i a s1 h1
    split at h1
    · rename_i a2 s2 h2
      have := hm.out h2
      simp at h1 h
      rw [← h.2, ← h1.2]
      simpa [ctxOf] using this
    · simp at h1
  · rename_i e s1 h1
    split at h1
    · simp at h1
    · rename_i e2 s2 h2
      have := hm.out h2
      simp at h1 h
      rw [← h.2, ← h1.2]
      simpa [ctxOf] using this

theorem ctx_bodyValue (blk : M Sig) (h : KeepsCtx blk) : KeepsCtx (bodyValue blk) := by
  apply ctx_tryCatch
  · exact ctx_bind _ _ h (fun _ => ctx_pure _)
  · intro e
    cases e <;> first | exact ctx_pure _ | exact ctx_failM _

theorem ctx_andThen {α β} (a : M α) (b : M β) (ha : KeepsCtx a) (hb : KeepsCtx b) : KeepsCtx (andThen a b) :=
  ctx_bind _ _ ha (fun _ => hb)

'''
body=body.replace('AllAppends','AllKeepCtx').replace('allAppends','allKeepCtx').replace('Appends','KeepsCtx').replace('appends_','ctx_').replace('out_step','ctx_step')
body=body.replace('all_goals (try grind [List.prefix_refl, List.IsPrefix.trans, List.prefix_append])','all_goals (try grind [ctxOf])')
body=body.replace('every function of the interpreter only appends to the output','every function of the interpreter leaves NR, FNR, FILENAME, the mode and the current-record flag alone')
open('/tmp/scratch/C14Context.lean','w').write(hdr+body)
