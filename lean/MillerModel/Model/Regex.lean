/-
A small backtracking regular-expression engine with leftmost-first (Perl/RE2 non-POSIX) semantics
for the "safe subset" shared by Go's regexp and the documentation: literals, `.`, bracket classes
with ranges and negation, `\d \w \s \D \W \S` and escaped metacharacters, greedy and lazy
`* + ? {m,n}`, alternation, capturing `( )` and non-capturing `(?: )` groups, anchors `^ $`.
Subjects are byte strings (the generators stay within ASCII).  Everything is fuel-bounded
structural recursion, so it evaluates in the kernel; the correspondence check compares it with
Go's regexp (op `re`).
-/
import MillerModel.Base.Bytes
namespace Miller
namespace Regex

inductive Re where
  | empty
  | byte (c : Nat)
  | any                                         -- `.` (no newline)
  | cls (neg : Bool) (ranges : List (Nat × Nat))
  | seq (a b : Re)
  | alt (a b : Re)
  | rep (r : Re) (min : Nat) (max : Option Nat) (greedy : Bool) (first : Bool := true)
  | group (idx : Nat) (r : Re)
  | bol | eol
  deriving Repr, Inhabited

/-! ### parser -/

structure PState where
  rest : List Nat
  ngroups : Nat
  deriving Repr

def digitRanges : List (Nat × Nat) := [(48, 57)]
def wordRanges : List (Nat × Nat) := [(48, 57), (65, 90), (95, 95), (97, 122)]
def spaceRanges : List (Nat × Nat) := [(9, 10), (12, 13), (32, 32)]

def escapeClass (c : Nat) : Option Re :=
  if c == 100 then some (.cls false digitRanges) else if c == 68 then some (.cls true digitRanges)
  else if c == 119 then some (.cls false wordRanges) else if c == 87 then some (.cls true wordRanges)
  else if c == 115 then some (.cls false spaceRanges) else if c == 83 then some (.cls true spaceRanges)
  else if c == 116 then some (.byte 9) else if c == 110 then some (.byte 10) else if c == 114 then some (.byte 13)
  else none

def parseNat : List Nat → Nat → Nat × List Nat
  | c :: r, acc => if 48 ≤ c ∧ c ≤ 57 then parseNat r (acc * 10 + (c - 48)) else (acc, c :: r)
  | [], acc => (acc, [])

/-- Bracket class body after `[` (and optional `^`). -/
def parseClassBody : Nat → List Nat → List (Nat × Nat) → Option (List (Nat × Nat) × List Nat)
  | 0, _, _ => none
  | _ + 1, [], _ => none
  | fuel + 1, 93 :: r, acc => if acc.isEmpty then parseClassBody fuel r [(93, 93)] else some (acc, r)
  | fuel + 1, 92 :: c :: r, acc =>
    (match escapeClass c with
     | some (.cls false rs) => parseClassBody fuel r (acc ++ rs)
     | some (.byte b) => parseClassBody fuel r (acc ++ [(b, b)])
     | _ => parseClassBody fuel r (acc ++ [(c, c)]))
  | fuel + 1, a :: 45 :: b :: r, acc =>
    if b == 93 then parseClassBody fuel (45 :: b :: r) (acc ++ [(a, a)])
    else if b == 92 then parseClassBody fuel (45 :: b :: r) (acc ++ [(a, a)])
    else parseClassBody fuel r (acc ++ [(a, b)])
  | fuel + 1, a :: r, acc => parseClassBody fuel r (acc ++ [(a, a)])

mutual
/-- alternation -/
def parseAlt : Nat → PState → Option (Re × PState)
  | 0, _ => none
  | fuel + 1, s =>
    match parseSeq fuel s .empty with
    | none => none
    | some (a, s1) =>
      match s1.rest with
      | 124 :: r =>
        (match parseAlt fuel { s1 with rest := r } with
         | some (b, s2) => some (.alt a b, s2)
         | none => none)
      | _ => some (a, s1)
/-- concatenation of repeated atoms -/
def parseSeq : Nat → PState → Re → Option (Re × PState)
  | 0, _, _ => none
  | fuel + 1, s, acc =>
    match s.rest with
    | [] => some (acc, s)
    | 124 :: _ => some (acc, s)
    | 41 :: _ => some (acc, s)
    | _ =>
      match parseAtom fuel s with
      | none => none
      | some (a, s1) =>
        let (a', s2) := parseQuant a s1
        parseSeq fuel s2 (match acc with | .empty => a' | _ => .seq acc a')
/-- one atom -/
def parseAtom : Nat → PState → Option (Re × PState)
  | 0, _ => none
  | fuel + 1, s =>
    match s.rest with
    | [] => none
    | 40 :: 63 :: 58 :: r =>        -- (?:
      (match parseAlt fuel { s with rest := r } with
       | some (a, s1) => (match s1.rest with | 41 :: r2 => some (a, { s1 with rest := r2 }) | _ => none)
       | none => none)
    | 40 :: r =>
      let idx := s.ngroups + 1
      (match parseAlt fuel { rest := r, ngroups := idx } with
       | some (a, s1) => (match s1.rest with | 41 :: r2 => some (.group idx a, { s1 with rest := r2 }) | _ => none)
       | none => none)
    | 91 :: 94 :: r => (parseClassBody (r.length + 1) r []).map fun (rs, r2) => (.cls true rs, { s with rest := r2 })
    | 91 :: r => (parseClassBody (r.length + 1) r []).map fun (rs, r2) => (.cls false rs, { s with rest := r2 })
    | 46 :: r => some (.any, { s with rest := r })
    | 94 :: r => some (.bol, { s with rest := r })
    | 36 :: r => some (.eol, { s with rest := r })
    | 92 :: c :: r =>
      (match escapeClass c with
       | some re => some (re, { s with rest := r })
       | none => some (.byte c, { s with rest := r }))
    | c :: r =>
      if c == 42 || c == 43 || c == 63 || c == 41 then none else some (.byte c, { s with rest := r })
/-- postfix quantifier(s) -/
def parseQuant (a : Re) (s : PState) : Re × PState :=
  match s.rest with
  | 42 :: 63 :: r => (.rep a 0 none false, { s with rest := r })
  | 43 :: 63 :: r => (.rep a 1 none false, { s with rest := r })
  | 63 :: 63 :: r => (.rep a 0 (some 1) false, { s with rest := r })
  | 42 :: r => (.rep a 0 none true, { s with rest := r })
  | 43 :: r => (.rep a 1 none true, { s with rest := r })
  | 63 :: r => (.rep a 0 (some 1) true, { s with rest := r })
  | 123 :: r =>
    let (m, r1) := parseNat r 0
    (match r1 with
     | 125 :: r2 => (.rep a m (some m) true, { s with rest := r2 })
     | 44 :: 125 :: r2 => (.rep a m none true, { s with rest := r2 })
     | 44 :: r2 =>
       let (n, r3) := parseNat r2 0
       (match r3 with
        | 125 :: r4 => (.rep a m (some n) true, { s with rest := r4 })
        | _ => (a, s))
     | _ => (a, s))
  | _ => (a, s)
end

/-- Can the expression match the empty string? -/
def nullable : Re → Bool
  | .empty => true | .byte _ => false | .any => false | .cls _ _ => false
  | .seq a b => nullable a && nullable b
  | .alt a b => nullable a || nullable b
  | .rep r mn _ _ _ => mn == 0 || nullable r
  | .group _ r => nullable r
  | .bol => true | .eol => true

/-- A repetition whose body can match the empty string (`(a*)*`, `(a??)+` …): engines differ in
how they cut such loops, so these patterns are outside the modelled subset. -/
def hasNullableLoop : Re → Bool
  | .seq a b => hasNullableLoop a || hasNullableLoop b
  | .alt a b => hasNullableLoop a || hasNullableLoop b
  | .rep r _ mx _ _ => (nullable r && mx != some 1) || hasNullableLoop r
  | .group _ r => hasNullableLoop r
  | _ => false

/-- Parse a pattern; `none` = outside the supported subset (or a syntax error). -/
def parse (pat : Bytes) : Option (Re × Nat) :=
  match parseAlt (2 * pat.length + 4) { rest := pat, ngroups := 0 } with
  | some (re, s) => if s.rest.isEmpty && !hasNullableLoop re then some (re, s.ngroups) else none
  | none => none

/-! ### matcher -/

abbrev Caps := List (Option (Nat × Nat))   -- index 0 = group 1 …

def setCap (caps : Caps) (idx : Nat) (v : Nat × Nat) : Caps :=
  (List.range (max caps.length idx)).map fun i => if i + 1 == idx then some v else (caps.getD i none)

def inRanges (rs : List (Nat × Nat)) (c : Nat) : Bool := rs.any fun (a, b) => a ≤ c && c ≤ b

/-- Continuation-passing backtracking matcher.  `subj` is the whole subject, `pos` the current
position.  Leftmost-first: alternatives and greedy/lazy repetitions are tried in priority order and
the first complete match wins. -/
def m (subj : Array Nat) : Nat → Re → Nat → Caps → (Nat → Caps → Option (Nat × Caps)) → Option (Nat × Caps)
  | 0, _, _, _, _ => none
  | fuel + 1, re, pos, caps, k =>
    match re with
    | .empty => k pos caps
    | .byte c => if pos < subj.size && subj[pos]! == c then k (pos + 1) caps else none
    | .any => if pos < subj.size && subj[pos]! != 10 then k (pos + 1) caps else none
    | .cls neg rs => if pos < subj.size && (inRanges rs subj[pos]! != neg) then k (pos + 1) caps else none
    | .seq a b => m subj fuel a pos caps fun p c => m subj fuel b p c k
    | .alt a b =>
      match m subj fuel a pos caps k with
      | some r => some r
      | none => m subj fuel b pos caps k
    | .group idx r => m subj fuel r pos caps fun p c => k p (setCap c idx (pos, p))
    | .bol => if pos == 0 then k pos caps else none
    | .eol => if pos == subj.size then k pos caps else none
    | .rep r mn mx greedy first =>
      let more : Option (Nat × Caps) :=
        if mx == some 0 then none
        else m subj fuel r pos caps fun p c =>
          if p == pos && mn == 0 then (if first then k p c else none)  -- empty iteration: only as the very first one
          else m subj fuel (.rep r (mn - 1) (mx.map (· - 1)) greedy false) p c k
      if mn > 0 then more
      else if greedy then (match more with | some x => some x | none => k pos caps)
      else (match k pos caps with | some x => some x | none => more)

def fuelFor (subj : Bytes) (pat : Bytes) : Nat := (subj.length + 2) * (pat.length + 2) * 4 + 64

/-- Match anchored at `start`: `(end, captures)`. -/
def matchAt (re : Re) (subj : Bytes) (pat : Bytes) (start : Nat) : Option (Nat × Caps) :=
  m subj.toArray (fuelFor subj pat) re start [] fun p c => some (p, c)

/-- Leftmost match at or after `from`: `(start, end, captures)`. -/
def search (re : Re) (subj : Bytes) (pat : Bytes) (frm : Nat) : Option (Nat × Nat × Caps) :=
  let rec go : Nat → Nat → Option (Nat × Nat × Caps)
    | 0, _ => none
    | fuel + 1, s =>
      if s > subj.length then none
      else match matchAt re subj pat s with
        | some (e, c) => some (s, e, c)
        | none => go fuel (s + 1)
  go (subj.length + 2) frm

/-- `regexp.MatchString(pat, subj)`; `none` = pattern outside the subset. -/
def isMatch (pat subj : Bytes) : Option Bool :=
  (parse pat).map fun (re, _) => (search re subj pat 0).isSome

end Regex
end Miller

namespace Miller
namespace Regex

/-- Case-insensitive variant of an expression (`(?i)`), ASCII letters. -/
def otherCase (c : Nat) : Option Nat :=
  if 65 ≤ c ∧ c ≤ 90 then some (c + 32) else if 97 ≤ c ∧ c ≤ 122 then some (c - 32) else none

def foldRanges (rs : List (Nat × Nat)) : List (Nat × Nat) :=
  rs ++ rs.flatMap fun (a, b) =>
    -- intersect with the letter ranges and shift
    let up := if max a 65 ≤ min b 90 then [(max a 65 + 32, min b 90 + 32)] else []
    let lo := if max a 97 ≤ min b 122 then [(max a 97 - 32, min b 122 - 32)] else []
    up ++ lo

def foldCase : Re → Re
  | .byte c => (match otherCase c with | some d => .cls false [(c, c), (d, d)] | none => .byte c)
  | .cls neg rs => .cls neg (foldRanges rs)
  | .seq a b => .seq (foldCase a) (foldCase b)
  | .alt a b => .alt (foldCase a) (foldCase b)
  | .rep r mn mx g f => .rep (foldCase r) mn mx g f
  | .group i r => .group i (foldCase r)
  | r => r

/-- `lib.CompileMillerRegex`: strip enclosing `"…"` or `/…/`; a trailing `i` after the closing
delimiter makes it case-insensitive. -/
def hasInfix (s pat : Bytes) : Bool := (List.range (s.length + 1)).any fun i => (s.drop i).take pat.length == pat

def compileMiller (s : Bytes) : Option (Re × Nat × Bytes) :=
  -- POSIX bracket classes ([[:alpha:]] …) are outside the modelled subset
  if hasInfix s [91, 58] then none else
  let n := s.length
  let inner (k : Nat) : Bytes := (s.drop 1).take (n - 1 - k)
  let plain (p : Bytes) : Option (Re × Nat × Bytes) := (parse p).map fun (r, g) => (r, g, p)
  let ci (p : Bytes) : Option (Re × Nat × Bytes) := (parse p).map fun (r, g) => (foldCase r, g, p)
  if n < 2 then plain s
  else if s.head? == some 34 && s.getLast? == some 34 then plain (inner 1)
  else if s.head? == some 47 && s.getLast? == some 47 then plain (inner 1)
  else if s.head? == some 34 && s.drop (n - 2) == [34, 105] then ci (inner 2)
  else if s.head? == some 47 && s.drop (n - 2) == [47, 105] then ci (inner 2)
  else plain s

/-- `regex.MatchString(subject)` for a compiled Miller regex. -/
def matchCompiled (c : Re × Nat × Bytes) (subj : Bytes) : Bool := (search c.1 subj c.2.2 0).isSome

end Regex
end Miller
