/-
Model of pkg/scan/find.go (`FindScanType` and its helpers) and pkg/scan/digits.go, byte for byte.
The four 128-entry tables and the enum order come from the REGENERATED `Gen/ScanTables.lean`.
-/
import MillerModel.Base.Bytes
import MillerModel.Gen.ScanTables
namespace Miller
namespace Scan

inductive ScanType where
  | string | decimalInt | lzDecimalInt | octalInt | lzOctalInt | hexInt | binaryInt | maybeFloat
  deriving DecidableEq, Repr, Inhabited

/-- The Go constant's name (used to look the value up in the regenerated enum). -/
def ScanType.goName : ScanType → String
  | .string => "scanTypeString"
  | .decimalInt => "scanTypeDecimalInt"
  | .lzDecimalInt => "scanTypeLeadingZeroDecimalInt"
  | .octalInt => "scanTypeOctalInt"
  | .lzOctalInt => "scanTypeLeadingZeroOctalInt"
  | .hexInt => "scanTypeHexInt"
  | .binaryInt => "scanTypeBinaryInt"
  | .maybeFloat => "scanTypeMaybeFloat"

/-- Index of the scan type in the inferrer tables = its Go constant value (from `Gen`). -/
def ScanType.index (t : ScanType) : Nat :=
  match Gen.scanTypeConsts.find? (fun p => p.1 == t.goName) with
  | some p => p.2
  | none => 0

def tableLookup (t : List Bool) (c : Nat) : Bool := if c < 128 then t.getD c false else false

def isDecimalDigit (c : Nat) : Bool := tableLookup Gen.isDecimalDigitTable c
def isOctalDigit (c : Nat) : Bool := tableLookup Gen.isOctalDigitTable c
def isHexDigit (c : Nat) : Bool := tableLookup Gen.isHexDigitTable c
def isFloatDigit (c : Nat) : Bool := tableLookup Gen.isFloatDigitTable c

def positiveFloatOrString (input : Bytes) : ScanType :=
  if input.all isFloatDigit then .maybeFloat else .string

def positiveDecimalOrFloatOrString (input : Bytes) : ScanType :=
  if !input.all isFloatDigit then .string
  else if input.all isDecimalDigit then .decimalInt else .maybeFloat

def positiveOctalOrString (input : Bytes) : ScanType :=
  if input.all isOctalDigit then .octalInt else .string

def positiveHexOrString (input : Bytes) : ScanType :=
  if input.all isHexDigit then .hexInt else .string

def positiveBinaryOrString (input : Bytes) : ScanType :=
  if input.all (fun c => !(c < 48 || c > 49)) then .binaryInt else .string

/-- The leading-zero loop of `findScanTypePositiveNumberOrString`, exactly as coded: returns
`(allOctal, allDecimal)`; it `break`s at the first non-decimal byte. -/
def lzLoop : Bytes → Bool → Bool × Bool
  | [], ao => (ao, true)
  | c :: cs, ao =>
    let ao' := ao && isOctalDigit c
    if !isDecimalDigit c then (ao', false) else lzLoop cs ao'

def positiveNumberOrString (input : Bytes) : ScanType :=
  match input with
  | [] => .string
  | i0 :: rest =>
    if i0 == 46 then positiveFloatOrString input
    else if isDecimalDigit i0 then
      match rest with
      | [] => .decimalInt
      | i1 :: rest2 =>
        if i0 == 48 then
          if i1 == 120 || i1 == 88 then
            (if rest2.isEmpty then .string else positiveHexOrString rest2)
          else if i1 == 111 || i1 == 79 then
            (if rest2.isEmpty then .string else positiveOctalOrString rest2)
          else if i1 == 98 || i1 == 66 then
            (if rest2.isEmpty then .string else positiveBinaryOrString rest2)
          else
            let (allOctal, allDecimal) := lzLoop rest true
            if allOctal then .lzOctalInt
            else if allDecimal then .lzDecimalInt
            else positiveDecimalOrFloatOrString input
        else positiveDecimalOrFloatOrString input
    else .string

def findScanType (input : Bytes) : ScanType :=
  match input with
  | [] => .string
  | i0 :: rest =>
    if i0 == 45 then positiveNumberOrString rest
    else if i0 == 43 then positiveNumberOrString rest
    else if i0 ≥ 48 && i0 ≤ 57 then positiveNumberOrString input
    else if i0 == 46 then
      (if rest.isEmpty then .string else positiveDecimalOrFloatOrString input)
    else .string

end Scan
end Miller
