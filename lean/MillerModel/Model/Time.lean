/-
Model of the calendar arithmetic behind the time functions (pkg/bifs/datetime.go sec2gmt,
sec2gmtdate, gmt2sec via Go's time package and pkg/pbnjay-strptime; pkg/bifs/relative_time.go
sec2dhms, sec2hms, dhms2sec, hms2sec).  The proleptic Gregorian calendar is defined from first
principles (leap rule, month lengths, counting days) — NOT by the closed-form era arithmetic an
implementation would use — so that agreement of the implementation with this model (the
correspondence) is agreement with the calendar itself.
-/
import MillerModel.Base.Bytes
namespace Miller
namespace Time

def isLeap (y : Nat) : Bool := (y % 4 == 0 && y % 100 != 0) || y % 400 == 0
def yearLen (y : Nat) : Nat := if isLeap y then 366 else 365
def monthLen (y m : Nat) : Nat :=
  if m == 2 then (if isLeap y then 29 else 28)
  else if m == 4 || m == 6 || m == 9 || m == 11 then 30 else 31

/-- Days from 0001-01-01 to the first day of year `y` (y ≥ 1). -/
def daysBeforeYear : Nat → Nat
  | 0 => 0
  | 1 => 0
  | y + 1 => daysBeforeYear y + yearLen y

/-- Days from January 1st to the first day of month `m` (1..12) of year `y`. -/
def daysBeforeMonth (y : Nat) : Nat → Nat
  | 0 => 0
  | 1 => 0
  | m + 1 => daysBeforeMonth y m + monthLen y m

/-- Day number (0 = 0001-01-01) of a civil date. -/
def daysFromCivil (y m d : Nat) : Nat := daysBeforeYear y + daysBeforeMonth y m + (d - 1)

/-- Find the year containing day number `n` by counting years forward from `y`. -/
def yearFrom : Nat → Nat → Nat → Nat × Nat
  | 0, y, n => (y, n)
  | fuel + 1, y, n => if n < yearLen y then (y, n) else yearFrom fuel (y + 1) (n - yearLen y)

def monthFrom (y : Nat) : Nat → Nat → Nat → Nat × Nat
  | 0, m, n => (m, n)
  | fuel + 1, m, n => if n < monthLen y m then (m, n) else monthFrom y fuel (m + 1) (n - monthLen y m)

/-- Civil date (year, month, day) of day number `n`. -/
def civilFromDays (n : Nat) : Nat × Nat × Nat :=
  let (y, r) := yearFrom (n / 365 + 1) 1 n
  let (m, d) := monthFrom y 12 1 r
  (y, m, d + 1)

/-- 1970-01-01 as a day number. -/
def epochDay : Nat := 719162

def digit (n : Nat) : Nat := 48 + n % 10
def pad2 (n : Nat) : Bytes := [digit (n / 10), digit n]
def pad4 (n : Nat) : Bytes := [digit (n / 1000), digit (n / 100), digit (n / 10), digit n]
def unpad2 : Bytes → Option Nat
  | [a, b] => if 48 ≤ a ∧ a ≤ 57 ∧ 48 ≤ b ∧ b ≤ 57 then some ((a - 48) * 10 + (b - 48)) else none
  | _ => none
def unpad4 : Bytes → Option Nat
  | [a, b, c, d] =>
    if 48 ≤ a ∧ a ≤ 57 ∧ 48 ≤ b ∧ b ≤ 57 ∧ 48 ≤ c ∧ c ≤ 57 ∧ 48 ≤ d ∧ d ≤ 57
    then some ((a - 48) * 1000 + (b - 48) * 100 + (c - 48) * 10 + (d - 48)) else none
  | _ => none

/-- Seconds since the epoch of 0001-01-01T00:00:00Z and of 9999-12-31T23:59:59Z. -/
def minSec : Int := -62135596800
def maxSec : Int := 253402300799

/-- `sec2gmt(t)` for integer `t` in years 1..9999, no decimals: `YYYY-MM-DDTHH:MM:SSZ`. -/
def sec2gmt (t : Int) : Bytes :=
  let s := (t - minSec).toNat               -- seconds since 0001-01-01
  let (y, m, d) := civilFromDays (s / 86400)
  let sod := s % 86400
  pad4 y ++ [45] ++ pad2 m ++ [45] ++ pad2 d ++ [84] ++ pad2 (sod / 3600) ++ [58] ++ pad2 (sod / 60 % 60) ++ [58] ++ pad2 (sod % 60) ++ [90]

/-- `sec2gmtdate(t)`: `YYYY-MM-DD`. -/
def sec2gmtdate (t : Int) : Bytes := (sec2gmt t).take 10

/-- `gmt2sec` on the canonical text `YYYY-MM-DDTHH:MM:SSZ` (what sec2gmt prints). -/
def gmt2sec (s : Bytes) : Option Int :=
  if s.length != 20 then none
  else if s.getD 4 0 != 45 || s.getD 7 0 != 45 || s.getD 10 0 != 84 || s.getD 13 0 != 58 || s.getD 16 0 != 58 || s.getD 19 0 != 90 then none
  else do
    let y ← unpad4 (s.take 4)
    let m ← unpad2 ((s.drop 5).take 2)
    let d ← unpad2 ((s.drop 8).take 2)
    let hh ← unpad2 ((s.drop 11).take 2)
    let mm ← unpad2 ((s.drop 14).take 2)
    let ss ← unpad2 ((s.drop 17).take 2)
    if y < 1 || m < 1 || m > 12 || d < 1 || d > monthLen y m || hh > 23 || mm > 59 || ss > 59 then none
    else some (((daysFromCivil y m d : Nat) : Int) * 86400 + hh * 3600 + mm * 60 + ss + minSec)

/-! ### d/h/m/s -/

/-- Decimal text of a natural number (`%d`). -/
def natText (n : Nat) : Bytes := if n < 10 then [digit n] else natText (n / 10) ++ [digit n]
termination_by n
decreasing_by omega

/-- `splitIntToDHMS` + `sec2dhms`: the sign is carried by the leading unit only. -/
def sec2dhms (t : Int) : Bytes :=
  let u := t.natAbs
  let s := u % 60
  let m := u / 60 % 60
  let h := u / 3600 % 24
  let d := u / 86400
  let sign : Bytes := if t < 0 then [45] else []
  if d != 0 then sign ++ natText d ++ [100] ++ pad2 h ++ [104] ++ pad2 m ++ [109] ++ pad2 s ++ [115]
  else if h != 0 then sign ++ natText h ++ [104] ++ pad2 m ++ [109] ++ pad2 s ++ [115]
  else if m != 0 then sign ++ natText m ++ [109] ++ pad2 s ++ [115]
  else sign ++ natText s ++ [115]

/-- `sec2hms`: `[-]HH:MM:SS`, hours not wrapped at 24. -/
def sec2hms (t : Int) : Bytes :=
  let u := t.natAbs
  let sign : Bytes := if t < 0 then [45] else []
  let h := u / 3600
  sign ++ (if h < 10 then [48] ++ natText h else natText h) ++ [58] ++ pad2 (u / 60 % 60) ++ [58] ++ pad2 (u % 60)

/-- Leading decimal digits of a text: value and rest (`Sscanf %d` without sign). -/
def scanNat : Bytes → Nat → Bool → Option (Nat × Bytes)
  | [], acc, seen => if seen then some (acc, []) else none
  | c :: rest, acc, seen =>
    if 48 ≤ c ∧ c ≤ 57 then scanNat rest (acc * 10 + (c - 48)) true
    else if seen then some (acc, c :: rest) else none

/-- `dhms2sec`: optional leading '-', then `<n><unit>` groups with units d, h, m, s. -/
def dhmsGroups : Nat → Bytes → Nat → Option Nat
  | 0, _, _ => none
  | fuel + 1, s, acc =>
    if s.isEmpty then some acc
    else match scanNat s 0 false with
      | none => none
      | some (n, rest) =>
        match rest with
        | [] => none
        | unit :: rest' =>
          let mul := if unit == 100 then some 86400 else if unit == 104 then some 3600 else if unit == 109 then some 60 else if unit == 115 then some 1 else none
          match mul with
          | none => none
          | some k => dhmsGroups fuel rest' (acc + n * k)

def dhms2sec (s : Bytes) : Option Int :=
  match s with
  | [] => none
  | 45 :: rest => (dhmsGroups (rest.length + 1) rest 0).map fun n => -(n : Int)
  | _ => (dhmsGroups (s.length + 1) s 0).map fun n => (n : Int)

end Time
end Miller
