/-
Dispatch through the REGENERATED disposition tables (`Gen/Disp.lean`) and cell semantics.
Generic cells (`_absn`, `_1___`, `_2___`, `_void`, `_null`, `_n2__`, `*te` error cells …) take
their meaning from the REGENERATED body classification `Gen.kernelSig`; typed kernels are the
hand-written models of `Model/Arith` selected by the Go function name; everything else is
`unmodelled` (correspondence skipped, stated in the evidence).
A kernel applied to an operand of a kind its unchecked `Acquire*Value()` does not accept is a Go
panic (failed type assertion): that is modelled, so "no cell panics" is a theorem about the tables.
-/
import MillerModel.Model.Arith
import MillerModel.Gen.KernelSigs
namespace Miller
namespace Disp
open Gen

def cell2 (t : List (List K)) (i j : Nat) : Option K := (t[i]?).bind (·[j]?)
def cell1 (t : List K) (i : Nat) : Option K := t[i]?

/-- Does a value satisfy an unchecked payload access? -/
def acqOk : Acq → Val → Bool
  | .int, .int _ => true
  | .float, .float _ => true
  | .bool, .bool _ => true
  | .string, .str _ => true
  | .string, .void => true       -- VOID carries printrep "" and AcquireStringValue reads printrep
  | .bytes, .bytes => true
  | .array, .array => true
  | .map, .map => true
  | _, _ => false

def sigOk (s : Sig) (a b : Val) : Bool := s.acq1.all (acqOk · a) && s.acq2.all (acqOk · b)

/-- Unary minus as a binary cell needs it (`_n2__` = BIF_minus_unary(input2)). -/
def unegVal (t : List K) (v : Val) : Out :=
  match cell1 t v.kind with
  | none => .panic
  | some k =>
    match (kernelSig k).ret with
    | .absent => .val .absent
    | .in1 => .val v
    | .void => .val .void
    | .null => .val .null
    | .error => .val .error
    | .intLit n => .val (.int n)
    | _ =>
      if k == .kuneg_i_i then (match v with | .int a => .val (Arith.uneg_i_i a) | _ => .panic)
      else if k == .kuneg_f_f then (match v with | .float a => .val (Arith.uneg_f_f a) | _ => .panic)
      else .unmodelled

/-- int/float typed kernels by Go name. -/
def typedKernel (k : K) (a b : Val) : Out :=
  let ii (f : Int → Int → Val) : Out := match a, b with | .int x, .int y => .val (f x y) | _, _ => .panic
  let ff (f : Nat → Nat → Nat) : Out := match a, b with | .float x, .float y => .val (.float (f x y)) | _, _ => .panic
  let fI (f : Nat → Nat → Nat) : Out := match a, b with | .float x, .int y => .val (.float (f x (Arith.fi y))) | _, _ => .panic
  let If (f : Nat → Nat → Nat) : Out := match a, b with | .int x, .float y => .val (.float (f (Arith.fi x) y)) | _, _ => .panic
  let fmod (x y : Nat) : Nat := match Arith.modulus_f x y with | .float r => r | _ => 0
  let fidiv (x y : Nat) : Nat := F64.floor (F64.div x y)
  match k with
  | .kplus_n_ii => ii Arith.plus_n_ii | .kplus_f_ff => ff F64.add | .kplus_f_fi => fI F64.add | .kplus_f_if => If F64.add
  | .kminus_n_ii => ii Arith.minus_n_ii | .kminus_f_ff => ff F64.sub | .kminus_f_fi => fI F64.sub | .kminus_f_if => If F64.sub
  | .ktimes_n_ii => ii Arith.times_n_ii | .ktimes_f_ff => ff F64.mul | .ktimes_f_fi => fI F64.mul | .ktimes_f_if => If F64.mul
  | .kdivide_n_ii => ii Arith.divide_n_ii | .kdivide_f_ff => ff F64.div | .kdivide_f_fi => fI F64.div | .kdivide_f_if => If F64.div
  | .kint_divide_n_ii => ii Arith.int_divide_n_ii | .kint_divide_f_ff => ff fidiv | .kint_divide_f_fi => fI fidiv | .kint_divide_f_if => If fidiv
  | .kmodulus_i_ii => ii Arith.modulus_i_ii | .kmodulus_f_ff => ff fmod | .kmodulus_f_fi => fI fmod | .kmodulus_f_if => If fmod
  | .kdotplus_i_ii => ii Arith.dotplus_i_ii | .kdotplus_f_ff => ff F64.add | .kdotplus_f_fi => fI F64.add | .kdotplus_f_if => If F64.add
  | .kdotminus_i_ii => ii Arith.dotminus_i_ii | .kdotminus_f_ff => ff F64.sub | .kdotminus_f_fi => fI F64.sub | .kdotminus_f_if => If F64.sub
  | .kdottimes_i_ii => ii Arith.dottimes_i_ii | .kdottimes_f_ff => ff F64.mul | .kdottimes_f_fi => fI F64.mul | .kdottimes_f_if => If F64.mul
  | .kdotdivide_i_ii => ii Arith.dotdivide_i_ii | .kdotdivide_f_ff => ff F64.div | .kdotdivide_f_fi => fI F64.div | .kdotdivide_f_if => If F64.div
  | .kbitwise_and_i_ii => ii Arith.bitand | .kbitwise_or_i_ii => ii Arith.bitor | .kbitwise_xor_i_ii => ii Arith.bitxor
  | .klsh_i_ii => ii Arith.lsh | .ksrsh_i_ii => ii Arith.srsh | .kursh_i_ii => ii Arith.ursh
  | .kmin_i_ii => ii Arith.min_i_ii | .kmin_f_ff => ff Arith.fmin | .kmin_f_fi => fI Arith.fmin | .kmin_f_if => If Arith.fmin
  | .kmax_i_ii => ii Arith.max_i_ii | .kmax_f_ff => ff Arith.fmax | .kmax_f_fi => fI Arith.fmax | .kmax_f_if => If Arith.fmax
  -- bool and string min/max return one of their operands; written payload-first so that the
  -- result kind is visible without knowing the payloads
  | .kmin_b_bb => (match a, b with
      | .bool x, .bool y => .val (.bool (x && y))
      | .bool false, _ => .val a | .bool true, _ => .val b | _, _ => .panic)
  | .kmax_b_bb => (match a, b with
      | .bool x, .bool y => .val (.bool (x || y))
      | _, .bool false => .val a | _, .bool true => .val b | _, _ => .panic)
  | .kmin_s_ss => (match a, b with
      | .str x, .str y => .val (.str (if bytesLt x y then x else y))
      | _, _ => match a.text?, b.text? with
        | some x, some y => .val (if bytesLt x y then a else b) | _, _ => .panic)
  | .kmax_s_ss => (match a, b with
      | .str x, .str y => .val (.str (if bytesLt y x then x else y))
      | _, _ => match a.text?, b.text? with
        | some x, some y => .val (if bytesLt y x then a else b) | _, _ => .panic)
  | _ => .unmodelled

/-- Apply the cell of a binary table. `unegTable` is the table `_n2__` dispatches through. -/
def evalBinary (t : List (List K)) (unegTable : List K) (a b : Val) : Out :=
  match cell2 t a.kind b.kind with
  | none => .panic                       -- nil / missing cell
  | some k =>
    let s := kernelSig k
    match s.ret with
    | .absent => .val .absent
    | .in1 => .val a
    | .in2 => .val b
    | .void => .val .void
    | .null => .val .null
    | .error => .val .error
    | .intLit n => .val (.int n)
    | .float0 => .val (.float 0)
    | .true_ => .val (.bool true)
    | .false_ => .val (.bool false)
    | .neg2 => unegVal unegTable b
    | .str1 | .str2 => .unmodelled
    | .other =>
      if !sigOk s a b then .panic        -- unchecked type assertion on a wrong kind
      else typedKernel k a b

def evalUnary (t : List K) (a : Val) : Out :=
  match cell1 t a.kind with
  | none => .panic
  | some k =>
    let s := kernelSig k
    match s.ret with
    | .absent => .val .absent
    | .in1 => .val a
    | .void => .val .void
    | .null => .val .null
    | .error => .val .error
    | .intLit n => .val (.int n)
    | .other =>
      if !s.acq1.all (acqOk · a) then .panic
      else if k == .kuneg_i_i then (match a with | .int x => .val (Arith.uneg_i_i x) | _ => .panic)
      else if k == .kuneg_f_f then (match a with | .float x => .val (Arith.uneg_f_f x) | _ => .panic)
      else if k == .kbitwise_not_i_i then (match a with | .int x => .val (Arith.bitnot x) | _ => .panic)
      else .unmodelled
    | _ => .unmodelled


/-- The variadic `min`/`max` of the DSL (`BIF_min_variadic`/`BIF_max_variadic`): empty argument list
is empty; otherwise a left fold of the binary table over the arguments, every operand first sent
through the unary vector (which collapses collections), STARTING FROM THE FIRST ARGUMENT. -/
def variadic (bt : List (List K)) (ut un : List K) (vs : List Val) : Out :=
  match vs with
  | [] => .val .void
  | v0 :: _ =>
    let step (acc : Out) (e : Val) : Out :=
      match acc with
      | .val a =>
        match evalUnary ut a, evalUnary ut e with
        | .val a', .val e' => evalBinary bt un a' e'
        | .panic, _ => .panic
        | _, .panic => .panic
        | _, _ => .unmodelled
      | o => o
    vs.foldl step (evalUnary ut v0)

/-- Binary tables by the name the harness uses. -/
def binaryTable (name : String) : Option (List (List K)) :=
  (Gen.binaryTables.find? (fun p => p.1 == name)).map (·.2)

def unaryTable (name : String) : Option (List K) :=
  (Gen.unaryTables.find? (fun p => p.1 == name)).map (·.2)

end Disp
end Miller
