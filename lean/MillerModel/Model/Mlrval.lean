/-
Model of the value cell `*mlrval.Mlrval` as far as the retained input text is concerned
(pkg/mlrval/mlrval_new.go, mlrval_infer.go, mlrval_output.go): `printrep`, `printrepValid`, the
type tag with deferred (pending) inference, the numeric payload.
Read operations = everything verbs and the DSL do to a value without assigning it: they all go
through `Type()` (JIT inference, which calls one of the three `SetFrom…String(mv.printrep, …)`
setters — fact `Gen.inferSetterCalls`) and then read the payload.
-/
import MillerModel.Model.Infer
namespace Miller
namespace Mlrval
open Infer

inductive MType where
  | pending | int | float | bool | void | string
  deriving DecidableEq, Repr, Inhabited

structure Cell where
  printrep : Bytes
  valid : Bool
  typ : MType
  intv : Int := 0
  floatv : Nat := 0
  deriving DecidableEq, Repr, Inhabited

/-- `FromDeferredType` / `RecordArena.PutDeferred`: a field value read from a file. -/
def fromDeferred (s : Bytes) : Cell := { printrep := s, valid := true, typ := .pending }

/-- `Type()`: infer once.  Every branch goes through a setter that stores `mv.printrep` back
(`printrep = input; printrepValid = true`). -/
def inferCell (f : Flag) (c : Cell) : Cell :=
  if c.typ != .pending then c
  else match infer f c.printrep with
    | .ok (.int v) => { c with printrep := c.printrep, valid := true, typ := .int, intv := v }
    | .ok (.float b) => { c with printrep := c.printrep, valid := true, typ := .float, floatv := b }
    | .ok .string => { c with printrep := c.printrep, valid := true, typ := .string }
    | .ok .void => { c with printrep := c.printrep, valid := true, typ := .void }
    | .ok (.boolean _) => { c with printrep := c.printrep, valid := true, typ := .bool }
    | .panic => c

/-- Reading operations (what a chain can do to a field it does not assign). -/
inductive ReadOp where
  | typeOf          -- Type(), typeof, asserting_*, is_*
  | numeric         -- GetNumeric…/Acquire… after Type(): arithmetic operand, sort -n key, statistic
  | string          -- String(): output, string functions, sort -f key, comparison
  | copy            -- Copy(): value copied into another record / variable
  | originalString  -- OriginalString()
  deriving DecidableEq, Repr, Inhabited

/-- `setPrintRep`: recompute the text only when none is valid. -/
def setPrintRep (c : Cell) : Cell :=
  if c.valid then c
  else match c.typ with
    | .int => { c with printrep := (toString c.intv).toUTF8.toList.map (·.toNat), valid := true }
    | _ => { c with valid := true }

def applyRead (f : Flag) (c : Cell) : ReadOp → Cell
  | .typeOf => inferCell f c
  | .numeric => inferCell f c
  | .string => setPrintRep (inferCell f c)      -- String() with no --ofmt: Type() then setPrintRep
  | .copy => c
  | .originalString => c

/-- `String()` as the writers call it, `--ofmt` absent. -/
def stringOf (f : Flag) (c : Cell) : Bytes := (setPrintRep (inferCell f c)).printrep

end Mlrval
end Miller
