/-
Model of the typed kernels of pkg/bifs/arithmetic.go, bits.go and mathlib.go (int/float cells
of the disposition tables), as fixed by the `fix:` commits listed in known_findings.json.
int64 is `Int` + explicit `wrap` exactly where Go wraps; float64 is the soft-float `F64`.
Go's `/` and `%` on ints are truncating (`Int.tdiv`, `Int.tmod`).
-/
import MillerModel.Model.Value
namespace Miller
namespace Arith

def fi (a : Int) : Nat := F64.ofInt a      -- float64(a)

-- unary minus
def uneg_i_i (a : Int) : Val := .int (wrap (-a))
def uneg_f_f (a : Nat) : Val := .float (F64.negate a)

-- `+`
def plus_n_ii (a b : Int) : Val :=
  let c := wrap (a + b)
  let overflowed :=
    if a > 0 then (decide (b > 0) && decide (c < 0))
    else if a < 0 then (decide (b < 0) && decide (c ≥ 0))
    else false
  if overflowed then .float (F64.add (fi a) (fi b)) else .int c

-- `-`
def minus_n_ii (a b : Int) : Val :=
  let c := wrap (a - b)
  let overflowed :=
    if a ≥ 0 then (decide (b < 0) && decide (c < 0))
    else if a < 0 then (decide (b > 0) && decide (c > 0))
    else false
  if overflowed then .float (F64.sub (fi a) (fi b)) else .int c

/-- Go's int64 `/`: truncating, and `MinInt64 / -1` wraps. -/
def goDiv (a b : Int) : Int := wrap (Int.tdiv a b)
/-- Go's int64 `%`. -/
def goMod (a b : Int) : Int := Int.tmod a b

-- `*`
def times_n_ii (a b : Int) : Val :=
  let c := wrap (a * b)
  if a != 0 && (goDiv c a != b || (a == -1 && b == minI64) || (b == -1 && a == minI64))
  then .float (F64.mul (fi a) (fi b)) else .int c

-- `/`
def divide_n_ii (a b : Int) : Val :=
  if b == 0 then .float (F64.div (fi a) (fi b))
  else if goMod a b == 0 && !(a == minI64 && b == -1) then .int (goDiv a b)
  else .float (F64.div (fi a) (fi b))

-- `//`
def int_divide_n_ii (a b : Int) : Val :=
  if b == 0 then .float (F64.div (fi a) (fi b))
  else if a == minI64 && b == -1 then .float (F64.div (fi a) (fi b))
  else
    let q := goDiv a b
    let r := goMod a b
    let q' := if a < 0 then (if b > 0 then (if r != 0 then wrap (q - 1) else q) else q)
              else (if b < 0 then (if r != 0 then wrap (q - 1) else q) else q)
    .int q'

-- `%`
def modulus_i_ii (a b : Int) : Val :=
  if b == 0 then .float (F64.div (fi a) (fi b))
  else
    let m := goMod a b
    let m' := if m != 0 then
                (if a ≥ 0 then (if b < 0 then wrap (m + b) else m)
                 else (if b ≥ 0 then wrap (m + b) else m))
              else m
    .int m'

-- float `%`: a - b*floor(a/b)
def modulus_f (a b : Nat) : Val := .float (F64.sub a (F64.mul b (F64.floor (F64.div a b))))

-- dot operators
def dotplus_i_ii (a b : Int) : Val := .int (wrap (a + b))
def dotminus_i_ii (a b : Int) : Val := .int (wrap (a - b))
def dottimes_i_ii (a b : Int) : Val := .int (wrap (a * b))
def dotdivide_i_ii (a b : Int) : Val :=
  if b == 0 then .float (F64.div (fi a) (fi b)) else .int (goDiv a b)

-- bit operators: 64-bit two's complement (`BitVec 64`)
def bv (a : Int) : BitVec 64 := BitVec.ofInt 64 a
def bitand (a b : Int) : Val := .int (bv a &&& bv b).toInt
def bitor (a b : Int) : Val := .int (bv a ||| bv b).toInt
def bitxor (a b : Int) : Val := .int (bv a ^^^ bv b).toInt
def bitnot (a : Int) : Val := .int (~~~ (bv a)).toInt
/-- Shift count as Go sees it: `uint64(b)`; counts ≥ 64 shift everything out. -/
def shiftCount (b : Int) : Nat := i2u b
def lsh (a b : Int) : Val :=
  if shiftCount b ≥ 64 then .int 0 else .int (bv a <<< shiftCount b).toInt
def srsh (a b : Int) : Val :=
  if shiftCount b ≥ 64 then .int (if a < 0 then -1 else 0) else .int ((bv a).sshiftRight (shiftCount b)).toInt
def ursh (a b : Int) : Val :=
  if shiftCount b ≥ 64 then .int 0 else .int (bv a >>> shiftCount b).toInt

-- min / max
def fmin (x y : Nat) : Nat :=
  if (F64.isInf x && F64.isNeg x) || (F64.isInf y && F64.isNeg y) then F64.negInf
  else if F64.isNaN x || F64.isNaN y then F64.nan
  else if F64.isZero x && F64.isZero y then (if F64.isNeg x then x else y)
  else if F64.lt x y then x else y
def fmax (x y : Nat) : Nat :=
  if (F64.isInf x && !F64.isNeg x) || (F64.isInf y && !F64.isNeg y) then F64.posInf
  else if F64.isNaN x || F64.isNaN y then F64.nan
  else if F64.isZero x && F64.isZero y then (if F64.isNeg x then y else x)
  else if F64.lt y x then x else y
def min_i_ii (a b : Int) : Val := .int (if a < b then a else b)
def max_i_ii (a b : Int) : Val := .int (if a > b then a else b)

-- int-preserving math functions: int64(f(float64(a)))
def math_unary_i_i (f : Nat → Nat) (a : Int) : Val := .int (F64.toInt64 (f (fi a)))
def fsgn (x : Nat) : Nat :=
  if F64.isNaN x then F64.nan
  else if F64.isZero x then 0
  else if F64.isNeg x then F64.ofInt (-1) else F64.ofInt 1
/-- `math.Round` restricted to integer-valued doubles (the only inputs `math_unary_i_i` produces). -/
def fid (x : Nat) : Nat := x

-- modular arithmetic (pkg/bifs/arithmetic.go: mlrmod, imodadd, imodsub, imodmul, imodexp)
def mlrmod (a m : Int) : Int :=
  let r := goMod a m
  if r < 0 then wrap (r + m) else r

def imodadd (a b m : Int) : Int :=
  if m ≤ 0 then mlrmod (wrap (a + b)) m
  else
    let s := (mlrmod a m).toNat + (mlrmod b m).toNat
    Int.ofNat (if s ≥ m.toNat then s - m.toNat else s)

def imodsub (a b m : Int) : Int :=
  if m ≤ 0 then mlrmod (wrap (a - b)) m
  else
    let d := mlrmod a m - mlrmod b m
    if d < 0 then d + m else d

def imodmul (a b m : Int) : Int :=
  if m ≤ 0 then mlrmod (wrap (a * b)) m
  else Int.ofNat (((mlrmod a m).toNat * (mlrmod b m).toNat) % m.toNat)

/-- The repeated-squaring loop of `imodexp` on `u = uint64(e)`; fuel 64 = number of bits. -/
def imodexpLoop : Nat → Nat → Int → Int → Int → Int
  | 0, _, c, _, _ => c
  | fuel + 1, u, c, apower, m =>
    if u == 0 then c
    else
      let c' := if u % 2 == 1 then imodmul c apower m else c
      imodexpLoop fuel (u / 2) c' (imodmul apower apower m) m

def imodexp (a e m : Int) : Int :=
  if e == 0 then mlrmod 1 m
  else if e == 1 then mlrmod a m
  else imodexpLoop 64 (i2u e) 1 a m

inductive ModOp where | add | sub | mul | exp
  deriving DecidableEq, Repr

/-- `imodop` + the negative-exponent pre-check of BIF_mod_exp, on three ints. -/
def modop (op : ModOp) (a b m : Int) : Val :=
  if op == .exp && b < 0 then .error
  else if m == 0 then .error
  else match op with
    | .add => .int (imodadd a b m)
    | .sub => .int (imodsub a b m)
    | .mul => .int (imodmul a b m)
    | .exp => .int (imodexp a b m)

/-- `pow_f_ii` given `powF = math.Pow(float64(a), float64(b))` (libm is a parameter). -/
def pow_f_ii (powF : Nat) : Val :=
  let i := F64.toInt64 powF
  if F64.eq (fi i) powF then .int i else .float powF

end Arith
end Miller
