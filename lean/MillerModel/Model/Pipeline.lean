/-
Model of the streaming pipeline (pkg/stream/stream.go, pkg/transformers/aaa_chain_transformer.go):
the reader cuts the input into batches; each verb of a `then` chain is a `Machine` that is fed the
batches in order, keeps its state from one batch to the next, and at the end-of-stream marker
appends its end-of-stream output to the last batch it forwards
(`runSingleTransformerBatch`); the record contexts are produced by the reader
(pkg/types/context.go `UpdateForStartOfFile` / `UpdateForInputRecord`).
-/
import MillerModel.Model.Verbs.Common
namespace Miller
namespace Pipeline
open Verbs

/-- A verb with its state type hidden. -/
structure AnyMachine where
  σ : Type
  m : Machine σ

/-- Feed the batches in order, carrying the state; returns the batches forwarded downstream: one
per input batch, then one holding the end-of-stream output. -/
def stageFrom {σ} (m : Machine σ) : σ → List (List Rec) → List (List Rec)
  | s, [] => [m.finish s]
  | s, b :: bs =>
    let step := b.foldl (fun (acc : σ × List Rec) r => let (s', out) := m.step acc.1 r; (s', acc.2 ++ out)) (s, [])
    step.2 :: stageFrom m step.1 bs

def stage {σ} (m : Machine σ) (bs : List (List Rec)) : List (List Rec) := stageFrom m m.init bs

/-- The whole chain, batch-wise. -/
def chainBatched (ms : List AnyMachine) (bs : List (List Rec)) : List (List Rec) :=
  ms.foldl (fun acc am => stage am.m acc) bs

/-- The whole chain on the whole input at once (the reference meaning of `A then B then …`). -/
def chainRun (ms : List AnyMachine) (xs : List Rec) : List Rec :=
  ms.foldl (fun acc am => am.m.run acc) xs

/-! ### record contexts -/

structure Ctx where
  nr : Nat
  fnr : Nat
  filenum : Nat
  filename : Nat          -- files are identified by their position in a table of names
  deriving DecidableEq, Repr

/-- Contexts of the records of the files `counts` (records per file), read in order:
`UpdateForStartOfFile` sets FILENAME, increments FILENUM and resets FNR; `UpdateForInputRecord`
increments NR and FNR. -/
def contextsFrom : Nat → Nat → List Nat → List Ctx
  | _, _, [] => []
  | nr, filenum, c :: rest =>
    ((List.range c).map fun i => { nr := nr + i + 1, fnr := i + 1, filenum := filenum + 1, filename := filenum })
      ++ contextsFrom (nr + c) (filenum + 1) rest

def contexts (counts : List Nat) : List Ctx := contextsFrom 0 0 counts

end Pipeline
end Miller
