/-
Model of the redirected-output manager (pkg/output/file_output_handlers.go
`MultiOutputHandlerManager.getOutputHandlerFor` for files): an LRU list of open targets with a
fixed capacity; opening one more evicts (closes) the least recently used; a target closed by
eviction is re-opened in append mode; each open creates a fresh record writer, i.e. starts a new
DOCUMENT (header / bracket pair) in the file.  A file is modelled as the list of documents it
holds, a document as the list of records written into it.
-/
import MillerModel.Model.Formats.Rec
namespace Miller
namespace Fanout

abbrev Doc := List Rec
abbrev Files := List (Nat × List Doc)      -- target ↦ documents, oldest first

def docsOf (fs : Files) (t : Nat) : List Doc := ((fs.find? (·.1 == t)).map (·.2)).getD []

def setDocs : Files → Nat → List Doc → Files
  | [], t, ds => [(t, ds)]
  | p :: fs, t, ds => if p.1 == t then (t, ds) :: fs else p :: setDocs fs t ds

structure St where
  openT : List Nat := []          -- open targets, most recently used first
  evicted : List Nat := []        -- closed by eviction and not re-opened since
  files : Files := []
  deriving Repr

/-- Append a record to the last (open) document of a file. -/
def appendLast : List Doc → Rec → List Doc
  | [], r => [[r]]
  | [d], r => [d ++ [r]]
  | d :: ds, r => d :: appendLast ds r

/-- Make room for one more open target: at capacity, close the least recently used one and
remember it as evicted. -/
def evictStep (cap : Nat) (openT evicted : List Nat) : List Nat × List Nat :=
  if openT.length ≥ cap then
    match openT.getLast? with
    | some tail => (openT.dropLast, tail :: evicted)
    | none => (openT, evicted)
  else (openT, evicted)

/-- One `WriteRecordAndContext(record, target)`. -/
def write (cap : Nat) (appendMode : Bool) (s : St) (t : Nat) (r : Rec) : St :=
  if s.openT.contains t then
    { s with openT := t :: s.openT.erase t, files := setDocs s.files t (appendLast (docsOf s.files t) r) }
  else
    let oe := evictStep cap s.openT s.evicted
    let useAppend := appendMode || oe.2.contains t
    let docs0 := if useAppend then docsOf s.files t else []
    { openT := t :: oe.1, evicted := oe.2.filter (· != t), files := setDocs s.files t (docs0 ++ [[r]]) }

def run (cap : Nat) (appendMode : Bool) (s : St) (hist : List (Nat × Rec)) : St :=
  hist.foldl (fun s w => write cap appendMode s w.1 w.2) s

/-- What was routed to a target, in stream order. -/
def routed (hist : List (Nat × Rec)) (t : Nat) : List Rec := (hist.filter (·.1 == t)).map (·.2)

end Fanout
end Miller
