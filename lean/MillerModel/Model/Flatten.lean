/-
Model of flatten / unflatten (pkg/mlrval/mlrmap_flatten_unflatten.go Flatten, CopyUnflattened,
unflattenTerminal; pkg/mlrval/mlrval_accessors.go FlattenToMap; Arrayify).  A nested record is
represented by its LEAVES IN TREE ORDER, each with the path of components leading to it; a component
is a map key or a (1-up) array index.  Empty maps and arrays are leaves of their own ("{}" / "[]"
sentinels when flattened).  Flattening joins the path with the separator; unflattening splits the
keys, decodes the sentinels, decides for every inner node whether it is an array (its children's
keys are exactly 1..n, in order) and lists the leaves in tree order.
-/
import MillerModel.Base.Split
import MillerModel.Model.Formats.Rec
namespace Miller
namespace Flatten

inductive Leaf where
  | scalar (s : Bytes)
  | emptyMap
  | emptyArr
  deriving DecidableEq, Repr

structure Comp where
  key : Bytes
  idx : Bool            -- an array index (then `key` is its decimal text) rather than a map key
  deriving DecidableEq, Repr

abbrev Entry := List Comp × Leaf
abbrev Doc := List Entry

def leafText : Leaf → Bytes
  | .scalar s => s
  | .emptyMap => [123, 125]
  | .emptyArr => [91, 93]

/-- `unflattenTerminal`. -/
def terminal (v : Bytes) : Leaf :=
  if v == [123, 125] then .emptyMap else if v == [91, 93] then .emptyArr else .scalar v

/-- `Flatten(separator)` of a record given by its leaves. -/
def flatten (sep : Nat) (d : Doc) : Rec :=
  d.map fun e => (Split.join [sep] (e.1.map (·.key)), leafText e.2)

/-- The path a flattened key denotes: split on the separator, unless it is absent or a piece is
empty (then the key is taken literally). -/
def keyPath (sep : Nat) (k : Bytes) : List Bytes :=
  if k.contains sep then
    let ps := Split.splitByte sep k []
    if ps.all (fun p => !p.isEmpty) then ps else [k]
  else [k]

def addNew (acc : List Bytes) (k : Bytes) : List Bytes := if acc.contains k then acc else acc ++ [k]

/-- Keys of the children of the node at path `pre`, in first-appearance order. -/
def childKeys (paths : List (List Bytes)) (pre : List Bytes) : List Bytes :=
  (paths.filterMap fun p => if pre.isPrefixOf p then p[pre.length]? else none).foldl addNew []

/-- `Arrayify`'s test: the keys are exactly "1", "2", …, "n" (n ≥ 1), in order. -/
def isSeq (ks : List Bytes) : Bool :=
  !ks.isEmpty && ks == (List.range ks.length).map fun i => Split.itoa (i + 1)

/-- Tag each component of a path: below the record level, a component is an array index iff the
node it selects from is arrayified. -/
def tagPath (paths : List (List Bytes)) (p : List Bytes) : List Comp :=
  (List.range p.length).map fun i =>
    { key := p.getD i [], idx := decide (1 ≤ i) && isSeq (childKeys paths (p.take i)) }

/-- List the entries in tree order: at each depth, leaves that end here, then the groups by next
component in first-appearance order (what inserting the keys one by one into nested
insertion-ordered maps produces). -/
def regroup : Nat → Nat → List (List Bytes × Leaf) → List (List Bytes × Leaf)
  | 0, _, es => es
  | fuel + 1, depth, es =>
    let here := es.filter fun e => e.1.length ≤ depth
    let keys := (es.filterMap fun e => e.1[depth]?).foldl addNew []
    here ++ keys.flatMap fun k => regroup fuel (depth + 1) (es.filter fun e => e.1[depth]? == some k)

/-- `CopyUnflattened(separator)` of a flat record. -/
def unflatten (sep : Nat) (r : Rec) : Doc :=
  let raw : List (List Bytes × Leaf) := r.map fun p => (keyPath sep p.1, terminal p.2)
  let fuel := (raw.map (·.1.length)).foldl max 0 + 1
  let ordered := regroup fuel 0 raw
  let paths := ordered.map (·.1)
  ordered.map fun e => (tagPath paths e.1, e.2)

end Flatten
end Miller
