/-
Model of the error-delivery protocol of a run (pkg/stream/stream.go `Stream`,
pkg/transformers/aaa_chain_transformer.go `runSingleTransformerBatch`,
pkg/output/channel_writer.go): a transformer that fails posts its error on the one-slot
dataProcessingErrorChannel and forwards an end-of-stream marker; the writer, on the marker,
signals done-writing; `Stream` sits in a select loop taking errors and the done signal in ANY
order the Go scheduler offers them, leaves the loop on the done signal, then makes one
non-blocking drain of the error channel.  The two facts the outcome hinges on — the error is
posted BEFORE the marker is forwarded; the final drain exists — are parameters here and are
REGENERATED from the source (`Gen.errorSendBeforeMarkerForward`, `Gen.streamFinalDrains`).
Every interleaving is a path of `Step`; nothing about scheduling is assumed.
-/
namespace Miller
namespace ErrorProtocol

structure Facts where
  errorBeforeMarker : Bool
  finalDrain : Bool

structure PState where
  posted : Bool := false     -- the failing transformer has executed its (non-blocking) error send
  errBuf : Bool := false     -- the one-slot error channel holds an error
  marker : Bool := false     -- the end-of-stream marker has been forwarded towards the writer
  doneSig : Bool := false    -- the writer has signalled done-writing
  retval : Bool := false     -- Stream's retval is non-nil
  phase : Nat := 0           -- 0: in the select loop; 1: left the loop; 2: returned
  deriving DecidableEq, Repr

/-- One atomic action of one goroutine. -/
inductive Step (f : Facts) : PState → PState → Prop where
  /-- transformer: `select { case dataProcessingErrorChannel <- err: default: }` -/
  | post (s : PState) : s.posted = false → Step f s { s with posted := true, errBuf := true }
  /-- transformer: `outputRecordChannel <- […, end-of-stream marker]`; program order puts it after
  the error send exactly when the source says so -/
  | forward (s : PState) : s.marker = false → (f.errorBeforeMarker = true → s.posted = true) →
      Step f s { s with marker := true }
  /-- writer: sees the marker, `doneChannel <- true` -/
  | writerDone (s : PState) : s.marker = true → s.doneSig = false → Step f s { s with doneSig := true }
  /-- Stream: `case derr := <-dataProcessingErrorChannel: retval = derr` -/
  | recvErr (s : PState) : s.phase = 0 → s.errBuf = true → Step f s { s with errBuf := false, retval := true }
  /-- Stream: `case <-doneWritingChannel: done = true` -/
  | recvDone (s : PState) : s.phase = 0 → s.doneSig = true → Step f s { s with phase := 1 }
  /-- Stream: the final non-blocking drain (if the source has one), then return -/
  | drain (s : PState) : s.phase = 1 →
      Step f s { s with retval := s.retval || (f.finalDrain && s.errBuf), phase := 2 }

inductive Reach (f : Facts) : PState → Prop where
  | init : Reach f {}
  | step (s t : PState) : Reach f s → Step f s t → Reach f t

end ErrorProtocol
end Miller
