/-
Miller values (`*mlrval.Mlrval`) as seen by the operators: a kind (the MT_* enum order of
pkg/mlrval/mlrval_type.go) and, for scalars, the payload.  Collections, functions and errors are
opaque tokens at this level.
-/
import MillerModel.Base.Bytes
import MillerModel.Base.F64
namespace Miller

inductive Val where
  | int (v : Int)
  | float (bits : Nat)
  | bool (b : Bool)
  | void
  | str (s : Bytes)
  | bytes
  | array
  | map
  | func
  | error
  | null
  | absent
  deriving DecidableEq, Repr, Inhabited

/-- Index in the disposition tables = value of the MT_* constant. -/
def Val.kind : Val → Nat
  | .int _ => 0 | .float _ => 1 | .bool _ => 2 | .void => 3 | .str _ => 4 | .bytes => 5
  | .array => 6 | .map => 7 | .func => 8 | .error => 9 | .null => 10 | .absent => 11

def kindNames : List String :=
  ["MT_INT", "MT_FLOAT", "MT_BOOL", "MT_VOID", "MT_STRING", "MT_BYTES", "MT_ARRAY", "MT_MAP", "MT_FUNC",
   "MT_ERROR", "MT_NULL", "MT_ABSENT"]

/-- Line-protocol rendering. -/
def Val.show : Val → String
  | .int v => s!"i:{v}"
  | .float b => s!"f:{F64.toHex16 b}"
  | .bool b => s!"b:{b}"
  | .void => "v"
  | .str s => s!"s:{Bytes.toHex s}"
  | .bytes => "y" | .array => "a" | .map => "m" | .func => "fn" | .error => "e" | .null => "n" | .absent => "x"

def hexNat (s : String) : Nat := s.toList.foldl (fun a c => a * 16 + Bytes.hexVal c) 0

def Val.parse (s : String) : Option Val :=
  match s.splitOn ":" with
  | ["i", d] => d.toInt?.map .int
  | ["f", h] => some (.float (hexNat h))
  | ["b", "true"] => some (.bool true)
  | ["b", "false"] => some (.bool false)
  | ["v"] => some .void
  | ["s", h] => some (.str (Bytes.ofHex h))
  | ["y"] => some .bytes | ["a"] => some .array | ["m"] => some .map | ["fn"] => some .func
  | ["e"] => some .error | ["n"] => some .null | ["x"] => some .absent
  | _ => none

/-- The text `AcquireStringValue` reads (printrep): defined for STRING and VOID. -/
def Val.text? : Val → Option Bytes
  | .str s => some s | .void => some [] | _ => none

/-- Outcome of applying an operator in the model. -/
inductive Out where
  | val (v : Val)
  | panic                 -- Go run-time panic (failed type assertion, integer division by zero, …)
  | unmodelled            -- the cell's kernel is outside the model: correspondence is skipped
  deriving DecidableEq, Repr, Inhabited

def Out.show : Out → String
  | .val v => v.show | .panic => "panic" | .unmodelled => "unmodelled"

end Miller
