/-
Models of the string functions (pkg/bifs/strings.go, regex.go ssub/gssub, base64.go, hex.go):
UTF-8 decoding as Go's `[]rune(s)` / `utf8.RuneCountInString` do it (an invalid byte is one
character, U+FFFD), 1-up inclusive slicing with negative aliases (`MillerSliceAccess`), padding,
stripping, ASCII case mapping, literal substitution, base64 and hex.
-/
import MillerModel.Base.Bytes
namespace Miller
namespace Strings

def isCont (b : Nat) : Bool := 128 ≤ b && b < 192

/-- `utf8.DecodeRuneInString`: (rune, width). Invalid encodings give (0xFFFD, 1). -/
def decodeRune : Bytes → Nat × Nat
  | [] => (0xFFFD, 0)
  | b0 :: rest =>
    if b0 < 128 then (b0, 1)
    else if b0 < 0xC2 then (0xFFFD, 1)
    else if b0 < 0xE0 then
      match rest with
      | b1 :: _ => if isCont b1 then ((b0 - 0xC0) * 64 + (b1 - 128), 2) else (0xFFFD, 1)
      | _ => (0xFFFD, 1)
    else if b0 < 0xF0 then
      match rest with
      | b1 :: b2 :: _ =>
        let lo := if b0 == 0xE0 then 0xA0 else 0x80
        let hi := if b0 == 0xED then 0x9F else 0xBF
        if lo ≤ b1 && b1 ≤ hi && isCont b2 then ((b0 - 0xE0) * 4096 + (b1 - 128) * 64 + (b2 - 128), 3) else (0xFFFD, 1)
      | _ => (0xFFFD, 1)
    else if b0 < 0xF5 then
      match rest with
      | b1 :: b2 :: b3 :: _ =>
        let lo := if b0 == 0xF0 then 0x90 else 0x80
        let hi := if b0 == 0xF4 then 0x8F else 0xBF
        if lo ≤ b1 && b1 ≤ hi && isCont b2 && isCont b3 then
          ((b0 - 0xF0) * 262144 + (b1 - 128) * 4096 + (b2 - 128) * 64 + (b3 - 128), 4)
        else (0xFFFD, 1)
      | _ => (0xFFFD, 1)
    else (0xFFFD, 1)

/-- `[]rune(s)`. -/
def runesAux : Nat → Bytes → List Nat
  | 0, _ => []
  | _, [] => []
  | fuel + 1, s =>
    let (r, w) := decodeRune s
    r :: runesAux fuel (s.drop (max w 1))

def runes (s : Bytes) : List Nat := runesAux s.length s

/-- `string(rune)`: UTF-8 encoding (surrogates and out-of-range give U+FFFD). -/
def encodeRune (r : Nat) : Bytes :=
  if r < 128 then [r]
  else if r < 0x800 then [0xC0 + r / 64, 128 + r % 64]
  else if (0xD800 ≤ r && r < 0xE000) || r > 0x10FFFF then [0xEF, 0xBF, 0xBD]
  else if r < 0x10000 then [0xE0 + r / 4096, 128 + r / 64 % 64, 128 + r % 64]
  else [0xF0 + r / 262144, 128 + r / 4096 % 64, 128 + r / 64 % 64, 128 + r % 64]

def ofRunes (rs : List Nat) : Bytes := rs.flatMap encodeRune

/-- `strlen`: characters, not bytes. -/
def strlen (s : Bytes) : Nat := (runes s).length

/-- `UnaliasArrayLengthIndex` (zero-based result, may be out of bounds). -/
def unalias (n : Nat) (m : Int) : Int := if 1 ≤ m then m - 1 else if m ≤ -1 then m + n else -1

/-- `MillerSliceAccess` for int indices, 1-up: `none` = empty slice, else zero-based inclusive bounds. -/
def sliceBounds (n : Nat) (m k : Int) : Option (Nat × Nat) :=
  let lo := unalias n m
  let hi := unalias n k
  if lo > hi then none
  else
    let lo := if lo < 0 then 0 else lo
    if lo > hi then none
    else
      let hi := if hi > (n : Int) - 1 then (n : Int) - 1 else hi
      if lo > hi then none else some (lo.toNat, hi.toNat)

/-- `substr` / `substr1` / `s[m:n]`: 1-up, inclusive, negative aliases, in characters. -/
def substr1 (s : Bytes) (m k : Int) : Bytes :=
  let rs := runes s
  match sliceBounds rs.length m k with
  | none => []
  | some (lo, hi) => ofRunes ((rs.drop lo).take (hi + 1 - lo))

/-- `substr0`: 0-up indices (non-negative ones shifted by one). -/
def substr0 (s : Bytes) (m k : Int) : Bytes :=
  substr1 s (if m ≥ 0 then m + 1 else m) (if k ≥ 0 then k + 1 else k)

def truncate (s : Bytes) (n : Nat) : Bytes :=
  let rs := runes s
  if rs.length ≤ n then s else ofRunes (rs.take n)

def padCount : Nat → Nat → Nat → Nat → Nat
  | 0, _, _, _ => 0
  | fuel + 1, cur, padLen, target => if cur + padLen ≤ target then 1 + padCount fuel (cur + padLen) padLen target else 0

/-- How many copies of the pad string `leftpad`/`rightpad` add. -/
def padCopies (s pad : Bytes) (target : Int) : Nat :=
  if target < 0 || strlen pad == 0 then 0 else padCount (target.toNat + 1) (strlen s) (strlen pad) target.toNat

def leftpad (s : Bytes) (target : Int) (pad : Bytes) : Bytes := (List.replicate (padCopies s pad target) pad).flatten ++ s
def rightpad (s : Bytes) (target : Int) (pad : Bytes) : Bytes := s ++ (List.replicate (padCopies s pad target) pad).flatten

def isBlank (c : Nat) : Bool := c == 32 || c == 9
def lstrip (s : Bytes) : Bytes := s.dropWhile isBlank
def rstrip (s : Bytes) : Bytes := (s.reverse.dropWhile isBlank).reverse
def strip (s : Bytes) : Bytes := rstrip (lstrip s)

/-- `\s` of Go's regexp: [\t\n\f\r ]. -/
def isSpace (c : Nat) : Bool := c == 9 || c == 10 || c == 12 || c == 13 || c == 32
/-- `collapse_whitespace`: every maximal run of whitespace becomes one space. -/
def collapseWs : Bytes → Bytes
  | [] => []
  | c :: rest =>
    if isSpace c then
      match rest with
      | d :: _ => if isSpace d then collapseWs rest else 32 :: collapseWs rest
      | [] => [32]
    else c :: collapseWs rest

def upperByte (c : Nat) : Nat := if 97 ≤ c && c ≤ 122 then c - 32 else c
def lowerByte (c : Nat) : Nat := if 65 ≤ c && c ≤ 90 then c + 32 else c
/-- ASCII case mapping (the model's domain: ASCII strings). -/
def toupper (s : Bytes) : Bytes := s.map upperByte
def tolower (s : Bytes) : Bytes := s.map lowerByte
def capitalize : Bytes → Bytes
  | [] => []
  | c :: rest => upperByte c :: rest

def hasPrefix : Bytes → Bytes → Bool
  | _, [] => true
  | [], _ :: _ => false
  | a :: as, b :: bs => a == b && hasPrefix as bs

/-- `strings.Replace(s, old, new, 1)` for non-empty `old`. -/
def ssub (s old new : Bytes) : Bytes :=
  if old.isEmpty then new ++ s
  else
    let rec go : Bytes → Bytes
      | [] => []
      | c :: rest => if hasPrefix (c :: rest) old then new ++ (c :: rest).drop old.length else c :: go rest
    go s

/-- `strings.ReplaceAll(s, old, new)` for non-empty `old`. -/
def gssubAux (old new : Bytes) : Nat → Bytes → Bytes
  | 0, s => s
  | _, [] => []
  | fuel + 1, c :: rest =>
    if hasPrefix (c :: rest) old then new ++ gssubAux old new fuel ((c :: rest).drop old.length)
    else c :: gssubAux old new fuel rest

def gssub (s old new : Bytes) : Bytes := if old.isEmpty then s else gssubAux old new (s.length + 1) s

/-! ### base64 (standard alphabet, padded) and hex -/

def b64char (n : Nat) : Nat :=
  if n < 26 then 65 + n else if n < 52 then 97 + (n - 26) else if n < 62 then 48 + (n - 52) else if n == 62 then 43 else 47

def b64val (c : Nat) : Option Nat :=
  if 65 ≤ c && c ≤ 90 then some (c - 65) else if 97 ≤ c && c ≤ 122 then some (c - 97 + 26)
  else if 48 ≤ c && c ≤ 57 then some (c - 48 + 52) else if c == 43 then some 62 else if c == 47 then some 63 else none

def b64encode : Bytes → Bytes
  | [] => []
  | [a] => [b64char (a / 4), b64char (a % 4 * 16), 61, 61]
  | [a, b] => [b64char (a / 4), b64char (a % 4 * 16 + b / 16), b64char (b % 16 * 4), 61]
  | a :: b :: c :: rest =>
    b64char (a / 4) :: b64char (a % 4 * 16 + b / 16) :: b64char (b % 16 * 4 + c / 64) :: b64char (c % 64) :: b64encode rest

def b64decode : Bytes → Option Bytes
  | [] => some []
  | w :: x :: y :: z :: rest =>
    if y == 61 && z == 61 && rest.isEmpty then
      (b64val w).bind fun p => (b64val x).bind fun q => some [p * 4 + q / 16]
    else if z == 61 && rest.isEmpty then
      (b64val w).bind fun p => (b64val x).bind fun q => (b64val y).bind fun r => some [p * 4 + q / 16, q % 16 * 16 + r / 4]
    else
      (b64val w).bind fun p => (b64val x).bind fun q => (b64val y).bind fun r => (b64val z).bind fun t =>
        (b64decode rest).bind fun more => some ((p * 4 + q / 16) :: (q % 16 * 16 + r / 4) :: (r % 4 * 64 + t) :: more)
  | _ => none

def hexDigit (n : Nat) : Nat := if n < 10 then 48 + n else 87 + n
def hexVal (c : Nat) : Option Nat :=
  if 48 ≤ c && c ≤ 57 then some (c - 48) else if 97 ≤ c && c ≤ 102 then some (c - 87) else if 65 ≤ c && c ≤ 70 then some (c - 55) else none
def hexEncode (s : Bytes) : Bytes := s.flatMap fun b => [hexDigit (b / 16), hexDigit (b % 16)]
def hexDecode : Bytes → Option Bytes
  | [] => some []
  | [_] => none
  | h :: l :: rest => do
    let a ← hexVal h; let b ← hexVal l
    let more ← hexDecode rest
    pure ((a * 16 + b) :: more)

end Strings
end Miller
