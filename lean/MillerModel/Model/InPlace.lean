/-
Model of in-place mode (pkg/entrypoint/entrypoint.go processFileInPlace) as file-system
operations on two names: the named file `F` and the temporary file `T` created next to it.
The ORDER of the operations, and which error branches remove `T`, are not written here: they are
read from `Gen.inPlaceSteps`, regenerated from the Go source on every run.
-/
import MillerModel.Base.Bytes
import MillerModel.Gen.Facts
namespace Miller
namespace InPlace

/-- A file: contents and permission bits; `none` = does not exist. -/
structure FS where
  f : Option (Bytes × Nat)
  t : Option (Bytes × Nat)
  deriving DecidableEq, Repr

inductive Op where
  | noop                      -- no effect on F or T (stat, option parsing, encoding lookup, wrapper close)
  | createTemp                -- os.CreateTemp: T := empty, mode 0600
  | write (chunk : Bytes)     -- bytes reach T (buffered writer flushes, in order)
  | closeTemp                 -- handle.Close
  | rename                    -- os.Rename(T, F): F := T atomically, T gone
  | chmod (mode : Nat)        -- os.Chmod(F, mode)
  | removeTemp                -- os.Remove(T)
  deriving DecidableEq, Repr

def apply (fs : FS) : Op → FS
  | .noop => fs
  | .createTemp => { fs with t := some ([], 0o600) }
  | .write c => { fs with t := fs.t.map fun p => (p.1 ++ c, p.2) }
  | .closeTemp => fs
  | .rename => match fs.t with | some p => { f := some p, t := none } | none => fs
  | .chmod m => { fs with f := fs.f.map fun p => (p.1, m) }
  | .removeTemp => { fs with t := none }

def run (ops : List Op) (fs : FS) : FS := ops.foldl apply fs

/-- File-system effect of one step of processFileInPlace, by the name of the call. `chunks` = the
pieces in which the transformed bytes reach the temporary file during stream.Stream. -/
def opsOfCall (chunks : List Bytes) (mode : Nat) : String → Option (List Op)
  | "os.Stat" => some [.noop]
  | "climain.ParseCommandLine" => some [.noop]
  | "lib.IsUpdateableInPlace" => some [.noop]
  | "lib.FindInputEncoding" => some [.noop]
  | "lib.WrapOutputHandle" => some [.noop]
  | "os.CreateTemp" => some [.createTemp]
  | "stream.Stream" => some (chunks.map .write)
  | "wrappedHandle.Close" => some [.noop]
  | "handle.Close" => some [.closeTemp]
  | "os.Rename" => some [.rename]
  | "os.Chmod" => some [.chmod mode]
  | _ => none                 -- an unknown call: the model does not apply (the proof obligations fail)

/-- All operations of a successful run, in the regenerated order. -/
def successOps (steps : List (String × Bool × Bool)) (chunks : List Bytes) (mode : Nat) : Option (List Op) :=
  (steps.mapM fun s => opsOfCall chunks mode s.1).map List.flatten

/-- Operations of a run in which step `i` fails: the steps before it take effect, step `i` itself
has only the partial effect `partialOps` (bytes already written when stream.Stream fails; nothing
for the other calls), and its error branch removes the temporary file if the source says so. -/
def failureOps (steps : List (String × Bool × Bool)) (chunks : List Bytes) (mode : Nat) (i : Nat)
    (partialOps : List Op) : Option (List Op) :=
  match steps[i]? with
  | none => none
  | some s =>
    ((steps.take i).mapM fun s => opsOfCall chunks mode s.1).map fun before =>
      before.flatten ++ partialOps ++ (if s.2.2 then [.removeTemp] else [])

end InPlace
end Miller
