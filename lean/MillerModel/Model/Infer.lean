/-
Model of pkg/mlrval/mlrval_infer.go: type inference from field text.
The inferrer tables (which inferrer handles which scan type) come from the REGENERATED
`Gen/ScanTables.lean`; the inferrer bodies are hand-modelled and tied by correspondence (T2).
Go slice expressions that could go out of range are explicit `Except`-style partiality
(`Outcome.panic`), so that "never panics" is a theorem and not an artefact of totalisation.
-/
import MillerModel.Model.Scan
import MillerModel.Base.Dec
import MillerModel.Base.ParseFloat
namespace Miller
namespace Infer

/-- Result of inference.  The original text is retained by the caller (C03), so only the type
and numeric payload are recorded here. -/
inductive Inferred where
  | int (v : Int)
  | float (bits : Nat)
  | string
  | void
  | boolean (b : Bool)
  deriving DecidableEq, Repr, Inhabited

inductive Outcome where
  | ok (r : Inferred)
  | panic            -- a Go run-time panic (slice bounds / index out of range)
  deriving DecidableEq, Repr, Inhabited

/-- `mv.SetFromString(printrep)`. -/
def setFromString (s : Bytes) : Inferred := if s.isEmpty then .void else .string

def inferString (s : Bytes) : Outcome := .ok (setFromString s)

def inferMaybeFloat (s : Bytes) : Outcome :=
  match ParseFloat.parse s with
  | some b => .ok (.float b)
  | none => .ok (setFromString s)

def inferDecimalInt (s : Bytes) : Outcome :=
  match Dec.parseInt 10 s with
  | some v => .ok (.int v)
  | none => inferMaybeFloat s

def inferLeadingZeroDecimalIntAsInt (s : Bytes) : Outcome :=
  match Dec.parseInt 10 s with
  | some v => .ok (.int v)
  | none => .ok (setFromString s)

def inferFromLeadingZeroOctalIntAsInt (s : Bytes) : Outcome :=
  match Dec.parseInt 8 s with
  | some v => .ok (.int v)
  | none => .ok (setFromString s)

/-- The `switch mv.printrep[0]` prefix skip shared by `inferHexInt` and `inferBaseInt`:
`printrep[3:]` after a sign, `printrep[2:]` otherwise; `none` = slice out of range (panic). -/
def skipPrefix (s : Bytes) : Option (Bytes × Bool) :=
  match s with
  | [] => none                       -- printrep[0] on an empty string
  | c :: _ =>
    if c == 45 then (if s.length < 3 then none else some (s.drop 3, true))
    else if c == 43 then (if s.length < 3 then none else some (s.drop 3, false))
    else (if s.length < 2 then none else some (s.drop 2, false))

def inferBaseInt (base : Nat) (s : Bytes) : Outcome :=
  match skipPrefix s with
  | none => .panic
  | some (input, negate) =>
    match Dec.parseInt base input with
    | some v => .ok (.int (if negate then wrap (-v) else v))
    | none => .ok (setFromString s)

def inferOctalInt (s : Bytes) : Outcome := inferBaseInt 8 s
def inferBinaryInt (s : Bytes) : Outcome := inferBaseInt 2 s

def inferHexInt (s : Bytes) : Outcome :=
  match skipPrefix s with
  | none => .panic
  | some (input, negate) =>
    match input with
    | [] => .panic                   -- input[0]
    | i0 :: _ =>
      if input.length == 16 && (56 ≤ i0 && i0 ≤ 102) then
        match Dec.parseUint 16 input with
        | some u =>
          let v := u2i u
          .ok (.int (if negate then wrap (-v) else v))
        | none => .ok (setFromString s)
      else
        match Dec.parseInt 16 input with
        | some v => .ok (.int (if negate then wrap (-v) else v))
        | none => .ok (setFromString s)

/-- Dispatch on the Go function *name* found in the regenerated table. -/
def inferByName (name : String) (s : Bytes) : Outcome :=
  if name == "inferString" then inferString s
  else if name == "inferDecimalInt" then inferDecimalInt s
  else if name == "inferLeadingZeroDecimalIntAsInt" then inferLeadingZeroDecimalIntAsInt s
  else if name == "inferOctalInt" then inferOctalInt s
  else if name == "inferFromLeadingZeroOctalIntAsInt" then inferFromLeadingZeroOctalIntAsInt s
  else if name == "inferHexInt" then inferHexInt s
  else if name == "inferBinaryInt" then inferBinaryInt s
  else if name == "inferMaybeFloat" then inferMaybeFloat s
  else .panic   -- unknown inferrer name: the model does not cover it

def inferWithTable (table : List String) (s : Bytes) : Outcome :=
  match table[(Scan.findScanType s).index]? with
  | some name => inferByName name s
  | none => .panic     -- index out of range of the table

/-- `inferNormally` (no flag). -/
def inferNormally (s : Bytes) : Outcome := inferWithTable Gen.normalInferrerTable s

/-- `inferWithOctalAsInt` (`mlr -O`). -/
def inferWithOctalAsInt (s : Bytes) : Outcome := inferWithTable Gen.leadingZeroAsIntInferrerTable s

/-- `inferWithIntAsFloat` (`mlr -A`). -/
def inferWithIntAsFloat (s : Bytes) : Outcome :=
  match inferNormally s with
  | .ok (.int v) => .ok (.float (F64.ofInt v))
  | o => o

/-- `mlr -S`. -/
def inferStringOnly (s : Bytes) : Outcome := inferString s

inductive Flag where | normal | octal | intAsFloat | stringOnly
  deriving DecidableEq, Repr, Inhabited

def infer : Flag → Bytes → Outcome
  | .normal => inferNormally
  | .octal => inferWithOctalAsInt
  | .intAsFloat => inferWithIntAsFloat
  | .stringOnly => inferStringOnly

/-- `mlrval.FromInferredType` (DSL literals, JSON numbers, `-s` files): booleans first. -/
def fromInferredType (f : Flag) (s : Bytes) : Outcome :=
  if s == [116, 114, 117, 101] then .ok (.boolean true)
  else if s == [102, 97, 108, 115, 101] then .ok (.boolean false)
  else infer f s

/-- `mlrval.FromString` (JSON string values): never inferred. -/
def fromString (s : Bytes) : Inferred := setFromString s

end Infer
end Miller
