/-
Models of the aggregating verbs (pkg/transformers/count.go, uniq.go (count-distinct, uniq -g),
count_similar.go, fill_down.go, stats1.go + utils/stats1_accumulators.go, step.go (delta, shift,
rsum, counter), top.go, most_or_least_frequent.go).  Numbers go through the REGENERATED
disposition tables (`Disp.evalBinary`), i.e. the same int-preserving `+`, `/`, min, max kernels
as the DSL operators.  A value is its typed payload plus, when it is still the input field, its
original text (accumulators such as min/max/first/last return the input value itself).
-/
import MillerModel.Model.Verbs.Sort
import MillerModel.Model.Disp
namespace Miller
namespace Verbs

/-- A typed value with its retained text (if it is an unmodified input value). -/
structure TV where
  v : Val
  text : Option Bytes := none
  deriving Repr, Inhabited

def typeOfText (s : Bytes) : Val :=
  match Infer.infer .normal s with
  | .ok (.int x) => .int x
  | .ok (.float b) => .float b
  | .ok .void => .void
  | .ok .string => .str s
  | .ok (.boolean _) => .str s
  | .panic => .error

def tvOfText (s : Bytes) : TV := { v := typeOfText s, text := some s }
def tvInt (n : Int) : TV := { v := .int n }

/-- Marker prefix for a float that has no retained text: the driver compares it with the
implementation's printed text by VALUE (parse back, compare bits). -/
def floatMarker (b : Nat) : Bytes := 0 :: (F64.toHex16 b).toList.map Char.toNat

def renderInt (n : Int) : Bytes := (toString n).toList.map Char.toNat

def TV.render (t : TV) : Bytes :=
  match t.text with
  | some s => s
  | none =>
    match t.v with
    | .int n => renderInt n
    | .float b => floatMarker b
    | .void => []
    | .str s => s
    | .error => str "(error)"
    | .absent => []
    | _ => str "?"

def isNumericTV (t : TV) : Bool := match t.v with | .int _ => true | .float _ => true | _ => false

def outVal : Out → Val | .val v => v | _ => .error

/-- `bifs.BIF_plus_binary` etc. on typed values (result has no retained text). -/
def tvBin (table : List (List Gen.K)) (a b : TV) : TV :=
  { v := outVal (Disp.evalBinary table Gen.bifs_uneg_dispositions a.v b.v) }

def tvPlus := tvBin Gen.bifs_plus_dispositions
def tvMinus := tvBin Gen.bifs_minus_dispositions
def tvTimes := tvBin Gen.bifs_times_dispositions
def tvDivide := tvBin Gen.bifs_divide_dispositions

/-- `BIF_min_binary` / `BIF_max_binary`: generic cells return one of the INPUTS (text retained);
the int kernel and the string kernel return an input too; the float kernels build a new float. -/
def tvMinMax (isMax : Bool) (a b : TV) : TV :=
  let table := if isMax then Gen.bifs_max_dispositions else Gen.bifs_min_dispositions
  match Disp.cell2 table a.v.kind b.v.kind with
  | none => { v := .error }
  | some k =>
    match (Gen.kernelSig k).ret with
    | .in1 => a
    | .in2 => b
    | .void => { v := .void }
    | .absent => { v := .absent }
    | .null => { v := .null }
    | .error => { v := .error }
    | _ =>
      match a.v, b.v with
      | .int x, .int y => if isMax then (if x > y then a else b) else (if x < y then a else b)
      | .str x, .str y => if isMax then (if bytesLt y x then a else b) else (if bytesLt x y then a else b)
      | _, _ => { v := outVal (Disp.evalBinary table Gen.bifs_uneg_dispositions a.v b.v) }

/-! ### grouping helper -/

/-- State per group: the grouping values (texts of the first record of the group) and `α`. -/
def groupUpdate {α} (fields : List Bytes) (init : α) (upd : α → Rec → α)
    (m : OMap (List Bytes × α)) (r : Rec) : OMap (List Bytes × α) :=
  match fields.mapM (get r) with
  | none => m
  | some vs =>
    let k := joinKey vs
    match m.get? k with
    | some g => m.put k (g.1, upd g.2 r)
    | none => m.put k (vs, upd init r)

def groupFold {α} (fields : List Bytes) (init : α) (upd : α → Rec → α) (xs : List Rec) : OMap (List Bytes × α) :=
  xs.foldl (groupUpdate fields init upd) []

def groupRec (fields : List Bytes) (vals : List Bytes) : Rec := fields.zip vals |>.foldl (fun acc p => Rec.put acc p.1 p.2) []

/-! ### count family -/

def countVerb (group : Option (List Bytes)) (showDistinctOnly : Bool) (outName : Bytes) (xs : List Rec) : List Rec :=
  match group with
  | none => [[(outName, renderInt xs.length)]]
  | some fs =>
    let g := groupFold fs 0 (fun (c : Nat) _ => c + 1) xs
    if showDistinctOnly then [[(outName, renderInt g.length)]]
    else g.map fun (_, (vs, c)) => Rec.put (groupRec fs vs) outName (renderInt c)

/-- count-distinct -f fs [-n] [-o name] (= uniq -g fs -c with the count LAST). -/
def countDistinct (fs : List Bytes) (onlyNum : Bool) (outName : Bytes) (xs : List Rec) : List Rec :=
  let g := groupFold fs 0 (fun (c : Nat) _ => c + 1) xs
  if onlyNum then [[(outName, renderInt g.length)]]
  else g.map fun (_, (vs, c)) => Rec.put (groupRec fs vs) outName (renderInt c)

/-- count-distinct -u: separate counts per field. -/
def countDistinctUnlashed (fs : List Bytes) (xs : List Rec) : List Rec :=
  if xs.isEmpty then [] else
  (fs.foldl addNew []).flatMap fun f =>
    let g := groupFold [f] 0 (fun (c : Nat) _ => c + 1) xs
    g.map fun (_, (vs, c)) => [(str "field", f), (str "value", vs.headD []), (str "count", renderInt c)]

/-- uniq -g fs [-c] [-n] [-o name]. -/
def uniqGroup (fs : List Bytes) (showCounts onlyNum : Bool) (outName : Bytes) (xs : List Rec) : List Rec :=
  let g := groupFold fs 0 (fun (c : Nat) _ => c + 1) xs
  if onlyNum then [[(outName, renderInt g.length)]]
  else if showCounts then g.map fun (_, (vs, c)) => Rec.put (groupRec fs vs) outName (renderInt c)
  else g.map fun (_, (vs, _)) => groupRec fs vs

/-- count-similar -g fs [-o name]: records grouped (first-appearance), each gets its group's size. -/
def countSimilar (fs : List Bytes) (outName : Bytes) (xs : List Rec) : List Rec :=
  let g := groupFold fs ([] : List Rec) (fun acc r => acc ++ [r]) xs
  g.flatMap fun (_, (_, rs)) => rs.map fun r => Rec.put r outName (renderInt rs.length)

/-! ### fill-down -/

def fillDown (fields : Option (List Bytes)) (onlyIfAbsent : Bool) : Machine (OMap Bytes) where
  init := []
  step := fun last r =>
    let names := match fields with | some fs => fs | none => r.keys
    let (last', r') := names.foldl (fun (st : OMap Bytes × Rec) f =>
      let (l, rec) := st
      let present := match get rec f with
        | some v => if onlyIfAbsent then true else !v.isEmpty
        | none => false
      if present then (l.put f ((get rec f).getD []), rec)
      else match l.get? f with
        | some prev => (l, Rec.put rec f prev)
        | none => (l, rec)) (last, r)
    (last', [r'])
  finish := fun _ => []

/-! ### stats1 -/

structure Acc where
  count : Nat := 0
  nullCount : Nat := 0
  sum : TV := tvInt 0
  numCount : Nat := 0
  min : TV := { v := .absent }
  max : TV := { v := .absent }
  minlen : TV := { v := .absent }
  maxlen : TV := { v := .absent }
  counts : OMap Nat := []            -- by String() text, for mode/antimode
  distincts : OMap Nat := []
  first : Option TV := none
  last : Option TV := none
  values : List TV := []             -- for percentiles
  deriving Inhabited

/-- ASCII/UTF-8 character count (`lib.UTF8Strlen`): bytes that are not continuation bytes. -/
def utf8Len (s : Bytes) : Nat := (s.filter fun c => c / 64 != 2).length

/-- Ingest one non-empty value (empty values only reach `null_count`). -/
def Acc.ingest (a : Acc) (t : TV) : Acc :=
  let txt := t.render
  { a with
    count := a.count + 1,
    sum := if isNumericTV t then tvPlus a.sum t else a.sum,
    numCount := if isNumericTV t then a.numCount + 1 else a.numCount,
    min := tvMinMax false a.min t,
    max := tvMinMax true a.max t,
    minlen := tvMinMax false a.minlen (tvInt (utf8Len txt)),
    maxlen := tvMinMax true a.maxlen (tvInt (utf8Len txt)),
    counts := a.counts.update txt 0 (· + 1),
    distincts := a.distincts.update txt 0 (· + 1),
    first := (match a.first with | some f => some f | none => some t),
    last := some t,
    values := a.values ++ [t] }

def modeOf (anti : Bool) (m : OMap Nat) : TV :=
  if m.isEmpty then { v := .void }
  else
    -- the Go loop: `if best == "" || count (>|<) bestCount` — an empty-text best is replaced
    let (best, _) := m.foldl (fun (st : Bytes × Nat) p =>
      if st.1.isEmpty || (if anti then p.2 < st.2 else p.2 > st.2) then (p.1, p.2) else st) (([] : Bytes), 0)
    { v := .str best, text := some best }

/-- Insert before the first element that collates strictly greater (stable). -/
def insTV (t : TV) : List TV → List TV
  | [] => [t]
  | h :: rest => if cmpNumeric t.render h.render < 0 then t :: h :: rest else h :: insTV t rest

/-- Insertion sort by the numeric collation (`mlrval.LessThan`), stable. -/
def sortTVs (vs : List TV) : List TV := vs.foldl (fun acc t => insTV t acc) []

/-- `GetPercentileNonInterpolated`: index = int(p * float64(n) / 100.0), clamped to [0, n-1];
`pb` = the percentile as a double (bit pattern), the operations are IEEE double operations in
exactly this order. -/
def percentileIndexB (pb n : Nat) : Nat :=
  let idx := F64.toInt64 (F64.div (F64.mul pb (F64.ofInt n)) (F64.ofInt 100))
  let i := if idx ≥ (n : Int) then (n : Int) - 1 else idx
  (if i < 0 then 0 else i).toNat

def percentileIndex (p n : Nat) : Nat := percentileIndexB (F64.ofInt p) n

def percentileOfB (pb : Nat) (vs : List TV) : TV :=
  if vs.isEmpty then { v := .void } else (sortTVs vs).getD (percentileIndexB pb vs.length) { v := .void }

def percentileOf (p : Nat) (vs : List TV) : TV := percentileOfB (F64.ofInt p) vs

/-- `tryPercentileFromName`: "median" = 50; "p<number>" with 0 ≤ number ≤ 100. -/
def percentileName (name : String) : Option Nat :=
  if name == "median" then some (F64.ofInt 50)
  else if name.startsWith "p" then
    match ParseFloat.parse ((name.drop 1).toString.toList.map Char.toNat) with
    | some b => if F64.isNaN b || F64.lt b (F64.ofInt 0) || F64.lt (F64.ofInt 100) b then none else some b
    | none => none
  else none

/-- Emit one accumulator by name. -/
def Acc.emit (a : Acc) (name : String) : Option TV :=
  match name with
  | "count" => some (tvInt a.count)
  | "null_count" => some (tvInt a.nullCount)
  | "distinct_count" => some (tvInt a.distincts.length)
  | "mode" => some (modeOf false a.counts)
  | "antimode" => some (modeOf true a.counts)
  | "sum" => some a.sum
  | "mean" => some (if a.numCount == 0 then { v := .void } else tvDivide a.sum (tvInt a.numCount))
  | "min" => some (match a.min.v with | .absent => { v := .void } | _ => a.min)
  | "max" => some (match a.max.v with | .absent => { v := .void } | _ => a.max)
  | "minlen" => some (match a.minlen.v with | .absent => { v := .void } | _ => a.minlen)
  | "maxlen" => some (match a.maxlen.v with | .absent => { v := .void } | _ => a.maxlen)
  | other => (percentileName other).map fun p =>
    -- Go's sort.Slice is unstable: among values that collate equal (3 vs 3.0) either may be
    -- returned, so the result is marked "equal under the numeric collation" (marker byte 1)
    let t := percentileOfB p a.values
    { v := t.v, text := some (1 :: t.render) }

/-- stats1 -a accs -f valueFields [-g groupFields] (no regexes, no -s, no sliding windows).
Per group: per value field (in order of first presence) the named accumulators. -/
def nameBytes (s : String) : Bytes := s.toList.map Char.toNat

/-- Name lists are de-duplicated at construction (first appearance kept). -/
def uniqNames {α} [BEq α] (l : List α) : List α := l.foldl (fun acc x => if acc.contains x then acc else acc ++ [x]) []

def stats1Upd (valueFields : List Bytes) (st : OMap Acc) (r : Rec) : OMap Acc :=
  valueFields.foldl (fun st f =>
    match get r f with
    | none => st
    | some txt =>
      let a := (st.get? f).getD {}
      if txt.isEmpty then st.put f { a with nullCount := a.nullCount + 1 }
      else st.put f (a.ingest (tvOfText txt))) st

def stats1Emit (accs : List String) (groupFields : List Bytes) (gvals : List Bytes) (st : OMap Acc) : Option Rec :=
  st.foldlM (fun (acc : Rec) (f, a) => do
    let kvs ← accs.mapM fun name => (a.emit name).map fun t => (f ++ [95] ++ name.toList.map Char.toNat, t.render)
    pure (kvs.foldl (fun acc p => Rec.put acc p.1 p.2) acc)) (groupRec groupFields gvals)

def stats1 (accs : List String) (valueFields groupFields : List Bytes) (xs : List Rec) : Option (List Rec) :=
  (groupFold groupFields ([] : OMap Acc) (stats1Upd (uniqNames valueFields)) xs).mapM
    fun p => stats1Emit (uniqNames accs) groupFields p.2.1 p.2.2


/-! ### merge-fields (per record; -f name list, -r regexes, -c collapse) -/

def emitInto (accs : List String) (base : Bytes) (a : Acc) (r : Rec) : Option Rec :=
  accs.foldlM (fun rec name => (a.emit name).map fun t => Rec.put rec (base ++ [95] ++ nameBytes name) t.render) r

def dropUnless (keep : Bool) (r : Rec) (k : Bytes) : Rec := if keep then r else r.filter (fun p => p.1 != k)

/-- merge-fields -a accs -f names -o out [-k]. -/
def mergeByNames (accs : List String) (names : List Bytes) (out : Bytes) (keep : Bool) (r : Rec) : Option Rec :=
  let st := (uniqNames names).foldl (fun (st : Acc × Rec) f =>
    match get st.2 f with
    | none => st
    | some txt =>
      if txt.isEmpty then (st.1, dropUnless keep st.2 f)
      else (st.1.ingest (tvOfText txt), dropUnless keep st.2 f)) (({} : Acc), r)
  emitInto (uniqNames accs) out st.1 st.2

/-- merge-fields -a accs -r regexes -o out [-k]: the record's fields in order. -/
def mergeByRegex (accs : List String) (regexes : List (Regex.Re × Nat × Bytes)) (out : Bytes) (keep : Bool) (r : Rec) : Option Rec :=
  let st := r.foldl (fun (st : Acc × Rec) p =>
    if regexes.any (Regex.matchCompiled · p.1) then
      if p.2.isEmpty then (st.1, dropUnless keep st.2 p.1)
      else (st.1.ingest (tvOfText p.2), dropUnless keep st.2 p.1)
    else st) (({} : Acc), r)
  emitInto (uniqNames accs) out st.1 st.2

/-- The name with the first match of the regex removed (`lib.RegexCompiledSub(name, regex, "")`). -/
def removeFirstMatch (c : Regex.Re × Nat × Bytes) (s : Bytes) : Bytes :=
  match Regex.search c.1 s c.2.2 0 with
  | some (b, e, _) => s.take b ++ s.drop e
  | none => s

/-- merge-fields -a accs -c regexes [-k]: fields whose names collapse to the same short name are
accumulated together; one set of outputs per short name, in first-appearance order. -/
def mergeCollapse (accs : List String) (regexes : List (Regex.Re × Nat × Bytes)) (keep : Bool) (r : Rec) : Option Rec :=
  let st := r.foldl (fun (st : OMap Acc × Rec) p =>
    match regexes.find? (Regex.matchCompiled · p.1) with
    | none => st
    | some c =>
      let short := removeFirstMatch c p.1
      let a := (st.1.get? short).getD {}
      if p.2.isEmpty then (st.1.put short a, dropUnless keep st.2 p.1)
      else (st.1.put short (a.ingest (tvOfText p.2)), dropUnless keep st.2 p.1)) (([] : OMap Acc), r)
  st.1.foldlM (fun rec p => emitInto (uniqNames accs) p.1 p.2 rec) st.2

/-! ### step (steppers without look-ahead) -/

structure StepState where
  prev : Option TV := none         -- delta / shift / ratio
  rsum : TV := tvInt 0
  counter : TV := tvInt 0
  deriving Inhabited

/-- One stepper applied to the current record's value; returns the new state and the output field(s). -/
def stepOne (name : String) (f : Bytes) (st : StepState) (txt : Bytes) : StepState × List (Bytes × Bytes) :=
  let outName := f ++ [95] ++ name.toList.map Char.toNat
  let cur := tvOfText txt
  match name with
  | "delta" =>
    if txt.isEmpty then ({ st with prev := none }, [(outName, [])])
    else
      let d := match st.prev with | some p => tvMinus cur p | none => tvInt 0
      ({ st with prev := some cur }, [(outName, d.render)])
  | "shift" | "shift_lag" =>
    let out := match st.prev with | some p => p.render | none => []
    ({ st with prev := some cur }, [(outName, out)])
  | "rsum" =>
    if txt.isEmpty then (st, [(outName, [])])
    else let s := tvPlus cur st.rsum; ({ st with rsum := s }, [(outName, s.render)])
  | "counter" =>
    if txt.isEmpty then (st, [(outName, [])])
    else let c := tvPlus st.counter (tvInt 1); ({ st with counter := c }, [(outName, c.render)])
  | _ => (st, [])

end Verbs
end Miller

namespace Miller
namespace Verbs

/-- step -a steppers -f fields [-g group]: per group, per field, per stepper its own state.
A record lacking a group-by field passes through unchanged; a listed field absent from the
record clears the steppers' previous value. -/
def stepVerb (steppers : List String) (fields groupFields : List Bytes) :
    Machine (OMap (OMap (OMap StepState))) where
  init := []
  step := fun m r =>
    match groupKey groupFields r with
    | none => (m, [r])
    | some gk =>
      let g := (m.get? gk).getD []
      let (g', r') := (uniqNames fields).foldl (fun (st : OMap (OMap StepState) × Rec) f =>
        let (gs, rec) := st
        match get r f with
        | none =>
          -- clearPrevValue on every allocated stepper of that field
          (match gs.get? f with
           | some ss => (gs.put f (ss.map fun (n, s) => (n, { s with prev := none })), rec)
           | none => (gs, rec))
        | some txt =>
          let ss := (gs.get? f).getD []
          let (ss', rec') := (uniqNames steppers).foldl (fun (st2 : OMap StepState × Rec) name =>
            let (ssm, rc) := st2
            let s0 := (ssm.get? (name.toList.map Char.toNat)).getD {}
            let (s1, outs) := stepOne name f s0 txt
            (ssm.put (name.toList.map Char.toNat) s1, outs.foldl (fun rc p => Rec.put rc p.1 p.2) rc)) (ss, rec)
          (gs.put f ss', rec')) (g, r)
      (m.put gk g', [r'])
  finish := fun _ => []

end Verbs
end Miller
