/-
Models of the record-selecting verbs (pkg/transformers/head.go, tail.go, decimate.go, tac.go,
group_by.go, group_like.go, uniq.go (-a forms), skip_trivial_records.go, nothing.go, cat.go,
having_fields.go), each as the `Machine` its `Transform` method implements.
-/
import MillerModel.Model.Verbs.Common
namespace Miller
namespace Verbs

/-! head -/
def headUnkeyed (n : Nat) : Machine Nat where
  init := 0
  step := fun c r => let c' := c + 1; (c', if c' ≤ n then [r] else [])
  finish := fun _ => []

def headKeyed (n : Nat) (fields : List Bytes) : Machine (OMap Nat) where
  init := []
  step := fun m r =>
    match groupKey fields r with
    | none => (m, [])
    | some k =>
      let c := (m.get? k).getD 0 + 1
      (m.put k c, if c ≤ n then [r] else [])
  finish := fun _ => []

/-- `head -n -k`: all but the last k (per group). The per-group buffer releases its oldest
record as soon as it holds more than k. -/
def headAllButLast (n : Nat) (fields : List Bytes) : Machine (OMap (List Rec)) where
  init := []
  step := fun m r =>
    match groupKey fields r with
    | none => (m, [])
    | some k =>
      let buf := (m.get? k).getD [] ++ [r]
      if buf.length > n then (m.put k (buf.drop (buf.length - n)), buf.take (buf.length - n))
      else (m.put k buf, [])
  finish := fun _ => []

/-! tail -/
def tailLastN (n : Nat) (fields : List Bytes) : Machine (OMap (List Rec)) where
  init := []
  step := fun m r =>
    match groupKey fields r with
    | none => (m, [])
    | some k =>
      let buf := (m.get? k).getD [] ++ [r]
      (m.put k (buf.drop (buf.length - n)), [])
  finish := fun m => (m.map (·.2)).flatten

/-- `tail -n +k`: `skip` = k-1 (clamped at 0) records per group are skipped. -/
def tailFromStart (skip : Nat) (fields : List Bytes) : Machine (OMap Nat) where
  init := []
  step := fun m r =>
    match groupKey fields r with
    | none => (m, [])
    | some k =>
      let c := (m.get? k).getD 0 + 1
      (m.put k c, if c > skip then [r] else [])
  finish := fun _ => []

/-! decimate -/
def decimate (n : Nat) (remainderToKeep : Nat) (fields : List Bytes) : Machine (OMap Nat) where
  init := []
  step := fun m r =>
    match groupKey fields r with
    | none => (m, [])
    | some k =>
      let c := (m.get? k).getD 0
      (m.put k (c + 1), if c % n == remainderToKeep then [r] else [])
  finish := fun _ => []

/-! tac, group-by, group-like -/
def tac : Machine (List Rec) where
  init := []
  step := fun acc r => (acc ++ [r], [])
  finish := fun acc => acc.reverse

def groupBy (fields : List Bytes) : Machine (OMap (List Rec)) where
  init := []
  step := fun m r =>
    match groupKey fields r with
    | none => (m, [])
    | some k => (m.put k ((m.get? k).getD [] ++ [r]), [])
  finish := fun m => (m.map (·.2)).flatten

/-- group-like: grouping key = comma-join of the field NAMES. -/
def groupLike : Machine (OMap (List Rec)) where
  init := []
  step := fun m r =>
    let k := joinKey r.keys
    (m.put k ((m.get? k).getD [] ++ [r]), [])
  finish := fun m => (m.map (·.2)).flatten

/-! uniq -a, skip-trivial-records, nothing -/
def uniqAll : Machine (List Rec) where
  init := []
  step := fun seen r => if seen.contains r then (seen, []) else (seen ++ [r], [r])
  finish := fun _ => []

def skipTrivial : Machine Unit where
  init := ()
  step := fun _ r => ((), if r.isEmpty || r.all (·.2.isEmpty) then [] else [r])
  finish := fun _ => []

def nothing : Machine Unit where
  init := ()
  step := fun _ _ => ((), [])
  finish := fun _ => []

/-! cat -n [-g] [-N name] -/
structure CatState where
  counter : Nat
  byGroup : OMap Nat

/-- `cat -n -g fields`: a record lacking a group-by field is numbered from the separate
ungrouped counter. -/
def catN (name : Bytes) (fields : Option (List Bytes)) : Machine CatState where
  init := ⟨0, []⟩
  step := fun s r =>
    match fields with
    | none => let c := s.counter + 1; (⟨c, s.byGroup⟩, [prepend r name (Split.itoa c)])
    | some fs =>
      match groupKey fs r with
      | none => let c := s.counter + 1; (⟨c, s.byGroup⟩, [prepend r name (Split.itoa c)])
      | some k =>
        let c := (s.byGroup.get? k).getD 0 + 1
        (⟨s.counter, s.byGroup.put k c⟩, [prepend r name (Split.itoa c)])
  finish := fun _ => []

/-! having-fields (the three name-list modes; the regex modes are outside the model) -/
inductive HavingMode where
  | atLeast | whichAre | atMost
  deriving DecidableEq, Repr

/-- `numFieldNames` is the LENGTH of the given list (a repeated name can never be satisfied by
`--at-least`), membership is in the set of names. -/
def havingFields (mode : HavingMode) (fields : List Bytes) : Machine Unit where
  init := ()
  step := fun _ r =>
    let keep := match mode with
      | .atLeast => decide ((r.keys.filter (fields.contains ·)).length ≥ fields.length) && !fields.isEmpty
      | .whichAre => r.length == fields.length && r.keys.all (fields.contains ·)
      | .atMost => r.keys.all (fields.contains ·)
    ((), if keep then [r] else [])
  finish := fun _ => []

end Verbs
end Miller
