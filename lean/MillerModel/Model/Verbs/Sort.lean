/-
Model of the collation of field values (pkg/mlrval/mlrval_sort.go, mlrval_cmp.go via the
REGENERATED `Gen.mlrval_cmp_dispositions`) and of the `sort` verb (pkg/transformers/sort.go):
grouping by the comma-joined key texts into an insertion-ordered map, key-less records spilled,
group heads compared key by key, groups concatenated.
Go's sort.Slice is unstable, so the verb's order among comparator-equal groups is unspecified:
the specification is the RELATION `sortRel` (a decidable checker); `sortCanonical` is one
deterministic instance (stable insertion sort).
-/
import MillerModel.Model.Verbs.Restructure
import MillerModel.Model.Infer
import MillerModel.Gen.Disp
namespace Miller
namespace Verbs

/-- three-way result -/
abbrev Ord3 := Int

def cmpBytes (a b : Bytes) : Ord3 := if bytesLt a b then -1 else if bytesLt b a then 1 else 0

/-- `LexicalAscendingComparator`: byte-wise comparison of the texts. -/
def cmpLexical (a b : Bytes) : Ord3 := cmpBytes a b

def lowerAscii (s : Bytes) : Bytes := s.map fun c => if 65 ≤ c ∧ c ≤ 90 then c + 32 else c

def isStringTyped (s : Bytes) : Bool := match Infer.infer .normal s with | .ok .string => true | _ => false

/-- `CaseFoldAscendingComparator` (ASCII folding; only values typed string are folded). -/
def cmpCaseFold (a b : Bytes) : Ord3 :=
  cmpBytes (if isStringTyped a then lowerAscii a else a) (if isStringTyped b then lowerAscii b else b)

def cmpInt (a b : Int) : Ord3 := if a < b then -1 else if a > b then 1 else 0
def cmpFloat (a b : Nat) : Ord3 := if F64.lt a b then -1 else if F64.lt b a then 1 else 0

/-- Kind index of a data value in the cmp table. -/
def kindOfInferred : Infer.Inferred → Nat
  | .int _ => 0 | .float _ => 1 | .boolean _ => 2 | .void => 3 | .string => 4

/-- `NumericAscendingComparator` = `Cmp` through the regenerated cmp_dispositions table. -/
def cmpNumeric (a b : Bytes) : Ord3 :=
  match Infer.infer .normal a, Infer.infer .normal b with
  | .ok ia, .ok ib =>
    match ((Gen.mlrval_cmp_dispositions[kindOfInferred ia]?).bind (·[kindOfInferred ib]?)) with
    | some .k_less => -1
    | some .k_more => 1
    | some .k_same => 0
    | some .kcmp_b_ii => (match ia, ib with | .int x, .int y => cmpInt x y | _, _ => 0)
    | some .kcmp_b_if => (match ia, ib with | .int x, .float y => cmpFloat (F64.ofInt x) y | _, _ => 0)
    | some .kcmp_b_fi => (match ia, ib with | .float x, .int y => cmpFloat x (F64.ofInt y) | _, _ => 0)
    | some .kcmp_b_ff => (match ia, ib with | .float x, .float y => cmpFloat x y | _, _ => 0)
    | some .kcmp_b_ss => cmpBytes a b
    | _ => 0
  | _, _ => 0

/-! ### natural order (github.com/facette/natsort `Compare`, as `NaturalAscendingComparator` uses it) -/

def isDigitB (c : Nat) : Bool := 48 ≤ c && c ≤ 57

/-- `chunkifyRegexp.FindAllString` for `(\d+|\D+)`: maximal runs of ASCII digits / of anything else. -/
def chunkify : Bytes → List Bytes
  | [] => []
  | c :: rest =>
    match chunkify rest with
    | (d :: ch) :: more => if isDigitB c == isDigitB d then (c :: d :: ch) :: more else [c] :: (d :: ch) :: more
    | more => [c] :: more

/-- `strconv.Atoi` on a chunk: a run of digits that fits in int64. -/
def atoiChunk (c : Bytes) : Option Nat :=
  if c.isEmpty || !c.all isDigitB then none
  else
    let n := c.foldl (fun acc d => acc * 10 + (d - 48)) 0
    if n ≤ 9223372036854775807 then some n else none

/-- `natsort.Compare` on the chunk lists. -/
def natLessChunks : List Bytes → List Bytes → Bool
  | [], _ => false
  | _ :: _, [] => false
  | a :: as, b :: bs =>
    match atoiChunk a, atoiChunk b with
    | some x, some y =>
      if x == y then (if as.isEmpty then true else if bs.isEmpty then false else natLessChunks as bs)
      else x < y
    | _, _ =>
      if a == b then (if as.isEmpty then true else if bs.isEmpty then false else natLessChunks as bs)
      else bytesLt a b

def natLess (a b : Bytes) : Bool := natLessChunks (chunkify a) (chunkify b)

/-- `NaturalAscendingComparator` exactly as written (equal texts tie; an empty text goes last;
otherwise +1 when `natsort.Compare a b`). -/
def cmpNaturalAsc (a b : Bytes) : Ord3 :=
  if a == b then 0 else if a.isEmpty then 1 else if b.isEmpty then -1 else if natLess a b then 1 else -1

inductive SortKind where | lexAsc | lexDesc | numAsc | numDesc | foldAsc | foldDesc | natAsc | natDesc
  deriving DecidableEq, Repr

def cmpOf : SortKind → Bytes → Bytes → Ord3
  | .lexAsc => cmpLexical
  | .lexDesc => fun a b => cmpLexical b a
  | .numAsc => cmpNumeric
  | .numDesc => fun a b => -(cmpNumeric a b)
  | .foldAsc => cmpCaseFold
  | .foldDesc => fun a b => cmpCaseFold b a
  | .natAsc => cmpNaturalAsc
  | .natDesc => fun a b => cmpNaturalAsc b a

/-- Multi-key comparison of two key-value lists, in precedence order. -/
def multiCmp : List SortKind → List Bytes → List Bytes → Ord3
  | k :: ks, a :: as, b :: bs => let c := cmpOf k a b; if c != 0 then c else multiCmp ks as bs
  | _, _, _ => 0

def keyVals (fields : List Bytes) (r : Rec) : Option (List Bytes) := fields.mapM (get r)

/-- Insert a group into a list of groups ordered by their heads (stable: after equals). -/
def insertGroup (kinds : List SortKind) (g : List Bytes × List Rec) : List (List Bytes × List Rec) → List (List Bytes × List Rec)
  | [] => [g]
  | h :: rest => if multiCmp kinds g.1 h.1 < 0 then g :: h :: rest else h :: insertGroup kinds g rest

/-- One deterministic output of `sort`. -/
def sortCanonical (fields : List Bytes) (kinds : List SortKind) (xs : List Rec) : List Rec :=
  let keyed := xs.filter (fun r => (keyVals fields r).isSome)
  let spill := xs.filter (fun r => (keyVals fields r).isNone)
  -- groups by exact key texts (comma-joined), first-appearance order
  let groups : OMap (List Bytes × List Rec) := keyed.foldl (fun m r =>
      let vs := (keyVals fields r).getD []
      let k := joinKey vs
      match m.get? k with
      | some g => m.put k (g.1, g.2 ++ [r])
      | none => m.put k (vs, [r])) []
  let sorted := (groups.map (·.2)).foldl (fun acc g => insertGroup kinds g acc) []
  (sorted.flatMap (·.2)) ++ spill

/-! ### the relational specification -/

def countIn (r : Rec) (xs : List Rec) : Nat := (xs.filter (· == r)).length
def isPermOf (xs ys : List Rec) : Bool := xs.length == ys.length && xs.all fun r => countIn r xs == countIn r ys

/-- Contiguous runs of equal key (comma-joined texts). -/
def runs (fields : List Bytes) : List Rec → List (Bytes × List Rec)
  | [] => []
  | r :: rest =>
    let k := joinKey ((keyVals fields r).getD [])
    match runs fields rest with
    | (k', g) :: more => if k == k' then (k, r :: g) :: more else (k, [r]) :: (k', g) :: more
    | [] => [(k, [r])]

/-- `out` is an acceptable output of `sort` on `input`:
* a permutation of the input, every record unchanged;
* the records lacking a sort key follow all others, in input order;
* records with identical key texts are contiguous and in input order;
* consecutive groups are in non-decreasing order of their heads under the keys in precedence. -/
def sortRel (fields : List Bytes) (kinds : List SortKind) (input out : List Rec) : Bool :=
  let keyedIn := input.filter (fun r => (keyVals fields r).isSome)
  let spillIn := input.filter (fun r => (keyVals fields r).isNone)
  let outKeyed := out.take keyedIn.length
  let outSpill := out.drop keyedIn.length
  let rs := runs fields outKeyed
  isPermOf out input &&
  outSpill == spillIn &&
  outKeyed.all (fun r => (keyVals fields r).isSome) &&
  -- each key text occurs in exactly one run, whose records are the input's with that key, in input order
  rs.all (fun run => run.2 == keyedIn.filter (fun r => joinKey ((keyVals fields r).getD []) == run.1)) &&
  ((rs.map (·.1)).eraseDups.length == rs.length) &&
  -- heads non-decreasing
  (rs.zip (rs.drop 1)).all (fun p =>
    match p.1.2.head?, p.2.2.head? with
    | some a, some b => multiCmp kinds ((keyVals fields a).getD []) ((keyVals fields b).getD []) ≤ 0
    | _, _ => true)


/-- Is the multi-key comparator a total preorder on these key-value lists (sign-antisymmetric,
reflexive, transitive)?  natsort's `Compare` is not one on every set of strings (`1` vs `01`);
sortedness is only a consequence of "the verb sorts" when it is. -/
def consistentOn (kinds : List SortKind) (vals : List (List Bytes)) : Bool :=
  vals.all (fun a => multiCmp kinds a a == 0) &&
  vals.all (fun a => vals.all fun b => multiCmp kinds a b == -(multiCmp kinds b a)) &&
  vals.all (fun a => vals.all fun b => vals.all fun c =>
    !(multiCmp kinds a b ≤ 0 && multiCmp kinds b c ≤ 0) || multiCmp kinds a c ≤ 0)

end Verbs
end Miller
