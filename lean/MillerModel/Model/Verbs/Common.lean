/-
Shared vocabulary of the verb models: field lookup, grouping key (pkg/mlrval/mlrmap_accessors.go
GetSelectedValuesJoined: the comma-join of the selected values' texts with commas and backslashes
inside a text escaped; a record lacking one of the fields has no key), insertion-ordered association maps (pkg/lib/ordered_map.go).
A verb is modelled as the fold of its per-record `Transform` followed by its end-of-stream
action, exactly as `runSingleTransformerBatch` drives it.
-/
import MillerModel.Model.Formats.Rec
namespace Miller
namespace Verbs

def get (r : Rec) (k : Bytes) : Option Bytes := (r.find? (·.1 == k)).map (·.2)
def has (r : Rec) (k : Bytes) : Bool := r.any (·.1 == k)

/-- One component of a grouping key (`writeJoinComponent`): commas and backslashes inside the
text are backslash-escaped. -/
def escComp : Bytes → Bytes
  | [] => []
  | c :: rest => if c = 44 ∨ c = 92 then 92 :: c :: escComp rest else c :: escComp rest

/-- The grouping key of a list of texts (`GetSelectedValuesJoined`, `GetKeysJoined`, …): the
escaped components joined with commas.  Injective on lists of equal length (`Props/C11`). -/
def joinKey : List Bytes → Bytes
  | [] => []
  | [v] => escComp v
  | v :: w :: rest => escComp v ++ 44 :: joinKey (w :: rest)

/-- `GetSelectedValuesJoined`. -/
def groupKey (fields : List Bytes) (r : Rec) : Option Bytes :=
  if fields.isEmpty then some [] else (fields.mapM (get r)).map joinKey

/-- Insertion-ordered map (first-appearance order). -/
abbrev OMap (α : Type) := List (Bytes × α)

namespace OMap
def get? {α} (m : OMap α) (k : Bytes) : Option α := (m.find? (·.1 == k)).map (·.2)
def put {α} (m : OMap α) (k : Bytes) (v : α) : OMap α :=
  if m.any (·.1 == k) then m.map (fun p => if p.1 == k then (k, v) else p) else m ++ [(k, v)]
def update {α} (m : OMap α) (k : Bytes) (dflt : α) (f : α → α) : OMap α :=
  match get? m k with
  | some v => put m k (f v)
  | none => put m k (f dflt)
end OMap

/-- A streaming verb: state, per-record step (new state, records emitted now), end-of-stream. -/
structure Machine (σ : Type) where
  init : σ
  step : σ → Rec → σ × List Rec
  finish : σ → List Rec

def Machine.runFrom {σ} (m : Machine σ) : σ → List Rec → List Rec
  | s, [] => m.finish s
  | s, r :: rs => let (s', out) := m.step s r; out ++ m.runFrom s' rs

def Machine.run {σ} (m : Machine σ) (xs : List Rec) : List Rec := m.runFrom m.init xs

/-- `Mlrmap.PrependCopy`: update in place if the key exists, else put at the head. -/
def prepend (r : Rec) (k v : Bytes) : Rec :=
  if has r k then r.map (fun p => if p.1 == k then (k, v) else p) else (k, v) :: r

end Verbs
end Miller
