/-
Models of the field-restructuring verbs (pkg/transformers/cut.go, reorder.go, rename.go, label.go,
regularize.go, sort_within_records.go, unsparsify.go, sparsify.go, fill_empty.go, template.go,
altkv.go) and of the Mlrmap list surgery they rely on (pkg/mlrval/mlrmap_accessors.go:
PutReference, Remove, MoveToHead/Tail, Rename, Label), on the abstract record
(insertion-ordered association list with unique keys).  String-list modes only (no regexes).
-/
import MillerModel.Model.Verbs.Common
import MillerModel.Model.Regex
namespace Miller
namespace Verbs

/-! ### Mlrmap operations -/

def remove (r : Rec) (k : Bytes) : Rec := r.filter (fun p => p.1 != k)

/-- `MoveToHead`: unlink and relink at the head (no-op if absent). -/
def moveToHead (r : Rec) (k : Bytes) : Rec :=
  match r.find? (·.1 == k) with
  | some p => p :: remove r k
  | none => r

def moveToTail (r : Rec) (k : Bytes) : Rec :=
  match r.find? (·.1 == k) with
  | some p => remove r k ++ [p]
  | none => r

/-- `Mlrmap.Rename(old, new)` (after the `fix:` commit for `old == new`): absent → no-op; `new`
absent → rename in place; both present → the value of `old` goes into the slot of `new` and the
entry of `old` is removed. -/
def rename (r : Rec) (old new : Bytes) : Rec :=
  match get r old with
  | none => r
  | some v =>
    if old == new then r
    else if has r new then remove (r.map fun p => if p.1 == new then (new, v) else p) old
    else r.map fun p => if p.1 == old then (new, p.2) else p

/-- `Mlrmap.Label(newNames)`: the first `n` fields get the new names (a later new name that
equals an earlier one overwrites it in place: `PutReference`), remaining fields are carried
through unless their name is already taken. -/
def label (r : Rec) (newNames : List Bytes) : Rec :=
  let n := min newNames.length r.length
  let renamed := ((newNames.take n).zip ((r.take n).map (·.2))).foldl (fun acc p => Rec.put acc p.1 p.2) ([] : Rec)
  (r.drop n).foldl (fun acc p => if has acc p.1 then acc else acc ++ [p]) renamed

/-! ### per-record verbs -/

/-- cut -f: keep the listed fields, in record order. -/
def cutInclude (fields : List Bytes) (r : Rec) : Rec := r.filter (fun p => fields.contains p.1)
/-- cut -o -f: keep the listed fields, in argument order. -/
def cutIncludeArgOrder (fields : List Bytes) (r : Rec) : Rec :=
  fields.foldl (fun acc f => match get r f with | some v => Rec.put acc f v | none => acc) []
/-- cut -x -f: remove the listed fields. -/
def cutExclude (fields : List Bytes) (r : Rec) : Rec := fields.foldl remove r

/-- Stable insertion by group index (`slices.SortStableFunc` on the regex index). -/
def insertByIndex (e : Nat × (Bytes × Bytes)) : List (Nat × (Bytes × Bytes)) → List (Nat × (Bytes × Bytes))
  | [] => [e]
  | h :: rest => if e.1 < h.1 then e :: h :: rest else h :: insertByIndex e rest

/-- cut -r [-o] [-x] -f regexes (`processWithRegexes`): a field is selected by the FIRST regex that
matches its name; with -o the selected fields are grouped by regex in argument order, keeping
record order within each group (stable). -/
def cutRegex (regexes : List (Regex.Re × Nat × Bytes)) (argOrder complement : Bool) (r : Rec) : Rec :=
  let firstMatch (k : Bytes) : Option Nat := (regexes.zipIdx.find? fun (c, _) => Regex.matchCompiled c k).map (·.2)
  let selected := r.filterMap fun p =>
    match firstMatch p.1 with
    | some i => if !complement then some (i, p) else none
    | none => if complement then some (0, p) else none
  let ordered := if argOrder then selected.foldl (fun acc e => insertByIndex e acc) [] else selected
  (ordered.map (·.2)).foldl (fun acc p => Rec.put acc p.1 p.2) []

/-- reorder -f: the (reversed) list, each moved to the head. -/
def reorderToStart (fields : List Bytes) (r : Rec) : Rec := fields.reverse.foldl moveToHead r
/-- reorder -e -f: each moved to the tail. -/
def reorderToEnd (fields : List Bytes) (r : Rec) : Rec := fields.foldl moveToTail r

/-- The old→new map of `rename` built by OrderedMap.Put: a repeated old name keeps its first
position with the last new name. -/
def renameMap (names : List Bytes) : List (Bytes × Bytes) :=
  let rec pairs : List Bytes → List (Bytes × Bytes)
    | a :: b :: rest => (a, b) :: pairs rest
    | _ => []
  (pairs names).foldl (fun m p => OMap.put m p.1 p.2) []

/-- `transformWithoutRegexes`: walk the LIVE linked list from the head; an entry whose current
key is in the map is renamed (which may remove it and overwrite another entry's value); the walk
continues with the entry that followed it.  `i` = position of the current entry. -/
def renameWalk (m : List (Bytes × Bytes)) : Nat → Nat → Rec → Rec
  | 0, _, r => r
  | fuel + 1, i, r =>
    match r[i]? with
    | none => r
    | some p =>
      match OMap.get? m p.1 with
      | none => renameWalk m fuel (i + 1) r
      | some new =>
        let r' := rename r p.1 new
        -- if the entry was removed (collision), the successor now sits at index i … unless the
        -- overwritten slot was before i, which does not shift i's successor differently
        if r'.length < r.length then renameWalk m fuel i r' else renameWalk m fuel (i + 1) r'

def renameVerb (names : List Bytes) (r : Rec) : Rec := renameWalk (renameMap names) (r.length + 1) 0 r

def insertSorted (le : Bytes → Bytes → Bool) (p : Bytes × Bytes) : Rec → Rec
  | [] => [p]
  | q :: rest => if le p.1 q.1 then p :: q :: rest else q :: insertSorted le p rest

/-- sort-within-records [-r]: fields sorted by name (keys are unique, so stability is moot). -/
def sortWithinRecords (reverse : Bool) (r : Rec) : Rec :=
  let le : Bytes → Bytes → Bool := if reverse then (fun a b => !bytesLt a b) else (fun a b => !bytesLt b a)
  r.foldl (fun acc p => insertSorted le p acc) []

/-- sparsify [-s filler] [-f fields]: drop fields whose value equals the filler. -/
def sparsify (filler : Bytes) (only : Option (List Bytes)) (r : Rec) : Rec :=
  r.filter fun p => match only with
    | none => p.2 != filler
    | some fs => !(fs.contains p.1) || p.2 != filler

/-- fill-empty [-v X]: empty values replaced. -/
def fillEmpty (fill : Bytes) (r : Rec) : Rec := r.map fun p => if p.2.isEmpty then (p.1, fill) else p

/-- template -f fields [--fill-with X]: exactly the template's fields, in template order. -/
def template (fields : List Bytes) (fill : Bytes) (r : Rec) : Rec :=
  fields.foldl (fun acc f => Rec.put acc f ((get r f).getD fill)) []

/-- altkv: values pairwise become key/value; an odd last value gets its 1-up pair number as key. -/
def altkvAux : Nat → List Bytes → Rec → Rec
  | _, [], acc => acc
  | n, [v], acc => Rec.put acc (Split.itoa n) v
  | n, k :: v :: rest, acc => altkvAux (n + 1) rest (Rec.put acc k v)
def altkv (r : Rec) : Rec := altkvAux 1 r.vals []

def addNew (seen : List Bytes) (k : Bytes) : List Bytes := if seen.contains k then seen else seen ++ [k]

/-- unsparsify -f fields (streaming): listed fields missing from a record are appended. -/
def unsparsifyStreaming (fields : List Bytes) (fill : Bytes) (r : Rec) : Rec :=
  (fields.foldl addNew []).foldl
    (fun acc f => if has acc f then acc else acc ++ [(f, fill)]) r

/-! ### stateful verbs -/

/-- unsparsify (non-streaming): union of all field names in first-seen order; every record is
rebuilt over that list, missing fields filled. -/
def unsparsify (fill : Bytes) : Machine (List Bytes × List Rec) where
  init := ([], [])
  step := fun s r => ((r.keys.foldl addNew s.1, s.2 ++ [r]), [])
  finish := fun s => s.2.map fun r => s.1.map fun k => (k, (get r k).getD fill)

def insertBytes (x : Bytes) : List Bytes → List Bytes
  | [] => [x]
  | y :: rest => if bytesLt y x then y :: insertBytes x rest else x :: y :: rest
def sortBytes (l : List Bytes) : List Bytes := l.foldl (fun acc x => insertBytes x acc) []

/-- regularize: the first record seen with a given SET of field names fixes their order. The set
is identified by the comma-join of the sorted names. -/
def regularize : Machine (OMap (List Bytes)) where
  init := []
  step := fun m r =>
    let key := joinKey (sortBytes r.keys)   -- any injective encoding of the sorted name list
    match m.get? key with
    | none => (m.put key r.keys, [r])
    | some order => (m, [order.map fun k => (k, (get r k).getD [])])
  finish := fun _ => []

end Verbs
end Miller
