/-
Model of the `join` verb in its default (unsorted, half-streaming) mode: pkg/transformers/join.go
`ingestLeftFile` (buckets of left records by join key, in an insertion-ordered map; key-less left
records set aside), `transformHalfStreaming` (per right record: look up the bucket; pair with every
left record of the bucket or pass through as unpaired), `formAndEmitPairs` (record composition),
`transformUnpairedRecord` (renaming of unpaired records), end of stream (unpaired left buckets in
bucket order, then the key-less left records).
-/
import MillerModel.Model.Verbs.Common
namespace Miller
namespace Verbs

structure JoinOpts where
  lf : List Bytes                 -- left join field names (-l, default -j)
  rf : List Bytes                 -- right join field names (-r, default -j)
  oj : List Bytes                 -- output join field names (-j)
  lp : Bytes := []
  rp : Bytes := []
  lk : Option (List Bytes) := none
  emitPaired : Bool := true       -- false under --np
  ul : Bool := false
  ur : Bool := false
  ignoreEmpty : Bool := false
  deriving Repr

/-- Join key of a record on one side: none if a join field is missing, or (under
--ignore-empty) empty. -/
def jkey (fields : List Bytes) (ignoreEmpty : Bool) (r : Rec) : Option Bytes :=
  match fields.mapM (get r) with
  | none => none
  | some vs => if ignoreEmpty && vs.any (·.isEmpty) then none else some (joinKey vs)

/-- `KeepLeftFieldNames`: with --lk only the listed fields and the left join fields survive. -/
def keepLeft (o : JoinOpts) (r : Rec) : Rec :=
  match o.lk with
  | none => r
  | some ks => r.filter fun p => ks.contains p.1 || o.lf.contains p.1

/-- `formAndEmitPairs` for one (left, right) pair. -/
def pairRec (o : JoinOpts) (l r : Rec) : Rec :=
  let j := (o.lf.zip o.oj).foldl (fun out p =>
    match get l p.1 with
    | some v => Rec.put out p.2 v
    | none => out) ([] : Rec)
  let jl := l.foldl (fun out p => if o.lf.contains p.1 then out else Rec.put out (o.lp ++ p.1) p.2) j
  r.foldl (fun out p => if o.rf.contains p.1 then out else Rec.put out (o.rp ++ p.1) p.2) jl

/-- `transformUnpairedRecord`. The Go rename map is a hash map built in list order: for a join
field name listed twice the LAST output name wins. -/
def unpairedRec (o : JoinOpts) (names : List Bytes) (prefix_ : Bytes) (r : Rec) : Rec :=
  let pairs := names.zip o.oj
  let needsRename := pairs.any fun p => p.1 != p.2
  if !needsRename && prefix_.isEmpty then r
  else r.foldl (fun out p =>
    match (pairs.reverse.find? fun q => q.1 == p.1) with
    | some q => Rec.put out q.2 p.2
    | none => Rec.put out (prefix_ ++ p.1) p.2) []

def unpairedLeft (o : JoinOpts) (r : Rec) : Rec := unpairedRec o o.lf o.lp r
def unpairedRight (o : JoinOpts) (r : Rec) : Rec := unpairedRec o o.rf o.rp r

/-- `ingestLeftFile`: buckets by key in first-appearance order, file order inside a bucket. -/
def bucketStep (keyOf : Rec → Option Bytes) (m : OMap (List Rec)) (r : Rec) : OMap (List Rec) :=
  match keyOf r with
  | none => m
  | some k => m.put k ((m.get? k).getD [] ++ [r])

def bucketsOf (keyOf : Rec → Option Bytes) (ls : List Rec) : OMap (List Rec) := ls.foldl (bucketStep keyOf) []

/-- What one right record makes the verb emit, given the buckets (independent of earlier rights). -/
def emitForRight (o : JoinOpts) (buckets : OMap (List Rec)) (r : Rec) : List Rec :=
  match jkey o.rf o.ignoreEmpty r with
  | none => if o.ur then [unpairedRight o r] else []
  | some k =>
    match buckets.get? k with
    | none => if o.ur then [unpairedRight o r] else []
    | some ls => if o.emitPaired then ls.map (fun l => pairRec o l r) else []

/-- Key of the bucket a right record marks as paired. -/
def pairedKeyOf (o : JoinOpts) (buckets : OMap (List Rec)) (r : Rec) : Option Bytes :=
  match jkey o.rf o.ignoreEmpty r with
  | none => none
  | some k => if (buckets.get? k).isSome then some k else none

/-- The half-streaming join as a machine over the right stream; state = keys of the buckets
marked `WasPaired`. -/
def joinMachine (o : JoinOpts) (lefts : List Rec) : Machine (List Bytes) :=
  let ls := lefts.map (keepLeft o)
  let buckets := bucketsOf (jkey o.lf o.ignoreEmpty) ls
  { init := []
    step := fun paired r =>
      ((match pairedKeyOf o buckets r with | some k => k :: paired | none => paired), emitForRight o buckets r)
    finish := fun paired =>
      if o.ul then
        ((buckets.filter fun b => !paired.contains b.1).flatMap fun b => b.2.map (unpairedLeft o))
          ++ ((ls.filter fun l => (jkey o.lf o.ignoreEmpty l).isNone).map (unpairedLeft o))
      else [] }

def join (o : JoinOpts) (lefts rights : List Rec) : List Rec := (joinMachine o lefts).run rights

end Verbs
end Miller
