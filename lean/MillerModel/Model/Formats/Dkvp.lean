/-
Model of pkg/output/record_writer_dkvp.go / record_writer_nidx.go and the DKVP / NIDX line
splitters of pkg/input/record_reader_dkvp_nidx.go (string IFS/IPS, no regex, no repifs).
-/
import MillerModel.Model.Formats.Rec
import MillerModel.Model.Formats.LineReader
namespace Miller
namespace Dkvp

structure Opts where
  ifs : Bytes := [44]
  ips : Bytes := [61]
  dedupe : Bool := true
  deriving Repr

def writeRec (o : Opts) (r : Rec) : Bytes :=
  Split.join o.ifs (r.map fun p => p.1 ++ o.ips ++ p.2) ++ [10]

def write (o : Opts) (rs : List Rec) : Bytes := (rs.map (writeRec o)).flatten

/-- `recordFromDKVPLine`: a pair without IPS gets its 1-up position as key; empty pairs are skipped. -/
def recordFromLine (o : Opts) (line : Bytes) : Rec :=
  let pairs := Split.splitString o.ifs line
  (pairs.zipIdx.foldl (fun (r : Rec) (pi : Bytes × Nat) =>
    match Split.splitN2 o.ips pi.1 with
    | [k, v] => Rec.putDedupe o.dedupe r k v
    | [x] => if x.isEmpty then r else Rec.putDedupe o.dedupe r (Split.itoa (pi.2 + 1)) x
    | _ => r) [])

def read (o : Opts) (s : Bytes) : List Rec := (LineReader.lines s).map (recordFromLine o)

end Dkvp
end Miller
