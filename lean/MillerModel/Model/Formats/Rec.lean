import MillerModel.Base.Split
namespace Miller

/-- A record: insertion-ordered fields (name, value text). -/
abbrev Rec := List (Bytes × Bytes)

namespace Rec

def keys (r : Rec) : List Bytes := r.map (·.1)
def vals (r : Rec) : List Bytes := r.map (·.2)

/-- `Mlrmap.PutReference`: overwrite in place if the key exists, else append. -/
def put (r : Rec) (k v : Bytes) : Rec :=
  if r.any (·.1 == k) then r.map (fun p => if p.1 == k then (k, v) else p) else r ++ [(k, v)]

/-- First unused `key_2`, `key_3`, … (`fuel` bounds the search; it is never exhausted for
`fuel > r.length`). -/
def dedupeName (r : Rec) (k : Bytes) : Nat → Nat → Bytes
  | 0, i => k ++ [95] ++ Split.itoa i
  | fuel + 1, i =>
    let cand := k ++ [95] ++ Split.itoa i
    if r.any (·.1 == cand) then dedupeName r k fuel (i + 1) else cand

/-- `PutReferenceMaybeDedupe` / `RecordArena.PutDeferred` with dedupe on: a repeated key `a`
becomes `a_2`, `a_3`, … -/
def putDedupe (dedupe : Bool) (r : Rec) (k v : Bytes) : Rec :=
  if !dedupe then put r k v
  else if r.any (·.1 == k) then r ++ [(dedupeName r k (r.length + 1) 2, v)]
  else r ++ [(k, v)]

def ofPairs (dedupe : Bool) (ps : List (Bytes × Bytes)) : Rec :=
  ps.foldl (fun r p => putDedupe dedupe r p.1 p.2) []

/-- Line-protocol rendering: `n=<k>|rec|rec…`, rec = `hexkey:hexval,…`. -/
def showRec (r : Rec) : String := String.intercalate "," (r.map fun p => Bytes.toHex p.1 ++ ":" ++ Bytes.toHex p.2)
def showList (rs : List Rec) : String := s!"n={rs.length}" ++ String.join (rs.map fun r => "|" ++ showRec r)

def parseRec (s : String) : Option Rec :=
  if s.isEmpty then some []
  else (s.splitOn ",").mapM fun kv =>
    match kv.splitOn ":" with
    | [k, v] => some (Bytes.ofHex k, Bytes.ofHex v)
    | _ => none

def parseList (s : String) : Option (List Rec) :=
  match s.splitOn "|" with
  | _ :: rest => rest.mapM parseRec
  | [] => none

end Rec
end Miller
