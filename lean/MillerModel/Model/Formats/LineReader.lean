/-
Model of pkg/input/line_reader.go `DefaultLineReader` (IRS "\n" / "\r\n": LF-terminated lines,
one trailing CR stripped together with the LF; a final unterminated non-empty line is a line).
-/
import MillerModel.Base.Split
namespace Miller
namespace LineReader

/-- Strip the `"\r"` that precedes the line's LF (the LF itself is already removed by `splitByte`). -/
def stripCR (terminated : Bool) (l : Bytes) : Bytes :=
  if terminated && l.getLast? == some 13 then l.dropLast else l

/-- All lines of a byte stream. -/
def lines (s : Bytes) : List Bytes :=
  let pieces := Split.splitByte 10 s []
  -- all pieces but the last were LF-terminated; the last one is a line only if non-empty
  let n := pieces.length
  (pieces.zipIdx.filterMap fun (p, i) =>
    if i + 1 < n then some (stripCR true p)
    else if p.isEmpty then none else some p)

end LineReader
end Miller
