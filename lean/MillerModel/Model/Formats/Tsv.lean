/-
Model of pkg/lib/tsv_codec.go, pkg/output/record_writer_tsv.go and pkg/input/record_reader_tsv.go
(default options, and --headerless-tsv-output / --implicit-tsv-header).
The Go encoder ranges over runes; on valid UTF-8 that is byte-wise because only ASCII runes are
rewritten.  The model is claimed on valid UTF-8 only.
-/
import MillerModel.Model.Formats.Rec
import MillerModel.Model.Formats.LineReader
namespace Miller
namespace Tsv

/-- `lib.TSVEncodeField`. -/
def encode : Bytes → Bytes
  | [] => []
  | c :: rest =>
    if c = 92 then 92 :: 92 :: encode rest
    else if c = 10 then 92 :: 110 :: encode rest
    else if c = 13 then 92 :: 114 :: encode rest
    else if c = 9 then 92 :: 116 :: encode rest
    else c :: encode rest

/-- `lib.TSVDecodeField`. -/
def decode : Bytes → Bytes
  | [] => []
  | [c] => [c]
  | c :: d :: rest =>
    if c = 92 then
      if d = 92 then 92 :: decode rest
      else if d = 110 then 10 :: decode rest
      else if d = 114 then 13 :: decode rest
      else if d = 116 then 9 :: decode rest
      else c :: decode (d :: rest)
    else c :: decode (d :: rest)

structure WOpts where
  headerless : Bool := false
  crlf : Bool := false
  deriving Repr

def ors (o : WOpts) : Bytes := if o.crlf then [13, 10] else [10]

inductive WErr where | schemaChange
  deriving DecidableEq, Repr

/-- One data line: values of `r` checked against the first record's keys, padded with empties. -/
def dataLine (firstKeys : List Bytes) (r : Rec) : Except WErr Bytes :=
  let mismatch := (r.keys.zip firstKeys).any fun (k, fk) => k != fk
  if mismatch then .error .schemaChange
  else
    let vals := r.vals.map encode
    let padded := vals ++ List.replicate (firstKeys.length - vals.length) []
    .ok (Split.join [9] padded)

def write (o : WOpts) (rs : List Rec) : Except WErr Bytes :=
  match rs with
  | [] => .ok []
  | first :: _ =>
    let fk := first.keys
    let header := if o.headerless then [] else Split.join [9] (fk.map encode) ++ ors o
    rs.foldlM (fun acc r => do let l ← dataLine fk r; pure (acc ++ l ++ ors o)) header

structure ROpts where
  implicitHeader : Bool := false
  allowRagged : Bool := false
  dedupe : Bool := true
  deriving Repr

inductive RErr where | lengthMismatch
  deriving DecidableEq, Repr

def fieldsOf (line : Bytes) : List Bytes := Split.splitString [9] line

/-- Explicit-header reader (`getRecordBatchExplicitTSVHeader`), non-ragged. -/
def readExplicit (o : ROpts) : Option (List Bytes) → List Bytes → List Rec → Except RErr (List Rec)
  | _, [], acc => .ok acc
  | none, l :: ls, acc => readExplicit o (some ((fieldsOf l).map decode)) ls acc
  | some h, l :: ls, acc =>
    let fs := fieldsOf l
    if h.length != fs.length then .error .lengthMismatch
    else readExplicit o (some h) ls (acc ++ [Rec.ofPairs o.dedupe (h.zip (fs.map decode))])

/-- Implicit-header reader: keys 1..n; an empty line resets the header. -/
def readImplicit (o : ROpts) : Option Nat → List Bytes → List Rec → Except RErr (List Rec)
  | _, [], acc => .ok acc
  | hn, l :: ls, acc =>
    if l.isEmpty then readImplicit o none ls acc
    else
      let fs := fieldsOf l
      match hn with
      | some n => if n != fs.length then .error .lengthMismatch
                  else readImplicit o hn ls (acc ++ [Rec.ofPairs o.dedupe ((List.range fs.length).map (fun i => Split.itoa (i + 1)) |>.zip (fs.map decode))])
      | none => readImplicit o (some fs.length) ls (acc ++ [Rec.ofPairs o.dedupe ((List.range fs.length).map (fun i => Split.itoa (i + 1)) |>.zip (fs.map decode))])

def read (o : ROpts) (s : Bytes) : Except RErr (List Rec) :=
  let ls := LineReader.lines s
  if o.implicitHeader then readImplicit o none ls [] else readExplicit o none ls []

end Tsv
end Miller
