/-
Model of the CSV writer (pkg/output/record_writer_csv.go + record_writer_csv_colorizer.go, the
forked encoding/csv writer) and of the CSV reader (pkg/go-csv/csv_reader.go readLine/readRecord +
pkg/input/record_reader_csv.go getRecordBatch), for a single-byte ASCII separator, LazyQuotes off,
TrimLeadingSpace off, comments-are-data.

Reader formulation (DESIGN A.3): `readLine` turns EVERY "\r\n" of the stream into "\n" and drops
one trailing "\r" at EOF, so the model normalises the stream once and then runs a byte-level
parser whose quoted-field scanner crosses line ends.  Equality with the real line-based loop is
part of the correspondence.
-/
import MillerModel.Model.Formats.Rec
namespace Miller
namespace Csv

/-- `fieldNeedsQuotes` for an ASCII separator. -/
def needsQuotes (comma : Nat) (f : Bytes) : Bool :=
  if f.isEmpty then false
  else if f == [92, 46] then true      -- `\.`
  else f.any fun c => c == 10 || c == 13 || c == 34 || c == comma

/-- Body of a quoted field: `"` doubled; in CRLF mode CR is dropped and LF becomes CR LF. -/
def quoteBody (crlf : Bool) : Bytes → Bytes
  | [] => []
  | c :: r =>
    if c == 34 then 34 :: 34 :: quoteBody crlf r
    else if c == 13 then (if crlf then quoteBody crlf r else 13 :: quoteBody crlf r)
    else if c == 10 then (if crlf then 13 :: 10 :: quoteBody crlf r else 10 :: quoteBody crlf r)
    else c :: quoteBody crlf r

def writeField (comma : Nat) (quoteAll crlf : Bool) (f : Bytes) : Bytes :=
  if quoteAll || needsQuotes comma f then [34] ++ quoteBody crlf f ++ [34] else f

structure WOpts where
  comma : Nat := 44
  quoteAll : Bool := false
  crlf : Bool := false
  headerless : Bool := false
  deriving Repr

def eol (o : WOpts) : Bytes := if o.crlf then [13, 10] else [10]

/-- `WriteCSVRecordMaybeColorized` (no colour). -/
def writeLine (o : WOpts) (fields : List Bytes) : Bytes :=
  Split.join [o.comma] (fields.map (writeField o.comma o.quoteAll o.crlf)) ++ eol o

inductive WErr where | schemaChange
  deriving DecidableEq, Repr

def dataFields (firstKeys : List Bytes) (r : Rec) : Except WErr (List Bytes) :=
  let mismatch := (r.keys.zip firstKeys).any fun (k, fk) => k != fk
  if mismatch then .error .schemaChange
  else .ok (r.vals ++ List.replicate (firstKeys.length - r.vals.length) [])

def write (o : WOpts) (rs : List Rec) : Except WErr Bytes :=
  match rs with
  | [] => .ok []
  | first :: _ =>
    let fk := first.keys
    let header := if o.headerless then [] else writeLine o fk
    rs.foldlM (fun acc r => do let fs ← dataFields fk r; pure (acc ++ writeLine o fs)) header

/-! ### reader -/

/-- What `readLine` does to the byte stream as a whole: every CR LF becomes LF; one trailing CR at
EOF is dropped — and if that CR was the whole last line, the line is still a (now empty) line,
which parses like an empty LF-terminated line.  `bol` = at the beginning of a line. -/
def normaliseAux : Bool → Bytes → Bytes
  | _, [] => []
  | bol, [13] => if bol then [10] else []
  | _, 13 :: 10 :: r => 10 :: normaliseAux true r
  | _, c :: r => c :: normaliseAux (c == 10) r

def normalise (s : Bytes) : Bytes := normaliseAux true s

inductive RErr where | bareQuote | quote | lengthMismatch
  deriving DecidableEq, Repr

/-- Result of scanning one field: the field, whether the record ended, and the rest. -/
structure FieldRes where
  field : Bytes
  endRec : Bool
  rest : Bytes

/-- Unquoted field: up to the separator or the line end; a `"` inside is an error. -/
def scanUnquoted (comma : Nat) : Bytes → Bytes → Except RErr FieldRes
  | [], acc => .ok ⟨acc, true, []⟩
  | c :: r, acc =>
    if c == comma then .ok ⟨acc, false, r⟩
    else if c == 10 then .ok ⟨acc, true, r⟩
    else if c == 34 then .error .bareQuote
    else scanUnquoted comma r (acc ++ [c])

/-- Quoted field (after the opening quote). -/
def scanQuoted (comma : Nat) : Bytes → Bytes → Except RErr FieldRes
  | [], _ => .error .quote                       -- unterminated at EOF
  | [34], acc => .ok ⟨acc, true, []⟩
  | 34 :: d :: r, acc =>
    if d == 34 then scanQuoted comma r (acc ++ [34])
    else if d == comma then .ok ⟨acc, false, r⟩
    else if d == 10 then .ok ⟨acc, true, r⟩
    else .error .quote
  | c :: r, acc => scanQuoted comma r (acc ++ [c])

def scanField (comma : Nat) (s : Bytes) : Except RErr FieldRes :=
  match s with
  | 34 :: r => scanQuoted comma r []
  | _ => scanUnquoted comma s []

/-- One record (= one logical line); `fuel` bounds the number of fields by the input length. -/
def scanRecord (comma : Nat) : Nat → Bytes → List Bytes → Except RErr (List Bytes × Bytes)
  | 0, s, acc => .ok (acc, s)
  | fuel + 1, s, acc =>
    match scanField comma s with
    | .error e => .error e
    | .ok fr =>
      if fr.endRec then .ok (acc ++ [fr.field], fr.rest)
      else scanRecord comma fuel fr.rest (acc ++ [fr.field])

/-- All records of a (normalised) stream. -/
def scanAll (comma : Nat) : Nat → Bytes → List (List Bytes) → Except RErr (List (List Bytes))
  | 0, _, acc => .ok acc
  | fuel + 1, s, acc =>
    if s.isEmpty then .ok acc
    else match scanRecord comma (s.length + 1) s [] with
      | .error e => .error e
      | .ok (fields, rest) => scanAll comma fuel rest (acc ++ [fields])

/-- UTF-8 byte-order mark stripping (`BOMStrippingReader`). -/
def stripBOM : Bytes → Bytes
  | 0xEF :: 0xBB :: 0xBF :: r => r
  | s => s

structure ROpts where
  comma : Nat := 44
  implicitHeader : Bool := false
  allowRagged : Bool := false
  dedupe : Bool := true
  deriving Repr

def implicitKeys (n : Nat) : List Bytes := (List.range n).map fun i => Split.itoa (i + 1)

/-- `getRecordBatch`: header handling, length check, ragged fill. -/
def toRecords (o : ROpts) : Option (List Bytes) → List (List Bytes) → List Rec → Except RErr (List Rec)
  | _, [], acc => .ok acc
  | none, row :: rows, acc =>
    if o.implicitHeader then
      let h := implicitKeys row.length
      toRecords o (some h) rows (acc ++ [Rec.ofPairs o.dedupe (h.zip row)])
    else toRecords o (some row) rows acc
  | some h, row :: rows, acc =>
    if h.length == row.length then toRecords o (some h) rows (acc ++ [Rec.ofPairs o.dedupe (h.zip row)])
    else if !o.allowRagged then .error .lengthMismatch
    else
      let n := min h.length row.length
      let base := (h.take n).zip (row.take n)
      let extra := if h.length < row.length then
          ((List.range (row.length - h.length)).map fun i => (Split.itoa (h.length + i + 1), row.getD (h.length + i) []))
        else []
      toRecords o (some h) rows (acc ++ [Rec.ofPairs o.dedupe (base ++ extra)])

def read (o : ROpts) (s : Bytes) : Except RErr (List Rec) :=
  let n := normalise (stripBOM s)
  match scanAll o.comma (n.length + 1) n [] with
  | .error e => .error e
  | .ok rows => toRecords o none rows []

end Csv
end Miller
