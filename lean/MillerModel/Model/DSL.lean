/-
A reference interpreter for the Miller DSL (put / filter), written from the language reference
(docs/src/reference-dsl-*.md, reference-main-maps/arrays/null-data.md): values, the frame stack
with typed bindings, expressions, statements, user functions and subroutines, function literals
with the higher-order functions, and the output statements.

It is a TOTAL function: every recursive call spends one unit of `fuel`; running out of fuel is the
outcome `Err.fuel`, reported as "outside the model", never as agreement.  Constructs whose meaning
is outside this model (floating-point text, arithmetic on collections, …) yield `Err.unmodelled`.
A fatal run-time error of the language (type-declaration violated, redeclaration in one scope,
`0` index, …) is `Err.fatal`: the real program must then exit non-zero.

Arithmetic goes through the REGENERATED disposition tables (`Gen/Disp.lean`) and the kernels of
`Model/Arith` that the C07/C08 correspondences tie to pkg/bifs.
-/
import MillerModel.Model.Disp
import MillerModel.Base.Split
namespace Miller
namespace DSL

/-! ### values -/

inductive DV where
  | s (v : Val)                         -- int, float, boolean, void, string, error, absent
  | map (kvs : List (Bytes × DV))       -- insertion-ordered, keys are strings
  | arr (xs : List DV)
  | fn (name : String)                  -- a named user function, or a literal "#<n>"
  deriving Repr, Inhabited

abbrev Fields := List (Bytes × DV)

def absent : DV := .s .absent
def error : DV := .s .error
def vint (i : Int) : DV := .s (.int i)
def vbool (b : Bool) : DV := .s (.bool b)
/-- A string value: the empty string is the distinct kind "empty" (VOID). -/
def vstr (b : Bytes) : DV := if b.isEmpty then .s .void else .s (.str b)

def DV.isAbsent : DV → Bool | .s .absent => true | _ => false
def DV.isError : DV → Bool | .s .error => true | _ => false
def DV.isMap : DV → Bool | .map _ => true | _ => false
def DV.isColl : DV → Bool | .map _ => true | .arr _ => true | _ => false

/-- The operator-level view (collections and functions are opaque kinds there). -/
def DV.toVal : DV → Val
  | .s v => v | .map _ => .map | .arr _ => .array | .fn _ => .func

inductive Err where
  | fatal                       -- the process exits non-zero at once (os.Exit in the interpreter, a writer error)
  | raise                       -- a run-time error RETURNED by a statement: it unwinds to the nearest user-function
                                -- call, whose value becomes an error value; at top level the process exits non-zero
  | raiseDirty                  -- the same, RETURNED by an indexed assignment that failed part-way: the real code may
                                -- already have auto-created outer levels; exact at top level (the process exits), but the
                                -- state a catching function call would go on with is not modelled
  | unmodelled (why : String)
  | fuel
  deriving Repr, Inhabited

abbrev Res := Except Err

def intText (i : Int) : Bytes :=
  if i < 0 then 45 :: Split.itoa i.natAbs else Split.itoa i.natAbs

/-- `String()` of a scalar. Floats' text is outside the model. -/
def scalarText : Val → Res Bytes
  | .int i => pure (intText i)
  | .bool true => pure (Miller.str "true")
  | .bool false => pure (Miller.str "false")
  | .void => pure []
  | .str s => pure s
  | .error => pure (Miller.str "(error)")
  | .absent => pure []
  | .float _ => throw (.unmodelled "float text")
  | _ => throw (.unmodelled "text of opaque value")

/-- A map key from an index value: strings and ints (ints by their decimal text); anything else
(the empty string included) is not an index. -/
def keyOf : DV → Res Bytes
  | .s (.int i) => pure (intText i)
  | .s (.str s) => pure s
  | _ => throw .raise

/-! ### insertion-ordered maps -/

def mget (m : Fields) (k : Bytes) : Option DV := (m.find? (·.1 == k)).map (·.2)

/-- Existing key: value replaced IN PLACE (position kept). New key: appended at the end. -/
def mput : Fields → Bytes → DV → Fields
  | [], k, v => [(k, v)]
  | (k', v') :: rest, k, v => if k' == k then (k, v) :: rest else (k', v') :: mput rest k v

def mdel (m : Fields) (k : Bytes) : Fields := m.filter (·.1 != k)

/-! ### arrays: 1-up indices with negative aliases -/

/-- `UnaliasArrayIndex`: 1..n stay, -n..-1 map to 1..n; anything else is out of bounds. -/
def unalias (n : Nat) (i : Int) : Option Nat :=
  if 1 ≤ i ∧ i ≤ n then some (i.toNat - 1)
  else if -(n : Int) ≤ i ∧ i ≤ -1 then some (i + n).toNat
  else none

/-- Slice bounds `[lo:hi]`, inclusive, 1-up, aliased, trimmed to the array (`UnaliasArrayLengthIndex`
+ the out-of-bounds forgiveness of the reference: out-of-bounds slices give a short or empty array). -/
def sliceBounds (n : Nat) (lo hi : Int) : Option (Nat × Nat) :=
  let lo' : Int := if lo < 0 then lo + n + 1 else lo
  let hi' : Int := if hi < 0 then hi + n + 1 else hi
  let lo'' : Int := if lo' < 1 then 1 else lo'
  let hi'' : Int := if hi' > n then n else hi'
  if lo'' > hi'' then none else some (lo''.toNat - 1, hi''.toNat)

/-! ### indexing (reads) -/

def indexRead (base idx : DV) : Res DV :=
  match base with
  | .map kvs =>
    match idx with
    | .s (.int _) | .s (.str _) => do let k ← keyOf idx; pure ((mget kvs k).getD absent)
    | _ => pure error                 -- an absent index included
  | .arr xs =>
    match idx with
    | .s (.int i) =>
      if i == 0 then pure absent       -- zero is out of bounds on reads (an error only when assigned to)
      else match unalias xs.length i with
        | some z => pure (xs.getD z absent)
        | none => pure absent
    | _ => pure error
  | .s .absent => pure absent
  | _ => pure error

/-- A MAP indexed by an array: the array is a path of keys through nested maps (`m[["a", "b"]]` is
`m["a"]["b"]`); a level that is not a map while keys remain is an error; the empty path is absent. -/
def indexPathMap : DV → List DV → Res DV
  | _, [] => pure absent
  | .map kvs, i :: rest =>
    match i with
    | .s (.int _) | .s (.str _) => do
      let k ← keyOf i
      match mget kvs k with
      | none => pure absent
      | some c => if rest.isEmpty then pure c else
        match c with
        | .map _ => indexPathMap c rest
        | _ => pure error
    | .arr _ => throw (.unmodelled "a path inside a path")
    | _ => pure error
  | _, _ :: _ => pure error

/-! ### indexed assignment: auto-create (maps), auto-extend (arrays), negative aliases -/

def listSet : List DV → Nat → DV → List DV
  | [], _, _ => []
  | _ :: xs, 0, v => v :: xs
  | x :: xs, n + 1, v => x :: listSet xs n v

/-- `IsStringOrInt`: what a map accepts as the LAST index of an assignment (the empty string included). -/
def keyText : DV → Option Bytes
  | .s (.int i) => some (intText i)
  | .s (.str s) => some s
  | .s .void => some []
  | _ => none

/-- `IsString || IsInt`: what a level that is passed THROUGH, or created, accepts. -/
def strictKey : DV → Bool
  | .s (.int _) => true | .s (.str _) => true | _ => false

/-- `PutIndexed` along a non-empty `path`. A missing level is created as a MAP whatever the key
looks like (auto-create), provided the index that will go into it is a string or an int; an array
accepts indices 1..n (and aliases), n+1 extends it by one, further out the gap is filled with JSON
null. -/
def putPath : DV → List DV → DV → Res DV
  | _, [], v => pure v
  | .map kvs, [idx], v =>
    match keyText idx with
    | some k => pure (.map (mput kvs k v))
    | none => throw .raiseDirty
  | .map kvs, idx :: nxt :: rest, v =>
    if !strictKey idx then throw .raiseDirty
    else
      let k := (keyText idx).getD []
      match mget kvs k with
      | some child => do let c ← putPath child (nxt :: rest) v; pure (.map (mput kvs k c))
      | none =>
        if strictKey nxt then do let c ← putPath (.map []) (nxt :: rest) v; pure (.map (mput kvs k c))
        else throw .raiseDirty
  | .arr xs, idx :: rest, v =>
    match idx with
    | .s (.int i) =>
      if i == 0 then throw .raiseDirty
      else match unalias xs.length i with
        | some z =>
          -- a slot of the wrong kind for the next index is overwritten: a string index wants a map, an int an array
          match rest with
          | [] => pure (.arr (listSet xs z v))
          | .s (.str _) :: _ => do
            let c ← putPath (match xs.getD z absent with | .map kvs => .map kvs | _ => .map []) rest v
            pure (.arr (listSet xs z c))
          | .s (.int _) :: _ => do
            let c ← putPath (match xs.getD z absent with | .arr ys => .arr ys | _ => .arr []) rest v
            pure (.arr (listSet xs z c))
          | _ => throw .raiseDirty
        | none =>
          if i < 0 then throw .raiseDirty
          else do
            -- the new slot starts as null; a deeper index turns it into a map (string index) or an array (int index)
            let slot ← (match rest with
              | [] => pure v
              | .s (.str _) :: _ => putPath (.map []) rest v
              | .s (.int _) :: _ => putPath (.arr []) rest v
              | _ => throw .raiseDirty)
            pure (.arr (xs ++ List.replicate (i.toNat - xs.length - 1) (.s .null) ++ [slot]))
    | _ => throw .raiseDirty
  | _, _, _ => throw (.unmodelled "indexed assignment into a scalar")

/-- `RemoveIndexed`: unset of a path; a missing path is a no-op. Removing an array element shifts. -/
def delPath : DV → List DV → Res DV
  | base, [] => pure base
  | base, [idx] =>
    match base with
    | .map kvs =>
      match idx with
      | .s (.int _) | .s (.str _) => do let k ← keyOf idx; pure (.map (mdel kvs k))
      | _ => pure base
    | .arr xs =>
      match idx with
      | .s (.int i) =>
        match unalias xs.length i with
        | some z => pure (.arr (xs.eraseIdx z))
        | none => pure base
      | _ => pure base
    | _ => pure base
  | base, idx :: rest =>
    match base with
    | .map kvs =>
      match idx with
      | .s (.int _) | .s (.str _) => do
        let k ← keyOf idx
        match mget kvs k with
        | some child => do let c ← delPath child rest; pure (.map (mput kvs k c))
        | none => pure base
      | _ => pure base
    | .arr xs =>
      match idx with
      | .s (.int i) =>
        match unalias xs.length i with
        | some z => do let c ← delPath (xs.getD z absent) rest; pure (.arr (listSet xs z c))
        | none => pure base
      | _ => pure base
    | _ => pure base

/-! ### type declarations -/

inductive Ty where
  | any | var | int | float | num | bool | str | arr | map | funct
  deriving DecidableEq, Repr, Inhabited

/-- The type gate (`TypeGatedMlrvalName.Check`): which values a declared type admits. `any` is the
type of undeclared locals and untyped parameters; `var` excludes absent and error. -/
def Ty.admits : Ty → DV → Bool
  | .any, _ => true
  | .var, .s .absent => false
  | .var, .s .error => false
  | .var, .fn _ => false
  | .var, _ => true
  | .int, .s (.int _) => true
  | .float, .s (.float _) => true
  | .num, .s (.int _) => true
  | .num, .s (.float _) => true
  | .bool, .s (.bool _) => true
  | .str, .s (.str _) => true
  | .str, .s .void => true
  | .arr, .arr _ => true
  | .map, .map _ => true
  | .funct, .fn _ => true
  | _, _ => false

/-! ### the frame stack of one function activation -/

structure Binding where
  name : String
  ty : Ty
  val : DV
  deriving Repr, Inhabited

abbrev Frame := List Binding
abbrev Stack := List Frame          -- innermost frame first

def Frame.find (f : Frame) (x : String) : Option Binding := List.find? (fun b => b.name == x) f

/-- Innermost-out lookup. -/
def Stack.lookup : Stack → String → Option Binding
  | [], _ => none
  | f :: rest, x => match Frame.find f x with | some b => some b | none => Stack.lookup rest x

/-- `var x = v` / `int x = v`: a NEW binding in the innermost frame; redeclaration in the same
frame and a value the type does not admit are fatal. -/
def Stack.define (st : Stack) (x : String) (ty : Ty) (v : DV) : Res Stack :=
  match st with
  | [] => throw .raise
  | f :: rest =>
    if (Frame.find f x).isSome then throw .raise
    else if !ty.admits v then throw .raise
    else pure ((f ++ [{ name := x, ty, val := v }]) :: rest)

/-- The slot of `x` (the first binding of that name: a frame has one slot per name) takes the value. -/
def Frame.update : Frame → String → DV → Frame
  | [], _, _ => []
  | b :: rest, x, v => if b.name == x then { b with val := v } :: rest else b :: Frame.update rest x v

/-- `x = v` without a declaration: the NEAREST ENCLOSING binding of `x` is updated, its declared
type enforced; with no binding anywhere, `x` is created untyped in the innermost frame. -/
def Stack.assign : Stack → String → DV → Res Stack
  | [], _, _ => throw .raise
  | [f], x, v =>
    match Frame.find f x with
    | some b => if b.ty.admits v then pure [Frame.update f x v] else throw .raise
    | none => pure [f ++ [{ name := x, ty := .any, val := v }]]
  | f :: g :: rest, x, v =>
    match Frame.find f x with
    | some b => if b.ty.admits v then pure (Frame.update f x v :: g :: rest) else throw .raise
    | none =>
      if (Stack.lookup (g :: rest) x).isSome then do
        let r ← Stack.assign (g :: rest) x v
        pure (f :: r)
      else pure ((f ++ [{ name := x, ty := .any, val := v }]) :: g :: rest)

/-- Loop-bound variables: set in the innermost frame (created untyped, or overwritten). -/
def Stack.setAtScope (st : Stack) (x : String) (v : DV) : Res Stack :=
  match st with
  | [] => throw .raise
  | f :: rest =>
    match Frame.find f x with
    | some b => if b.ty.admits v then pure (Frame.update f x v :: rest) else throw .raise
    | none => pure ((f ++ [{ name := x, ty := .any, val := v }]) :: rest)

/-- A loop variable that may not be there (`for (k in m)` binds no value). -/
def Stack.setOpt (st : Stack) (x : Option String) (v : DV) : Res Stack :=
  match x with | some x => st.setAtScope x v | none => pure st

/-- Parameter binding: every argument must be admitted by its parameter's declared type (checked at
the call site); the bindings are the callee's first frame. -/
def paramsAdmit : List (String × Ty) → List DV → Bool
  | (_, ty) :: ps, a :: as => ty.admits a && paramsAdmit ps as
  | _, _ => true
def paramFrame : List (String × Ty) → List DV → Frame
  | (n, ty) :: ps, a :: as => { name := n, ty := ty, val := a } :: paramFrame ps as
  | _, _ => []

/-- `unset x`: the nearest binding keeps its slot and type and holds absent. -/
def Stack.unset : Stack → String → Stack
  | [], _ => []
  | f :: rest, x =>
    if (Frame.find f x).isSome then Frame.update f x absent :: rest else f :: Stack.unset rest x

/-! ### operator precedence, as documented -/

/-- The operator-precedence table of reference-dsl-operators.md, from the LOOSEST level to the
tightest (the document lists them the other way round), with the documented associativity. -/
def documentedPrecedence : List (List String × String) := [
  (["?:"], "right"),
  (["||"], "left"),
  (["^^"], "left"),
  (["&&"], "left"),
  (["==", "!=", "=~", "!=~", "<=>"], "left"),
  (["<", "<=", ">", ">="], "left"),
  (["|"], "left"),
  (["^"], "left"),
  (["&"], "left"),
  (["<<", ">>", ">>>"], "left"),
  (["+", "-"], "left"),
  (["*", "/", "//", "%"], "left"),
  (["."], "left"),
  (["!", "~", "+", "-"], "prefix"),
  (["??"], "left"),
  (["???"], "left"),
  (["**"], "right")]

/-- The int-preserving dot operators (reference-main-arithmetic.md) go with the operator they vary. -/
def dotVariantOf : String → Option String
  | ".+" => some "+" | ".-" => some "-" | ".*" => some "*" | "./" => some "/" | ".//" => some "//" | _ => none

/-- The binary levels between `||` and `*`, dot variants included: what the reference parser climbs. -/
def binaryLevels : List (List String) :=
  ((documentedPrecedence.drop 1).take 11).map fun (ops, _) =>
    ops ++ ([".+", ".-", ".*", "./", ".//"].filter fun d => match dotVariantOf d with | some o => ops.contains o | none => false)

/-! ### programs -/

inductive Expr where
  | lit (v : Val)
  | field (name : Bytes)
  | ifield (e : Expr)
  | posName (e : Expr)
  | posVal (e : Expr)
  | srec
  | oos (name : Bytes)
  | ioos (e : Expr)
  | oosAll
  | loc (name : String)
  | ctx (name : String)
  | mapLit (kvs : List (Expr × Expr))
  | arrLit (xs : List Expr)
  | index (base idx : Expr)
  | slice (base lo hi : Expr)
  | dot (a b : Expr)
  | un (op : String) (a : Expr)
  | bin (op : String) (a b : Expr)
  | tern (c a b : Expr)
  | call (name : String) (args : List Expr)
  | funcLit (id : Nat)
  deriving Repr, Inhabited

inductive LHS where
  | field (name : Bytes)
  | ifield (e : Expr)
  | posName (e : Expr)
  | posVal (e : Expr)
  | srec
  | oos (name : Bytes)
  | ioos (e : Expr)
  | oosAll
  | loc (name : String)
  | indexed (base : LHS) (idx : List Expr)
  deriving Repr, Inhabited

inductive Stmt where
  | assign (lhs : LHS) (rhs : Expr)
  | opAssign (lhs : LHS) (op : String) (asExpr : Expr) (rhs : Expr)   -- `l op= r`: asExpr reads l
  | decl (ty : Ty) (name : String) (rhs : Expr)
  | unset (targets : List LHS)
  | unsetAll
  | ifChain (branches : List (Expr × List Stmt)) (els : List Stmt)
  | while (c : Expr) (body : List Stmt)
  | doWhile (body : List Stmt) (c : Expr)
  | forK (k : String) (e : Expr) (body : List Stmt)
  | forKV (k v : String) (e : Expr) (body : List Stmt)
  | forMulti (ks : List String) (v : String) (e : Expr) (body : List Stmt)
  | forC (init : List Stmt) (cond : List Stmt) (upd : List Stmt) (body : List Stmt)
  | brk
  | cont
  | cond (c : Expr) (body : List Stmt)
  | ret (e : Option Expr)
  | callSub (name : String) (args : List Expr)
  | print (newline : Bool) (args : List Expr)
  | dump (e : Option Expr)
  | emit1 (e : Expr)
  | emitf (args : List Expr)
  | emit (isP : Bool) (lashed : Bool) (emittables : List Expr) (names : List Expr)
  | filter (e : Expr)
  | bare (e : Expr)
  deriving Repr, Inhabited

structure FuncDef where
  name : String
  params : List (String × Ty)
  ret : Ty
  body : List Stmt
  isLit : Bool := false
  deriving Repr, Inhabited

structure Prog where
  begins : List (List Stmt) := []
  main : List Stmt := []
  ends : List (List Stmt) := []
  funcs : List FuncDef := []
  subrs : List FuncDef := []
  lits : List FuncDef := []          -- function literals, by id
  deriving Repr, Inhabited

/-! ### output -/

inductive OutItem where
  | line (s : Bytes)                  -- print / dump text (with its newline(s))
  | record (r : Fields)
  deriving Repr, Inhabited

/-! ### JSON text (dump, print of collections, the JSON-lines record writer) -/

def jsonString (b : Bytes) : Res Bytes :=
  if b.all (fun c => 32 ≤ c ∧ c != 34 ∧ c != 92 ∧ c < 127) then pure ([34] ++ b ++ [34])
  else throw (.unmodelled "JSON string escape")

def scalarJson : Val → Res Bytes
  | .int i => pure (intText i)
  | .bool b => pure (Miller.str (if b then "true" else "false"))
  | .void => pure [34, 34]
  | .str s => jsonString s
  | .error => pure (Miller.str "\"(error)\"")
  | .absent => throw .fatal      -- an absent inside a collection cannot be written ("absent-values should not have been assigned")
  | .null => pure (Miller.str "null")
  | .float _ => throw (.unmodelled "float text")
  | _ => throw (.unmodelled "JSON of opaque value")

def spaces (n : Nat) : Bytes := List.replicate n 32

mutual
  /-- Single-line JSON: `{"a": 1, "b": [1, 2]}`. -/
  def jsonLine : DV → Res Bytes
    | .s v => scalarJson v
    | .map kvs => do let b ← jsonLineKVs kvs; pure ([123] ++ b ++ [125])
    | .arr xs => do let b ← jsonLineXs xs; pure ([91] ++ b ++ [93])
    | .fn _ => throw (.unmodelled "JSON of a function")
  def jsonLineKVs : List (Bytes × DV) → Res Bytes
    | [] => pure []
    | [(k, v)] => do let ks ← jsonString k; let vs ← jsonLine v; pure (ks ++ [58, 32] ++ vs)
    | (k, v) :: rest => do
      let ks ← jsonString k; let vs ← jsonLine v; let r ← jsonLineKVs rest
      pure (ks ++ [58, 32] ++ vs ++ [44, 32] ++ r)
  def jsonLineXs : List DV → Res Bytes
    | [] => pure []
    | [x] => jsonLine x
    | x :: rest => do let a ← jsonLine x; let r ← jsonLineXs rest; pure (a ++ [44, 32] ++ r)
end

def allScalar (xs : List DV) : Bool := xs.all fun x => !x.isColl

mutual
  /-- Multi-line JSON at indentation `ind` (the opening bracket is NOT indented; inner lines are). -/
  def jsonMulti (ind : Nat) : DV → Res Bytes
    | .s v => scalarJson v
    | .map [] => pure [123, 125]
    | .map kvs => do
      let b ← jsonMultiKVs (ind + 2) kvs
      pure ([123, 10] ++ b ++ [10] ++ spaces ind ++ [125])
    | .arr xs =>
      if allScalar xs then jsonLine (.arr xs)
      else do
        let b ← jsonMultiXs (ind + 2) xs
        pure ([91, 10] ++ b ++ [10] ++ spaces ind ++ [93])
    | .fn _ => throw (.unmodelled "JSON of a function")
  def jsonMultiKVs (ind : Nat) : List (Bytes × DV) → Res Bytes
    | [] => pure []
    | [(k, v)] => do let ks ← jsonString k; let vs ← jsonMulti ind v; pure (spaces ind ++ ks ++ [58, 32] ++ vs)
    | (k, v) :: rest => do
      let ks ← jsonString k; let vs ← jsonMulti ind v; let r ← jsonMultiKVs ind rest
      pure (spaces ind ++ ks ++ [58, 32] ++ vs ++ [44, 10] ++ r)
  def jsonMultiXs (ind : Nat) : List DV → Res Bytes
    | [] => pure []
    | [x] => do let a ← jsonMulti ind x; pure (spaces ind ++ a)
    | x :: rest => do
      let a ← jsonMulti ind x; let r ← jsonMultiXs ind rest
      pure (spaces ind ++ a ++ [44, 10] ++ r)
end

/-- Text of a value in `print` and string contexts: scalars as is, collections as multi-line JSON. -/
def printText : DV → Res Bytes
  | .s v => scalarText v
  | .fn _ => throw (.unmodelled "text of a function")
  | d => jsonMulti 0 d

mutual
  /-- Does a collection hold an absent somewhere? Rendering it (for output, or for the text of a
  type-error) fails with "absent-values should not have been assigned". -/
  def hasAbsent : DV → Bool
    | .s .absent => true
    | .map kvs => hasAbsentKVs kvs
    | .arr xs => hasAbsentXs xs
    | _ => false
  def hasAbsentKVs : List (Bytes × DV) → Bool
    | [] => false
    | (_, v) :: rest => hasAbsent v || hasAbsentKVs rest
  def hasAbsentXs : List DV → Bool
    | [] => false
    | x :: rest => hasAbsent x || hasAbsentXs rest
end

/-- The error value of a type-error on argument `a`. Its text renders `a`: a collection holding an
absent cannot be rendered, and the process exits instead. -/
def errOn (a : DV) : Res DV := if a.isColl && hasAbsent a then throw .fatal else pure error

/-- `x[[n]]` and `x[[[n]]]` on any map or array (as `$[[n]]` and `$[[[n]]]` on the record): the NAME at
position n (for an array: the 1-up position itself) and the VALUE at position n; out of bounds is absent.
`none`: the index is not of that shape and ordinary indexing applies. -/
def positionalRead (bv iv : DV) : Option (Res DV) :=
  match iv with
  | .arr [.arr [idx]] =>
    match idx with
    | .s (.int i) =>
      match bv with
      | .arr xs => some (pure (match unalias xs.length i with | some z => xs.getD z absent | none => absent))
      | .map kvs => some (pure (match unalias kvs.length i with
          | some z => (kvs[z]?.map (fun kv => kv.2)).getD absent | none => absent))
      | _ => none
    | _ => some (errOn idx)
  | .arr [.arr _] => none
  | .arr [inner] =>
    match inner with
    | .s (.int i) =>
      match bv with
      | .arr xs => some (pure (match unalias xs.length i with | some z => vint ((z : Int) + 1) | none => absent))
      | .map kvs => some (pure (match unalias kvs.length i with
          | some z => (kvs[z]?.map (fun kv => vstr kv.1)).getD absent | none => absent))
      | _ => none
    | _ => some (errOn inner)
  | _ => none

/-! ### operators -/

def boolOut (b : Bool) : Out := .val (.bool b)

def cmpInt (a b : Int) : Int := if a < b then -1 else if a > b then 1 else 0
def cmpBytes (a b : Bytes) : Int := if bytesLt a b then -1 else if bytesLt b a then 1 else 0

/-- Comparison and dot kernels, by the Go function the regenerated cell names. -/
def extraKernel (k : Gen.K) (a b : Val) : Res Out := do
  let ii (f : Int → Int → Val) : Res Out := match a, b with | .int x, .int y => pure (.val (f x y)) | _, _ => pure .panic
  let ss (f : Bytes → Bytes → Val) : Res Out := do
    let x ← scalarText a; let y ← scalarText b; pure (.val (f x y))
  let bb (f : Bool → Bool → Val) : Res Out := match a, b with | .bool x, .bool y => pure (.val (f x y)) | _, _ => pure .panic
  let b2i (x : Bool) : Int := if x then 1 else 0
  match k with
  | .keq_b_ii => ii fun x y => .bool (x == y)
  | .kne_b_ii => ii fun x y => .bool (x != y)
  | .klt_b_ii => ii fun x y => .bool (x < y)
  | .kle_b_ii => ii fun x y => .bool (x ≤ y)
  | .kgt_b_ii => ii fun x y => .bool (x > y)
  | .kge_b_ii => ii fun x y => .bool (x ≥ y)
  | .kcmp_b_ii => ii fun x y => .int (cmpInt x y)
  | .keq_b_ss | .keq_b_xs | .keq_b_sx => ss fun x y => .bool (x == y)
  | .kne_b_ss | .kne_b_xs | .kne_b_sx => ss fun x y => .bool (x != y)
  | .klt_b_ss | .klt_b_xs | .klt_b_sx => ss fun x y => .bool (bytesLt x y)
  | .kle_b_ss | .kle_b_xs | .kle_b_sx => ss fun x y => .bool (!bytesLt y x)
  | .kgt_b_ss | .kgt_b_xs | .kgt_b_sx => ss fun x y => .bool (bytesLt y x)
  | .kge_b_ss | .kge_b_xs | .kge_b_sx => ss fun x y => .bool (!bytesLt x y)
  | .kcmp_b_ss | .kcmp_b_xs | .kcmp_b_sx => ss fun x y => .int (cmpBytes x y)
  | .keq_b_bb => bb fun x y => .bool (x == y)
  | .kne_b_bb => bb fun x y => .bool (x != y)
  | .klt_b_bb => bb fun x y => .bool (b2i x < b2i y)
  | .kle_b_bb => bb fun x y => .bool (b2i x ≤ b2i y)
  | .kgt_b_bb => bb fun x y => .bool (b2i x > b2i y)
  | .kge_b_bb => bb fun x y => .bool (b2i x ≥ b2i y)
  | .kcmp_b_bb => bb fun x y => .int (cmpInt (b2i x) (b2i y))
  | .kdot_s_xx => do
    let x ← scalarText a; let y ← scalarText b
    pure (.val (if (x ++ y).isEmpty then .void else .str (x ++ y)))
  | _ => pure .unmodelled

def strOf (v : Val) : Res Out := do
  let t ← scalarText v
  pure (.val (if t.isEmpty then .void else .str t))

/-- A binary operator through its regenerated table. -/
def tableBinary (table : String) (a b : Val) : Res Val := do
  let some t := Disp.binaryTable table | throw (.unmodelled ("no table " ++ table))
  let un := Gen.bifs_uneg_dispositions
  let out : Out ← match Disp.cell2 t a.kind b.kind with
    | none => pure .panic
    | some k =>
      match (Gen.kernelSig k).ret with
      | .str1 => strOf a
      | .str2 => strOf b
      | .other => do
        match ← extraKernel k a b with
        | .unmodelled => pure (Disp.evalBinary t un a b)
        | o => pure o
      | _ => pure (Disp.evalBinary t un a b)
  match out with
  | .val v => pure v
  | .panic => throw (.unmodelled "operator cell panics")
  | .unmodelled => throw (.unmodelled ("kernel of " ++ table))

def binTable : String → Option String
  | "+" => some "bifs.plus_dispositions" | "-" => some "bifs.minus_dispositions"
  | "*" => some "bifs.times_dispositions" | "/" => some "bifs.divide_dispositions"
  | "//" => some "bifs.int_divide_dispositions" | "%" => some "bifs.modulus_dispositions"
  | ".+" => some "bifs.dot_plus_dispositions" | ".-" => some "bifs.dotminus_dispositions"
  | ".*" => some "bifs.dottimes_dispositions" | "./" => some "bifs.dotdivide_dispositions"
  | "&" => some "bifs.bitwise_and_dispositions" | "|" => some "bifs.bitwise_or_dispositions"
  | "^" => some "bifs.bitwise_xor_dispositions"
  | "<<" => some "bifs.left_shift_dispositions" | ">>" => some "bifs.signed_right_shift_dispositions"
  | ">>>" => some "bifs.unsigned_right_shift_dispositions"
  | "==" => some "bifs.eq_dispositions" | "!=" => some "bifs.ne_dispositions"
  | "<" => some "bifs.lt_dispositions" | "<=" => some "bifs.le_dispositions"
  | ">" => some "bifs.gt_dispositions" | ">=" => some "bifs.ge_dispositions"
  | "<=>" => some "bifs.cmp_dispositions" | "." => some "bifs.dot_dispositions"
  | "min" => some "bifs.min_dispositions" | "max" => some "bifs.max_dispositions"
  | _ => none

/-- Scalar-level binary operator (collections: only where a cell returns an operand unchanged). -/
def binScalar (op : String) (a b : DV) : Res DV := do
  if (match a with | .fn _ => true | _ => false) || (match b with | .fn _ => true | _ => false) then
    throw (.unmodelled "operator on a function")
  if a.isColl || b.isColl then
    -- a collection operand: only the generic cells of the regenerated table (absent, error, "return an operand")
    let some tn := binTable op | throw (.unmodelled "operator on a collection")
    let some t := Disp.binaryTable tn | throw (.unmodelled "operator on a collection")
    match Disp.cell2 t a.toVal.kind b.toVal.kind with
    | none => throw (.unmodelled "operator on a collection")
    | some k =>
      match (Gen.kernelSig k).ret with
      | .absent => return absent
      | .in1 => return a
      | .in2 => return b
      | .error =>
        -- a type-error's text renders both operands
        if hasAbsent a || hasAbsent b then throw (.unmodelled "type-error text of a collection holding an absent")
        else return error
      | _ => throw (.unmodelled "operator on a collection")
  match binTable op with
  | some t => do let v ← tableBinary t a.toVal b.toVal; pure (.s v)
  | none =>
    if op == "**" then
      match a, b with
      | .s (.int x), .s (.int y) =>
        if y ≥ 0 ∧ y ≤ 64 then
          let r := x ^ y.toNat
          if fitsI64 r then pure (vint r) else throw (.unmodelled "** overflow")
        else throw (.unmodelled "** negative exponent")
      | _, _ =>
        match Disp.binaryTable "bifs.pow_dispositions" with
        | none => throw (.unmodelled "** on non-ints")
        | some t =>
          match Disp.cell2 t a.toVal.kind b.toVal.kind with
          | none => throw (.unmodelled "** on non-ints")
          | some k =>
            match (Gen.kernelSig k).ret with
            | .absent => pure absent
            | .in1 => pure a
            | .in2 => pure b
            | .void => pure (.s .void)
            | .error => pure error
            | _ => throw (.unmodelled "** on non-ints")
    else throw (.unmodelled ("operator " ++ op))

def unTable : String → Option (List Gen.K)
  | "-" => some Gen.bifs_uneg_dispositions
  | "+" => some Gen.bifs_upos_dispositions
  | "~" => some Gen.bifs_bitwise_not_dispositions
  | _ => none

def unScalar (op : String) (a : DV) : Res DV := do
  if a.isColl then throw (.unmodelled "unary operator on a collection")
  match unTable op with
  | some t =>
    match Disp.evalUnary t a.toVal with
    | .val v => pure (.s v)
    | _ => throw (.unmodelled ("unary " ++ op))
  | none =>
    if op == "!" then
      match a with
      | .s (.bool b) => pure (vbool (!b))
      | _ => pure error
    else throw (.unmodelled ("unary " ++ op))

/-- Operand classes of the documented truth tables of `&&` and `||`
(reference-main-null-data.md, `mlr help type-arithmetic-info-extended`). -/
inductive LC where | t | f | other | void | absent | error
  deriving DecidableEq, Repr

def lclass : DV → LC
  | .s (.bool true) => .t | .s (.bool false) => .f | .s .void => .void | .s .absent => .absent
  | .s .error => .error | _ => .other

/-- The tables' entries once the short-circuit row (false for `&&`, true for `||`) and the error row
are set aside: the remaining rows are the same for both operators, the left operand acting as the
neutral boolean when it is a boolean. -/
def logicalRest (a b : LC) : DV :=
  match b with
  | .error => error
  | _ =>
    match a, b with
    | .other, .absent => absent
    | .other, _ => error
    | .absent, .void => absent
    | _, .t => vbool true
    | _, .f => vbool false
    | _, .absent => absent
    | _, _ => error

/-! ### interpreter state -/

structure St where
  cur : Fields := []
  hasRec : Bool := false         -- false in begin/end blocks (and in anything called from them): no current record
  oos : Fields := []
  stack : Stack := [[]]
  out : List OutItem := []
  filt : DV := .s .null          -- the filter condition of the current record, whatever its type
  nr : Nat := 0
  fnr : Nat := 0
  filename : Bytes := []
  isFilter : Bool := false       -- running as `mlr filter`: a bare boolean sets the filter condition
  deriving Repr, Inhabited

inductive Sig where
  | normal | brk | cont | ret (v : Option DV)
  deriving Repr, Inhabited

/-- State is KEPT when an error is raised (what was printed or assigned before it stays). -/
abbrev M := ExceptT Err (StateM St)

def failM {α} (e : Err) : M α := throw e
def liftR {α} (r : Res α) : M α := match r with | .ok a => pure a | .error e => throw e

def typeName : DV → String
  | .s (.int _) => "int" | .s (.float _) => "float" | .s (.bool _) => "bool" | .s .void => "empty"
  | .s (.str _) => "string" | .s .error => "error" | .s .absent => "absent" | .s .null => "empty"
  | .map _ => "map" | .arr _ => "array" | .fn _ => "funct" | .s _ => "other"

mutual
  def depthDV : DV → Nat
    | .map kvs => 1 + depthKVs kvs
    | .arr xs => 1 + depthXs xs
    | _ => 0
  def depthKVs : List (Bytes × DV) → Nat
    | [] => 0
    | (_, v) :: rest => max (depthDV v) (depthKVs rest)     -- scalars, absent and error elements: 0
  def depthXs : List DV → Nat
    | [] => 0
    | x :: rest => max (depthDV x) (depthXs rest)
end

/-- `Mlrmap.IsNested`: the FIRST entry's value is a map. -/
def isNested (kvs : Fields) : Bool := match kvs with | (_, .map _) :: _ => true | _ => false

/-- Map keys come back from loops and emit as STRINGS (the empty key as the empty value). -/
def keyVal (k : Bytes) : DV := vstr k

/-! ### pure built-in functions -/

def builtin (name : String) (args : List DV) : Res DV :=
  match name, args with
  | "typeof", [a] => pure (vstr (Miller.str (typeName a)))
  | "is_absent", [a] => pure (vbool a.isAbsent)
  | "is_present", [a] => pure (vbool !a.isAbsent)
  | "is_error", [a] => pure (vbool a.isError)
  | "is_map", [a] => pure (vbool a.isMap)
  | "is_array", [.arr _] => pure (vbool true)
  | "is_array", [_] => pure (vbool false)
  | "is_empty", [.s .void] => pure (vbool true)
  | "is_empty", [_] => pure (vbool false)
  | "is_not_empty", [.s .void] => pure (vbool false)
  | "is_not_empty", [.s .absent] => pure (vbool false)
  | "is_not_empty", [_] => pure (vbool true)
  | "is_string", [.s (.str _)] => pure (vbool true)
  | "is_string", [.s .void] => pure (vbool true)
  | "is_string", [_] => pure (vbool false)
  | "is_int", [.s (.int _)] => pure (vbool true)
  | "is_int", [_] => pure (vbool false)
  | "length", [.s .absent] => pure (vint 0)
  | "length", [.s .error] => pure (vint 0)
  | "length", [.map kvs] => pure (vint kvs.length)
  | "length", [.arr xs] => pure (vint xs.length)
  | "length", [_] => pure (vint 1)
  | "depth", [a] =>
    (match a with
     | .fn _ => pure error | .s .error => pure error | .s .absent => pure absent
     | _ => pure (vint (depthDV a)))
  | "haskey", [.map kvs, k] =>
    (match k with
     | .s (.int _) | .s (.str _) => do let kk ← keyOf k; pure (vbool (mget kvs kk).isSome)
     | _ => errOn k)
  | "haskey", [.arr xs, k] =>
    (match k with
     | .s (.str _) => pure (vbool false)
     | .s (.int i) => pure (vbool (unalias xs.length i).isSome)
     | _ => errOn k)
  | "haskey", [_, _] => pure error
  | "mapsum", [] => pure (.map [])
  | "mapsum", [a] => pure a
  | "mapsum", as =>
    if as.all DV.isMap then
      pure (.map (as.foldl (fun acc a => match a with | .map kvs => kvs.foldl (fun m p => mput m p.1 p.2) acc | _ => acc) []))
    else errOn ((as.find? fun a => !a.isMap).getD error)
  | "mapdiff", [] => pure (.map [])
  | "mapdiff", [a] => pure a
  | "mapdiff", a :: rest =>
    if (a :: rest).all DV.isMap then
      match a with
      | .map kvs => pure (.map (rest.foldl (fun acc b => match b with | .map ks => ks.foldl (fun m p => mdel m p.1) acc | _ => acc) kvs))
      | _ => pure error
    else errOn (((a :: rest).find? fun a => !a.isMap).getD error)
  | "append", [.arr xs, v] => pure (.arr (xs ++ [v]))
  | "append", [a, _] => errOn a
  | "get_keys", [.map kvs] => pure (.arr (kvs.map fun p => keyVal p.1))
  | "get_keys", [.arr xs] => pure (.arr ((List.range xs.length).map fun (i : Nat) => vint ((i : Int) + 1)))
  | "get_keys", [_] => pure error
  | "get_values", [.map kvs] => pure (.arr (kvs.map (·.2)))
  | "get_values", [.arr xs] => pure (.arr xs)
  | "get_values", [_] => pure error
  | "strlen", [.s (.str s)] =>
    if s.all (· < 128) then pure (vint s.length) else throw (.unmodelled "strlen of non-ASCII")
  | "strlen", [.s .void] => pure (vint 0)
  | "strlen", [.fn _] => throw (.unmodelled "strlen of a function")
  | "strlen", [a] => errOn a                     -- strings only: numbers and booleans included
  | "toupper", [.s (.str s)] => pure (vstr (s.map fun c => if 97 ≤ c ∧ c ≤ 122 then c - 32 else c))
  | "toupper", [a] => pure a                     -- anything else is returned as is
  | "abs", [.s (.int i)] => pure (vint (wrap i.natAbs))
  | "abs", [.s .absent] => pure absent
  | "abs", [.s .void] => pure (.s .void)
  | _, _ => throw (.unmodelled ("function " ++ name))

/-- Variadic `min` / `max` through the regenerated tables. -/
def minmax (isMax : Bool) (args : List DV) : Res DV := do
  if args.any fun a => a.isColl || (match a with | .fn _ => true | _ => false) then throw (.unmodelled "min/max of a collection")
  let bt := if isMax then Gen.bifs_max_dispositions else Gen.bifs_min_dispositions
  let ut := if isMax then Gen.bifs_max_unary_dispositions else Gen.bifs_min_unary_dispositions
  match Disp.variadic bt ut Gen.bifs_uneg_dispositions (args.map DV.toVal) with
  | .val v => pure (.s v)
  | _ => throw (.unmodelled "min/max kernel")

/-! ### emit: splitting nested maps by names -/

def emitRec (r : Fields) : M Unit := modify fun s => { s with out := s.out ++ [.record r] }
def emitRecs (rs : List Fields) : M Unit := modify fun s => { s with out := s.out ++ rs.map .record }
def emitLine (b : Bytes) : M Unit := modify fun s => { s with out := s.out ++ [.line b] }

/-- `emit @v` with no names (non-lashed): a map of terminals is one record; a nested map is
descended, each sub-map found that way becoming a record; a non-map is the record {name: value}. -/
def emitNonIndexed : Nat → List (Bytes × DV) → List Fields
  | 0, _ => []
  | fuel + 1, nvs =>
    nvs.flatMap fun (name, value) =>
      if value.isAbsent then []
      else match value with
        | .map kvs => if !isNested kvs then [kvs] else emitNonIndexed fuel kvs
        | v => [[(name, v)]]

/-- `emitp @v` with no names: the record {name: value}, whatever its depth. -/
def emitPNonIndexed (nvs : List (Bytes × DV)) : List Fields :=
  nvs.filterMap fun (name, value) => if value.isAbsent then none else some [(name, value)]

def putAll (r : Fields) (kvs : Fields) : Fields := kvs.foldl (fun m p => mput m p.1 p.2) r

/-- `emitp @v, "a", "b"`: one record per path through the first `names.length` levels, the keys
met on the way under the given names, what is left below under the variable's own name. -/
def emitPIndexed : List Bytes → Fields → Bytes → Fields → List Fields
  | [], _, _, _ => []
  | [ix], templ, name, m =>
    m.map fun (k, v) => mput (mput templ ix (keyVal k)) name v
  | ix :: ixs, templ, name, m =>
    m.flatMap fun (k, v) =>
      let r := mput templ ix (keyVal k)
      match v with
      | .map sub => emitPIndexed ixs r name sub
      | v => [mput r name v]

/-- `emit @v, "a", "b"` (non-lashed). At the LAST name a map below is splayed into the record; a
level reached with names still to go continues AS EMITP DOES (the behaviour the worked example
`emit @*, "a", "b"` of reference-dsl-output-statements.md shows: `v.sum`, `v.count`). -/
def emitIndexed (names : List Bytes) (templ : Fields) (name : Bytes) (m : Fields) : List Fields :=
  match names with
  | [] => []
  | [ix] =>
    m.map fun (k, v) =>
      let r := mput templ ix (keyVal k)
      match v with
      | .map sub => putAll r sub
      | v => mput r name v
  | ix :: ixs =>
    m.flatMap fun (k, v) =>
      let r := mput templ ix (keyVal k)
      match v with
      | .map sub => emitPIndexed ixs r name sub
      | v => [mput r name v]

/-- Run `m` on a stack entered from the current one and LEAVE it again on every exit, an error
included (Go: `Push…(); defer Pop…()`): what was pushed for `m` never outlives it. -/
def withStack {α} (enter : Stack → Stack) (leave : Stack → Stack → Stack) (m : M α) : M α := do
  let saved := (← get).stack
  modify fun s => { s with stack := enter saved }
  tryCatch
    (do let a ← m
        modify fun s => { s with stack := leave saved s.stack }
        pure a)
    (fun e => do
      modify fun s => { s with stack := leave saved s.stack }
      throw e)

/-- A new innermost frame for the duration of `m` (a braced block, the binding frame of a loop). -/
def inNewFrame {α} (m : M α) : M α := withStack (fun st => [] :: st) (fun _ cur => cur.drop 1) m

/-- The frames of a call: a named function (or subroutine) runs on a frame set of its own - the
caller's locals are out of reach and come back untouched; a function literal on a new frame on top of
the caller's - it sees the enclosing locals. -/
def inCall {α} (isLit : Bool) (frame : Frame) (m : M α) : M α :=
  withStack (fun saved => if isLit then frame :: saved else [frame]) (fun saved cur => if isLit then cur.drop 1 else saved) m

/-- The value of a function body: what it returns (absent if it returns nothing); an error RAISED by one
of its statements ends the call, whose value is then an error value. -/
def bodyValue (blk : M Sig) : M DV :=
  tryCatch
    (do let sig ← blk
        pure (match sig with | .ret (some v) => v | _ => absent))
    (fun e => match e with
      | .raise => pure error
      | .raiseDirty => throw (.unmodelled "the state left by an indexed assignment that failed part-way inside a function")
      | e => throw e)

def andThen {α β} (a : M α) (b : M β) : M β := do let _ ← a; b

/-- The (key, value) entries a loop iterates over: a map's, or an array's with 1-up indices. -/
def entriesOf : DV → Option (List (DV × DV))
  | .map kvs => some (kvs.map fun (k, v) => (keyVal k, v))
  | .arr xs => some (((List.range xs.length).zip xs).map fun (i, x) => (vint ((i : Int) + 1), x))
  | _ => none

/-! ### the interpreter -/

def ctxVal (s : St) : String → Res DV
  | "NR" => pure (vint s.nr)
  | "FNR" => pure (vint s.fnr)
  | "NF" => pure (if s.hasRec then vint s.cur.length else absent)
  | "FILENAME" => pure (if s.filename.isEmpty then absent else vstr s.filename)
  | "M_PI" | "M_E" => throw (.unmodelled "float constant")
  | n => throw (.unmodelled ("context variable " ++ n))

def truthy (v : DV) : M (Option Bool) :=
  match v with
  | .s (.bool b) => pure (some b)
  | .s .absent => pure none
  | _ => failM .raise

def findFunc (fs : List FuncDef) (n : String) : Option FuncDef := fs.find? (·.name == n)

/-- The name under which an emittable appears in its records. -/
def emittableName : Expr → Bytes
  | .oos n => n
  | .loc n => Miller.str n
  | .field n => n
  | .oosAll => Miller.str "_"
  | .srec => Miller.str "_"
  | _ => Miller.str "_"

mutual
  def eval (p : Prog) : Nat → Expr → M DV
    | 0, _ => failM .fuel
    | fuel + 1, e =>
      match e with
      | .lit v => pure (.s v)
      | .field n => do pure ((mget (← get).cur n).getD absent)
      | .ifield e => do
        let k ← eval p fuel e
        match k with
        | .s .absent => pure absent
        | .s (.int _) | .s (.str _) => do let kk ← liftR (keyOf k); pure ((mget (← get).cur kk).getD absent)
        | _ => failM .fatal         -- "Record/map indices must be string, int": the process exits
      | .posName e => do
        match ← eval p fuel e with
        | .s (.int i) =>
          let r := (← get).cur
          if 1 ≤ i ∧ i ≤ r.length then pure (keyVal (r.getD (i.toNat - 1) default).1) else pure absent
        | _ => pure absent
      | .posVal e => do
        match ← eval p fuel e with
        | .s (.int i) =>
          let r := (← get).cur
          if 1 ≤ i ∧ i ≤ r.length then pure (r.getD (i.toNat - 1) default).2 else pure absent
        | _ => pure absent
      | .srec => do let s ← get; pure (if s.hasRec then .map s.cur else absent)
      | .oos n => do pure ((mget (← get).oos n).getD absent)
      | .ioos e => do
        let k ← eval p fuel e
        match k with
        | .s .absent => pure absent
        | .s (.int _) | .s (.str _) => do let kk ← liftR (keyOf k); pure ((mget (← get).oos kk).getD absent)
        | _ => pure error
      | .oosAll => do pure (.map (← get).oos)
      | .loc n => do
        match (← get).stack.lookup n with
        | some b => pure b.val
        | none => if (findFunc p.funcs n).isSome then pure (.fn n) else pure absent
      | .ctx n => do liftR (ctxVal (← get) n)
      | .mapLit kvs => do
        let m ← evalKVs p fuel kvs
        pure (.map m)
      | .arrLit xs => do
        let vs ← evalList p fuel xs
        pure (.arr vs)
      | .index b i => do
        let bv ← eval p fuel b
        let iv ← eval p fuel i
        -- x[[n]] / x[[[n]]] are positional; otherwise a MAP indexed by an array walks a path of keys
        let r ← liftR (match positionalRead bv iv with
          | some r => r
          | none =>
            match bv, iv with
            | .map _, .arr path => indexPathMap bv path
            | _, _ => indexRead bv iv)
        -- an ARRAY's index error renders the index: a collection holding an absent cannot be rendered (a map's does not)
        if r.isError && iv.isColl && hasAbsent iv && (match bv with | .arr _ => true | _ => false) then failM .fatal else pure r
      | .slice b lo hi => do
        let bv ← eval p fuel b
        let l ← eval p fuel lo
        let h ← eval p fuel hi
        match bv, l, h with
        | .arr xs, .s (.int l), .s (.int h) =>
          match sliceBounds xs.length l h with
          | some (a, z) => pure (.arr ((xs.take z).drop a))
          | none => pure (.arr [])
        | .s .absent, _, _ => pure absent
        | .arr _, .s .absent, _ => pure absent
        | .arr _, _, .s .absent => pure absent
        | .arr _, _, _ => pure error
        | .s (.str _), _, _ => failM (.unmodelled "substring by slice")
        | .s .void, _, _ => failM (.unmodelled "substring by slice")
        | .s (.int _), _, _ => failM (.unmodelled "substring by slice")
        | _, _, _ => pure error
      | .dot a b => do
        let av ← eval p fuel a
        match av with
        | .map kvs =>
          -- map.attribute: the attribute is the right operand's TOKEN (a name or a number), not its value;
          -- the right operand is not evaluated
          match b with
          | .loc n => pure ((mget kvs (Miller.str n)).getD absent)
          | .lit (.int i) => pure ((mget kvs (intText i)).getD absent)
          | .lit (.str _) | .lit .void => pure absent        -- the token keeps its quotes: no such key
          | _ => failM (.unmodelled "map traversal by a compound expression")
        | _ => do
          let bv ← eval p fuel b
          liftR (binScalar "." av bv)
      | .un op a => do
        let av ← eval p fuel a
        liftR (unScalar op av)
      | .bin op a b =>
        if op == "&&" then do
          let av ← eval p fuel a
          match lclass av with
          | .f => pure (vbool false)            -- short circuit: the right side is not evaluated
          | .error => pure av
          | ca => do
            let bv ← eval p fuel b
            let r := logicalRest ca (lclass bv)
            -- the type-error's text renders the operands
            if r.isError && (hasAbsent av && av.isColl || hasAbsent bv && bv.isColl) then failM (.unmodelled "type-error text of a collection holding an absent") else pure r
        else if op == "||" then do
          let av ← eval p fuel a
          match lclass av with
          | .t => pure (vbool true)
          | .error => pure av
          | ca => do
            let bv ← eval p fuel b
            let r := logicalRest ca (lclass bv)
            if r.isError && (hasAbsent av && av.isColl || hasAbsent bv && bv.isColl) then failM (.unmodelled "type-error text of a collection holding an absent") else pure r
        else if op == "^^" then do
          let av ← eval p fuel a
          let bv ← eval p fuel b
          match av, bv with
          | .s (.bool x), .s (.bool y) => pure (vbool (x != y))
          | _, _ => pure error
        else if op == "??" then do
          let av ← eval p fuel a
          match av with
          | .s .absent => eval p fuel b
          | _ => pure av
        else if op == "???" then do
          let av ← eval p fuel a
          match av with
          | .s .absent | .s .void => eval p fuel b
          | _ => pure av
        else do
          let av ← eval p fuel a
          let bv ← eval p fuel b
          liftR (binScalar op av bv)
      | .tern c a b => do
        match ← eval p fuel c with
        | .s (.bool true) => eval p fuel a
        | .s (.bool false) => eval p fuel b
        | .map _ | .arr _ => failM (.unmodelled "ternary on a collection")   -- its error text renders the operand
        | _ => pure error
      | .funcLit id => pure (.fn ("#" ++ toString id))
      | .call name args => do
        -- a local holding a function value, then named user functions, then built-ins
        let held := ((← get).stack.lookup name).bind fun b => match b.val with | .fn f => some f | _ => none
        match held with
        | some f => do
          let vs ← evalList p fuel args
          callFn p fuel f vs
        | none =>
          if (findFunc p.funcs name).isSome then do
            let vs ← evalList p fuel args
            callFn p fuel name vs
          else if name == "min" || name == "max" then do
            let vs ← evalList p fuel args
            liftR (minmax (name == "max") vs)
          else if name == "apply" || name == "select" || name == "reduce" || name == "fold" || name == "sort"
                  || name == "any" || name == "every" then do
            let vs ← evalList p fuel args
            hof p fuel name vs
          else do
            let vs ← evalList p fuel args
            liftR (builtin name vs)

  def evalList (p : Prog) : Nat → List Expr → M (List DV)
    | 0, _ => failM .fuel
    | _ + 1, [] => pure []
    | fuel + 1, e :: es => do
      let v ← eval p fuel e
      let vs ← evalList p fuel es
      pure (v :: vs)

  /-- Map literal: pairs inserted in order (a repeated key keeps its first position and takes the
  later value); an absent value is skipped. -/
  def evalKVs (p : Prog) : Nat → List (Expr × Expr) → M Fields
    | 0, _ => failM .fuel
    | _ + 1, [] => pure []
    | fuel + 1, (k, v) :: rest => do
      let kv ← eval p fuel k
      let vv ← eval p fuel v
      let m ← evalKVs p fuel rest
      -- a key that is not a string or an int (`MapPut`) and an absent value are skipped
      match keyText kv with
      | none => pure m
      | some kk =>
        if vv.isAbsent then pure m
        else match mget m kk with
          | some later => pure ((kk, later) :: mdel m kk)
          | none => pure ((kk, vv) :: m)

  /-- Call of a user function or function literal with evaluated arguments: BY VALUE, in a fresh
  frame set for a named function (the caller's locals are out of reach); a literal runs in a new
  frame on top of the caller's (it can see the enclosing locals). -/
  def callFn (p : Prog) : Nat → String → List DV → M DV
    | 0, _, _ => failM .fuel
    | fuel + 1, name, args => do
      let def? : Option FuncDef :=
        if name.startsWith "#" then p.lits[(name.drop 1).toNat!]? else findFunc p.funcs name
      let some d := def? | failM .fatal
      if d.params.length != args.length then failM .fatal
      if !paramsAdmit d.params args then failM .fatal
      let frame : Frame := paramFrame d.params args
      -- duplicate parameter names: redefinition in one scope
      if (d.params.map (·.1)).eraseDups.length != d.params.length then failM .fatal
      let rv : DV ← inCall d.isLit frame (bodyValue (execBlock p fuel d.body))
      if !d.ret.admits rv then failM .fatal
      pure rv

  /-- Higher-order functions. The function argument's arity is checked before anything is called. -/
  def hof (p : Prog) : Nat → String → List DV → M DV
    | 0, _, _ => failM .fuel
    | fuel + 1, name, args =>
      let arity (f : String) : Option Nat :=
        (if f.startsWith "#" then p.lits[(f.drop 1).toNat!]? else findFunc p.funcs f).map (·.params.length)
      let want : Option (String × Nat) := match name, args with
        | "apply", [.arr _, .fn f] | "select", [.arr _, .fn f] | "any", [.arr _, .fn f] | "every", [.arr _, .fn f] => some (f, 1)
        | "apply", [.map _, .fn f] | "select", [.map _, .fn f] | "any", [.map _, .fn f] | "every", [.map _, .fn f] => some (f, 2)
        | "reduce", [.arr _, .fn f] | "fold", [.arr _, .fn f, _] | "sort", [.arr _, .fn f] => some (f, 2)
        | "reduce", [.map _, .fn f] | "fold", [.map _, .fn f, _] | "sort", [.map _, .fn f] => some (f, 4)
        | _, _ => none
      if (match want with | some (f, n) => arity f != some n | none => false) then failM .fatal else
      match name, args with
      | "apply", [.arr xs, .fn f] => do
        let ys ← mapFn p fuel f xs
        if ys.any DV.isAbsent then failM .fatal      -- "function must return a value"
        pure (.arr ys)
      | "apply", [.map kvs, .fn f] => do
        let ys ← mapKV p fuel f kvs
        let out ← liftR <| ys.foldlM (fun (m : Fields) y => match y with
          | .map [(k, v)] => pure (mput m k v)
          | _ => throw Err.fatal) []
        pure (.map out)
      | "select", [.arr xs, .fn f] => do
        let ys ← mapFn p fuel f xs
        let keep ← liftR <| (xs.zip ys).filterMapM (fun (x, y) => match y with
          | .s (.bool true) => pure (some x) | .s (.bool false) => pure none | _ => throw Err.fatal)
        pure (.arr keep)
      | "select", [.map kvs, .fn f] => do
        let ys ← mapKV p fuel f kvs
        let keep ← liftR <| (kvs.zip ys).filterMapM (fun (x, y) => match y with
          | .s (.bool true) => pure (some x) | .s (.bool false) => pure none | _ => throw Err.fatal)
        pure (.map keep)
      | "reduce", [.arr [], .fn _] => pure absent
      | "reduce", [.arr (x :: xs), .fn f] => foldFn p fuel f x xs
      | "fold", [.arr xs, .fn f, init] => foldFn p fuel f init xs
      | "reduce", [.map [], .fn _] => pure absent
      | "reduce", [.map ((k, v) :: kvs), .fn f] => foldKV p fuel f (.map [(k, v)]) kvs
      | "fold", [.map kvs, .fn f, init] => foldKV p fuel f init kvs
      | "any", [.arr xs, .fn f] => anyEvery p fuel true f xs
      | "every", [.arr xs, .fn f] => anyEvery p fuel false f xs
      | "sort", [.arr xs, .fn f] => sortFn p fuel f xs
      | _, a :: .fn _ :: _ =>
        -- the first argument is neither a map nor an array: an error value
        if a.isColl then failM (.unmodelled ("higher-order " ++ name)) else pure error
      | _, _ => failM (.unmodelled ("higher-order " ++ name))

  /-- `any` stops at the first true, `every` at the first false; what follows is not evaluated. -/
  def anyEvery (p : Prog) : Nat → Bool → String → List DV → M DV
    | 0, _, _, _ => failM .fuel
    | _ + 1, isAny, _, [] => pure (vbool (!isAny))
    | fuel + 1, isAny, f, x :: xs => do
      match ← callFn p fuel f [x] with
      | .s (.bool b) => if b == isAny then pure (vbool isAny) else anyEvery p fuel isAny f xs
      | _ => failM .fatal

  def mapFn (p : Prog) : Nat → String → List DV → M (List DV)
    | 0, _, _ => failM .fuel
    | _ + 1, _, [] => pure []
    | fuel + 1, f, x :: xs => do
      let y ← callFn p fuel f [x]
      let ys ← mapFn p fuel f xs
      pure (y :: ys)

  def mapKV (p : Prog) : Nat → String → Fields → M (List DV)
    | 0, _, _ => failM .fuel
    | _ + 1, _, [] => pure []
    | fuel + 1, f, (k, v) :: kvs => do
      let y ← callFn p fuel f [keyVal k, v]
      let ys ← mapKV p fuel f kvs
      pure (y :: ys)

  def foldFn (p : Prog) : Nat → String → DV → List DV → M DV
    | 0, _, _, _ => failM .fuel
    | _ + 1, _, acc, [] => pure acc
    | fuel + 1, f, acc, x :: xs => do
      let acc' ← callFn p fuel f [acc, x]
      foldFn p fuel f acc' xs

  def foldKV (p : Prog) : Nat → String → DV → Fields → M DV
    | 0, _, _, _ => failM .fuel
    | _ + 1, _, acc, [] => pure acc
    | fuel + 1, f, acc, (k, v) :: kvs => do
      match acc with
      | .map [(ak, av)] => do
        let acc' ← callFn p fuel f [keyVal ak, av, keyVal k, v]
        foldKV p fuel f acc' kvs
      | _ => failM .fatal

  /-- Insertion sort by a user comparator (negative: first argument first). Stable. -/
  def sortFn (p : Prog) : Nat → String → List DV → M DV
    | 0, _, _ => failM .fuel
    | _ + 1, _, [] => pure (.arr [])
    | fuel + 1, f, x :: xs => do
      match ← sortFn p fuel f xs with
      | .arr sorted => do
        let r ← insertFn p fuel f x sorted
        pure (.arr r)
      | _ => failM .fatal

  def insertFn (p : Prog) : Nat → String → DV → List DV → M (List DV)
    | 0, _, _, _ => failM .fuel
    | _ + 1, _, x, [] => pure [x]
    | fuel + 1, f, x, y :: ys => do
      match ← callFn p fuel f [x, y] with
      | .s (.int c) =>
        if c ≤ 0 then pure (x :: y :: ys)
        else do
          let r ← insertFn p fuel f x ys
          pure (y :: r)
      | .s (.float _) => failM (.unmodelled "sort comparator result")
      | _ => failM .fatal

  /-- A braced block: its own frame, popped on every exit. -/
  def execBlock (p : Prog) : Nat → List Stmt → M Sig
    | 0, _ => failM .fuel
    | fuel + 1, body => inNewFrame (execStmts p fuel body)

  def execStmts (p : Prog) : Nat → List Stmt → M Sig
    | 0, _ => failM .fuel
    | _ + 1, [] => pure .normal
    | fuel + 1, s :: rest => do
      match ← exec p fuel s with
      | .normal => execStmts p fuel rest
      | sig => pure sig

  /-- Assignment to an lvalue (the value is never absent here). -/
  def assignTo (p : Prog) : Nat → LHS → List DV → DV → M Unit
    | 0, _, _, _ => failM .fuel
    | fuel + 1, lhs, path, v => do
      -- "there is no current record to assign to"
      let needsRec := match lhs with | .field _ | .ifield _ | .posName _ | .posVal _ | .srec => true | _ => false
      if needsRec && !(← get).hasRec then failM .raise
      match lhs with
      | .indexed base idx => do
        let ivs ← evalList p fuel idx
        -- an absent index: the assignment is skipped
        if ivs.any DV.isAbsent then pure () else assignTo p fuel base (ivs ++ path) v
      | .field n => do
        let s ← get
        match ← liftR (putPath (.map s.cur) (vstr n :: path) v) with
        | .map kvs => set { s with cur := kvs }
        | _ => failM .raise
      | .ifield e => do
        let k ← eval p fuel e
        let s ← get
        match ← liftR (putPath (.map s.cur) (k :: path) v) with
        | .map kvs => set { s with cur := kvs }
        | _ => failM .raise
      | .posName e => do
        match ← eval p fuel e, path with
        | .s (.int i), [] => do
          let s ← get
          if 1 ≤ i ∧ i ≤ s.cur.length then
            -- the new name must be a string or an int (anything else is ignored); a DIFFERENT field
            -- already bearing that name is removed
            match v with
            | .s (.str _) | .s (.int _) => do
              let nk ← liftR (keyOf v)
              let z := i.toNat - 1
              let renamed := ((List.range s.cur.length).zip s.cur).filterMap fun (jkv : Nat × (Bytes × DV)) =>
                if jkv.1 == z then some (nk, jkv.2.2) else if jkv.2.1 == nk then none else some jkv.2
              set { s with cur := renamed }
            | _ => pure ()
          else pure ()
        | .s (.int _), _ => failM .raise
        | _, _ => failM .raise
      | .posVal e => do
        match ← eval p fuel e, path with
        | .s (.int i), [] => do
          let s ← get
          if 1 ≤ i ∧ i ≤ s.cur.length then
            let z := i.toNat - 1
            set { s with cur := ((List.range s.cur.length).zip s.cur).map fun (jkv : Nat × (Bytes × DV)) => if jkv.1 == z then (jkv.2.1, v) else jkv.2 }
          else pure ()
        | .s (.int _), _ => failM (.unmodelled "indexed positional value")
        | _, _ => failM .raise
      | .srec =>
        match path, v with
        | [], .map kvs => modify fun s => { s with cur := kvs }
        | [], _ => failM .raise
        | _, _ => do
          let s ← get
          match ← liftR (putPath (.map s.cur) path v) with
          | .map kvs => set { s with cur := kvs }
          | _ => failM .raise
      | .oos n => do
        let s ← get
        match ← liftR (putPath (.map s.oos) (vstr n :: path) v) with
        | .map kvs => set { s with oos := kvs }
        | _ => failM .raise
      | .ioos e => do
        let k ← eval p fuel e
        let s ← get
        match ← liftR (putPath (.map s.oos) (k :: path) v) with
        | .map kvs => set { s with oos := kvs }
        | _ => failM .raise
      | .oosAll =>
        match path, v with
        | [], .map kvs => modify fun s => { s with oos := kvs }
        | [], _ => failM .raise
        | _, _ => do
          let s ← get
          match ← liftR (putPath (.map s.oos) path v) with
          | .map kvs => set { s with oos := kvs }
          | _ => failM .raise
      | .loc n => do
        let s ← get
        match path with
        | [] => do
          let st ← liftR (s.stack.assign n v)
          set { s with stack := st }
        | idx :: _ => do
          -- a variable that does not exist yet is created as a map, if the leading index is a string or an int
          let cur ← liftR (match s.stack.lookup n with
            | some b => pure b.val
            | none => if strictKey idx then pure (DV.map []) else throw .raise)
          let nv ← liftR (putPath cur path v)
          let st ← liftR (s.stack.assign n nv)
          set { s with stack := st }

  def unsetOne (p : Prog) : Nat → LHS → List DV → M Unit
    | 0, _, _ => failM .fuel
    | fuel + 1, lhs, path =>
      match lhs with
      | .indexed base idx => do
        let ivs ← evalList p fuel idx
        unsetOne p fuel base (ivs ++ path)
      | .field n => do
        let s ← get
        match path with
        | [] => set { s with cur := mdel s.cur n }
        | _ =>
          match mget s.cur n with
          | some cur => do let nv ← liftR (delPath cur path); set { s with cur := mput s.cur n nv }
          | none => pure ()
      | .ifield e => do
        let k ← eval p fuel e
        match k with
        | .s (.int _) | .s (.str _) => do
          let kk ← liftR (keyOf k)
          let s ← get
          match path with
          | [] => set { s with cur := mdel s.cur kk }
          | _ =>
            match mget s.cur kk with
            | some cur => do let nv ← liftR (delPath cur path); set { s with cur := mput s.cur kk nv }
            | none => pure ()
        | _ => pure ()
      | .srec =>
        match path with
        | [] => modify fun s => { s with cur := [] }
        | _ => do
          let s ← get
          match ← liftR (delPath (.map s.cur) path) with
          | .map kvs => set { s with cur := kvs }
          | _ => pure ()
      | .oos n => do
        let s ← get
        match path with
        | [] => set { s with oos := mdel s.oos n }
        | _ =>
          match mget s.oos n with
          | some cur => do let nv ← liftR (delPath cur path); set { s with oos := mput s.oos n nv }
          | none => pure ()
      | .ioos e => do
        let k ← eval p fuel e
        match k with
        | .s (.int _) | .s (.str _) => do
          let kk ← liftR (keyOf k)
          let s ← get
          match path with
          | [] => set { s with oos := mdel s.oos kk }
          | _ =>
            match mget s.oos kk with
            | some cur => do let nv ← liftR (delPath cur path); set { s with oos := mput s.oos kk nv }
            | none => pure ()
        | _ => pure ()
      | .oosAll =>
        match path with
        | [] => modify fun s => { s with oos := [] }
        | _ => do
          let s ← get
          match ← liftR (delPath (.map s.oos) path) with
          | .map kvs => set { s with oos := kvs }
          | _ => pure ()
      | .loc n => do
        let s ← get
        match path with
        | [] => set { s with stack := s.stack.unset n }
        | _ =>
          match s.stack.lookup n with
          | some b => do
            let nv ← liftR (delPath b.val path)
            let st ← liftR (s.stack.assign n nv)
            set { s with stack := st }
          | none => pure ()
      | .posName e | .posVal e => do
        match ← eval p fuel e, path with
        | .s (.int i), [] => do
          let s ← get
          if s.hasRec = true ∧ 1 ≤ i ∧ i ≤ s.cur.length then set { s with cur := s.cur.eraseIdx (i.toNat - 1) } else pure ()
        | .s (.int _), _ => failM (.unmodelled "indexed unset of a positional name")
        | _, _ => failM (.unmodelled "unset of a positional name by a non-int")

  def unsetList (p : Prog) : Nat → List LHS → M Unit
    | 0, _ => failM .fuel
    | _ + 1, [] => pure ()
    | fuel + 1, l :: ls => do unsetOne p fuel l []; unsetList p fuel ls

  /-- The if / elif chain: the first branch whose condition is true runs; a condition that is not a
  boolean (absent included) is fatal. -/
  def execIf (p : Prog) : Nat → List (Expr × List Stmt) → List Stmt → M Sig
    | 0, _, _ => failM .fuel
    | fuel + 1, [], els => if els.isEmpty then pure .normal else execBlock p fuel els
    | fuel + 1, (c, body) :: rest, els => do
      match ← eval p fuel c with
      | .s (.bool true) => execBlock p fuel body
      | .s (.bool false) => execIf p fuel rest els
      | _ => failM .raise

  /-- Loop driver: `n` iterations left of `while (c) body`. -/
  def execWhile (p : Prog) : Nat → Expr → List Stmt → M Sig
    | 0, _, _ => failM .fuel
    | fuel + 1, c, body => do
      let cv ← eval p fuel c
      match cv with
      | .s (.bool true) => do
        match ← execBlock p fuel body with
        | .brk => pure .normal
        | .ret v => pure (.ret v)
        | _ => execWhile p fuel c body
      | .s (.bool false) => pure .normal
      | _ => failM .raise

  /-- Iterations of a key/value loop over the entries captured BEFORE the loop (a copy). -/
  def execForKV (p : Prog) : Nat → Option String → Option String → List (DV × DV) → List Stmt → M Sig
    | 0, _, _, _, _ => failM .fuel
    | _ + 1, _, _, [], _ => pure .normal
    | fuel + 1, k, v, (kv, vv) :: rest, body => do
      let s ← get
      let st1 ← liftR (Stack.setOpt s.stack k kv)
      let st2 ← liftR (Stack.setOpt st1 v vv)
      set { s with stack := st2 }
      match ← execBlock p fuel body with
      | .brk => pure .normal
      | .ret r => pure (.ret r)
      | _ => execForKV p fuel k v rest body

  /-- Multi-key loop `for ((k1, k2), v in m)`: descends `ks.length` levels of maps (and arrays, whose
  keys are their 1-up indices); entries that are not deep enough are skipped. -/
  def execForMulti (p : Prog) : Nat → List String → String → List DV → List (DV × DV) → List Stmt → M Sig
    | 0, _, _, _, _, _ => failM .fuel
    | _ + 1, _, _, _, [], _ => pure .normal
    | fuel + 1, ks, v, keysSoFar, (k, val) :: rest, body => do
      -- the key variable of THIS level is bound here, once per entry of this level (deeper iterations
      -- find it as the body left it)
      let s ← get
      let st1 ← liftR (Stack.setOpt s.stack (ks[keysSoFar.length]?) k)
      set { s with stack := st1 }
      let sig ← forMultiOne p fuel ks v (keysSoFar ++ [k]) val body
      match sig with
      | .brk => pure .brk
      | .ret r => pure (.ret r)
      | _ => execForMulti p fuel ks v keysSoFar rest body

  /-- One entry of a multi-key loop, with the keys met so far: deep enough - bind and run the body;
  otherwise descend. -/
  def forMultiOne (p : Prog) : Nat → List String → String → List DV → DV → List Stmt → M Sig
    | 0, _, _, _, _, _ => failM .fuel
    | fuel + 1, ks, v, here, val, body =>
      if here.length == ks.length then do
        let s ← get
        let st2 ← liftR (Stack.setAtScope s.stack v val)
        set { s with stack := st2 }
        execBlock p fuel body
      else
        match entriesOf val with
        | some sub => execForMulti p fuel ks v here sub body
        | none => pure Sig.normal

  /-- The continuation test of a triple-for: statements, the last of which (a bare boolean) decides. -/
  def forCGo (p : Prog) : Nat → List Stmt → M Bool
    | 0, _ => failM .fuel
    | fuel + 1, cond =>
      match cond.reverse with
      | [] => pure true
      | .bare c :: pre => do
        let _ ← execStmts p fuel pre.reverse
        match ← eval p fuel c with
        | .s (.bool b) => pure b
        | _ => failM .raise
      | _ => failM .raise

  def execForC (p : Prog) : Nat → List Stmt → List Stmt → List Stmt → M Sig
    | 0, _, _, _ => failM .fuel
    | fuel + 1, cond, upd, body => do
      let go ← forCGo p fuel cond
      if !go then pure .normal
      else
        match ← execBlock p fuel body with
        | .brk => pure .normal
        | .ret v => pure (.ret v)
        | _ => do
          let _ ← execStmts p fuel upd
          execForC p fuel cond upd body

  def exec (p : Prog) : Nat → Stmt → M Sig
    | 0, _ => failM .fuel
    | fuel + 1, s =>
      match s with
      | .assign lhs rhs => do
        let v ← eval p fuel rhs
        if v.isAbsent then pure .normal          -- assignment of absent is skipped
        else do assignTo p fuel lhs [] v; pure .normal
      | .opAssign lhs op asExpr rhs => do
        let v ← eval p fuel (if op == "min" || op == "max" then .call op [asExpr, rhs] else
                             if op == "." then .dot asExpr rhs else .bin op asExpr rhs)
        if v.isAbsent then pure .normal
        else do assignTo p fuel lhs [] v; pure .normal
      | .decl ty name rhs => do
        let v ← eval p fuel rhs
        if v.isAbsent then pure .normal
        else do
          let s ← get
          let st ← liftR (s.stack.define name ty v)
          set { s with stack := st }
          pure .normal
      | .unset ts => do unsetList p fuel ts; pure .normal
      | .unsetAll => do modify fun s => { s with oos := [] }; pure .normal
      | .ifChain bs els => execIf p fuel bs els
      | .while c body => execWhile p fuel c body
      | .doWhile body c => do
        match ← execBlock p fuel body with
        | .brk => pure .normal
        | .ret v => pure (.ret v)
        | _ => execWhile p fuel c body
      | .forK k e body => do
        let ev ← eval p fuel e
        let entries : Option (List (DV × DV)) := match ev with
          | .map kvs => some (kvs.map fun (kk, _) => (keyVal kk, absent))
          | .arr xs => some (xs.map fun x => (x, absent))
          | _ => none
        match entries with
        | none => pure .normal
        | some es => do
          inNewFrame (execForKV p fuel (some k) none es body)
      | .forKV k v e body => do
        let ev ← eval p fuel e
        let entries : Option (List (DV × DV)) := match ev with
          | .map kvs => some (kvs.map fun (kk, vv) => (keyVal kk, vv))
          | .arr xs => some ((List.range xs.length).zip xs |>.map fun (i, x) => (vint (i + 1), x))
          | _ => none
        match entries with
        | none => pure .normal
        | some es => do
          inNewFrame (execForKV p fuel (some k) (some v) es body)
      | .forMulti ks v e body => do
        match entriesOf (← eval p fuel e) with
        | some kvs => do
          let sig ← inNewFrame (execForMulti p fuel ks v [] kvs body)
          pure (match sig with | .brk => .normal | .cont => .normal | x => x)
        | none => pure .normal
      | .forC init cond upd body => do
        inNewFrame (andThen (execStmts p fuel init) (execForC p fuel cond upd body))
      | .brk => pure .brk
      | .cont => pure .cont
      | .cond c body => do
        let cv ← eval p fuel c
        match ← truthy cv with
        | some true => execBlock p fuel body
        | _ => pure .normal
      | .ret none => pure (.ret none)
      | .ret (some e) => do
        let v ← eval p fuel e
        pure (.ret (some v))
      | .callSub name args => do
        let some d := findFunc p.subrs name | failM .raise
        let vs ← evalList p fuel args
        if d.params.length != vs.length then failM .raise
        if !paramsAdmit d.params vs then failM .raise
        if (d.params.map (·.1)).eraseDups.length != d.params.length then failM .raise
        let frame : Frame := paramFrame d.params vs
        let _ ← inCall false frame (execBlock p fuel d.body)
        pure .normal
      | .print nl args => do
        let vs ← evalList p fuel args
        let ts ← liftR (vs.mapM printText)
        emitLine (Split.join [32] ts ++ (if nl then [10] else []))
        pure .normal
      | .dump none => do
        let t ← liftR (jsonMulti 0 (.map (← get).oos))
        emitLine (t ++ [10])
        pure .normal
      | .dump (some e) => do
        let v ← eval p fuel e
        if v.isAbsent then pure .normal
        else do
          let t ← liftR (match v with | .s sv => scalarText sv | d => jsonMulti 0 d)
          emitLine (t ++ [10])
          pure .normal
      | .emit1 e => do
        match ← eval p fuel e with
        | .map kvs => do emitRec kvs; pure .normal
        | _ => pure .normal
      | .emitf args => do
        let vs ← evalList p fuel args
        let r := (args.zip vs).foldl (fun (m : Fields) (a, v) => if v.isAbsent then m else mput m (emittableName a) v) []
        emitRec r
        pure .normal
      | .emit isP lashed ems names => do
        if lashed then failM (.unmodelled "lashed emit")
        match ems with
        | [em] => do
          let v ← eval p fuel em
          let ns ← evalList p fuel names
          -- `@*`, `$*` and a map literal stand for their entries, each an emittable named by its key
          let nameless := match em with | .oosAll | .srec | .mapLit _ => true | _ => false
          let named : Option Bytes := match em with
            | .oos n => some n | .loc n => some (Miller.str n) | .field n => some n
            | .call f _ => some (Miller.str f) | _ => none
          let nvs : Option (List (Bytes × DV)) :=
            if nameless then (match v with | .map kvs => some kvs | _ => none)
            else named.map fun n => [(n, v)]
          match nvs with
          | none => failM (.unmodelled "emittable")
          | some nvs =>
            if ns.isEmpty then do
              let recs := if isP then emitPNonIndexed nvs else emitNonIndexed (depthDV v + 3) nvs
              emitRecs recs
              pure .normal
            else if nvs.any (fun nv => !nv.2.isMap) then pure .normal      -- a non-map among them: nothing is emitted
            else if ns.any (fun n => n.isAbsent || n.isError) then pure .normal
            else do
              let nb ← liftR (ns.mapM fun n => match n with | .s sv => scalarText sv | _ => throw (.unmodelled "emit name"))
              emitRecs (nvs.flatMap fun (n, sub) =>
                match sub with
                | .map m => if isP then emitPIndexed nb [] n m else emitIndexed nb [] n m
                | _ => [])
              pure .normal
        | _ => failM (.unmodelled "emit of several emittables")
      | .filter e => do
        let v ← eval p fuel e
        modify fun s => { s with filt := v }
        pure .normal
      | .bare e => do
        let v ← eval p fuel e
        -- `mlr filter`: the last bare boolean evaluated is the condition; in `mlr put` it is a no-op
        modify fun s => if s.isFilter then { s with filt := v } else s
        pure .normal
end

/-! ### running a program over a stream -/

structure Run where
  isFilter : Bool := false
  invert : Bool := false          -- filter -x
  quiet : Bool := false           -- put -q
  deriving Repr, Inhabited

/-- One top-level block (begin, main for one record, or end): a fresh frame set. A `return` at top
level is not in the language. -/
def runBlock (p : Prog) (fuel : Nat) (body : List Stmt) : M Unit := do
  modify fun s => { s with stack := [] }
  let _ ← execBlock p fuel body
  modify fun s => { s with stack := [[]] }

def runRecord (p : Prog) (cfg : Run) (fuel : Nat) (r : Fields) : M Unit := do
  modify fun s => { s with cur := r, hasRec := true, nr := s.nr + 1, fnr := s.fnr + 1, filt := .s .null }
  runBlock p fuel p.main
  let s ← get
  if !cfg.quiet then
    -- filter: a boolean decides, absent counts as false, anything else (nothing set included) is an error;
    -- put: only a boolean set by a `filter` statement can exclude the record
    let b ← (match s.filt with
      | .s (.bool b) => pure b
      | .s .absent => pure (!cfg.isFilter)
      | _ => if cfg.isFilter then failM .raise else pure true)
    if b != cfg.invert then emitRec s.cur

/-- The main block over the records of the stream, in order. -/
def recLoop (p : Prog) (cfg : Run) (fuel : Nat) (recs : List Fields) : M Unit := do
  for r in recs do runRecord p cfg fuel r

def runAll (p : Prog) (cfg : Run) (fuel : Nat) (filename : Bytes) (recs : List Fields) : M Unit := do
  -- begin blocks run when the first record has arrived: they see NR = FNR = 1 (0 on empty input)
  let first := if recs.isEmpty then 0 else 1
  modify fun s => { s with filename := filename, nr := first, fnr := first }
  for b in p.begins do runBlock p fuel b
  modify fun s => { s with nr := 0, fnr := 0 }
  recLoop p cfg fuel recs
  modify fun s => { s with cur := [], hasRec := false }
  for b in p.ends do runBlock p fuel b

/-- The text the JSON-lines writer prints for the output stream. -/
def renderOut (items : List OutItem) : Res Bytes :=
  items.foldlM (fun acc it => match it with
    | .line b => pure (acc ++ b)
    | .record r => do let t ← jsonLine (.map r); pure (acc ++ t ++ [10])) []

def run (p : Prog) (cfg : Run) (fuel : Nat) (filename : Bytes) (recs : List Fields) : Res Bytes := do
  let (r, s) := ((runAll p cfg fuel filename recs).run).run { isFilter := cfg.isFilter }
  match r with
  | .ok _ => renderOut s.out
  | .error .raise => throw .fatal
  | .error .raiseDirty => throw .fatal
  | .error e => throw e

end DSL
end Miller
