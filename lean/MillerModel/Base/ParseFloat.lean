/-
Model of Go's `strconv.ParseFloat(s, 64)` restricted to inputs over the alphabet the Miller
scanner lets through (`0-9 . + - e E`): on that alphabet only the decimal syntax of
`strconv.readFloat` is reachable (no "inf"/"nan", no hex floats, no underscores).
Result: `none` = error (syntax error, or range error on overflow — Go returns ±Inf together
with ErrRange and Miller treats any error alike); `some bits` = the correctly rounded double.
Trusted-base note: Go's ParseFloat is taken to be correctly rounded (it is specified to be);
the correspondence check compares this model with the real function bit for bit.
-/
import MillerModel.Base.F64
namespace Miller
namespace ParseFloat

def isDigit (c : Nat) : Bool := 48 ≤ c && c ≤ 57

/-- State after the mantissa loop of `readFloat`. -/
structure Mant where
  digits : Nat      -- all mantissa digits read as one integer (leading zeros harmless)
  nd : Nat          -- number of digits seen
  dp : Nat          -- number of digits before the decimal point (valid if `sawdot`)
  sawdot : Bool
  sawdigits : Bool
  rest : List Nat
  deriving Repr

/-- The mantissa loop: digits with at most one '.'; stops at the first other byte or a second '.'. -/
def mantLoop : List Nat → Mant → Mant
  | [], m => { m with rest := [] }
  | c :: cs, m =>
    if c == 46 then
      (if m.sawdot then { m with rest := c :: cs }
       else mantLoop cs { m with sawdot := true, dp := m.nd })
    else if isDigit c then
      mantLoop cs { m with sawdigits := true, digits := m.digits * 10 + (c - 48), nd := m.nd + 1 }
    else { m with rest := c :: cs }

/-- Exponent digits: Go accumulates only while `e < 10000`. -/
def expLoop : List Nat → Nat → Nat × List Nat
  | [], e => (e, [])
  | c :: cs, e =>
    if isDigit c then expLoop cs (if e < 10000 then e * 10 + (c - 48) else e)
    else (e, c :: cs)

/-- Number of decimal digits of `n` (0 for 0). -/
def numDigits (n : Nat) : Nat := if n == 0 then 0 else (Nat.toDigits 10 n).length

/-- Correctly rounded value of `± digits × 10^exp10`, saturating to ±Inf on overflow. -/
def roundDecimal (neg : Bool) (digits : Nat) (exp10 : Int) : Nat :=
  if digits == 0 then F64.withSign neg 0
  else
    let nd : Int := Int.ofNat (numDigits digits)
    -- magnitude shortcuts (exact: value ≥ 10^(nd-1+exp10), value < 10^(nd+exp10))
    if exp10 + nd - 1 > 309 then F64.withSign neg F64.posInf
    else if exp10 + nd < -330 then F64.withSign neg 0
    else
      let mag := if exp10 ≥ 0 then F64.roundPos (digits * 10 ^ exp10.toNat) 1
                 else F64.roundPos digits (10 ^ (-exp10).toNat)
      F64.withSign neg mag

/-- Optional leading sign of `readFloat`: `(negative?, rest)`. -/
def splitSign : List Nat → Bool × List Nat
  | 45 :: r => (true, r)
  | 43 :: r => (false, r)
  | s => (false, s)

/-- `readFloat` after the sign. -/
def parseBody (neg : Bool) (body : List Nat) : Option Nat :=
  let m := mantLoop body { digits := 0, nd := 0, dp := 0, sawdot := false, sawdigits := false, rest := [] }
  if !m.sawdigits then none
  else
    let dp : Int := if m.sawdot then Int.ofNat m.dp else Int.ofNat m.nd
    match m.rest with
    | [] => some <| roundDecimal neg m.digits (dp - Int.ofNat m.nd)
    | c :: r =>
      if c == 101 || c == 69 then
        let (esign, r2) : Int × List Nat := match r with
          | 43 :: t => (1, t)
          | 45 :: t => (-1, t)
          | _ => (1, r)
        match r2 with
        | [] => none
        | d :: _ =>
          if !isDigit d then none
          else
            let (e, tail) := expLoop r2 0
            if !tail.isEmpty then none
            else some <| roundDecimal neg m.digits (dp + esign * Int.ofNat e - Int.ofNat m.nd)
      else none

/-- The value Go computes for the decimal syntax, `none` on a syntax error.  On overflow this is
±Inf (Go returns ±Inf *and* `ErrRange`). -/
def parseSat (s : List Nat) : Option Nat := parseBody (splitSign s).1 (splitSign s).2

/-- `strconv.ParseFloat(s, 64)` with `err == nil`: syntax OK and no overflow. -/
def parse (s : List Nat) : Option Nat :=
  match parseSat s with
  | some b => if F64.isInf b then none else some b
  | none => none

end ParseFloat
end Miller
