/-
int64 as `Int` with explicit two's-complement wrap-around applied exactly where Go wraps.
Core-only; everything stays inside `omega`'s fragment.
-/
namespace Miller

def minI64 : Int := -9223372036854775808
def maxI64 : Int := 9223372036854775807
def two63 : Int := 9223372036854775808
def two64 : Int := 18446744073709551616

/-- `x` is representable as an int64. -/
def I64 (x : Int) : Prop := -9223372036854775808 ≤ x ∧ x ≤ 9223372036854775807

instance (x : Int) : Decidable (I64 x) := by unfold I64; exact inferInstance

def fitsI64 (x : Int) : Bool := decide (-9223372036854775808 ≤ x) && decide (x ≤ 9223372036854775807)

/-- Two's-complement reduction to the int64 range (what Go's `+ - *` on int64 compute). -/
def wrap (x : Int) : Int := (x + 9223372036854775808) % 18446744073709551616 - 9223372036854775808

theorem wrap_of_I64 {x : Int} (h : I64 x) : wrap x = x := by
  unfold I64 at h; unfold wrap; omega

theorem wrap_I64 (x : Int) : I64 (wrap x) := by
  unfold I64 wrap; omega

theorem fitsI64_iff (x : Int) : fitsI64 x = true ↔ I64 x := by
  unfold fitsI64 I64; simp

/-- uint64 → int64 reinterpretation (`int64(u)` in Go). -/
def u2i (u : Nat) : Int := wrap (Int.ofNat (u % 18446744073709551616))

/-- int64 → uint64 reinterpretation (`uint64(i)` in Go). -/
def i2u (i : Int) : Nat := (i % 18446744073709551616).toNat

end Miller
