/-
Byte-string primitives shared by the format models: Go's `strings.Split`, `strings.SplitN(_, _, 2)`,
`strings.Join`, `strings.HasPrefix/HasSuffix`, on `List Nat`.  Core-only.
-/
import MillerModel.Base.Bytes
namespace Miller
namespace Split

/-- `strings.HasPrefix`. -/
def hasPrefix : Bytes → Bytes → Bool
  | _, [] => true
  | [], _ :: _ => false
  | c :: s, d :: p => c == d && hasPrefix s p

/-- `strings.Join`. -/
def join (sep : Bytes) : List Bytes → Bytes
  | [] => []
  | [x] => x
  | x :: y :: r => x ++ sep ++ join sep (y :: r)

/-- Scanner of `strings.Split` for a non-empty separator: `cur` is the current piece reversed-free
accumulator.  Leftmost, non-overlapping. -/
def splitAux (sep : Bytes) (fuel : Nat) : Bytes → Bytes → List Bytes
  | s, cur =>
    match fuel with
    | 0 => [cur ++ s]
    | fuel + 1 =>
      match s with
      | [] => [cur]
      | c :: r =>
        if hasPrefix (c :: r) sep then cur :: splitAux sep fuel ((c :: r).drop sep.length) []
        else splitAux sep fuel r (cur ++ [c])

/-- `strings.Split(s, sep)` for non-empty `sep` (always returns at least one piece). -/
def split (sep : Bytes) (s : Bytes) : List Bytes := splitAux sep (s.length + 1) s []

/-- `lib.SplitString`: the empty string splits into NO pieces. -/
def splitString (sep : Bytes) (s : Bytes) : List Bytes := if s.isEmpty then [] else split sep s

/-- `strings.SplitN(s, sep, 2)`. -/
def splitFirstAux (sep : Bytes) : Bytes → Bytes → List Bytes
  | [], cur => [cur]
  | c :: r, cur =>
    if hasPrefix (c :: r) sep then [cur, (c :: r).drop sep.length]
    else splitFirstAux sep r (cur ++ [c])

def splitN2 (sep : Bytes) (s : Bytes) : List Bytes := splitFirstAux sep s []

/-- Split on a single byte (`'\n'`, TAB, a one-byte IFS). -/
def splitByte (b : Nat) : Bytes → Bytes → List Bytes
  | [], cur => [cur]
  | c :: r, cur => if c == b then cur :: splitByte b r [] else splitByte b r (cur ++ [c])

/-- Decimal rendering of a natural number as bytes (`strconv.Itoa`). -/
def itoa (n : Nat) : Bytes := (Nat.toDigits 10 n).map Char.toNat

end Split
end Miller
