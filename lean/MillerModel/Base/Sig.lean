/-
Vocabulary for the REGENERATED kernel signatures (`Gen/KernelSigs.lean`): what the translator
records about the body of every function that occurs in a disposition-table cell.
-/
namespace Miller

/-- What a cell function returns, when its body is a single `return` of a recognised shape. -/
inductive Ret where
  | absent | in1 | in2 | void | null | error
  | intLit (n : Int) | float0 | neg2 | true_ | false_
  | str1 | str2          -- FromString(inputN.String())
  | other                -- a real kernel (anything else)
  deriving DecidableEq, Repr, Inhabited

/-- Unchecked payload access (`inputN.AcquireXValue()` = type assertion that panics on mismatch). -/
inductive Acq where
  | int | float | bool | string | bytes | array | map
  deriving DecidableEq, Repr, Inhabited

structure Sig where
  ret : Ret
  acq1 : List Acq      -- Acquire*Value() calls on input1
  acq2 : List Acq      -- … on input2
  divides : Bool       -- body contains integer `/` or `%` on acquired ints (division-by-zero risk)
  deriving DecidableEq, Repr, Inhabited

end Miller
