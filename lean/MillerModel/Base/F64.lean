/-
Soft IEEE-754 binary64, defined on exact integers/rationals with round-to-nearest-even.
A double is represented by its 64-bit pattern (a `Nat`).  Pure `Nat`/`Int` arithmetic, so
concrete witnesses evaluate in the kernel (`decide`) and in the compiled driver alike.
The correspondence check compares these functions with Go's hardware doubles bit for bit
(ops `f64*` of the harness).  libm functions are NOT modelled.  Core-only.
-/
import MillerModel.Base.Int64
namespace Miller
namespace F64

def p52 : Nat := 4503599627370496
def p53 : Nat := 9007199254740992
def p63 : Nat := 9223372036854775808
def posInf : Nat := 0x7FF0000000000000
def negInf : Nat := 0xFFF0000000000000
/-- Go's `math.NaN()` bit pattern; every NaN result of the model is canonicalised to this and the
harness canonicalises the implementation's NaNs the same way. -/
def nan : Nat := 0x7FF8000000000001
def negZero : Nat := p63

def isNeg (b : Nat) : Bool := b / p63 % 2 == 1
def expField (b : Nat) : Nat := b / p52 % 2048
def mantField (b : Nat) : Nat := b % p52
def isNaN (b : Nat) : Bool := expField b == 2047 && mantField b != 0
def isInf (b : Nat) : Bool := expField b == 2047 && mantField b == 0
def isZero (b : Nat) : Bool := b % p63 == 0
def isFinite (b : Nat) : Bool := expField b != 2047
def withSign (neg : Bool) (mag : Nat) : Nat := if neg then mag % p63 + p63 else mag % p63
def abs (b : Nat) : Nat := b % p63
def negate (b : Nat) : Nat := if isNaN b then nan else withSign (!isNeg b) b

/-- Round the positive rational `num/den` (both `> 0`) to the nearest double, ties to even;
returns the magnitude bits (sign bit clear); overflow gives `posInf`. -/
def roundPos (num den : Nat) : Nat :=
  let ln : Int := Int.ofNat (Nat.log2 num)
  let ld : Int := Int.ofNat (Nat.log2 den)
  let e0 : Int := ln - ld - 52
  let n0 := if e0 ≥ 0 then num else num * 2 ^ (-e0).toNat
  let d0 := if e0 ≥ 0 then den * 2 ^ e0.toNat else den
  let e1 : Int := if n0 / d0 < p52 then e0 - 1 else e0
  let e : Int := if e1 < -1074 then -1074 else e1
  let n := if e ≥ 0 then num else num * 2 ^ (-e).toNat
  let d := if e ≥ 0 then den * 2 ^ e.toNat else den
  let q0 := n / d
  let r := n % d
  let q1 := if 2 * r > d then q0 + 1 else if 2 * r < d then q0 else if q0 % 2 == 0 then q0 else q0 + 1
  let q := if q1 ≥ p53 then q1 / 2 else q1
  let ef : Int := if q1 ≥ p53 then e + 1 else e
  if q < p52 then q
  else if ef + 52 > 1023 then posInf
  else (ef + 1075).toNat * p52 + (q - p52)

/-- Round a signed rational `num/den`, `den > 0`; `negZeroIfNeg` decides the sign of a zero result. -/
def ofRat (num : Int) (den : Nat) : Nat :=
  if num == 0 then 0
  else withSign (num < 0) (roundPos num.natAbs den)

/-- `float64(i)` for an int64 (or any integer) `i`. -/
def ofInt (i : Int) : Nat := ofRat i 1

/-- Exact value of a finite double as `(numerator, denominator)`. -/
def toRat (b : Nat) : Int × Nat :=
  let ex := expField b
  let m : Nat := if ex == 0 then mantField b else p52 + mantField b
  let e : Int := if ex == 0 then -1074 else Int.ofNat ex - 1075
  let sgn : Int := if isNeg b then -1 else 1
  if e ≥ 0 then (sgn * Int.ofNat (m * 2 ^ e.toNat), 1) else (sgn * Int.ofNat m, 2 ^ (-e).toNat)

def add (a b : Nat) : Nat :=
  if isNaN a || isNaN b then nan
  else if isInf a then (if isInf b && isNeg a != isNeg b then nan else withSign (isNeg a) posInf)
  else if isInf b then withSign (isNeg b) posInf
  else
    let (na, da) := toRat a
    let (nb, db) := toRat b
    let n := na * Int.ofNat db + nb * Int.ofNat da
    if n == 0 then (if isNeg a && isNeg b then negZero else 0)
    else ofRat n (da * db)

def sub (a b : Nat) : Nat := if isNaN b then nan else add a (withSign (!isNeg b) b)

def mul (a b : Nat) : Nat :=
  let neg := isNeg a != isNeg b
  if isNaN a || isNaN b then nan
  else if isInf a || isInf b then (if isZero a || isZero b then nan else withSign neg posInf)
  else if isZero a || isZero b then withSign neg 0
  else
    let (na, da) := toRat a
    let (nb, db) := toRat b
    withSign neg (roundPos (na.natAbs * nb.natAbs) (da * db))

def div (a b : Nat) : Nat :=
  let neg := isNeg a != isNeg b
  if isNaN a || isNaN b then nan
  else if isInf a then (if isInf b then nan else withSign neg posInf)
  else if isInf b then withSign neg 0
  else if isZero b then (if isZero a then nan else withSign neg posInf)
  else if isZero a then withSign neg 0
  else
    let (na, da) := toRat a
    let (nb, db) := toRat b
    withSign neg (roundPos (na.natAbs * db) (da * nb.natAbs))

/-- `a < b` as IEEE (false if either is NaN). -/
def lt (a b : Nat) : Bool :=
  if isNaN a || isNaN b then false
  else
    let key (x : Nat) : Int := if isNeg x then -(Int.ofNat (abs x)) else Int.ofNat (abs x)
    key a < key b

def le (a b : Nat) : Bool := if isNaN a || isNaN b then false else !(lt b a)
def eq (a b : Nat) : Bool := if isNaN a || isNaN b then false else (isZero a && isZero b) || a == b

/-- Truncation toward zero of a finite double, as an exact integer. -/
def truncInt (b : Nat) : Int :=
  let (n, d) := toRat b
  if n ≥ 0 then n / Int.ofNat d else -((-n) / Int.ofNat d)

/-- Go's `int64(f)` on amd64: truncation when representable, else `MinInt64` (`cvttsd2si`). -/
def toInt64 (b : Nat) : Int :=
  if !(isFinite b) then -9223372036854775808
  else
    let t := truncInt b
    if fitsI64 t then t else -9223372036854775808

/-- `math.Floor`. -/
def floor (b : Nat) : Nat :=
  if !(isFinite b) || isZero b then (if isNaN b then nan else b)
  else
    let (n, d) := toRat b
    let f := n / Int.ofNat d   -- Int `/` floors for positive divisor
    if f == 0 then withSign (isNeg b) 0 else ofInt f

/-- `math.Ceil`. -/
def ceil (b : Nat) : Nat :=
  if !(isFinite b) || isZero b then (if isNaN b then nan else b)
  else
    let (n, d) := toRat b
    let c := -((-n) / Int.ofNat d)
    if c == 0 then withSign (isNeg b) 0 else ofInt c

/-- Hex rendering of the bit pattern (16 lowercase hex digits) for the line protocol. -/
def hexDigit (n : Nat) : Char := if n < 10 then Char.ofNat (48 + n) else Char.ofNat (87 + n)
def toHex16 (b : Nat) : String :=
  String.ofList ((List.range 16).reverse.map fun i => hexDigit (b / 16 ^ i % 16))

end F64
end Miller
