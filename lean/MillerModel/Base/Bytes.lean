/-
Byte strings.  Go strings are byte sequences; the model uses `List Nat` (each element a byte
value; theorems hold for all `Nat` lists, a superset of byte strings, so no `< 256` side
condition is ever needed).  Core-only.
-/
namespace Miller

abbrev Bytes := List Nat

namespace Bytes

def hexVal (c : Char) : Nat :=
  if c.isDigit then c.toNat - 48
  else if c.toNat ≥ 97 then c.toNat - 87 else c.toNat - 55

def ofHexChars : List Char → Bytes
  | a :: b :: r => (hexVal a * 16 + hexVal b) :: ofHexChars r
  | _ => []

/-- Decode a hex payload; the single character `-` stands for the empty string. -/
def ofHex (s : String) : Bytes := if s = "-" then [] else ofHexChars s.toList

def hexDigit (n : Nat) : Char := if n < 10 then Char.ofNat (48 + n) else Char.ofNat (87 + n)

def toHex (bs : Bytes) : String :=
  if bs.isEmpty then "-" else String.ofList (bs.flatMap fun b => [hexDigit (b / 16 % 16), hexDigit (b % 16)])

def ofString (s : String) : Bytes := s.toUTF8.toList.map (·.toNat)

/-- ASCII rendering for replay files / messages (non-printables as \xNN). -/
def toAscii (bs : Bytes) : String :=
  String.join (bs.map fun b =>
    if 32 ≤ b ∧ b < 127 ∧ b ≠ 92 then String.singleton (Char.ofNat b)
    else "\\x" ++ String.ofList [hexDigit (b / 16 % 16), hexDigit (b % 16)])

end Bytes

/-- ASCII literal → bytes, usable in theorem statements (`b!"0x"`-style is overkill; plain fn). -/
def str (s : String) : Bytes := s.toList.map Char.toNat

/-- Byte-wise lexical order (Go string comparison). -/
def bytesLt : Bytes → Bytes → Bool
  | [], [] => false
  | [], _ :: _ => true
  | _ :: _, [] => false
  | a :: as, b :: bs => if a < b then true else if a > b then false else bytesLt as bs

end Miller
