/-
Exact models of Go's `strconv.ParseUint(s, base, 64)` / `strconv.ParseInt(s, base, 64)` for an
explicit base in {2, 8, 10, 16} (the only way Miller calls them on the inference path).
With an explicit base Go accepts no prefix and no underscores.  Errors (syntax or range) are
indistinguishable to Miller (`err != nil`), so the result is an `Option`.
-/
import MillerModel.Base.Int64
namespace Miller
namespace Dec

/-- Digit value as in `strconv.ParseUint`: 0-9, a-z, A-Z. -/
def digitVal (c : Nat) : Option Nat :=
  if 48 ≤ c ∧ c ≤ 57 then some (c - 48)
  else if 97 ≤ c ∧ c ≤ 122 then some (c - 97 + 10)
  else if 65 ≤ c ∧ c ≤ 90 then some (c - 65 + 10)
  else none

/-- Left fold of digits in `base`; `none` on a non-digit or a digit `≥ base`. -/
def foldDigits (base : Nat) : Nat → List Nat → Option Nat
  | acc, [] => some acc
  | acc, c :: cs =>
    match digitVal c with
    | some d => if d < base then foldDigits base (acc * base + d) cs else none
    | none => none

/-- Unbounded digit-string value; `none` if empty or malformed. -/
def natOfDigits (base : Nat) (s : List Nat) : Option Nat :=
  if s.isEmpty then none else foldDigits base 0 s

/-- `strconv.ParseUint(s, base, 64)`; `none` = any error. -/
def parseUint (base : Nat) (s : List Nat) : Option Nat :=
  match natOfDigits base s with
  | some n => if n < 18446744073709551616 then some n else none
  | none => none

/-- `strconv.ParseInt(s, base, 64)`; `none` = any error. -/
def parseInt (base : Nat) (s : List Nat) : Option Int :=
  match s with
  | [] => none
  | c :: rest =>
    let neg := c == 45
    let body := if c == 43 || c == 45 then rest else s
    match natOfDigits base body with
    | none => none
    | some n =>
      if neg then (if n ≤ 9223372036854775808 then some (-(Int.ofNat n)) else none)
      else (if n < 9223372036854775808 then some (Int.ofNat n) else none)

end Dec
end Miller
