/-
SPEC for C08: the null-data algebra of reference-main-null-data.md, over operand KINDS
(index = MT_* constant).  Everything here is a finite table predicate evaluated over the
REGENERATED disposition tables.
-/
import MillerModel.Model.Disp
namespace Miller
namespace Spec
namespace NullData
open Gen Disp

/-- Result classes: numbers (int or float) are one class, empty/string one class. -/
inductive RC where
  | num | bool | text | bytes | array | map | func | error | null | absent | unknown
  deriving DecidableEq, Repr, Inhabited

def classOfKind : Nat → RC
  | 0 => .num | 1 => .num | 2 => .bool | 3 => .text | 4 => .text | 5 => .bytes | 6 => .array
  | 7 => .map | 8 => .func | 9 => .error | 10 => .null | 11 => .absent | _ => .unknown

/-- Result class of the unary-minus vector at kind `j` (for `_n2__`). -/
def unegClass (u : List K) (j : Nat) : RC :=
  match cell1 u j with
  | none => .unknown
  | some k => match (kernelSig k).ret with
    | .absent => .absent | .in1 => classOfKind j | .void => .text | .null => .null | .error => .error
    | .intLit _ => .num | .other => .num | _ => .unknown

/-- Result class of cell `(i, j)`; typed kernels of the arithmetic/bitwise tables yield numbers,
of min/max the class of their (equal-class) operands. -/
def resClass (t : List (List K)) (u : List K) (i j : Nat) : RC :=
  match cell2 t i j with
  | none => .unknown
  | some k => match (kernelSig k).ret with
    | .absent => .absent | .in1 => classOfKind i | .in2 => classOfKind j | .void => .text
    | .null => .null | .error => .error | .intLit _ => .num | .float0 => .num
    | .true_ => .bool | .false_ => .bool | .neg2 => unegClass u j | .str1 => .text | .str2 => .text
    | .other => if classOfKind i == classOfKind j then classOfKind i else .num

def kinds : List Nat := List.range 12

/-- Commutative operators give the same result class for `(a,b)` and `(b,a)`. -/
def commutativeOn (t : List (List K)) (u : List K) : Bool :=
  kinds.all fun i => kinds.all fun j => resClass t u i j == resClass t u j i

/-- Pairs violating it (for replay / findings). -/
def nonCommutativePairs (t : List (List K)) (u : List K) : List (Nat × Nat) :=
  kinds.flatMap fun i => kinds.filterMap fun j =>
    if i < j && resClass t u i j != resClass t u j i then some (i, j) else none

/-- What kind of thing a cell returns, for the identity laws. -/
def cellRet (t : List (List K)) (i j : Nat) : Option Ret := (cell2 t i j).map (fun k => (kernelSig k).ret)

/-- Absent is the identity: `absent op x = x`, `x op absent = x` for `x` of kind `k`,
and `absent op absent = absent`. -/
def absentIdentityAt (t : List (List K)) (k : Nat) : Bool :=
  cellRet t 11 k == some .in2 && cellRet t k 11 == some .in1

def absentAbsent (t : List (List K)) : Bool := cellRet t 11 11 == some .absent

/-- An error operand combined with any scalar (int, float, bool, empty, string, error, absent,
JSON-null) yields an error. -/
def scalarKinds : List Nat := [0, 1, 2, 3, 4, 9, 10, 11]
def errorAbsorbs (t : List (List K)) : Bool :=
  scalarKinds.all fun k => cellRet t 9 k == some .error && cellRet t k 9 == some .error

end NullData
end Spec
end Miller
