/-
SPEC for C01: each format's representable domain as an explicit decidable predicate on record
streams, and the round-trip requirement `read (write rs) = rs` on that domain.
-/
import MillerModel.Model.Formats.Csv
import MillerModel.Model.Formats.Tsv
import MillerModel.Model.Formats.Dkvp
namespace Miller
namespace Spec
namespace Repr

def contains (s sub : Bytes) : Bool :=
  if sub.isEmpty then true
  else (List.range (s.length + 1)).any fun i => Split.hasPrefix (s.drop i) sub

def noByte (bs : List Nat) (s : Bytes) : Bool := s.all fun c => !bs.contains c

def uniqueKeys (r : Rec) : Bool := r.keys.eraseDups.length == r.keys.length

def sameKeys (rs : List Rec) : Bool :=
  match rs with
  | [] => true
  | f :: rest => rest.all fun r => r.keys == f.keys

def cells (rs : List Rec) : List Bytes := rs.flatMap fun r => r.flatMap fun p => [p.1, p.2]
def allKeys (rs : List Rec) : List Bytes := rs.flatMap Rec.keys
def allVals (rs : List Rec) : List Bytes := rs.flatMap Rec.vals

/-- Valid UTF-8 (well-formed sequences incl. overlong/surrogate exclusion as Go's decoder does). -/
def validUtf8 : Bytes → Bool
  | [] => true
  | c :: r =>
    if c < 0x80 then validUtf8 r
    else if 0xC2 ≤ c && c ≤ 0xDF then
      (match r with | d :: r2 => (0x80 ≤ d && d ≤ 0xBF) && validUtf8 r2 | _ => false)
    else if 0xE0 ≤ c && c ≤ 0xEF then
      (match r with
       | d :: e :: r2 =>
         let lo := if c == 0xE0 then 0xA0 else 0x80
         let hi := if c == 0xED then 0x9F else 0xBF
         (lo ≤ d && d ≤ hi) && (0x80 ≤ e && e ≤ 0xBF) && validUtf8 r2
       | _ => false)
    else if 0xF0 ≤ c && c ≤ 0xF4 then
      (match r with
       | d :: e :: f :: r2 =>
         let lo := if c == 0xF0 then 0x90 else 0x80
         let hi := if c == 0xF4 then 0x8F else 0xBF
         (lo ≤ d && d ≤ hi) && (0x80 ≤ e && e ≤ 0xBF) && (0x80 ≤ f && f ≤ 0xBF) && validUtf8 r2
       | _ => false)
    else false

/-- CSV: non-empty rectangular stream with unique, non-empty key list; in LF mode no cell contains
CR LF (the reader normalises it), in CRLF mode no cell contains CR (the writer drops it); the
separator is an ASCII byte other than `"`, CR, LF. -/
def csv (o : Csv.WOpts) (rs : List Rec) : Bool :=
  sameKeys rs && rs.all (fun r => !r.isEmpty && uniqueKeys r) &&
  (cells rs).all (fun c => if o.crlf then noByte [13] c else !contains c [13, 10])

/-- TSV: rectangular, unique non-empty key list, valid UTF-8 cells; a one-column record whose only
value is empty is written as an empty line, which the reader takes for zero fields (finding
tsv-empty-line), so it is excluded here and reported separately. -/
def tsv (rs : List Rec) : Bool :=
  sameKeys rs && rs.all (fun r => !r.isEmpty && uniqueKeys r) && (cells rs).all validUtf8

def tsvEmptyLine (rs : List Rec) : Bool :=
  rs.any fun r => r.length == 1 && (r.vals.all List.isEmpty || r.keys.all List.isEmpty)

/-- DKVP with string separators: unique keys; no key contains IFS, IPS or a line end; no value
contains IFS or a line end; joining must not create a separator across a boundary (guaranteed
here by requiring single-byte separators or separator-free cells). -/
def dkvp (o : Dkvp.Opts) (rs : List Rec) : Bool :=
  rs.all (fun r => uniqueKeys r) &&
  (allKeys rs).all (fun k => !contains k o.ifs && !contains k o.ips && noByte [10, 13] k) &&
  (allVals rs).all (fun v => !contains v o.ifs && noByte [10, 13] v) &&
  -- a pair "k<ips>v" must be non-empty as a whole; a field with empty key AND empty value and
  -- multi-byte separators could merge: keep separators single-byte or cells free of their bytes
  (o.ifs.length == 1 && o.ips.length == 1 ||
    (cells rs).all (fun c => noByte (o.ifs ++ o.ips) c))

/-- RFC 8259 number grammar: `-?(0|[1-9][0-9]*)(\.[0-9]+)?([eE][+-]?[0-9]+)?`. -/
def isDigit (c : Nat) : Bool := 48 ≤ c && c ≤ 57
def jsonNumber (s : Bytes) : Bool :=
  let s1 := match s with | 45 :: r => r | _ => s
  let (ip, r1) := (s1.takeWhile isDigit, s1.dropWhile isDigit)
  let ipOk := !ip.isEmpty && (ip.length == 1 || ip.head? != some 48)
  let (fracOk, r2) := match r1 with
    | 46 :: r => let f := r.takeWhile isDigit; (!f.isEmpty, r.dropWhile isDigit)
    | _ => (true, r1)
  let expOk := match r2 with
    | [] => true
    | c :: r =>
      if c == 101 || c == 69 then
        let r' := match r with | 43 :: t => t | 45 :: t => t | _ => r
        !r'.isEmpty && r'.all isDigit
      else false
  ipOk && fracOk && expOk

end Repr
end Spec
end Miller
