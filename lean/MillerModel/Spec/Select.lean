/-
SPEC for C11: what the record-selecting verbs are documented to do, written over whole lists
with no state: a record is kept or dropped according to the records before (or after) it.
-/
import MillerModel.Model.Verbs.Select
namespace Miller
namespace Spec
namespace Select
open Verbs

/-- Keep `r` iff `keep (records before r) r`. -/
def filterHist (keep : List Rec → Rec → Bool) : List Rec → List Rec → List Rec
  | _, [] => []
  | pre, r :: rest => (if keep pre r then [r] else []) ++ filterHist keep (pre ++ [r]) rest

/-- Number of records in `pre` that have the same (defined) grouping key `k`. -/
def cnt (fields : List Bytes) (pre : List Rec) (k : Bytes) : Nat :=
  (pre.filter (fun x => groupKey fields x == some k)).length

/-- head -n k [-g fields]: kept iff it has the group-by fields and fewer than k earlier records
share its key. -/
def head (n : Nat) (fields : List Bytes) (xs : List Rec) : List Rec :=
  filterHist (fun pre r => match groupKey fields r with
    | none => false | some k => decide (cnt fields pre k < n)) [] xs

/-- tail -n +k: kept iff at least `skip` earlier records share its key. -/
def tailFrom (skip : Nat) (fields : List Bytes) (xs : List Rec) : List Rec :=
  filterHist (fun pre r => match groupKey fields r with
    | none => false | some k => decide (cnt fields pre k ≥ skip)) [] xs

/-- decimate -n k: kept iff (number of earlier records of its group) mod k is the remainder. -/
def decimate (n rem : Nat) (fields : List Bytes) (xs : List Rec) : List Rec :=
  filterHist (fun pre r => match groupKey fields r with
    | none => false | some k => cnt fields pre k % n == rem) [] xs

/-- Distinct grouping keys in first-appearance order. -/
def addKey (acc : List Bytes) (k : Bytes) : List Bytes := if acc.contains k then acc else acc ++ [k]
def distinctKeys (fields : List Bytes) (xs : List Rec) : List Bytes :=
  (xs.filterMap (groupKey fields)).foldl addKey []

/-- group-by: groups in first-appearance order, input order within each; key-less records dropped. -/
def groupBy (fields : List Bytes) (xs : List Rec) : List Rec :=
  (distinctKeys fields xs).flatMap fun k => xs.filter (fun x => groupKey fields x == some k)

/-- tail -n k: the last k of each group, groups in first-appearance order. -/
def tail (n : Nat) (fields : List Bytes) (xs : List Rec) : List Rec :=
  (distinctKeys fields xs).flatMap fun k =>
    let g := xs.filter (fun x => groupKey fields x == some k)
    g.drop (g.length - n)

/-- cat -n -g: each record gets 1 + the number of earlier records of its group. -/
def catN (name : Bytes) (fields : List Bytes) (xs : List Rec) : List Rec :=
  let rec go (pre : List Rec) : List Rec → List Rec
    | [] => []
    | r :: rest =>
      let c := match groupKey fields r with
        | some k => cnt fields pre k + 1
        | none => (pre.filter (fun x => groupKey fields x == none)).length + 1
      prepend r name (Split.itoa c) :: go (pre ++ [r]) rest
  go [] xs

end Select
end Spec
end Miller
