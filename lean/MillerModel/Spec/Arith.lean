/-
SPEC for C07: exact integer arithmetic with "fits in 64 bits, else float", floor division,
divisor-sign modulus, exact modular arithmetic.  No wrap-around anywhere in this file.
-/
import MillerModel.Model.Arith
namespace Miller
namespace Spec
namespace Arith
open Miller.Arith (fi)

/-- The exact integer if it fits in 64 bits, otherwise the float `f`. -/
def exactOrFloat (x : Int) (f : Nat) : Val := if fitsI64 x then .int x else .float f

def plus (a b : Int) : Val := exactOrFloat (a + b) (F64.add (fi a) (fi b))
def minus (a b : Int) : Val := exactOrFloat (a - b) (F64.sub (fi a) (fi b))
def times (a b : Int) : Val := exactOrFloat (a * b) (F64.mul (fi a) (fi b))

/-- `/`: the exact integer quotient when one exists (and fits), a float otherwise;
division by zero is the IEEE quotient of the converted operands (±Inf/NaN). -/
def divide (a b : Int) : Val :=
  if b = 0 then .float (F64.div (fi a) (fi b))
  else if a % b = 0 then exactOrFloat (a / b) (F64.div (fi a) (fi b))
  else .float (F64.div (fi a) (fi b))

/-- `//`: floor division. -/
def intDivide (a b : Int) : Val :=
  if b = 0 then .float (F64.div (fi a) (fi b))
  else exactOrFloat (Int.fdiv a b) (F64.div (fi a) (fi b))

/-- `%`: remainder with the sign of the divisor (`a = b*(a // b) + a % b`). -/
def modulus (a b : Int) : Val :=
  if b = 0 then .float (F64.div (fi a) (fi b))
  else .int (Int.fmod a b)

/-- Exact modular arithmetic for a positive modulus; zero modulus is an error value. -/
def madd (a b m : Int) : Val := if m = 0 then .error else .int ((a + b) % m)
def msub (a b m : Int) : Val := if m = 0 then .error else .int ((a - b) % m)
def mmul (a b m : Int) : Val := if m = 0 then .error else .int ((a * b) % m)
def mexp (a e m : Int) : Val :=
  if e < 0 then .error else if m = 0 then .error else .int ((a ^ e.toNat) % m)

/-- int ** int: exact when the exponent is non-negative and the power fits in 64 bits. -/
def powExact (a b : Int) : Option Int :=
  if a == 1 then some 1
  else if a == -1 then some (if b % 2 == 0 then 1 else -1)
  else if b < 0 then none
  else if a == 0 then some (if b != 0 then 0 else 1)
  else if b > 64 then none
  else let p := a ^ b.toNat; if fitsI64 p then some p else none

end Arith
end Spec
end Miller
