/-
SPEC for C06: the documented number grammar, written declaratively (sign split + character
class predicates + digit folds), independent of the hand-written state machine in pkg/scan and
of the inferrer tables.  `classify` is what the property statement says a field text means.
-/
import MillerModel.Model.Infer
namespace Miller
namespace Spec
namespace NumberGrammar
open Infer (Inferred Flag)
open Scan (ScanType)

def isDec (c : Nat) : Bool := decide (48 ≤ c ∧ c ≤ 57)
def isOct (c : Nat) : Bool := decide (48 ≤ c ∧ c ≤ 55)
def isBin (c : Nat) : Bool := decide (48 ≤ c ∧ c ≤ 49)
def isHex (c : Nat) : Bool := decide ((48 ≤ c ∧ c ≤ 57) ∨ (65 ≤ c ∧ c ≤ 70) ∨ (97 ≤ c ∧ c ≤ 102))
/-- Characters that may occur in a decimal float: digits, `.`, `+`, `-`, `e`, `E`. -/
def isFloatChar (c : Nat) : Bool := isDec c || c == 46 || c == 43 || c == 45 || c == 101 || c == 69

def digitVal (c : Nat) : Nat := if c ≤ 57 then c - 48 else if c ≥ 97 then c - 87 else c - 55

/-- Value of a digit string in `base` (no validation; callers establish the class first). -/
def value (base : Nat) (ds : Bytes) : Nat := ds.foldl (fun a c => a * base + digitVal c) 0

/-- Split one optional leading sign: `(negative?, rest)`. -/
def splitSign : Bytes → Bool × Bytes
  | 45 :: r => (true, r)
  | 43 :: r => (false, r)
  | s => (false, s)

def hasSign : Bytes → Bool
  | 45 :: _ => true
  | 43 :: _ => true
  | _ => false

def signed (neg : Bool) (n : Nat) : Int := if neg then -(Int.ofNat n) else Int.ofNat n

/-- The syntactic category of a field text, as a grammar:
```
decimal      : sign? ( [0-9] | [1-9][0-9]+ )
lz-octal     : sign? 0[0-7]+
lz-decimal   : sign? 0[0-9]+            (not all octal)
hex          : sign? 0[xX][0-9a-fA-F]+
octal        : sign? 0[oO][0-7]+
binary       : sign? 0[bB][01]+
float?       : ( sign? [0-9.] | '.' ) over [0-9.+-eE]*   (not one of the above, not "." alone)
string       : everything else
```
-/
def scanClass (s : Bytes) : ScanType :=
  let body := (splitSign s).2
  match body with
  | [] => .string
  | b0 :: rest =>
    if isDec b0 then
      if rest.isEmpty then .decimalInt
      else if b0 == 48 then
        match rest with
        | [] => .decimalInt
        | b1 :: ds =>
          if b1 == 120 || b1 == 88 then (if !ds.isEmpty && ds.all isHex then .hexInt else .string)
          else if b1 == 111 || b1 == 79 then (if !ds.isEmpty && ds.all isOct then .octalInt else .string)
          else if b1 == 98 || b1 == 66 then (if !ds.isEmpty && ds.all isBin then .binaryInt else .string)
          else if rest.all isOct then .lzOctalInt
          else if rest.all isDec then .lzDecimalInt
          else if body.all isFloatChar then .maybeFloat else .string
      else if body.all isDec then .decimalInt
      else if body.all isFloatChar then .maybeFloat else .string
    else if b0 == 46 then
      -- a lone "." (unsigned) is a string; otherwise float characters only
      if !hasSign s && rest.isEmpty then .string
      else if body.all isFloatChar then .maybeFloat else .string
    else .string

/-- `setFromString`: empty text is the empty value, anything else a string. -/
def strOrVoid (s : Bytes) : Inferred := if s.isEmpty then .void else .string

/-- Body of a prefixed integer: the digits after `sign? 0[xXoObB]`. -/
def prefixedDigits (s : Bytes) : Bytes := ((splitSign s).2).drop 2

/-- What a field text means under the documented grammar (property C06).
`intAsFloat`/`octal`/`stringOnly` are the `-A`/`-O`/`-S` flags. -/
def classify (f : Flag) (s : Bytes) : Inferred :=
  if f == .stringOnly then strOrVoid s
  else
    let neg := (splitSign s).1
    let body := (splitSign s).2
    let asInt (v : Int) : Inferred := if f == .intAsFloat then .float (F64.ofInt v) else .int v
    /- an integer numeral of magnitude `n`: the int64 if it fits, else the nearest double
       (`roundDecimal neg n 0` = correctly rounded value of ±n·10^0, ±Inf beyond the range) -/
    let intOrFloat (n : Nat) : Inferred :=
      if fitsI64 (signed neg n) then asInt (signed neg n) else .float (ParseFloat.roundDecimal neg n 0)
    match scanClass s with
    | .string => strOrVoid s
    | .decimalInt => intOrFloat (value 10 body)
    | .lzDecimalInt => if f == .octal then intOrFloat (value 10 body) else .string
    | .lzOctalInt => if f == .octal then intOrFloat (value 8 body) else .string
    | .hexInt =>
      let ds := prefixedDigits s
      let n := value 16 ds
      -- 16 hex digits from 0x8… upward: two's-complement negative
      if ds.length == 16 && n ≥ 9223372036854775808 then
        asInt (if neg then wrap (-(u2i n)) else u2i n)
      else intOrFloat n
    | .octalInt => intOrFloat (value 8 (prefixedDigits s))
    | .binaryInt => intOrFloat (value 2 (prefixedDigits s))
    | .maybeFloat =>
      match ParseFloat.parseSat s with
      | some b => .float b
      | none => .string

/-- Classes of inputs on which the pinned code is known to deviate from `classify`
(the exclusion predicate of `infer_eq_classify_partial`; each class has a counterexample theorem
and an entry in known_findings.json or a `fix:` commit). -/
inductive Finding where
  | lzIntOverflow          -- (-O) leading-zero numeral outside int64
  | prefixedIntOverflow    -- 0x/0o/0b numeral of magnitude ≥ 2^63 (other than 16-digit two's-complement hex)
  | floatOverflow          -- float syntax (or a decimal integer numeral) whose value overflows a double
  deriving DecidableEq, Repr

def Finding.name : Finding → String
  | .lzIntOverflow => "lz-int-overflow"
  | .prefixedIntOverflow => "prefixed-int-overflow"
  | .floatOverflow => "float-overflow"

def findingClass (f : Flag) (s : Bytes) : Option Finding :=
  let neg := (splitSign s).1
  let body := (splitSign s).2
  let big (n : Nat) : Bool := !fitsI64 (signed neg n)
  if f == .stringOnly then none else
  match scanClass s with
  | .decimalInt =>
    if big (value 10 body) && F64.isInf (ParseFloat.roundDecimal neg (value 10 body) 0) then some .floatOverflow else none
  | .lzDecimalInt => if f == .octal && big (value 10 body) then some .lzIntOverflow else none
  | .lzOctalInt => if f == .octal && big (value 8 body) then some .lzIntOverflow else none
  | .hexInt =>
    let ds := prefixedDigits s
    let n := value 16 ds
    if ds.length == 16 && n ≥ 9223372036854775808 then none
    else if n ≥ 9223372036854775808 then some .prefixedIntOverflow else none
  | .octalInt => if value 8 (prefixedDigits s) ≥ 9223372036854775808 then some .prefixedIntOverflow else none
  | .binaryInt => if value 2 (prefixedDigits s) ≥ 9223372036854775808 then some .prefixedIntOverflow else none
  | .maybeFloat =>
    match ParseFloat.parseSat s with
    | some b => if F64.isInf b then some .floatOverflow else none
    | none => none
  | .string => none

end NumberGrammar
end Spec
end Miller
