import MillerModel.Spec.Select
set_option linter.unusedSimpArgs false
namespace Miller
namespace Lemmas.C11
open Verbs Spec.Select

/-! ### ordered-map laws -/

theorem find_map_same {α} (m : OMap α) (k : Bytes) (v : α) (h : m.any (·.1 == k) = true) :
    ((m.map (fun p => if p.1 == k then (k, v) else p)).find? (·.1 == k)).map (·.2) = some v := by
  induction m with
  | nil => simp at h
  | cons p rest ih =>
    by_cases hp : (p.1 == k) = true
    · simp only [List.map_cons, hp, if_true, List.find?_cons, beq_self_eq_true, Option.map_some]
    · have hp' : (p.1 == k) = false := by simpa using hp
      simp only [List.any_cons, hp', Bool.false_or] at h
      simp only [List.map_cons, hp', Bool.false_eq_true, if_false, List.find?_cons, hp']
      exact ih h

theorem find_none_of_any_false {α} (m : OMap α) (k : Bytes) (h : m.any (·.1 == k) = false) :
    m.find? (·.1 == k) = none := by
  induction m with
  | nil => rfl
  | cons p rest ih =>
    simp only [List.any_cons, Bool.or_eq_false_iff] at h
    simp only [List.find?_cons, h.1]
    exact ih h.2

theorem get_put_same {α} (m : OMap α) (k : Bytes) (v : α) : (m.put k v).get? k = some v := by
  unfold OMap.put OMap.get?
  by_cases h : m.any (·.1 == k) = true
  · simp only [h, if_true]; exact find_map_same m k v h
  · have h' : m.any (·.1 == k) = false := Bool.eq_false_iff.mpr h
    simp only [h', Bool.false_eq_true, if_false]
    rw [List.find?_append, find_none_of_any_false m k h']
    simp

theorem find_map_other {α} (m : OMap α) (k k' : Bytes) (v : α) (hne : k' ≠ k) :
    ((m.map (fun p => if p.1 == k then (k, v) else p)).find? (·.1 == k')) = m.find? (·.1 == k') := by
  induction m with
  | nil => rfl
  | cons p rest ih =>
    by_cases hp : (p.1 == k) = true
    · have hpk : p.1 = k := by simpa using hp
      have h1 : (k == k') = false := by simp; exact fun h => hne h.symm
      have h2 : (p.1 == k') = false := by rw [hpk]; exact h1
      simp only [List.map_cons, hp, if_true, List.find?_cons, h1, h2]
      exact ih
    · have hp' : (p.1 == k) = false := by simpa using hp
      simp only [List.map_cons, hp', Bool.false_eq_true, if_false, List.find?_cons]
      cases hq : (p.1 == k') with
      | true => rfl
      | false => exact ih

theorem get_put_other {α} (m : OMap α) (k k' : Bytes) (v : α) (hne : k' ≠ k) :
    (m.put k v).get? k' = m.get? k' := by
  unfold OMap.put OMap.get?
  by_cases h : m.any (·.1 == k) = true
  · simp only [h, if_true, find_map_other m k k' v hne]
  · have h' : m.any (·.1 == k) = false := Bool.eq_false_iff.mpr h
    simp only [h', Bool.false_eq_true, if_false]
    rw [List.find?_append]
    have h1 : (k == k') = false := by simp; exact fun h => hne h.symm
    cases hf : m.find? (·.1 == k') with
    | none => simp [List.find?_cons, h1]
    | some x => simp

/-! ### counting machines -/

/-- The state of a counting verb after consuming `pre`: every key's counter is the number of
records of `pre` with that key. -/
def CountInv (fields : List Bytes) (m : OMap Nat) (pre : List Rec) : Prop :=
  ∀ k, (m.get? k).getD 0 = cnt fields pre k

theorem cnt_append_same (fields : List Bytes) (pre : List Rec) (r : Rec) (k : Bytes)
    (h : groupKey fields r = some k) : cnt fields (pre ++ [r]) k = cnt fields pre k + 1 := by
  simp [cnt, List.filter_append, h]

theorem cnt_append_other (fields : List Bytes) (pre : List Rec) (r : Rec) (k : Bytes)
    (h : groupKey fields r ≠ some k) : cnt fields (pre ++ [r]) k = cnt fields pre k := by
  have : (groupKey fields r == some k) = false := by simpa using h
  simp [cnt, List.filter_append, this]

theorem countInv_step (fields : List Bytes) (m : OMap Nat) (pre : List Rec) (r : Rec) (k : Bytes)
    (hk : groupKey fields r = some k) (h : CountInv fields m pre) :
    CountInv fields (m.put k ((m.get? k).getD 0 + 1)) (pre ++ [r]) := by
  intro k'
  by_cases he : k' = k
  · subst he; rw [get_put_same, cnt_append_same fields pre r k' hk, ← h k']; rfl
  · rw [get_put_other m k k' _ he, cnt_append_other fields pre r k' (by rw [hk]; simpa using fun h => he h.symm)]
    exact h k'

theorem countInv_skip (fields : List Bytes) (m : OMap Nat) (pre : List Rec) (r : Rec)
    (hk : groupKey fields r = none) (h : CountInv fields m pre) : CountInv fields m (pre ++ [r]) := by
  intro k; rw [cnt_append_other fields pre r k (by rw [hk]; simp)]; exact h k

/-- Generic theorem for the counting verbs (head -g, tail -n +k, decimate): a machine that keeps
per-key counters and decides on `decideKeep (count before)` equals the history filter. -/
theorem counting_machine (fields : List Bytes) (decideKeep : Nat → Bool)
    (M : Machine (OMap Nat))
    (hstep : ∀ m r, M.step m r =
      match groupKey fields r with
      | none => (m, [])
      | some k => (m.put k ((m.get? k).getD 0 + 1), if decideKeep ((m.get? k).getD 0) then [r] else []))
    (hfin : ∀ m, M.finish m = [])
    (m : OMap Nat) (pre rest : List Rec) (hinv : CountInv fields m pre) :
    M.runFrom m rest =
      filterHist (fun pre r => match groupKey fields r with
        | none => false | some k => decideKeep (cnt fields pre k)) pre rest := by
  induction rest generalizing m pre with
  | nil => simp [Machine.runFrom, hfin, filterHist]
  | cons r rest ih =>
    cases hk : groupKey fields r with
    | none =>
      have hs : M.step m r = (m, []) := by rw [hstep, hk]
      simp only [Machine.runFrom, hs, filterHist, hk, Bool.false_eq_true, if_false, List.nil_append]
      exact ih m (pre ++ [r]) (countInv_skip fields m pre r hk hinv)
    | some k =>
      have hs : M.step m r = (m.put k ((m.get? k).getD 0 + 1), if decideKeep ((m.get? k).getD 0) then [r] else []) := by
        rw [hstep, hk]
      have hstepinv := countInv_step fields m pre r k hk hinv
      simp only [Machine.runFrom, hs, filterHist, hk, hinv k] at hstepinv ⊢
      rw [ih _ (pre ++ [r]) hstepinv]


theorem headUnkeyed_runFrom (n c : Nat) (xs : List Rec) :
    (headUnkeyed n).runFrom c xs = xs.take (n - c) := by
  induction xs generalizing c with
  | nil => simp [Machine.runFrom, headUnkeyed]
  | cons r rest ih =>
    simp only [Machine.runFrom, headUnkeyed] at ih ⊢
    by_cases h : c + 1 ≤ n
    · have : n - c = (n - (c + 1)) + 1 := by omega
      simp only [h, if_true, this, List.take_succ_cons, List.singleton_append]
      rw [ih (c + 1)]
    · have : n - c = 0 := by omega
      simp only [h, if_false, this, List.take_zero, List.nil_append]
      rw [ih (c + 1)]
      have : n - (c + 1) = 0 := by omega
      simp [this]

theorem tac_runFrom (acc xs : List Rec) : tac.runFrom acc xs = (acc ++ xs).reverse := by
  induction xs generalizing acc with
  | nil => simp [Machine.runFrom, tac]
  | cons r rest ih =>
    simp only [Machine.runFrom, tac] at ih ⊢
    simp only [List.nil_append]
    rw [ih (acc ++ [r])]; simp

/-- The state of a grouping verb after consuming `pre`. -/
structure GroupInv (fields : List Bytes) (m : OMap (List Rec)) (pre : List Rec) : Prop where
  keys : m.map (·.1) = distinctKeys fields pre
  vals : ∀ p ∈ m, p.2 = pre.filter (fun x => groupKey fields x == some p.1)
  nodup : (m.map (·.1)).Nodup


/-- Generic grouping machine over an arbitrary key function. -/
def groupMachine (keyOf : Rec → Option Bytes) : Machine (OMap (List Rec)) where
  init := []
  step := fun m r =>
    match keyOf r with
    | none => (m, [])
    | some k => (m.put k ((m.get? k).getD [] ++ [r]), [])
  finish := fun m => (m.map (·.2)).flatten

def dkeys (keyOf : Rec → Option Bytes) (xs : List Rec) : List Bytes := (xs.filterMap keyOf).foldl addKey []
def grp (keyOf : Rec → Option Bytes) (xs : List Rec) (k : Bytes) : List Rec := xs.filter (fun x => keyOf x == some k)

structure GInv (keyOf : Rec → Option Bytes) (m : OMap (List Rec)) (pre : List Rec) : Prop where
  keys : m.map (·.1) = dkeys keyOf pre
  vals : ∀ p ∈ m, p.2 = grp keyOf pre p.1
  nodup : (m.map (·.1)).Nodup
  absent : ∀ k, k ∉ m.map (·.1) → grp keyOf pre k = []

theorem dkeys_append_some (keyOf : Rec → Option Bytes) (pre : List Rec) (r : Rec) (k : Bytes)
    (h : keyOf r = some k) : dkeys keyOf (pre ++ [r]) = addKey (dkeys keyOf pre) k := by
  simp [dkeys, List.filterMap_append, h, List.foldl_append]

theorem dkeys_append_none (keyOf : Rec → Option Bytes) (pre : List Rec) (r : Rec)
    (h : keyOf r = none) : dkeys keyOf (pre ++ [r]) = dkeys keyOf pre := by
  simp [dkeys, List.filterMap_append, h]

theorem grp_append_same (keyOf : Rec → Option Bytes) (pre : List Rec) (r : Rec) (k : Bytes)
    (h : keyOf r = some k) : grp keyOf (pre ++ [r]) k = grp keyOf pre k ++ [r] := by
  simp [grp, List.filter_append, h]

theorem grp_append_other (keyOf : Rec → Option Bytes) (pre : List Rec) (r : Rec) (k : Bytes)
    (h : keyOf r ≠ some k) : grp keyOf (pre ++ [r]) k = grp keyOf pre k := by
  have : (keyOf r == some k) = false := by simpa using h
  simp [grp, List.filter_append, this]

theorem any_iff_mem_keys {α} (m : OMap α) (k : Bytes) : m.any (·.1 == k) = true ↔ k ∈ m.map (·.1) := by
  simp only [List.any_eq_true, beq_iff_eq, List.mem_map]

theorem ginv_step (keyOf : Rec → Option Bytes) (m : OMap (List Rec)) (pre : List Rec) (r : Rec) (k : Bytes)
    (hk : keyOf r = some k) (h : GInv keyOf m pre) :
    GInv keyOf (m.put k ((m.get? k).getD [] ++ [r])) (pre ++ [r]) := by
  by_cases hin : m.any (·.1 == k) = true
  · -- existing group: value replaced in place
    have hmem : k ∈ m.map (·.1) := (any_iff_mem_keys m k).mp hin
    have hkeys : (m.map (fun p => if p.1 == k then (k, (m.get? k).getD [] ++ [r]) else p)).map (·.1) = m.map (·.1) := by
      rw [List.map_map]; apply List.map_congr_left; intro p _
      by_cases hp : (p.1 == k) = true
      · simp only [Function.comp, hp, if_true]; exact (by simpa using hp : p.1 = k).symm
      · simp only [Function.comp, hp, Bool.false_eq_true, if_false]
    have hget : (m.get? k).getD [] = grp keyOf pre k := by
      unfold OMap.get?
      cases hf : m.find? (·.1 == k) with
      | none =>
        have := List.find?_eq_none.mp hf
        obtain ⟨p, hp, he⟩ := List.any_eq_true.mp hin
        exact absurd he (this p hp)
      | some p =>
        have hp := List.mem_of_find?_eq_some hf
        have hpk : p.1 = k := by simpa using List.find?_some hf
        simp only [Option.map_some, Option.getD_some]
        rw [h.vals p hp, hpk]
    unfold OMap.put
    simp only [hin, if_true]
    refine ⟨?_, ?_, ?_, ?_⟩
    · rw [hkeys, h.keys, dkeys_append_some keyOf pre r k hk]
      unfold addKey
      have : (dkeys keyOf pre).contains k = true := by rw [← h.keys]; simpa using hmem
      simp only [this, if_true]
    · intro p hp
      obtain ⟨q, hq, rfl⟩ := List.mem_map.mp hp
      by_cases hqk : (q.1 == k) = true
      · simp only [hqk, if_true]
        rw [grp_append_same keyOf pre r k hk, hget]
      · simp only [hqk, Bool.false_eq_true, if_false]
        have hne : keyOf r ≠ some q.1 := by rw [hk]; intro he; simp at he; simp [he] at hqk
        rw [grp_append_other keyOf pre r q.1 hne]; exact h.vals q hq
    · rw [hkeys]; exact h.nodup
    · intro k' hk'
      rw [hkeys] at hk'
      have hne : keyOf r ≠ some k' := by rw [hk]; intro he; simp at he; rw [← he] at hk'; exact hk' hmem
      rw [grp_append_other keyOf pre r k' hne]; exact h.absent k' hk'
  · -- new group appended
    have hin' : m.any (·.1 == k) = false := Bool.eq_false_iff.mpr hin
    have hnmem : k ∉ m.map (·.1) := fun hm => hin ((any_iff_mem_keys m k).mpr hm)
    have hget : (m.get? k).getD [] = [] := by
      unfold OMap.get?; rw [find_none_of_any_false m k hin']; rfl
    unfold OMap.put
    simp only [hin', Bool.false_eq_true, if_false, hget, List.nil_append]
    refine ⟨?_, ?_, ?_, ?_⟩
    · rw [List.map_append, h.keys, dkeys_append_some keyOf pre r k hk]
      unfold addKey
      have : (dkeys keyOf pre).contains k = false := by
        rw [← h.keys]; simpa using hnmem
      simp only [this, Bool.false_eq_true, if_false, List.map_cons, List.map_nil]
    · intro p hp
      rcases List.mem_append.mp hp with hp | hp
      · have hne : keyOf r ≠ some p.1 := by
          rw [hk]; intro he; simp at he
          exact hnmem (by rw [he]; exact List.mem_map.mpr ⟨p, hp, rfl⟩)
        rw [grp_append_other keyOf pre r p.1 hne]; exact h.vals p hp
      · simp only [List.mem_singleton] at hp; subst hp
        simp only
        rw [grp_append_same keyOf pre r k hk, h.absent k hnmem]; rfl
    · rw [List.map_append]
      apply List.nodup_append.mpr
      refine ⟨h.nodup, by simp, ?_⟩
      intro a ha b hb
      simp only [List.map_cons, List.map_nil, List.mem_singleton] at hb
      subst hb; intro he; subst he; exact hnmem ha
    · intro k' hk'
      simp only [List.map_append, List.map_cons, List.map_nil, List.mem_append, List.mem_singleton, not_or] at hk'
      have hne : keyOf r ≠ some k' := by rw [hk]; intro he; simp at he; exact hk'.2 he.symm
      rw [grp_append_other keyOf pre r k' hne]; exact h.absent k' hk'.1

theorem ginv_skip (keyOf : Rec → Option Bytes) (m : OMap (List Rec)) (pre : List Rec) (r : Rec)
    (hk : keyOf r = none) (h : GInv keyOf m pre) : GInv keyOf m (pre ++ [r]) := by
  have hne : ∀ k, keyOf r ≠ some k := by intro k; rw [hk]; simp
  exact ⟨by rw [dkeys_append_none keyOf pre r hk]; exact h.keys,
         fun p hp => by rw [grp_append_other keyOf pre r p.1 (hne _)]; exact h.vals p hp,
         h.nodup,
         fun k hk' => by rw [grp_append_other keyOf pre r k (hne _)]; exact h.absent k hk'⟩


theorem group_runFrom (keyOf : Rec → Option Bytes) (m : OMap (List Rec)) (pre rest : List Rec)
    (h : GInv keyOf m pre) :
    (groupMachine keyOf).runFrom m rest
      = (dkeys keyOf (pre ++ rest)).flatMap (grp keyOf (pre ++ rest)) := by
  induction rest generalizing m pre with
  | nil =>
    simp only [Machine.runFrom, groupMachine, List.append_nil]
    rw [← h.keys, List.flatMap_def, List.map_map]
    congr 1
    apply List.map_congr_left
    intro p hp
    exact h.vals p hp
  | cons r rest ih =>
    cases hk : keyOf r with
    | none =>
      have hs : (groupMachine keyOf).step m r = (m, []) := by simp [groupMachine, hk]
      simp only [Machine.runFrom, hs, List.nil_append]
      rw [ih m (pre ++ [r]) (ginv_skip keyOf m pre r hk h)]; simp
    | some k =>
      have hs : (groupMachine keyOf).step m r = (m.put k ((m.get? k).getD [] ++ [r]), []) := by
        simp [groupMachine, hk]
      simp only [Machine.runFrom, hs, List.nil_append]
      rw [ih _ (pre ++ [r]) (ginv_step keyOf m pre r k hk h)]; simp

theorem ginv_init (keyOf : Rec → Option Bytes) : GInv keyOf [] [] :=
  ⟨rfl, by simp, by simp, by simp [grp]⟩

theorem groupBy_eq (fields : List Bytes) (xs : List Rec) :
    (Verbs.groupBy fields).run xs = Spec.Select.groupBy fields xs := by
  have h := group_runFrom (groupKey fields) [] [] xs (ginv_init _)
  simp only [List.nil_append] at h
  exact h

theorem groupLike_eq (xs : List Rec) :
    Verbs.groupLike.run xs =
      (dkeys (fun r => some (joinKey r.keys)) xs).flatMap
        (grp (fun r => some (joinKey r.keys)) xs) := by
  have h := group_runFrom (fun r => some (joinKey r.keys)) [] [] xs (ginv_init _)
  simp only [List.nil_append] at h
  exact h


/-! ### history filters -/

theorem filterHist_sublist (keep : List Rec → Rec → Bool) (pre xs : List Rec) :
    List.Sublist (filterHist keep pre xs) xs := by
  induction xs generalizing pre with
  | nil => simp [filterHist]
  | cons r rest ih =>
    simp only [filterHist]
    by_cases h : keep pre r = true
    · simp only [h, if_true, List.singleton_append]; exact (ih _).cons_cons r
    · simp only [h, Bool.false_eq_true, if_false, List.nil_append]; exact (ih _).cons r

theorem filterHist_partition (p q : List Rec → Rec → Bool) (hdisj : ∀ pre r, ¬ (p pre r = true ∧ q pre r = true))
    (pre xs : List Rec) :
    (filterHist p pre xs).length + (filterHist q pre xs).length
      = (filterHist (fun pre r => p pre r || q pre r) pre xs).length := by
  induction xs generalizing pre with
  | nil => simp [filterHist]
  | cons r rest ih =>
    simp only [filterHist, List.length_append]
    have := ih (pre ++ [r])
    have hd := hdisj pre r
    by_cases hp : p pre r = true <;> by_cases hq : q pre r = true
    · exact absurd ⟨hp, hq⟩ hd
    · simp only [hp, hq, if_true, Bool.true_or, Bool.false_eq_true, if_false, List.length_cons, List.length_nil]; omega
    · simp only [hp, hq, if_true, Bool.or_true, Bool.false_eq_true, if_false, List.length_cons, List.length_nil]; omega
    · have hp' : p pre r = false := Bool.eq_false_iff.mpr hp
      have hq' : q pre r = false := Bool.eq_false_iff.mpr hq
      simp only [hp', hq', Bool.or_false, Bool.false_eq_true, if_false, List.length_nil]; omega

/-! ### the grouping key is injective -/

/-- Decoder of `joinKey`: `cur` is the component being read. -/
def decKey : Bytes → Bytes → List Bytes
  | [], cur => [cur]
  | c :: rest, cur =>
    if c = 92 then
      match rest with
      | d :: rest' => decKey rest' (cur ++ [d])
      | [] => [cur ++ [92]]
    else if c = 44 then cur :: decKey rest []
    else decKey rest (cur ++ [c])
termination_by s => s.length

theorem dec_esc (v tail cur : Bytes) : decKey (escComp v ++ tail) cur = decKey tail (cur ++ v) := by
  induction v generalizing cur with
  | nil => simp [escComp]
  | cons c v ih =>
    unfold escComp
    by_cases h : c = 44 ∨ c = 92
    · simp only [h, if_true, List.cons_append]
      rw [decKey]
      simp only [if_true]
      rw [ih]; simp
    · simp only [h, if_false, List.cons_append]
      have h1 : c ≠ 92 := fun e => h (Or.inr e)
      have h2 : c ≠ 44 := fun e => h (Or.inl e)
      conv => lhs; rw [decKey.eq_def]
      simp only [h1, h2, if_false]
      rw [ih]; simp

theorem dec_joinKey (v : Bytes) (vs : List Bytes) : decKey (joinKey (v :: vs)) [] = v :: vs := by
  induction vs generalizing v with
  | nil =>
    have := dec_esc v [] []
    simp only [List.append_nil, List.nil_append] at this
    simp [joinKey, this, decKey]
  | cons w rest ih =>
    simp only [joinKey]
    rw [dec_esc]
    conv => lhs; rw [decKey.eq_def]
    simp [ih]


theorem mapM_length {α β} (f : α → Option β) : ∀ (l : List α) (r : List β), l.mapM f = some r → r.length = l.length := by
  intro l
  induction l with
  | nil => intro r h; simp at h; subst h; rfl
  | cons x xs ih =>
    intro r h
    simp only [List.mapM_cons] at h
    cases hx : f x with
    | none => simp [hx] at h
    | some y =>
      cases hxs : xs.mapM f with
      | none => simp [hx, hxs] at h
      | some ys =>
        simp [hx, hxs] at h
        subst h
        simp [ih ys hxs]

theorem joinKey_injective (a b : List Bytes) (hl : a.length = b.length) (h : joinKey a = joinKey b) : a = b := by
  cases a with
  | nil => cases b with
    | nil => rfl
    | cons _ _ => simp at hl
  | cons x xs => cases b with
    | nil => simp at hl
    | cons y ys =>
      have := congrArg (fun s => decKey s []) h
      simpa [dec_joinKey] using this


end Lemmas.C11
end Miller
