/-
NR, FNR, FILENAME AND THE MODE ARE READ-ONLY FOR PROGRAMS: whatever a piece of program does and however
it ends, the record counters, the file name, whether a record is current and the put/filter mode are
afterwards what they were before - only the driver (runRecord / runAll) moves them.  Fourth induction
over the interpreter, generated from the third (tools/gen_ctx.py).
-/
import MillerModel.Lemmas.C14Interp
namespace Miller
namespace DSL

/-- The context a program can read but not write. -/
def ctxOf (s : St) : Nat × Nat × Bytes × Bool × Bool := (s.nr, s.fnr, s.filename, s.isFilter, s.hasRec)

/-- `m` leaves the context alone. -/
def KeepsCtx {α} (m : M α) : Prop := ∀ s, ctxOf (runM m s).2 = ctxOf s

theorem KeepsCtx.out {α} {m : M α} (h : KeepsCtx m) {s : St} {r : Except Err α} {s' : St} (hr : runM m s = (r, s')) : ctxOf s' = ctxOf s := by
  have := h s; rw [hr] at this; exact this

theorem ctx_of {α} {m : M α} (h : ∀ s r s', runM m s = (r, s') → ctxOf s' = ctxOf s) : KeepsCtx m := by
  intro s
  cases hr : runM m s with
  | mk r s' => exact h s r s' hr

theorem ctx_pure {α} (a : α) : KeepsCtx (pure a : M α) := fun _ => rfl
theorem ctx_failM {α} (e : Err) : KeepsCtx (failM e : M α) := fun _ => rfl
theorem ctx_bind {α β} (m : M α) (f : α → M β) (hm : KeepsCtx m) (hf : ∀ a, KeepsCtx (f a)) : KeepsCtx (m >>= f) := by
  apply ctx_of
  intro s r s' h
  simp only [runM_bind] at h
  split at h
  · rename_i a s1 h1
    exact ((hf a).out h).trans (hm.out h1)
  · rename_i e s1 h1
    have := hm.out h1
    simp at h
    rw [← h.2]; exact this
theorem ctx_tryCatch {α} (m : M α) (h : Err → M α) (hm : KeepsCtx m) (hh : ∀ e, KeepsCtx (h e)) : KeepsCtx (tryCatch m h) := by
  apply ctx_of
  intro s r s' hr
  rw [runM_tryCatch] at hr
  split at hr
  · rename_i a s1 h1
    have := hm.out h1
    simp at hr; rw [← hr.2]; exact this
  · rename_i e s1 h1
    exact ((hh e).out hr).trans (hm.out h1)

theorem ctx_withStack {α} (enter : Stack → Stack) (leave : Stack → Stack → Stack) (m : M α) (hm : KeepsCtx m) :
    KeepsCtx (withStack enter leave m) := by
  apply ctx_of
  intro s r s' h
  unfold withStack at h
  simp only [runM_bind, runM_get, runM_modify, runM_tryCatch, runM_pure, runM_throw] at h
  split at h
  · rename_i a s1 h1
    split at h1
    · rename_i a2 s2 h2
      have := hm.out h2
      simp at h1 h
      rw [← h.2, ← h1.2]
      simpa [ctxOf] using this
    · simp at h1
  · rename_i e s1 h1
    split at h1
    · simp at h1
    · rename_i e2 s2 h2
      have := hm.out h2
      simp at h1 h
      rw [← h.2, ← h1.2]
      simpa [ctxOf] using this

theorem ctx_bodyValue (blk : M Sig) (h : KeepsCtx blk) : KeepsCtx (bodyValue blk) := by
  apply ctx_tryCatch
  · exact ctx_bind _ _ h (fun _ => ctx_pure _)
  · intro e
    cases e <;> first | exact ctx_pure _ | exact ctx_failM _

theorem ctx_andThen {α β} (a : M α) (b : M β) (ha : KeepsCtx a) (hb : KeepsCtx b) : KeepsCtx (andThen a b) :=
  ctx_bind _ _ ha (fun _ => hb)

structure AllKeepCtx (p : Prog) (fuel : Nat) : Prop where
  eval : ∀ e, KeepsCtx (eval p fuel e)
  evalList : ∀ es, KeepsCtx (evalList p fuel es)
  evalKVs : ∀ kvs, KeepsCtx (evalKVs p fuel kvs)
  callFn : ∀ f args, KeepsCtx (callFn p fuel f args)
  hof : ∀ n args, KeepsCtx (hof p fuel n args)
  anyEvery : ∀ b f xs, KeepsCtx (anyEvery p fuel b f xs)
  mapFn : ∀ f xs, KeepsCtx (mapFn p fuel f xs)
  mapKV : ∀ f kvs, KeepsCtx (mapKV p fuel f kvs)
  foldFn : ∀ f acc xs, KeepsCtx (foldFn p fuel f acc xs)
  foldKV : ∀ f acc kvs, KeepsCtx (foldKV p fuel f acc kvs)
  sortFn : ∀ f xs, KeepsCtx (sortFn p fuel f xs)
  insertFn : ∀ f x ys, KeepsCtx (insertFn p fuel f x ys)
  execBlock : ∀ body, KeepsCtx (execBlock p fuel body)
  execStmts : ∀ body, KeepsCtx (execStmts p fuel body)
  assignTo : ∀ lhs path v, KeepsCtx (assignTo p fuel lhs path v)
  unsetOne : ∀ lhs path, KeepsCtx (unsetOne p fuel lhs path)
  unsetList : ∀ ls, KeepsCtx (unsetList p fuel ls)
  execIf : ∀ bs els, KeepsCtx (execIf p fuel bs els)
  execWhile : ∀ c body, KeepsCtx (execWhile p fuel c body)
  execForKV : ∀ k v es body, KeepsCtx (execForKV p fuel k v es body)
  execForMulti : ∀ ks v sofar es body, KeepsCtx (execForMulti p fuel ks v sofar es body)
  forMultiOne : ∀ ks v here val body, KeepsCtx (forMultiOne p fuel ks v here val body)
  forCGo : ∀ c, KeepsCtx (forCGo p fuel c)
  execForC : ∀ c u body, KeepsCtx (execForC p fuel c u body)
  exec : ∀ st, KeepsCtx (exec p fuel st)

macro "ctx_step" : tactic => `(tactic| (
  apply ctx_of
  intro s r s' h
  repeat' (first
    | (simp only [runM_bind, runM_map, runM_get, runM_set, runM_modify, runM_pure, runM_failM, runM_throw, runM_liftR, emitRec, emitRecs, emitLine] at h)
    | (split at h))
  all_goals (try simp at h)
  all_goals (try grind [ctxOf])))

set_option maxHeartbeats 4000000 in
theorem ctx_eval_step (p : Prog) (fuel : Nat) (ih : AllKeepCtx p fuel) : ∀ e, KeepsCtx (eval p (fuel + 1) e) := by
  intro e
  have h_eval := ih.eval
  have h_evalList := ih.evalList
  have h_evalKVs := ih.evalKVs
  have h_callFn := ih.callFn
  have h_hof := ih.hof
  have h_anyEvery := ih.anyEvery
  have h_mapFn := ih.mapFn
  have h_mapKV := ih.mapKV
  have h_foldFn := ih.foldFn
  have h_foldKV := ih.foldKV
  have h_sortFn := ih.sortFn
  have h_insertFn := ih.insertFn
  have h_execBlock := ih.execBlock
  have h_execStmts := ih.execStmts
  have h_assignTo := ih.assignTo
  have h_unsetOne := ih.unsetOne
  have h_unsetList := ih.unsetList
  have h_execIf := ih.execIf
  have h_execWhile := ih.execWhile
  have h_execForKV := ih.execForKV
  have h_execForMulti := ih.execForMulti
  have h_forMultiOne := ih.forMultiOne
  have h_forCGo := ih.forCGo
  have h_execForC := ih.execForC
  have h_exec := ih.exec
  have h_truthy := runM_truthy
  have h_call : ∀ (isLit : Bool) (frame : Frame) (body : List Stmt), KeepsCtx (inCall isLit frame (bodyValue (execBlock p fuel body))) :=
    fun isLit frame body => ctx_withStack _ _ _ (ctx_bodyValue _ (ih.execBlock body))
  have h_sub : ∀ (frame : Frame) (body : List Stmt), KeepsCtx (inCall false frame (execBlock p fuel body)) :=
    fun frame body => ctx_withStack _ _ _ (ih.execBlock body)
  have h_loopKV : ∀ k v es body, KeepsCtx (inNewFrame (execForKV p fuel k v es body)) :=
    fun k v es body => ctx_withStack _ _ _ (ih.execForKV k v es body)
  have h_loopMulti : ∀ ks v sofar es body, KeepsCtx (inNewFrame (execForMulti p fuel ks v sofar es body)) :=
    fun ks v sofar es body => ctx_withStack _ _ _ (ih.execForMulti ks v sofar es body)
  have h_loopC : ∀ init c u body, KeepsCtx (inNewFrame (andThen (execStmts p fuel init) (execForC p fuel c u body))) :=
    fun init c u body => ctx_withStack _ _ _ (ctx_andThen _ _ (ih.execStmts init) (ih.execForC c u body))
  unfold KeepsCtx at h_eval h_evalList h_evalKVs h_callFn h_hof h_anyEvery h_mapFn h_mapKV h_foldFn h_foldKV h_sortFn h_insertFn h_execBlock h_execStmts h_assignTo h_unsetOne h_unsetList h_execIf h_execWhile h_execForKV h_execForMulti h_forMultiOne h_forCGo h_execForC h_exec h_call h_sub h_loopKV h_loopMulti h_loopC
  unfold eval
  cases e <;> ctx_step

set_option maxHeartbeats 4000000 in
theorem ctx_evalList_step (p : Prog) (fuel : Nat) (ih : AllKeepCtx p fuel) : ∀ es, KeepsCtx (evalList p (fuel + 1) es) := by
  intro es
  have h_eval := ih.eval
  have h_evalList := ih.evalList
  have h_evalKVs := ih.evalKVs
  have h_callFn := ih.callFn
  have h_hof := ih.hof
  have h_anyEvery := ih.anyEvery
  have h_mapFn := ih.mapFn
  have h_mapKV := ih.mapKV
  have h_foldFn := ih.foldFn
  have h_foldKV := ih.foldKV
  have h_sortFn := ih.sortFn
  have h_insertFn := ih.insertFn
  have h_execBlock := ih.execBlock
  have h_execStmts := ih.execStmts
  have h_assignTo := ih.assignTo
  have h_unsetOne := ih.unsetOne
  have h_unsetList := ih.unsetList
  have h_execIf := ih.execIf
  have h_execWhile := ih.execWhile
  have h_execForKV := ih.execForKV
  have h_execForMulti := ih.execForMulti
  have h_forMultiOne := ih.forMultiOne
  have h_forCGo := ih.forCGo
  have h_execForC := ih.execForC
  have h_exec := ih.exec
  have h_truthy := runM_truthy
  have h_call : ∀ (isLit : Bool) (frame : Frame) (body : List Stmt), KeepsCtx (inCall isLit frame (bodyValue (execBlock p fuel body))) :=
    fun isLit frame body => ctx_withStack _ _ _ (ctx_bodyValue _ (ih.execBlock body))
  have h_sub : ∀ (frame : Frame) (body : List Stmt), KeepsCtx (inCall false frame (execBlock p fuel body)) :=
    fun frame body => ctx_withStack _ _ _ (ih.execBlock body)
  have h_loopKV : ∀ k v es body, KeepsCtx (inNewFrame (execForKV p fuel k v es body)) :=
    fun k v es body => ctx_withStack _ _ _ (ih.execForKV k v es body)
  have h_loopMulti : ∀ ks v sofar es body, KeepsCtx (inNewFrame (execForMulti p fuel ks v sofar es body)) :=
    fun ks v sofar es body => ctx_withStack _ _ _ (ih.execForMulti ks v sofar es body)
  have h_loopC : ∀ init c u body, KeepsCtx (inNewFrame (andThen (execStmts p fuel init) (execForC p fuel c u body))) :=
    fun init c u body => ctx_withStack _ _ _ (ctx_andThen _ _ (ih.execStmts init) (ih.execForC c u body))
  unfold KeepsCtx at h_eval h_evalList h_evalKVs h_callFn h_hof h_anyEvery h_mapFn h_mapKV h_foldFn h_foldKV h_sortFn h_insertFn h_execBlock h_execStmts h_assignTo h_unsetOne h_unsetList h_execIf h_execWhile h_execForKV h_execForMulti h_forMultiOne h_forCGo h_execForC h_exec h_call h_sub h_loopKV h_loopMulti h_loopC
  unfold evalList
  cases es <;> ctx_step

set_option maxHeartbeats 4000000 in
theorem ctx_evalKVs_step (p : Prog) (fuel : Nat) (ih : AllKeepCtx p fuel) : ∀ kvs, KeepsCtx (evalKVs p (fuel + 1) kvs) := by
  intro kvs
  have h_eval := ih.eval
  have h_evalList := ih.evalList
  have h_evalKVs := ih.evalKVs
  have h_callFn := ih.callFn
  have h_hof := ih.hof
  have h_anyEvery := ih.anyEvery
  have h_mapFn := ih.mapFn
  have h_mapKV := ih.mapKV
  have h_foldFn := ih.foldFn
  have h_foldKV := ih.foldKV
  have h_sortFn := ih.sortFn
  have h_insertFn := ih.insertFn
  have h_execBlock := ih.execBlock
  have h_execStmts := ih.execStmts
  have h_assignTo := ih.assignTo
  have h_unsetOne := ih.unsetOne
  have h_unsetList := ih.unsetList
  have h_execIf := ih.execIf
  have h_execWhile := ih.execWhile
  have h_execForKV := ih.execForKV
  have h_execForMulti := ih.execForMulti
  have h_forMultiOne := ih.forMultiOne
  have h_forCGo := ih.forCGo
  have h_execForC := ih.execForC
  have h_exec := ih.exec
  have h_truthy := runM_truthy
  have h_call : ∀ (isLit : Bool) (frame : Frame) (body : List Stmt), KeepsCtx (inCall isLit frame (bodyValue (execBlock p fuel body))) :=
    fun isLit frame body => ctx_withStack _ _ _ (ctx_bodyValue _ (ih.execBlock body))
  have h_sub : ∀ (frame : Frame) (body : List Stmt), KeepsCtx (inCall false frame (execBlock p fuel body)) :=
    fun frame body => ctx_withStack _ _ _ (ih.execBlock body)
  have h_loopKV : ∀ k v es body, KeepsCtx (inNewFrame (execForKV p fuel k v es body)) :=
    fun k v es body => ctx_withStack _ _ _ (ih.execForKV k v es body)
  have h_loopMulti : ∀ ks v sofar es body, KeepsCtx (inNewFrame (execForMulti p fuel ks v sofar es body)) :=
    fun ks v sofar es body => ctx_withStack _ _ _ (ih.execForMulti ks v sofar es body)
  have h_loopC : ∀ init c u body, KeepsCtx (inNewFrame (andThen (execStmts p fuel init) (execForC p fuel c u body))) :=
    fun init c u body => ctx_withStack _ _ _ (ctx_andThen _ _ (ih.execStmts init) (ih.execForC c u body))
  unfold KeepsCtx at h_eval h_evalList h_evalKVs h_callFn h_hof h_anyEvery h_mapFn h_mapKV h_foldFn h_foldKV h_sortFn h_insertFn h_execBlock h_execStmts h_assignTo h_unsetOne h_unsetList h_execIf h_execWhile h_execForKV h_execForMulti h_forMultiOne h_forCGo h_execForC h_exec h_call h_sub h_loopKV h_loopMulti h_loopC
  unfold evalKVs
  cases kvs <;> ctx_step

set_option maxHeartbeats 4000000 in
theorem ctx_callFn_step (p : Prog) (fuel : Nat) (ih : AllKeepCtx p fuel) : ∀ f args, KeepsCtx (callFn p (fuel + 1) f args) := by
  intro f args
  have h_eval := ih.eval
  have h_evalList := ih.evalList
  have h_evalKVs := ih.evalKVs
  have h_callFn := ih.callFn
  have h_hof := ih.hof
  have h_anyEvery := ih.anyEvery
  have h_mapFn := ih.mapFn
  have h_mapKV := ih.mapKV
  have h_foldFn := ih.foldFn
  have h_foldKV := ih.foldKV
  have h_sortFn := ih.sortFn
  have h_insertFn := ih.insertFn
  have h_execBlock := ih.execBlock
  have h_execStmts := ih.execStmts
  have h_assignTo := ih.assignTo
  have h_unsetOne := ih.unsetOne
  have h_unsetList := ih.unsetList
  have h_execIf := ih.execIf
  have h_execWhile := ih.execWhile
  have h_execForKV := ih.execForKV
  have h_execForMulti := ih.execForMulti
  have h_forMultiOne := ih.forMultiOne
  have h_forCGo := ih.forCGo
  have h_execForC := ih.execForC
  have h_exec := ih.exec
  have h_truthy := runM_truthy
  have h_call : ∀ (isLit : Bool) (frame : Frame) (body : List Stmt), KeepsCtx (inCall isLit frame (bodyValue (execBlock p fuel body))) :=
    fun isLit frame body => ctx_withStack _ _ _ (ctx_bodyValue _ (ih.execBlock body))
  have h_sub : ∀ (frame : Frame) (body : List Stmt), KeepsCtx (inCall false frame (execBlock p fuel body)) :=
    fun frame body => ctx_withStack _ _ _ (ih.execBlock body)
  have h_loopKV : ∀ k v es body, KeepsCtx (inNewFrame (execForKV p fuel k v es body)) :=
    fun k v es body => ctx_withStack _ _ _ (ih.execForKV k v es body)
  have h_loopMulti : ∀ ks v sofar es body, KeepsCtx (inNewFrame (execForMulti p fuel ks v sofar es body)) :=
    fun ks v sofar es body => ctx_withStack _ _ _ (ih.execForMulti ks v sofar es body)
  have h_loopC : ∀ init c u body, KeepsCtx (inNewFrame (andThen (execStmts p fuel init) (execForC p fuel c u body))) :=
    fun init c u body => ctx_withStack _ _ _ (ctx_andThen _ _ (ih.execStmts init) (ih.execForC c u body))
  unfold KeepsCtx at h_eval h_evalList h_evalKVs h_callFn h_hof h_anyEvery h_mapFn h_mapKV h_foldFn h_foldKV h_sortFn h_insertFn h_execBlock h_execStmts h_assignTo h_unsetOne h_unsetList h_execIf h_execWhile h_execForKV h_execForMulti h_forMultiOne h_forCGo h_execForC h_exec h_call h_sub h_loopKV h_loopMulti h_loopC
  unfold callFn
  ctx_step

set_option maxHeartbeats 4000000 in
theorem ctx_hof_step (p : Prog) (fuel : Nat) (ih : AllKeepCtx p fuel) : ∀ n args, KeepsCtx (hof p (fuel + 1) n args) := by
  intro n args
  have h_eval := ih.eval
  have h_evalList := ih.evalList
  have h_evalKVs := ih.evalKVs
  have h_callFn := ih.callFn
  have h_hof := ih.hof
  have h_anyEvery := ih.anyEvery
  have h_mapFn := ih.mapFn
  have h_mapKV := ih.mapKV
  have h_foldFn := ih.foldFn
  have h_foldKV := ih.foldKV
  have h_sortFn := ih.sortFn
  have h_insertFn := ih.insertFn
  have h_execBlock := ih.execBlock
  have h_execStmts := ih.execStmts
  have h_assignTo := ih.assignTo
  have h_unsetOne := ih.unsetOne
  have h_unsetList := ih.unsetList
  have h_execIf := ih.execIf
  have h_execWhile := ih.execWhile
  have h_execForKV := ih.execForKV
  have h_execForMulti := ih.execForMulti
  have h_forMultiOne := ih.forMultiOne
  have h_forCGo := ih.forCGo
  have h_execForC := ih.execForC
  have h_exec := ih.exec
  have h_truthy := runM_truthy
  have h_call : ∀ (isLit : Bool) (frame : Frame) (body : List Stmt), KeepsCtx (inCall isLit frame (bodyValue (execBlock p fuel body))) :=
    fun isLit frame body => ctx_withStack _ _ _ (ctx_bodyValue _ (ih.execBlock body))
  have h_sub : ∀ (frame : Frame) (body : List Stmt), KeepsCtx (inCall false frame (execBlock p fuel body)) :=
    fun frame body => ctx_withStack _ _ _ (ih.execBlock body)
  have h_loopKV : ∀ k v es body, KeepsCtx (inNewFrame (execForKV p fuel k v es body)) :=
    fun k v es body => ctx_withStack _ _ _ (ih.execForKV k v es body)
  have h_loopMulti : ∀ ks v sofar es body, KeepsCtx (inNewFrame (execForMulti p fuel ks v sofar es body)) :=
    fun ks v sofar es body => ctx_withStack _ _ _ (ih.execForMulti ks v sofar es body)
  have h_loopC : ∀ init c u body, KeepsCtx (inNewFrame (andThen (execStmts p fuel init) (execForC p fuel c u body))) :=
    fun init c u body => ctx_withStack _ _ _ (ctx_andThen _ _ (ih.execStmts init) (ih.execForC c u body))
  unfold KeepsCtx at h_eval h_evalList h_evalKVs h_callFn h_hof h_anyEvery h_mapFn h_mapKV h_foldFn h_foldKV h_sortFn h_insertFn h_execBlock h_execStmts h_assignTo h_unsetOne h_unsetList h_execIf h_execWhile h_execForKV h_execForMulti h_forMultiOne h_forCGo h_execForC h_exec h_call h_sub h_loopKV h_loopMulti h_loopC
  unfold hof
  ctx_step

set_option maxHeartbeats 4000000 in
theorem ctx_anyEvery_step (p : Prog) (fuel : Nat) (ih : AllKeepCtx p fuel) : ∀ b f xs, KeepsCtx (anyEvery p (fuel + 1) b f xs) := by
  intro b f xs
  have h_eval := ih.eval
  have h_evalList := ih.evalList
  have h_evalKVs := ih.evalKVs
  have h_callFn := ih.callFn
  have h_hof := ih.hof
  have h_anyEvery := ih.anyEvery
  have h_mapFn := ih.mapFn
  have h_mapKV := ih.mapKV
  have h_foldFn := ih.foldFn
  have h_foldKV := ih.foldKV
  have h_sortFn := ih.sortFn
  have h_insertFn := ih.insertFn
  have h_execBlock := ih.execBlock
  have h_execStmts := ih.execStmts
  have h_assignTo := ih.assignTo
  have h_unsetOne := ih.unsetOne
  have h_unsetList := ih.unsetList
  have h_execIf := ih.execIf
  have h_execWhile := ih.execWhile
  have h_execForKV := ih.execForKV
  have h_execForMulti := ih.execForMulti
  have h_forMultiOne := ih.forMultiOne
  have h_forCGo := ih.forCGo
  have h_execForC := ih.execForC
  have h_exec := ih.exec
  have h_truthy := runM_truthy
  have h_call : ∀ (isLit : Bool) (frame : Frame) (body : List Stmt), KeepsCtx (inCall isLit frame (bodyValue (execBlock p fuel body))) :=
    fun isLit frame body => ctx_withStack _ _ _ (ctx_bodyValue _ (ih.execBlock body))
  have h_sub : ∀ (frame : Frame) (body : List Stmt), KeepsCtx (inCall false frame (execBlock p fuel body)) :=
    fun frame body => ctx_withStack _ _ _ (ih.execBlock body)
  have h_loopKV : ∀ k v es body, KeepsCtx (inNewFrame (execForKV p fuel k v es body)) :=
    fun k v es body => ctx_withStack _ _ _ (ih.execForKV k v es body)
  have h_loopMulti : ∀ ks v sofar es body, KeepsCtx (inNewFrame (execForMulti p fuel ks v sofar es body)) :=
    fun ks v sofar es body => ctx_withStack _ _ _ (ih.execForMulti ks v sofar es body)
  have h_loopC : ∀ init c u body, KeepsCtx (inNewFrame (andThen (execStmts p fuel init) (execForC p fuel c u body))) :=
    fun init c u body => ctx_withStack _ _ _ (ctx_andThen _ _ (ih.execStmts init) (ih.execForC c u body))
  unfold KeepsCtx at h_eval h_evalList h_evalKVs h_callFn h_hof h_anyEvery h_mapFn h_mapKV h_foldFn h_foldKV h_sortFn h_insertFn h_execBlock h_execStmts h_assignTo h_unsetOne h_unsetList h_execIf h_execWhile h_execForKV h_execForMulti h_forMultiOne h_forCGo h_execForC h_exec h_call h_sub h_loopKV h_loopMulti h_loopC
  unfold anyEvery
  cases xs <;> ctx_step

set_option maxHeartbeats 4000000 in
theorem ctx_mapFn_step (p : Prog) (fuel : Nat) (ih : AllKeepCtx p fuel) : ∀ f xs, KeepsCtx (mapFn p (fuel + 1) f xs) := by
  intro f xs
  have h_eval := ih.eval
  have h_evalList := ih.evalList
  have h_evalKVs := ih.evalKVs
  have h_callFn := ih.callFn
  have h_hof := ih.hof
  have h_anyEvery := ih.anyEvery
  have h_mapFn := ih.mapFn
  have h_mapKV := ih.mapKV
  have h_foldFn := ih.foldFn
  have h_foldKV := ih.foldKV
  have h_sortFn := ih.sortFn
  have h_insertFn := ih.insertFn
  have h_execBlock := ih.execBlock
  have h_execStmts := ih.execStmts
  have h_assignTo := ih.assignTo
  have h_unsetOne := ih.unsetOne
  have h_unsetList := ih.unsetList
  have h_execIf := ih.execIf
  have h_execWhile := ih.execWhile
  have h_execForKV := ih.execForKV
  have h_execForMulti := ih.execForMulti
  have h_forMultiOne := ih.forMultiOne
  have h_forCGo := ih.forCGo
  have h_execForC := ih.execForC
  have h_exec := ih.exec
  have h_truthy := runM_truthy
  have h_call : ∀ (isLit : Bool) (frame : Frame) (body : List Stmt), KeepsCtx (inCall isLit frame (bodyValue (execBlock p fuel body))) :=
    fun isLit frame body => ctx_withStack _ _ _ (ctx_bodyValue _ (ih.execBlock body))
  have h_sub : ∀ (frame : Frame) (body : List Stmt), KeepsCtx (inCall false frame (execBlock p fuel body)) :=
    fun frame body => ctx_withStack _ _ _ (ih.execBlock body)
  have h_loopKV : ∀ k v es body, KeepsCtx (inNewFrame (execForKV p fuel k v es body)) :=
    fun k v es body => ctx_withStack _ _ _ (ih.execForKV k v es body)
  have h_loopMulti : ∀ ks v sofar es body, KeepsCtx (inNewFrame (execForMulti p fuel ks v sofar es body)) :=
    fun ks v sofar es body => ctx_withStack _ _ _ (ih.execForMulti ks v sofar es body)
  have h_loopC : ∀ init c u body, KeepsCtx (inNewFrame (andThen (execStmts p fuel init) (execForC p fuel c u body))) :=
    fun init c u body => ctx_withStack _ _ _ (ctx_andThen _ _ (ih.execStmts init) (ih.execForC c u body))
  unfold KeepsCtx at h_eval h_evalList h_evalKVs h_callFn h_hof h_anyEvery h_mapFn h_mapKV h_foldFn h_foldKV h_sortFn h_insertFn h_execBlock h_execStmts h_assignTo h_unsetOne h_unsetList h_execIf h_execWhile h_execForKV h_execForMulti h_forMultiOne h_forCGo h_execForC h_exec h_call h_sub h_loopKV h_loopMulti h_loopC
  unfold mapFn
  cases xs <;> ctx_step

set_option maxHeartbeats 4000000 in
theorem ctx_mapKV_step (p : Prog) (fuel : Nat) (ih : AllKeepCtx p fuel) : ∀ f kvs, KeepsCtx (mapKV p (fuel + 1) f kvs) := by
  intro f kvs
  have h_eval := ih.eval
  have h_evalList := ih.evalList
  have h_evalKVs := ih.evalKVs
  have h_callFn := ih.callFn
  have h_hof := ih.hof
  have h_anyEvery := ih.anyEvery
  have h_mapFn := ih.mapFn
  have h_mapKV := ih.mapKV
  have h_foldFn := ih.foldFn
  have h_foldKV := ih.foldKV
  have h_sortFn := ih.sortFn
  have h_insertFn := ih.insertFn
  have h_execBlock := ih.execBlock
  have h_execStmts := ih.execStmts
  have h_assignTo := ih.assignTo
  have h_unsetOne := ih.unsetOne
  have h_unsetList := ih.unsetList
  have h_execIf := ih.execIf
  have h_execWhile := ih.execWhile
  have h_execForKV := ih.execForKV
  have h_execForMulti := ih.execForMulti
  have h_forMultiOne := ih.forMultiOne
  have h_forCGo := ih.forCGo
  have h_execForC := ih.execForC
  have h_exec := ih.exec
  have h_truthy := runM_truthy
  have h_call : ∀ (isLit : Bool) (frame : Frame) (body : List Stmt), KeepsCtx (inCall isLit frame (bodyValue (execBlock p fuel body))) :=
    fun isLit frame body => ctx_withStack _ _ _ (ctx_bodyValue _ (ih.execBlock body))
  have h_sub : ∀ (frame : Frame) (body : List Stmt), KeepsCtx (inCall false frame (execBlock p fuel body)) :=
    fun frame body => ctx_withStack _ _ _ (ih.execBlock body)
  have h_loopKV : ∀ k v es body, KeepsCtx (inNewFrame (execForKV p fuel k v es body)) :=
    fun k v es body => ctx_withStack _ _ _ (ih.execForKV k v es body)
  have h_loopMulti : ∀ ks v sofar es body, KeepsCtx (inNewFrame (execForMulti p fuel ks v sofar es body)) :=
    fun ks v sofar es body => ctx_withStack _ _ _ (ih.execForMulti ks v sofar es body)
  have h_loopC : ∀ init c u body, KeepsCtx (inNewFrame (andThen (execStmts p fuel init) (execForC p fuel c u body))) :=
    fun init c u body => ctx_withStack _ _ _ (ctx_andThen _ _ (ih.execStmts init) (ih.execForC c u body))
  unfold KeepsCtx at h_eval h_evalList h_evalKVs h_callFn h_hof h_anyEvery h_mapFn h_mapKV h_foldFn h_foldKV h_sortFn h_insertFn h_execBlock h_execStmts h_assignTo h_unsetOne h_unsetList h_execIf h_execWhile h_execForKV h_execForMulti h_forMultiOne h_forCGo h_execForC h_exec h_call h_sub h_loopKV h_loopMulti h_loopC
  unfold mapKV
  cases kvs <;> ctx_step

set_option maxHeartbeats 4000000 in
theorem ctx_foldFn_step (p : Prog) (fuel : Nat) (ih : AllKeepCtx p fuel) : ∀ f acc xs, KeepsCtx (foldFn p (fuel + 1) f acc xs) := by
  intro f acc xs
  have h_eval := ih.eval
  have h_evalList := ih.evalList
  have h_evalKVs := ih.evalKVs
  have h_callFn := ih.callFn
  have h_hof := ih.hof
  have h_anyEvery := ih.anyEvery
  have h_mapFn := ih.mapFn
  have h_mapKV := ih.mapKV
  have h_foldFn := ih.foldFn
  have h_foldKV := ih.foldKV
  have h_sortFn := ih.sortFn
  have h_insertFn := ih.insertFn
  have h_execBlock := ih.execBlock
  have h_execStmts := ih.execStmts
  have h_assignTo := ih.assignTo
  have h_unsetOne := ih.unsetOne
  have h_unsetList := ih.unsetList
  have h_execIf := ih.execIf
  have h_execWhile := ih.execWhile
  have h_execForKV := ih.execForKV
  have h_execForMulti := ih.execForMulti
  have h_forMultiOne := ih.forMultiOne
  have h_forCGo := ih.forCGo
  have h_execForC := ih.execForC
  have h_exec := ih.exec
  have h_truthy := runM_truthy
  have h_call : ∀ (isLit : Bool) (frame : Frame) (body : List Stmt), KeepsCtx (inCall isLit frame (bodyValue (execBlock p fuel body))) :=
    fun isLit frame body => ctx_withStack _ _ _ (ctx_bodyValue _ (ih.execBlock body))
  have h_sub : ∀ (frame : Frame) (body : List Stmt), KeepsCtx (inCall false frame (execBlock p fuel body)) :=
    fun frame body => ctx_withStack _ _ _ (ih.execBlock body)
  have h_loopKV : ∀ k v es body, KeepsCtx (inNewFrame (execForKV p fuel k v es body)) :=
    fun k v es body => ctx_withStack _ _ _ (ih.execForKV k v es body)
  have h_loopMulti : ∀ ks v sofar es body, KeepsCtx (inNewFrame (execForMulti p fuel ks v sofar es body)) :=
    fun ks v sofar es body => ctx_withStack _ _ _ (ih.execForMulti ks v sofar es body)
  have h_loopC : ∀ init c u body, KeepsCtx (inNewFrame (andThen (execStmts p fuel init) (execForC p fuel c u body))) :=
    fun init c u body => ctx_withStack _ _ _ (ctx_andThen _ _ (ih.execStmts init) (ih.execForC c u body))
  unfold KeepsCtx at h_eval h_evalList h_evalKVs h_callFn h_hof h_anyEvery h_mapFn h_mapKV h_foldFn h_foldKV h_sortFn h_insertFn h_execBlock h_execStmts h_assignTo h_unsetOne h_unsetList h_execIf h_execWhile h_execForKV h_execForMulti h_forMultiOne h_forCGo h_execForC h_exec h_call h_sub h_loopKV h_loopMulti h_loopC
  unfold foldFn
  cases xs <;> ctx_step

set_option maxHeartbeats 4000000 in
theorem ctx_foldKV_step (p : Prog) (fuel : Nat) (ih : AllKeepCtx p fuel) : ∀ f acc kvs, KeepsCtx (foldKV p (fuel + 1) f acc kvs) := by
  intro f acc kvs
  have h_eval := ih.eval
  have h_evalList := ih.evalList
  have h_evalKVs := ih.evalKVs
  have h_callFn := ih.callFn
  have h_hof := ih.hof
  have h_anyEvery := ih.anyEvery
  have h_mapFn := ih.mapFn
  have h_mapKV := ih.mapKV
  have h_foldFn := ih.foldFn
  have h_foldKV := ih.foldKV
  have h_sortFn := ih.sortFn
  have h_insertFn := ih.insertFn
  have h_execBlock := ih.execBlock
  have h_execStmts := ih.execStmts
  have h_assignTo := ih.assignTo
  have h_unsetOne := ih.unsetOne
  have h_unsetList := ih.unsetList
  have h_execIf := ih.execIf
  have h_execWhile := ih.execWhile
  have h_execForKV := ih.execForKV
  have h_execForMulti := ih.execForMulti
  have h_forMultiOne := ih.forMultiOne
  have h_forCGo := ih.forCGo
  have h_execForC := ih.execForC
  have h_exec := ih.exec
  have h_truthy := runM_truthy
  have h_call : ∀ (isLit : Bool) (frame : Frame) (body : List Stmt), KeepsCtx (inCall isLit frame (bodyValue (execBlock p fuel body))) :=
    fun isLit frame body => ctx_withStack _ _ _ (ctx_bodyValue _ (ih.execBlock body))
  have h_sub : ∀ (frame : Frame) (body : List Stmt), KeepsCtx (inCall false frame (execBlock p fuel body)) :=
    fun frame body => ctx_withStack _ _ _ (ih.execBlock body)
  have h_loopKV : ∀ k v es body, KeepsCtx (inNewFrame (execForKV p fuel k v es body)) :=
    fun k v es body => ctx_withStack _ _ _ (ih.execForKV k v es body)
  have h_loopMulti : ∀ ks v sofar es body, KeepsCtx (inNewFrame (execForMulti p fuel ks v sofar es body)) :=
    fun ks v sofar es body => ctx_withStack _ _ _ (ih.execForMulti ks v sofar es body)
  have h_loopC : ∀ init c u body, KeepsCtx (inNewFrame (andThen (execStmts p fuel init) (execForC p fuel c u body))) :=
    fun init c u body => ctx_withStack _ _ _ (ctx_andThen _ _ (ih.execStmts init) (ih.execForC c u body))
  unfold KeepsCtx at h_eval h_evalList h_evalKVs h_callFn h_hof h_anyEvery h_mapFn h_mapKV h_foldFn h_foldKV h_sortFn h_insertFn h_execBlock h_execStmts h_assignTo h_unsetOne h_unsetList h_execIf h_execWhile h_execForKV h_execForMulti h_forMultiOne h_forCGo h_execForC h_exec h_call h_sub h_loopKV h_loopMulti h_loopC
  unfold foldKV
  cases kvs <;> ctx_step

set_option maxHeartbeats 4000000 in
theorem ctx_sortFn_step (p : Prog) (fuel : Nat) (ih : AllKeepCtx p fuel) : ∀ f xs, KeepsCtx (sortFn p (fuel + 1) f xs) := by
  intro f xs
  have h_eval := ih.eval
  have h_evalList := ih.evalList
  have h_evalKVs := ih.evalKVs
  have h_callFn := ih.callFn
  have h_hof := ih.hof
  have h_anyEvery := ih.anyEvery
  have h_mapFn := ih.mapFn
  have h_mapKV := ih.mapKV
  have h_foldFn := ih.foldFn
  have h_foldKV := ih.foldKV
  have h_sortFn := ih.sortFn
  have h_insertFn := ih.insertFn
  have h_execBlock := ih.execBlock
  have h_execStmts := ih.execStmts
  have h_assignTo := ih.assignTo
  have h_unsetOne := ih.unsetOne
  have h_unsetList := ih.unsetList
  have h_execIf := ih.execIf
  have h_execWhile := ih.execWhile
  have h_execForKV := ih.execForKV
  have h_execForMulti := ih.execForMulti
  have h_forMultiOne := ih.forMultiOne
  have h_forCGo := ih.forCGo
  have h_execForC := ih.execForC
  have h_exec := ih.exec
  have h_truthy := runM_truthy
  have h_call : ∀ (isLit : Bool) (frame : Frame) (body : List Stmt), KeepsCtx (inCall isLit frame (bodyValue (execBlock p fuel body))) :=
    fun isLit frame body => ctx_withStack _ _ _ (ctx_bodyValue _ (ih.execBlock body))
  have h_sub : ∀ (frame : Frame) (body : List Stmt), KeepsCtx (inCall false frame (execBlock p fuel body)) :=
    fun frame body => ctx_withStack _ _ _ (ih.execBlock body)
  have h_loopKV : ∀ k v es body, KeepsCtx (inNewFrame (execForKV p fuel k v es body)) :=
    fun k v es body => ctx_withStack _ _ _ (ih.execForKV k v es body)
  have h_loopMulti : ∀ ks v sofar es body, KeepsCtx (inNewFrame (execForMulti p fuel ks v sofar es body)) :=
    fun ks v sofar es body => ctx_withStack _ _ _ (ih.execForMulti ks v sofar es body)
  have h_loopC : ∀ init c u body, KeepsCtx (inNewFrame (andThen (execStmts p fuel init) (execForC p fuel c u body))) :=
    fun init c u body => ctx_withStack _ _ _ (ctx_andThen _ _ (ih.execStmts init) (ih.execForC c u body))
  unfold KeepsCtx at h_eval h_evalList h_evalKVs h_callFn h_hof h_anyEvery h_mapFn h_mapKV h_foldFn h_foldKV h_sortFn h_insertFn h_execBlock h_execStmts h_assignTo h_unsetOne h_unsetList h_execIf h_execWhile h_execForKV h_execForMulti h_forMultiOne h_forCGo h_execForC h_exec h_call h_sub h_loopKV h_loopMulti h_loopC
  unfold sortFn
  cases xs <;> ctx_step

set_option maxHeartbeats 4000000 in
theorem ctx_insertFn_step (p : Prog) (fuel : Nat) (ih : AllKeepCtx p fuel) : ∀ f x ys, KeepsCtx (insertFn p (fuel + 1) f x ys) := by
  intro f x ys
  have h_eval := ih.eval
  have h_evalList := ih.evalList
  have h_evalKVs := ih.evalKVs
  have h_callFn := ih.callFn
  have h_hof := ih.hof
  have h_anyEvery := ih.anyEvery
  have h_mapFn := ih.mapFn
  have h_mapKV := ih.mapKV
  have h_foldFn := ih.foldFn
  have h_foldKV := ih.foldKV
  have h_sortFn := ih.sortFn
  have h_insertFn := ih.insertFn
  have h_execBlock := ih.execBlock
  have h_execStmts := ih.execStmts
  have h_assignTo := ih.assignTo
  have h_unsetOne := ih.unsetOne
  have h_unsetList := ih.unsetList
  have h_execIf := ih.execIf
  have h_execWhile := ih.execWhile
  have h_execForKV := ih.execForKV
  have h_execForMulti := ih.execForMulti
  have h_forMultiOne := ih.forMultiOne
  have h_forCGo := ih.forCGo
  have h_execForC := ih.execForC
  have h_exec := ih.exec
  have h_truthy := runM_truthy
  have h_call : ∀ (isLit : Bool) (frame : Frame) (body : List Stmt), KeepsCtx (inCall isLit frame (bodyValue (execBlock p fuel body))) :=
    fun isLit frame body => ctx_withStack _ _ _ (ctx_bodyValue _ (ih.execBlock body))
  have h_sub : ∀ (frame : Frame) (body : List Stmt), KeepsCtx (inCall false frame (execBlock p fuel body)) :=
    fun frame body => ctx_withStack _ _ _ (ih.execBlock body)
  have h_loopKV : ∀ k v es body, KeepsCtx (inNewFrame (execForKV p fuel k v es body)) :=
    fun k v es body => ctx_withStack _ _ _ (ih.execForKV k v es body)
  have h_loopMulti : ∀ ks v sofar es body, KeepsCtx (inNewFrame (execForMulti p fuel ks v sofar es body)) :=
    fun ks v sofar es body => ctx_withStack _ _ _ (ih.execForMulti ks v sofar es body)
  have h_loopC : ∀ init c u body, KeepsCtx (inNewFrame (andThen (execStmts p fuel init) (execForC p fuel c u body))) :=
    fun init c u body => ctx_withStack _ _ _ (ctx_andThen _ _ (ih.execStmts init) (ih.execForC c u body))
  unfold KeepsCtx at h_eval h_evalList h_evalKVs h_callFn h_hof h_anyEvery h_mapFn h_mapKV h_foldFn h_foldKV h_sortFn h_insertFn h_execBlock h_execStmts h_assignTo h_unsetOne h_unsetList h_execIf h_execWhile h_execForKV h_execForMulti h_forMultiOne h_forCGo h_execForC h_exec h_call h_sub h_loopKV h_loopMulti h_loopC
  unfold insertFn
  cases ys <;> ctx_step

set_option maxHeartbeats 4000000 in
theorem ctx_execStmts_step (p : Prog) (fuel : Nat) (ih : AllKeepCtx p fuel) : ∀ body, KeepsCtx (execStmts p (fuel + 1) body) := by
  intro body
  have h_eval := ih.eval
  have h_evalList := ih.evalList
  have h_evalKVs := ih.evalKVs
  have h_callFn := ih.callFn
  have h_hof := ih.hof
  have h_anyEvery := ih.anyEvery
  have h_mapFn := ih.mapFn
  have h_mapKV := ih.mapKV
  have h_foldFn := ih.foldFn
  have h_foldKV := ih.foldKV
  have h_sortFn := ih.sortFn
  have h_insertFn := ih.insertFn
  have h_execBlock := ih.execBlock
  have h_execStmts := ih.execStmts
  have h_assignTo := ih.assignTo
  have h_unsetOne := ih.unsetOne
  have h_unsetList := ih.unsetList
  have h_execIf := ih.execIf
  have h_execWhile := ih.execWhile
  have h_execForKV := ih.execForKV
  have h_execForMulti := ih.execForMulti
  have h_forMultiOne := ih.forMultiOne
  have h_forCGo := ih.forCGo
  have h_execForC := ih.execForC
  have h_exec := ih.exec
  have h_truthy := runM_truthy
  have h_call : ∀ (isLit : Bool) (frame : Frame) (body : List Stmt), KeepsCtx (inCall isLit frame (bodyValue (execBlock p fuel body))) :=
    fun isLit frame body => ctx_withStack _ _ _ (ctx_bodyValue _ (ih.execBlock body))
  have h_sub : ∀ (frame : Frame) (body : List Stmt), KeepsCtx (inCall false frame (execBlock p fuel body)) :=
    fun frame body => ctx_withStack _ _ _ (ih.execBlock body)
  have h_loopKV : ∀ k v es body, KeepsCtx (inNewFrame (execForKV p fuel k v es body)) :=
    fun k v es body => ctx_withStack _ _ _ (ih.execForKV k v es body)
  have h_loopMulti : ∀ ks v sofar es body, KeepsCtx (inNewFrame (execForMulti p fuel ks v sofar es body)) :=
    fun ks v sofar es body => ctx_withStack _ _ _ (ih.execForMulti ks v sofar es body)
  have h_loopC : ∀ init c u body, KeepsCtx (inNewFrame (andThen (execStmts p fuel init) (execForC p fuel c u body))) :=
    fun init c u body => ctx_withStack _ _ _ (ctx_andThen _ _ (ih.execStmts init) (ih.execForC c u body))
  unfold KeepsCtx at h_eval h_evalList h_evalKVs h_callFn h_hof h_anyEvery h_mapFn h_mapKV h_foldFn h_foldKV h_sortFn h_insertFn h_execBlock h_execStmts h_assignTo h_unsetOne h_unsetList h_execIf h_execWhile h_execForKV h_execForMulti h_forMultiOne h_forCGo h_execForC h_exec h_call h_sub h_loopKV h_loopMulti h_loopC
  unfold execStmts
  cases body <;> ctx_step

set_option maxHeartbeats 4000000 in
theorem ctx_assignTo_step (p : Prog) (fuel : Nat) (ih : AllKeepCtx p fuel) : ∀ lhs path v, KeepsCtx (assignTo p (fuel + 1) lhs path v) := by
  intro lhs path v
  have h_eval := ih.eval
  have h_evalList := ih.evalList
  have h_evalKVs := ih.evalKVs
  have h_callFn := ih.callFn
  have h_hof := ih.hof
  have h_anyEvery := ih.anyEvery
  have h_mapFn := ih.mapFn
  have h_mapKV := ih.mapKV
  have h_foldFn := ih.foldFn
  have h_foldKV := ih.foldKV
  have h_sortFn := ih.sortFn
  have h_insertFn := ih.insertFn
  have h_execBlock := ih.execBlock
  have h_execStmts := ih.execStmts
  have h_assignTo := ih.assignTo
  have h_unsetOne := ih.unsetOne
  have h_unsetList := ih.unsetList
  have h_execIf := ih.execIf
  have h_execWhile := ih.execWhile
  have h_execForKV := ih.execForKV
  have h_execForMulti := ih.execForMulti
  have h_forMultiOne := ih.forMultiOne
  have h_forCGo := ih.forCGo
  have h_execForC := ih.execForC
  have h_exec := ih.exec
  have h_truthy := runM_truthy
  have h_call : ∀ (isLit : Bool) (frame : Frame) (body : List Stmt), KeepsCtx (inCall isLit frame (bodyValue (execBlock p fuel body))) :=
    fun isLit frame body => ctx_withStack _ _ _ (ctx_bodyValue _ (ih.execBlock body))
  have h_sub : ∀ (frame : Frame) (body : List Stmt), KeepsCtx (inCall false frame (execBlock p fuel body)) :=
    fun frame body => ctx_withStack _ _ _ (ih.execBlock body)
  have h_loopKV : ∀ k v es body, KeepsCtx (inNewFrame (execForKV p fuel k v es body)) :=
    fun k v es body => ctx_withStack _ _ _ (ih.execForKV k v es body)
  have h_loopMulti : ∀ ks v sofar es body, KeepsCtx (inNewFrame (execForMulti p fuel ks v sofar es body)) :=
    fun ks v sofar es body => ctx_withStack _ _ _ (ih.execForMulti ks v sofar es body)
  have h_loopC : ∀ init c u body, KeepsCtx (inNewFrame (andThen (execStmts p fuel init) (execForC p fuel c u body))) :=
    fun init c u body => ctx_withStack _ _ _ (ctx_andThen _ _ (ih.execStmts init) (ih.execForC c u body))
  unfold KeepsCtx at h_eval h_evalList h_evalKVs h_callFn h_hof h_anyEvery h_mapFn h_mapKV h_foldFn h_foldKV h_sortFn h_insertFn h_execBlock h_execStmts h_assignTo h_unsetOne h_unsetList h_execIf h_execWhile h_execForKV h_execForMulti h_forMultiOne h_forCGo h_execForC h_exec h_call h_sub h_loopKV h_loopMulti h_loopC
  unfold assignTo
  cases lhs <;> ctx_step

set_option maxHeartbeats 4000000 in
theorem ctx_unsetOne_step (p : Prog) (fuel : Nat) (ih : AllKeepCtx p fuel) : ∀ lhs path, KeepsCtx (unsetOne p (fuel + 1) lhs path) := by
  intro lhs path
  have h_eval := ih.eval
  have h_evalList := ih.evalList
  have h_evalKVs := ih.evalKVs
  have h_callFn := ih.callFn
  have h_hof := ih.hof
  have h_anyEvery := ih.anyEvery
  have h_mapFn := ih.mapFn
  have h_mapKV := ih.mapKV
  have h_foldFn := ih.foldFn
  have h_foldKV := ih.foldKV
  have h_sortFn := ih.sortFn
  have h_insertFn := ih.insertFn
  have h_execBlock := ih.execBlock
  have h_execStmts := ih.execStmts
  have h_assignTo := ih.assignTo
  have h_unsetOne := ih.unsetOne
  have h_unsetList := ih.unsetList
  have h_execIf := ih.execIf
  have h_execWhile := ih.execWhile
  have h_execForKV := ih.execForKV
  have h_execForMulti := ih.execForMulti
  have h_forMultiOne := ih.forMultiOne
  have h_forCGo := ih.forCGo
  have h_execForC := ih.execForC
  have h_exec := ih.exec
  have h_truthy := runM_truthy
  have h_call : ∀ (isLit : Bool) (frame : Frame) (body : List Stmt), KeepsCtx (inCall isLit frame (bodyValue (execBlock p fuel body))) :=
    fun isLit frame body => ctx_withStack _ _ _ (ctx_bodyValue _ (ih.execBlock body))
  have h_sub : ∀ (frame : Frame) (body : List Stmt), KeepsCtx (inCall false frame (execBlock p fuel body)) :=
    fun frame body => ctx_withStack _ _ _ (ih.execBlock body)
  have h_loopKV : ∀ k v es body, KeepsCtx (inNewFrame (execForKV p fuel k v es body)) :=
    fun k v es body => ctx_withStack _ _ _ (ih.execForKV k v es body)
  have h_loopMulti : ∀ ks v sofar es body, KeepsCtx (inNewFrame (execForMulti p fuel ks v sofar es body)) :=
    fun ks v sofar es body => ctx_withStack _ _ _ (ih.execForMulti ks v sofar es body)
  have h_loopC : ∀ init c u body, KeepsCtx (inNewFrame (andThen (execStmts p fuel init) (execForC p fuel c u body))) :=
    fun init c u body => ctx_withStack _ _ _ (ctx_andThen _ _ (ih.execStmts init) (ih.execForC c u body))
  unfold KeepsCtx at h_eval h_evalList h_evalKVs h_callFn h_hof h_anyEvery h_mapFn h_mapKV h_foldFn h_foldKV h_sortFn h_insertFn h_execBlock h_execStmts h_assignTo h_unsetOne h_unsetList h_execIf h_execWhile h_execForKV h_execForMulti h_forMultiOne h_forCGo h_execForC h_exec h_call h_sub h_loopKV h_loopMulti h_loopC
  unfold unsetOne
  cases lhs <;> ctx_step

set_option maxHeartbeats 4000000 in
theorem ctx_unsetList_step (p : Prog) (fuel : Nat) (ih : AllKeepCtx p fuel) : ∀ ls, KeepsCtx (unsetList p (fuel + 1) ls) := by
  intro ls
  have h_eval := ih.eval
  have h_evalList := ih.evalList
  have h_evalKVs := ih.evalKVs
  have h_callFn := ih.callFn
  have h_hof := ih.hof
  have h_anyEvery := ih.anyEvery
  have h_mapFn := ih.mapFn
  have h_mapKV := ih.mapKV
  have h_foldFn := ih.foldFn
  have h_foldKV := ih.foldKV
  have h_sortFn := ih.sortFn
  have h_insertFn := ih.insertFn
  have h_execBlock := ih.execBlock
  have h_execStmts := ih.execStmts
  have h_assignTo := ih.assignTo
  have h_unsetOne := ih.unsetOne
  have h_unsetList := ih.unsetList
  have h_execIf := ih.execIf
  have h_execWhile := ih.execWhile
  have h_execForKV := ih.execForKV
  have h_execForMulti := ih.execForMulti
  have h_forMultiOne := ih.forMultiOne
  have h_forCGo := ih.forCGo
  have h_execForC := ih.execForC
  have h_exec := ih.exec
  have h_truthy := runM_truthy
  have h_call : ∀ (isLit : Bool) (frame : Frame) (body : List Stmt), KeepsCtx (inCall isLit frame (bodyValue (execBlock p fuel body))) :=
    fun isLit frame body => ctx_withStack _ _ _ (ctx_bodyValue _ (ih.execBlock body))
  have h_sub : ∀ (frame : Frame) (body : List Stmt), KeepsCtx (inCall false frame (execBlock p fuel body)) :=
    fun frame body => ctx_withStack _ _ _ (ih.execBlock body)
  have h_loopKV : ∀ k v es body, KeepsCtx (inNewFrame (execForKV p fuel k v es body)) :=
    fun k v es body => ctx_withStack _ _ _ (ih.execForKV k v es body)
  have h_loopMulti : ∀ ks v sofar es body, KeepsCtx (inNewFrame (execForMulti p fuel ks v sofar es body)) :=
    fun ks v sofar es body => ctx_withStack _ _ _ (ih.execForMulti ks v sofar es body)
  have h_loopC : ∀ init c u body, KeepsCtx (inNewFrame (andThen (execStmts p fuel init) (execForC p fuel c u body))) :=
    fun init c u body => ctx_withStack _ _ _ (ctx_andThen _ _ (ih.execStmts init) (ih.execForC c u body))
  unfold KeepsCtx at h_eval h_evalList h_evalKVs h_callFn h_hof h_anyEvery h_mapFn h_mapKV h_foldFn h_foldKV h_sortFn h_insertFn h_execBlock h_execStmts h_assignTo h_unsetOne h_unsetList h_execIf h_execWhile h_execForKV h_execForMulti h_forMultiOne h_forCGo h_execForC h_exec h_call h_sub h_loopKV h_loopMulti h_loopC
  unfold unsetList
  cases ls <;> ctx_step

set_option maxHeartbeats 4000000 in
theorem ctx_execIf_step (p : Prog) (fuel : Nat) (ih : AllKeepCtx p fuel) : ∀ bs els, KeepsCtx (execIf p (fuel + 1) bs els) := by
  intro bs els
  have h_eval := ih.eval
  have h_evalList := ih.evalList
  have h_evalKVs := ih.evalKVs
  have h_callFn := ih.callFn
  have h_hof := ih.hof
  have h_anyEvery := ih.anyEvery
  have h_mapFn := ih.mapFn
  have h_mapKV := ih.mapKV
  have h_foldFn := ih.foldFn
  have h_foldKV := ih.foldKV
  have h_sortFn := ih.sortFn
  have h_insertFn := ih.insertFn
  have h_execBlock := ih.execBlock
  have h_execStmts := ih.execStmts
  have h_assignTo := ih.assignTo
  have h_unsetOne := ih.unsetOne
  have h_unsetList := ih.unsetList
  have h_execIf := ih.execIf
  have h_execWhile := ih.execWhile
  have h_execForKV := ih.execForKV
  have h_execForMulti := ih.execForMulti
  have h_forMultiOne := ih.forMultiOne
  have h_forCGo := ih.forCGo
  have h_execForC := ih.execForC
  have h_exec := ih.exec
  have h_truthy := runM_truthy
  have h_call : ∀ (isLit : Bool) (frame : Frame) (body : List Stmt), KeepsCtx (inCall isLit frame (bodyValue (execBlock p fuel body))) :=
    fun isLit frame body => ctx_withStack _ _ _ (ctx_bodyValue _ (ih.execBlock body))
  have h_sub : ∀ (frame : Frame) (body : List Stmt), KeepsCtx (inCall false frame (execBlock p fuel body)) :=
    fun frame body => ctx_withStack _ _ _ (ih.execBlock body)
  have h_loopKV : ∀ k v es body, KeepsCtx (inNewFrame (execForKV p fuel k v es body)) :=
    fun k v es body => ctx_withStack _ _ _ (ih.execForKV k v es body)
  have h_loopMulti : ∀ ks v sofar es body, KeepsCtx (inNewFrame (execForMulti p fuel ks v sofar es body)) :=
    fun ks v sofar es body => ctx_withStack _ _ _ (ih.execForMulti ks v sofar es body)
  have h_loopC : ∀ init c u body, KeepsCtx (inNewFrame (andThen (execStmts p fuel init) (execForC p fuel c u body))) :=
    fun init c u body => ctx_withStack _ _ _ (ctx_andThen _ _ (ih.execStmts init) (ih.execForC c u body))
  unfold KeepsCtx at h_eval h_evalList h_evalKVs h_callFn h_hof h_anyEvery h_mapFn h_mapKV h_foldFn h_foldKV h_sortFn h_insertFn h_execBlock h_execStmts h_assignTo h_unsetOne h_unsetList h_execIf h_execWhile h_execForKV h_execForMulti h_forMultiOne h_forCGo h_execForC h_exec h_call h_sub h_loopKV h_loopMulti h_loopC
  unfold execIf
  cases bs <;> ctx_step

set_option maxHeartbeats 4000000 in
theorem ctx_execWhile_step (p : Prog) (fuel : Nat) (ih : AllKeepCtx p fuel) : ∀ c body, KeepsCtx (execWhile p (fuel + 1) c body) := by
  intro c body
  have h_eval := ih.eval
  have h_evalList := ih.evalList
  have h_evalKVs := ih.evalKVs
  have h_callFn := ih.callFn
  have h_hof := ih.hof
  have h_anyEvery := ih.anyEvery
  have h_mapFn := ih.mapFn
  have h_mapKV := ih.mapKV
  have h_foldFn := ih.foldFn
  have h_foldKV := ih.foldKV
  have h_sortFn := ih.sortFn
  have h_insertFn := ih.insertFn
  have h_execBlock := ih.execBlock
  have h_execStmts := ih.execStmts
  have h_assignTo := ih.assignTo
  have h_unsetOne := ih.unsetOne
  have h_unsetList := ih.unsetList
  have h_execIf := ih.execIf
  have h_execWhile := ih.execWhile
  have h_execForKV := ih.execForKV
  have h_execForMulti := ih.execForMulti
  have h_forMultiOne := ih.forMultiOne
  have h_forCGo := ih.forCGo
  have h_execForC := ih.execForC
  have h_exec := ih.exec
  have h_truthy := runM_truthy
  have h_call : ∀ (isLit : Bool) (frame : Frame) (body : List Stmt), KeepsCtx (inCall isLit frame (bodyValue (execBlock p fuel body))) :=
    fun isLit frame body => ctx_withStack _ _ _ (ctx_bodyValue _ (ih.execBlock body))
  have h_sub : ∀ (frame : Frame) (body : List Stmt), KeepsCtx (inCall false frame (execBlock p fuel body)) :=
    fun frame body => ctx_withStack _ _ _ (ih.execBlock body)
  have h_loopKV : ∀ k v es body, KeepsCtx (inNewFrame (execForKV p fuel k v es body)) :=
    fun k v es body => ctx_withStack _ _ _ (ih.execForKV k v es body)
  have h_loopMulti : ∀ ks v sofar es body, KeepsCtx (inNewFrame (execForMulti p fuel ks v sofar es body)) :=
    fun ks v sofar es body => ctx_withStack _ _ _ (ih.execForMulti ks v sofar es body)
  have h_loopC : ∀ init c u body, KeepsCtx (inNewFrame (andThen (execStmts p fuel init) (execForC p fuel c u body))) :=
    fun init c u body => ctx_withStack _ _ _ (ctx_andThen _ _ (ih.execStmts init) (ih.execForC c u body))
  unfold KeepsCtx at h_eval h_evalList h_evalKVs h_callFn h_hof h_anyEvery h_mapFn h_mapKV h_foldFn h_foldKV h_sortFn h_insertFn h_execBlock h_execStmts h_assignTo h_unsetOne h_unsetList h_execIf h_execWhile h_execForKV h_execForMulti h_forMultiOne h_forCGo h_execForC h_exec h_call h_sub h_loopKV h_loopMulti h_loopC
  unfold execWhile
  ctx_step

set_option maxHeartbeats 4000000 in
theorem ctx_execForKV_step (p : Prog) (fuel : Nat) (ih : AllKeepCtx p fuel) : ∀ k v es body, KeepsCtx (execForKV p (fuel + 1) k v es body) := by
  intro k v es body
  have h_eval := ih.eval
  have h_evalList := ih.evalList
  have h_evalKVs := ih.evalKVs
  have h_callFn := ih.callFn
  have h_hof := ih.hof
  have h_anyEvery := ih.anyEvery
  have h_mapFn := ih.mapFn
  have h_mapKV := ih.mapKV
  have h_foldFn := ih.foldFn
  have h_foldKV := ih.foldKV
  have h_sortFn := ih.sortFn
  have h_insertFn := ih.insertFn
  have h_execBlock := ih.execBlock
  have h_execStmts := ih.execStmts
  have h_assignTo := ih.assignTo
  have h_unsetOne := ih.unsetOne
  have h_unsetList := ih.unsetList
  have h_execIf := ih.execIf
  have h_execWhile := ih.execWhile
  have h_execForKV := ih.execForKV
  have h_execForMulti := ih.execForMulti
  have h_forMultiOne := ih.forMultiOne
  have h_forCGo := ih.forCGo
  have h_execForC := ih.execForC
  have h_exec := ih.exec
  have h_truthy := runM_truthy
  have h_call : ∀ (isLit : Bool) (frame : Frame) (body : List Stmt), KeepsCtx (inCall isLit frame (bodyValue (execBlock p fuel body))) :=
    fun isLit frame body => ctx_withStack _ _ _ (ctx_bodyValue _ (ih.execBlock body))
  have h_sub : ∀ (frame : Frame) (body : List Stmt), KeepsCtx (inCall false frame (execBlock p fuel body)) :=
    fun frame body => ctx_withStack _ _ _ (ih.execBlock body)
  have h_loopKV : ∀ k v es body, KeepsCtx (inNewFrame (execForKV p fuel k v es body)) :=
    fun k v es body => ctx_withStack _ _ _ (ih.execForKV k v es body)
  have h_loopMulti : ∀ ks v sofar es body, KeepsCtx (inNewFrame (execForMulti p fuel ks v sofar es body)) :=
    fun ks v sofar es body => ctx_withStack _ _ _ (ih.execForMulti ks v sofar es body)
  have h_loopC : ∀ init c u body, KeepsCtx (inNewFrame (andThen (execStmts p fuel init) (execForC p fuel c u body))) :=
    fun init c u body => ctx_withStack _ _ _ (ctx_andThen _ _ (ih.execStmts init) (ih.execForC c u body))
  unfold KeepsCtx at h_eval h_evalList h_evalKVs h_callFn h_hof h_anyEvery h_mapFn h_mapKV h_foldFn h_foldKV h_sortFn h_insertFn h_execBlock h_execStmts h_assignTo h_unsetOne h_unsetList h_execIf h_execWhile h_execForKV h_execForMulti h_forMultiOne h_forCGo h_execForC h_exec h_call h_sub h_loopKV h_loopMulti h_loopC
  unfold execForKV
  cases es <;> ctx_step

set_option maxHeartbeats 4000000 in
theorem ctx_execForMulti_step (p : Prog) (fuel : Nat) (ih : AllKeepCtx p fuel) : ∀ ks v sofar es body, KeepsCtx (execForMulti p (fuel + 1) ks v sofar es body) := by
  intro ks v sofar es body
  have h_eval := ih.eval
  have h_evalList := ih.evalList
  have h_evalKVs := ih.evalKVs
  have h_callFn := ih.callFn
  have h_hof := ih.hof
  have h_anyEvery := ih.anyEvery
  have h_mapFn := ih.mapFn
  have h_mapKV := ih.mapKV
  have h_foldFn := ih.foldFn
  have h_foldKV := ih.foldKV
  have h_sortFn := ih.sortFn
  have h_insertFn := ih.insertFn
  have h_execBlock := ih.execBlock
  have h_execStmts := ih.execStmts
  have h_assignTo := ih.assignTo
  have h_unsetOne := ih.unsetOne
  have h_unsetList := ih.unsetList
  have h_execIf := ih.execIf
  have h_execWhile := ih.execWhile
  have h_execForKV := ih.execForKV
  have h_execForMulti := ih.execForMulti
  have h_forMultiOne := ih.forMultiOne
  have h_forCGo := ih.forCGo
  have h_execForC := ih.execForC
  have h_exec := ih.exec
  have h_truthy := runM_truthy
  have h_call : ∀ (isLit : Bool) (frame : Frame) (body : List Stmt), KeepsCtx (inCall isLit frame (bodyValue (execBlock p fuel body))) :=
    fun isLit frame body => ctx_withStack _ _ _ (ctx_bodyValue _ (ih.execBlock body))
  have h_sub : ∀ (frame : Frame) (body : List Stmt), KeepsCtx (inCall false frame (execBlock p fuel body)) :=
    fun frame body => ctx_withStack _ _ _ (ih.execBlock body)
  have h_loopKV : ∀ k v es body, KeepsCtx (inNewFrame (execForKV p fuel k v es body)) :=
    fun k v es body => ctx_withStack _ _ _ (ih.execForKV k v es body)
  have h_loopMulti : ∀ ks v sofar es body, KeepsCtx (inNewFrame (execForMulti p fuel ks v sofar es body)) :=
    fun ks v sofar es body => ctx_withStack _ _ _ (ih.execForMulti ks v sofar es body)
  have h_loopC : ∀ init c u body, KeepsCtx (inNewFrame (andThen (execStmts p fuel init) (execForC p fuel c u body))) :=
    fun init c u body => ctx_withStack _ _ _ (ctx_andThen _ _ (ih.execStmts init) (ih.execForC c u body))
  unfold KeepsCtx at h_eval h_evalList h_evalKVs h_callFn h_hof h_anyEvery h_mapFn h_mapKV h_foldFn h_foldKV h_sortFn h_insertFn h_execBlock h_execStmts h_assignTo h_unsetOne h_unsetList h_execIf h_execWhile h_execForKV h_execForMulti h_forMultiOne h_forCGo h_execForC h_exec h_call h_sub h_loopKV h_loopMulti h_loopC
  unfold execForMulti
  cases es <;> ctx_step

set_option maxHeartbeats 4000000 in
theorem ctx_forMultiOne_step (p : Prog) (fuel : Nat) (ih : AllKeepCtx p fuel) : ∀ ks v here val body, KeepsCtx (forMultiOne p (fuel + 1) ks v here val body) := by
  intro ks v here val body
  have h_eval := ih.eval
  have h_evalList := ih.evalList
  have h_evalKVs := ih.evalKVs
  have h_callFn := ih.callFn
  have h_hof := ih.hof
  have h_anyEvery := ih.anyEvery
  have h_mapFn := ih.mapFn
  have h_mapKV := ih.mapKV
  have h_foldFn := ih.foldFn
  have h_foldKV := ih.foldKV
  have h_sortFn := ih.sortFn
  have h_insertFn := ih.insertFn
  have h_execBlock := ih.execBlock
  have h_execStmts := ih.execStmts
  have h_assignTo := ih.assignTo
  have h_unsetOne := ih.unsetOne
  have h_unsetList := ih.unsetList
  have h_execIf := ih.execIf
  have h_execWhile := ih.execWhile
  have h_execForKV := ih.execForKV
  have h_execForMulti := ih.execForMulti
  have h_forMultiOne := ih.forMultiOne
  have h_forCGo := ih.forCGo
  have h_execForC := ih.execForC
  have h_exec := ih.exec
  have h_truthy := runM_truthy
  have h_call : ∀ (isLit : Bool) (frame : Frame) (body : List Stmt), KeepsCtx (inCall isLit frame (bodyValue (execBlock p fuel body))) :=
    fun isLit frame body => ctx_withStack _ _ _ (ctx_bodyValue _ (ih.execBlock body))
  have h_sub : ∀ (frame : Frame) (body : List Stmt), KeepsCtx (inCall false frame (execBlock p fuel body)) :=
    fun frame body => ctx_withStack _ _ _ (ih.execBlock body)
  have h_loopKV : ∀ k v es body, KeepsCtx (inNewFrame (execForKV p fuel k v es body)) :=
    fun k v es body => ctx_withStack _ _ _ (ih.execForKV k v es body)
  have h_loopMulti : ∀ ks v sofar es body, KeepsCtx (inNewFrame (execForMulti p fuel ks v sofar es body)) :=
    fun ks v sofar es body => ctx_withStack _ _ _ (ih.execForMulti ks v sofar es body)
  have h_loopC : ∀ init c u body, KeepsCtx (inNewFrame (andThen (execStmts p fuel init) (execForC p fuel c u body))) :=
    fun init c u body => ctx_withStack _ _ _ (ctx_andThen _ _ (ih.execStmts init) (ih.execForC c u body))
  unfold KeepsCtx at h_eval h_evalList h_evalKVs h_callFn h_hof h_anyEvery h_mapFn h_mapKV h_foldFn h_foldKV h_sortFn h_insertFn h_execBlock h_execStmts h_assignTo h_unsetOne h_unsetList h_execIf h_execWhile h_execForKV h_execForMulti h_forMultiOne h_forCGo h_execForC h_exec h_call h_sub h_loopKV h_loopMulti h_loopC
  unfold forMultiOne
  ctx_step

set_option maxHeartbeats 4000000 in
theorem ctx_forCGo_step (p : Prog) (fuel : Nat) (ih : AllKeepCtx p fuel) : ∀ c, KeepsCtx (forCGo p (fuel + 1) c) := by
  intro c
  have h_eval := ih.eval
  have h_evalList := ih.evalList
  have h_evalKVs := ih.evalKVs
  have h_callFn := ih.callFn
  have h_hof := ih.hof
  have h_anyEvery := ih.anyEvery
  have h_mapFn := ih.mapFn
  have h_mapKV := ih.mapKV
  have h_foldFn := ih.foldFn
  have h_foldKV := ih.foldKV
  have h_sortFn := ih.sortFn
  have h_insertFn := ih.insertFn
  have h_execBlock := ih.execBlock
  have h_execStmts := ih.execStmts
  have h_assignTo := ih.assignTo
  have h_unsetOne := ih.unsetOne
  have h_unsetList := ih.unsetList
  have h_execIf := ih.execIf
  have h_execWhile := ih.execWhile
  have h_execForKV := ih.execForKV
  have h_execForMulti := ih.execForMulti
  have h_forMultiOne := ih.forMultiOne
  have h_forCGo := ih.forCGo
  have h_execForC := ih.execForC
  have h_exec := ih.exec
  have h_truthy := runM_truthy
  have h_call : ∀ (isLit : Bool) (frame : Frame) (body : List Stmt), KeepsCtx (inCall isLit frame (bodyValue (execBlock p fuel body))) :=
    fun isLit frame body => ctx_withStack _ _ _ (ctx_bodyValue _ (ih.execBlock body))
  have h_sub : ∀ (frame : Frame) (body : List Stmt), KeepsCtx (inCall false frame (execBlock p fuel body)) :=
    fun frame body => ctx_withStack _ _ _ (ih.execBlock body)
  have h_loopKV : ∀ k v es body, KeepsCtx (inNewFrame (execForKV p fuel k v es body)) :=
    fun k v es body => ctx_withStack _ _ _ (ih.execForKV k v es body)
  have h_loopMulti : ∀ ks v sofar es body, KeepsCtx (inNewFrame (execForMulti p fuel ks v sofar es body)) :=
    fun ks v sofar es body => ctx_withStack _ _ _ (ih.execForMulti ks v sofar es body)
  have h_loopC : ∀ init c u body, KeepsCtx (inNewFrame (andThen (execStmts p fuel init) (execForC p fuel c u body))) :=
    fun init c u body => ctx_withStack _ _ _ (ctx_andThen _ _ (ih.execStmts init) (ih.execForC c u body))
  unfold KeepsCtx at h_eval h_evalList h_evalKVs h_callFn h_hof h_anyEvery h_mapFn h_mapKV h_foldFn h_foldKV h_sortFn h_insertFn h_execBlock h_execStmts h_assignTo h_unsetOne h_unsetList h_execIf h_execWhile h_execForKV h_execForMulti h_forMultiOne h_forCGo h_execForC h_exec h_call h_sub h_loopKV h_loopMulti h_loopC
  unfold forCGo
  ctx_step

set_option maxHeartbeats 4000000 in
theorem ctx_execForC_step (p : Prog) (fuel : Nat) (ih : AllKeepCtx p fuel) : ∀ c u body, KeepsCtx (execForC p (fuel + 1) c u body) := by
  intro c u body
  have h_eval := ih.eval
  have h_evalList := ih.evalList
  have h_evalKVs := ih.evalKVs
  have h_callFn := ih.callFn
  have h_hof := ih.hof
  have h_anyEvery := ih.anyEvery
  have h_mapFn := ih.mapFn
  have h_mapKV := ih.mapKV
  have h_foldFn := ih.foldFn
  have h_foldKV := ih.foldKV
  have h_sortFn := ih.sortFn
  have h_insertFn := ih.insertFn
  have h_execBlock := ih.execBlock
  have h_execStmts := ih.execStmts
  have h_assignTo := ih.assignTo
  have h_unsetOne := ih.unsetOne
  have h_unsetList := ih.unsetList
  have h_execIf := ih.execIf
  have h_execWhile := ih.execWhile
  have h_execForKV := ih.execForKV
  have h_execForMulti := ih.execForMulti
  have h_forMultiOne := ih.forMultiOne
  have h_forCGo := ih.forCGo
  have h_execForC := ih.execForC
  have h_exec := ih.exec
  have h_truthy := runM_truthy
  have h_call : ∀ (isLit : Bool) (frame : Frame) (body : List Stmt), KeepsCtx (inCall isLit frame (bodyValue (execBlock p fuel body))) :=
    fun isLit frame body => ctx_withStack _ _ _ (ctx_bodyValue _ (ih.execBlock body))
  have h_sub : ∀ (frame : Frame) (body : List Stmt), KeepsCtx (inCall false frame (execBlock p fuel body)) :=
    fun frame body => ctx_withStack _ _ _ (ih.execBlock body)
  have h_loopKV : ∀ k v es body, KeepsCtx (inNewFrame (execForKV p fuel k v es body)) :=
    fun k v es body => ctx_withStack _ _ _ (ih.execForKV k v es body)
  have h_loopMulti : ∀ ks v sofar es body, KeepsCtx (inNewFrame (execForMulti p fuel ks v sofar es body)) :=
    fun ks v sofar es body => ctx_withStack _ _ _ (ih.execForMulti ks v sofar es body)
  have h_loopC : ∀ init c u body, KeepsCtx (inNewFrame (andThen (execStmts p fuel init) (execForC p fuel c u body))) :=
    fun init c u body => ctx_withStack _ _ _ (ctx_andThen _ _ (ih.execStmts init) (ih.execForC c u body))
  unfold KeepsCtx at h_eval h_evalList h_evalKVs h_callFn h_hof h_anyEvery h_mapFn h_mapKV h_foldFn h_foldKV h_sortFn h_insertFn h_execBlock h_execStmts h_assignTo h_unsetOne h_unsetList h_execIf h_execWhile h_execForKV h_execForMulti h_forMultiOne h_forCGo h_execForC h_exec h_call h_sub h_loopKV h_loopMulti h_loopC
  unfold execForC
  ctx_step

set_option maxHeartbeats 4000000 in
theorem ctx_exec_step (p : Prog) (fuel : Nat) (ih : AllKeepCtx p fuel) : ∀ st, KeepsCtx (exec p (fuel + 1) st) := by
  intro st
  have h_eval := ih.eval
  have h_evalList := ih.evalList
  have h_evalKVs := ih.evalKVs
  have h_callFn := ih.callFn
  have h_hof := ih.hof
  have h_anyEvery := ih.anyEvery
  have h_mapFn := ih.mapFn
  have h_mapKV := ih.mapKV
  have h_foldFn := ih.foldFn
  have h_foldKV := ih.foldKV
  have h_sortFn := ih.sortFn
  have h_insertFn := ih.insertFn
  have h_execBlock := ih.execBlock
  have h_execStmts := ih.execStmts
  have h_assignTo := ih.assignTo
  have h_unsetOne := ih.unsetOne
  have h_unsetList := ih.unsetList
  have h_execIf := ih.execIf
  have h_execWhile := ih.execWhile
  have h_execForKV := ih.execForKV
  have h_execForMulti := ih.execForMulti
  have h_forMultiOne := ih.forMultiOne
  have h_forCGo := ih.forCGo
  have h_execForC := ih.execForC
  have h_exec := ih.exec
  have h_truthy := runM_truthy
  have h_call : ∀ (isLit : Bool) (frame : Frame) (body : List Stmt), KeepsCtx (inCall isLit frame (bodyValue (execBlock p fuel body))) :=
    fun isLit frame body => ctx_withStack _ _ _ (ctx_bodyValue _ (ih.execBlock body))
  have h_sub : ∀ (frame : Frame) (body : List Stmt), KeepsCtx (inCall false frame (execBlock p fuel body)) :=
    fun frame body => ctx_withStack _ _ _ (ih.execBlock body)
  have h_loopKV : ∀ k v es body, KeepsCtx (inNewFrame (execForKV p fuel k v es body)) :=
    fun k v es body => ctx_withStack _ _ _ (ih.execForKV k v es body)
  have h_loopMulti : ∀ ks v sofar es body, KeepsCtx (inNewFrame (execForMulti p fuel ks v sofar es body)) :=
    fun ks v sofar es body => ctx_withStack _ _ _ (ih.execForMulti ks v sofar es body)
  have h_loopC : ∀ init c u body, KeepsCtx (inNewFrame (andThen (execStmts p fuel init) (execForC p fuel c u body))) :=
    fun init c u body => ctx_withStack _ _ _ (ctx_andThen _ _ (ih.execStmts init) (ih.execForC c u body))
  unfold KeepsCtx at h_eval h_evalList h_evalKVs h_callFn h_hof h_anyEvery h_mapFn h_mapKV h_foldFn h_foldKV h_sortFn h_insertFn h_execBlock h_execStmts h_assignTo h_unsetOne h_unsetList h_execIf h_execWhile h_execForKV h_execForMulti h_forMultiOne h_forCGo h_execForC h_exec h_call h_sub h_loopKV h_loopMulti h_loopC
  unfold exec
  cases st <;> ctx_step

theorem ctx_execBlock_step (p : Prog) (fuel : Nat) (ih : AllKeepCtx p fuel) : ∀ body, KeepsCtx (execBlock p (fuel + 1) body) := by
  intro body
  unfold execBlock
  exact ctx_withStack _ _ _ (ih.execStmts body)

theorem allKeepCtx_zero (p : Prog) : AllKeepCtx p 0 := by
  constructor <;> intros <;> first
    | (unfold eval; exact ctx_failM _)
    | (unfold evalList; exact ctx_failM _)
    | (unfold evalKVs; exact ctx_failM _)
    | (unfold callFn; exact ctx_failM _)
    | (unfold hof; exact ctx_failM _)
    | (unfold anyEvery; exact ctx_failM _)
    | (unfold mapFn; exact ctx_failM _)
    | (unfold mapKV; exact ctx_failM _)
    | (unfold foldFn; exact ctx_failM _)
    | (unfold foldKV; exact ctx_failM _)
    | (unfold sortFn; exact ctx_failM _)
    | (unfold insertFn; exact ctx_failM _)
    | (unfold execBlock; exact ctx_failM _)
    | (unfold execStmts; exact ctx_failM _)
    | (unfold assignTo; exact ctx_failM _)
    | (unfold unsetOne; exact ctx_failM _)
    | (unfold unsetList; exact ctx_failM _)
    | (unfold execIf; exact ctx_failM _)
    | (unfold execWhile; exact ctx_failM _)
    | (unfold execForKV; exact ctx_failM _)
    | (unfold execForMulti; exact ctx_failM _)
    | (unfold forMultiOne; exact ctx_failM _)
    | (unfold forCGo; exact ctx_failM _)
    | (unfold execForC; exact ctx_failM _)
    | (unfold exec; exact ctx_failM _)

/-- THE INDUCTION: at every fuel, every function of the interpreter leaves NR, FNR, FILENAME, the mode and the current-record flag alone. -/
theorem allKeepCtx (p : Prog) : ∀ fuel, AllKeepCtx p fuel
  | 0 => allKeepCtx_zero p
  | fuel + 1 =>
    have ih := allKeepCtx p fuel
    { eval := ctx_eval_step p fuel ih,
      evalList := ctx_evalList_step p fuel ih,
      evalKVs := ctx_evalKVs_step p fuel ih,
      callFn := ctx_callFn_step p fuel ih,
      hof := ctx_hof_step p fuel ih,
      anyEvery := ctx_anyEvery_step p fuel ih,
      mapFn := ctx_mapFn_step p fuel ih,
      mapKV := ctx_mapKV_step p fuel ih,
      foldFn := ctx_foldFn_step p fuel ih,
      foldKV := ctx_foldKV_step p fuel ih,
      sortFn := ctx_sortFn_step p fuel ih,
      insertFn := ctx_insertFn_step p fuel ih,
      execBlock := ctx_execBlock_step p fuel ih,
      execStmts := ctx_execStmts_step p fuel ih,
      assignTo := ctx_assignTo_step p fuel ih,
      unsetOne := ctx_unsetOne_step p fuel ih,
      unsetList := ctx_unsetList_step p fuel ih,
      execIf := ctx_execIf_step p fuel ih,
      execWhile := ctx_execWhile_step p fuel ih,
      execForKV := ctx_execForKV_step p fuel ih,
      execForMulti := ctx_execForMulti_step p fuel ih,
      forMultiOne := ctx_forMultiOne_step p fuel ih,
      forCGo := ctx_forCGo_step p fuel ih,
      execForC := ctx_execForC_step p fuel ih,
      exec := ctx_exec_step p fuel ih }


theorem ctx_runBlock (p : Prog) (fuel : Nat) (body : List Stmt) : KeepsCtx (runBlock p fuel body) := by
  unfold runBlock
  refine ctx_bind _ _ (fun _ => rfl) (fun _ => ctx_bind _ _ ((allKeepCtx p fuel).execBlock body) (fun _ => fun _ => rfl))

/-- NR and FNR COUNT RECORDS: whatever the program does with a record - and however that ends - the
counters afterwards are exactly one more than before. -/
theorem runRecord_counts (p : Prog) (cfg : Run) (fuel : Nat) (r : Fields) (s : St) :
    (runM (runRecord p cfg fuel r) s).2.nr = s.nr + 1 ∧ (runM (runRecord p cfg fuel r) s).2.fnr = s.fnr + 1 ∧
    (runM (runRecord p cfg fuel r) s).2.filename = s.filename := by
  unfold runRecord
  simp only [runM_bind, runM_modify, runM_get, emitRec]
  have hb := ctx_runBlock p fuel p.main
    { s with cur := r, hasRec := true, nr := s.nr + 1, fnr := s.fnr + 1, filt := .s .null }
  generalize runM (runBlock p fuel p.main) _ = rb at *
  obtain ⟨res, s1⟩ := rb
  simp only [ctxOf, Prod.mk.injEq] at hb
  cases res with
  | error e => simp [hb]
  | ok u =>
    simp only []
    split
    · split <;> (try split) <;> simp_all [runM_bind, runM_pure, runM_modify, runM_failM] <;> (try split) <;> simp_all [runM_modify, runM_pure]
    · simp [hb]


theorem recLoop_nil (p : Prog) (cfg : Run) (fuel : Nat) : recLoop p cfg fuel [] = pure () := by
  simp [recLoop]

theorem recLoop_cons (p : Prog) (cfg : Run) (fuel : Nat) (r : Fields) (rs : List Fields) :
    recLoop p cfg fuel (r :: rs) = (runRecord p cfg fuel r >>= fun _ => recLoop p cfg fuel rs) := by
  simp [recLoop]

theorem recLoop_counts (p : Prog) (cfg : Run) (fuel : Nat) :
    ∀ (recs : List Fields) (s : St), (runM (recLoop p cfg fuel recs) s).1 = .ok () →
      (runM (recLoop p cfg fuel recs) s).2.nr = s.nr + recs.length := by
  intro recs
  induction recs with
  | nil => intro s _; simp [recLoop_nil]
  | cons r rs ih =>
    intro s h
    rw [recLoop_cons] at h ⊢
    simp only [runM_bind] at h ⊢
    have h1 := (runRecord_counts p cfg fuel r s).1
    generalize runM (runRecord p cfg fuel r) s = rr at *
    obtain ⟨res, s1⟩ := rr
    cases res with
    | error e => simp at h
    | ok u =>
      simp only [] at h ⊢
      rw [ih s1 h]
      simp at h1
      simp [h1]; omega

end DSL
end Miller
