import MillerModel.Spec.Arith
set_option linter.unusedSimpArgs false
namespace Miller
namespace Lemmas.C07
open Arith

macro "bool_omega" : tactic => `(tactic| (first | omega | (rw [Bool.eq_iff_iff]; simp only [Bool.and_eq_true, Bool.or_eq_true, Bool.not_eq_true', Bool.not_eq_eq_eq_not, Bool.not_true, Bool.not_false, decide_eq_true_eq, decide_eq_false_iff_not]; omega)))

theorem plus_overflow_iff (a b : Int) (ha : I64 a) (hb : I64 b) :
    (if a > 0 then (decide (b > 0) && decide (wrap (a + b) < 0))
     else if a < 0 then (decide (b < 0) && decide (wrap (a + b) ≥ 0)) else false) = !fitsI64 (a + b) := by
  unfold fitsI64 wrap I64 at *
  by_cases h1 : a > 0 <;> by_cases h2 : a < 0 <;> simp [h1, h2] <;> bool_omega

theorem plus_exact (a b : Int) (ha : I64 a) (hb : I64 b) : plus_n_ii a b = Spec.Arith.plus a b := by
  unfold plus_n_ii Spec.Arith.plus Spec.Arith.exactOrFloat
  simp only [plus_overflow_iff a b ha hb]
  by_cases hf : fitsI64 (a + b) = true
  · simp [hf, wrap_of_I64 ((fitsI64_iff _).mp hf)]
  · simp [hf]

theorem minus_overflow_iff (a b : Int) (ha : I64 a) (hb : I64 b) :
    (if a ≥ 0 then (decide (b < 0) && decide (wrap (a - b) < 0))
     else if a < 0 then (decide (b > 0) && decide (wrap (a - b) > 0)) else false) = !fitsI64 (a - b) := by
  unfold fitsI64 wrap I64 at *
  by_cases h1 : a ≥ 0 <;> by_cases h2 : a < 0 <;> simp [h1, h2] <;> bool_omega

theorem minus_exact (a b : Int) (ha : I64 a) (hb : I64 b) : minus_n_ii a b = Spec.Arith.minus a b := by
  unfold minus_n_ii Spec.Arith.minus Spec.Arith.exactOrFloat
  simp only [minus_overflow_iff a b ha hb]
  by_cases hf : fitsI64 (a - b) = true
  · simp [hf, wrap_of_I64 ((fitsI64_iff _).mp hf)]
  · simp [hf]


theorem tmod_bounds (c a : Int) :
    (a > 0 → -a < Int.tmod c a ∧ Int.tmod c a < a) ∧ (a < 0 → a < Int.tmod c a ∧ Int.tmod c a < -a) := by
  have pos : ∀ (c a : Int), a > 0 → -a < Int.tmod c a ∧ Int.tmod c a < a := by
    intro c a ha
    by_cases hc : 0 ≤ c
    · have h1 := Int.tmod_nonneg a hc
      have h2 := Int.tmod_lt_of_pos c ha
      omega
    · have hc' : 0 ≤ -c := by omega
      have h1 := Int.tmod_nonneg a hc'
      have h2 := Int.tmod_lt_of_pos (-c) ha
      have h3 := Int.neg_tmod c a
      omega
  constructor
  · exact pos c a
  · intro ha
    have := pos c (-a) (by omega)
    rw [Int.tmod_neg] at this
    omega

theorem times_cond_iff (a b : Int) (ha : I64 a) (hb : I64 b) :
    (a != 0 && (goDiv (wrap (a * b)) a != b || (a == -1 && b == minI64) || (b == -1 && a == minI64)))
      = !fitsI64 (a * b) := by
  by_cases h0 : a = 0
  · subst h0; simp [fitsI64]
  · have hne : (a != 0) = true := by simp [h0]
    simp only [hne, Bool.true_and]
    by_cases hf : fitsI64 (a * b) = true
    · have hI := (fitsI64_iff _).mp hf
      have hc : wrap (a * b) = a * b := wrap_of_I64 hI
      have hd : goDiv (a * b) a = b := by
        unfold goDiv; rw [Int.mul_tdiv_cancel_left b h0]; exact wrap_of_I64 hb
      have s1 : ¬ (a = -1 ∧ b = minI64) := by
        rintro ⟨h1, h2⟩; subst h1; subst h2; revert hI; unfold I64 minI64; omega
      have s2 : ¬ (b = -1 ∧ a = minI64) := by
        rintro ⟨h1, h2⟩; subst h1; subst h2; revert hI; unfold I64 minI64; omega
      simp [hf, hc, hd]
      exact ⟨fun h1 h2 => s1 ⟨h1, h2⟩, fun h1 h2 => s2 ⟨h1, h2⟩⟩
    · simp only [hf, Bool.not_false]
      -- show the condition holds
      by_cases hq : goDiv (wrap (a * b)) a = b
      · -- then it must be one of the two special cases
        have hw := wrap_I64 (a * b)
        have hmt := Int.mul_tdiv_add_tmod (wrap (a * b)) a
        have hb' := tmod_bounds (wrap (a * b)) a
        have hnf : ¬ I64 (a * b) := fun h => hf ((fitsI64_iff _).mpr h)
        unfold goDiv at hq
        -- the quotient either fits (then a*q = a*b, contradiction) or is 2^63
        by_cases hqf : I64 (Int.tdiv (wrap (a * b)) a)
        · rw [wrap_of_I64 hqf] at hq
          rw [hq] at hmt
          exfalso
          unfold I64 wrap at *
          omega
        · -- |q| ≤ |c| ≤ 2^63, so q = 2^63, c = -2^63, a = -1
          have hle := Int.natAbs_tdiv_le_natAbs (wrap (a * b)) a
          have hq2 : Int.tdiv (wrap (a * b)) a = 9223372036854775808 := by
            unfold I64 at hqf hw; omega
          rw [hq2] at hmt hq
          have ha1 : a = -1 := by
            unfold I64 at hw ha; omega
          have hb1 : b = minI64 := by
            rw [← hq]; unfold wrap minI64; omega
          simp [ha1, hb1]
      · simp [hq]


theorem times_exact (a b : Int) (ha : I64 a) (hb : I64 b) : times_n_ii a b = Spec.Arith.times a b := by
  unfold times_n_ii Spec.Arith.times Spec.Arith.exactOrFloat
  simp only [times_cond_iff a b ha hb]
  by_cases hf : fitsI64 (a * b) = true
  · simp [hf, wrap_of_I64 ((fitsI64_iff _).mp hf)]
  · simp [hf]

theorem tmod_zero_iff (a b : Int) : Int.tmod a b = 0 ↔ a % b = 0 := by
  rw [← Int.dvd_iff_tmod_eq_zero, Int.dvd_iff_emod_eq_zero]

/-- For `b ≠ 0`, `b ∣ a`: the quotient fits unless `a = -2^63 ∧ b = -1`. -/
theorem quot_fits (a b : Int) (ha : I64 a) (hb : I64 b) (h0 : b ≠ 0) (hd : Int.tmod a b = 0) :
    fitsI64 (a / b) = !(a == minI64 && b == -1) ∧ Int.tdiv a b = a / b := by
  have hdvd : b ∣ a := Int.dvd_iff_tmod_eq_zero.mpr hd
  have heq : Int.tdiv a b = a / b := Int.tdiv_eq_ediv_of_dvd hdvd
  refine ⟨?_, heq⟩
  rw [← heq]
  have hmt := Int.mul_tdiv_add_tmod a b
  rw [hd] at hmt
  have hle := Int.natAbs_tdiv_le_natAbs a b
  by_cases hs : a = minI64 ∧ b = -1
  · obtain ⟨h1, h2⟩ := hs
    subst h1; subst h2
    simp only [minI64] at hmt ⊢
    have : Int.tdiv (-9223372036854775808) (-1) = 9223372036854775808 := by omega
    rw [this]; decide
  · have hs' : (a == minI64 && b == -1) = false := by
      cases h1 : (a == minI64) <;> cases h2 : (b == -1) <;> simp_all
    rw [hs']
    simp only [Bool.not_false, fitsI64_iff]
    unfold I64 at *
    by_cases hq : Int.tdiv a b = 9223372036854775808
    · rw [hq] at hmt
      exfalso; apply hs; unfold minI64; omega
    · omega

theorem divide_exact (a b : Int) (ha : I64 a) (hb : I64 b) : divide_n_ii a b = Spec.Arith.divide a b := by
  unfold divide_n_ii Spec.Arith.divide Spec.Arith.exactOrFloat
  by_cases h0 : b = 0
  · simp [h0]
  · have h0' : (b == 0) = false := by simp [h0]
    simp only [h0', h0, Bool.false_eq_true, if_false]
    by_cases hd : Int.tmod a b = 0
    · have hd' : a % b = 0 := (tmod_zero_iff a b).mp hd
      obtain ⟨hfit, hq⟩ := quot_fits a b ha hb h0 hd
      have hgm : (goMod a b == 0) = true := by simp [goMod, hd]
      simp only [hgm, Bool.true_and, hd', if_true, hfit]
      by_cases hs : (a == minI64 && b == -1) = true
      · simp [hs]
      · simp only [hs, Bool.not_false, if_true]
        have : I64 (a / b) := by
          rw [← fitsI64_iff, hfit]; simp [hs]
        simp [goDiv, hq, wrap_of_I64 this]
    · have hd' : ¬ a % b = 0 := fun h => hd ((tmod_zero_iff a b).mpr h)
      have hgm : (goMod a b == 0) = false := by simp [goMod, hd]
      simp [hgm, hd']


theorem sign_pos' {b : Int} (h : 0 < b) : b.sign = 1 := Int.sign_eq_one_of_pos h
theorem sign_neg' {b : Int} (h : b < 0) : b.sign = -1 := Int.sign_eq_neg_one_of_neg h

theorem int_divide_exact (a b : Int) (ha : I64 a) (hb : I64 b) :
    int_divide_n_ii a b = Spec.Arith.intDivide a b := by
  unfold int_divide_n_ii Spec.Arith.intDivide Spec.Arith.exactOrFloat
  by_cases h0 : b = 0
  · simp [h0]
  · have h0' : (b == 0) = false := by simp [h0]
    simp only [h0', h0, Bool.false_eq_true, if_false]
    have hfd := @Int.fdiv_eq_tdiv a b
    have hmt := Int.mul_tdiv_add_tmod a b
    have hle := Int.natAbs_tdiv_le_natAbs a b
    have hdvd : b ∣ a ↔ Int.tmod a b = 0 := Int.dvd_iff_tmod_eq_zero
    have htb := tmod_bounds a b
    by_cases hs : a = minI64 ∧ b = -1
    · obtain ⟨h1, h2⟩ := hs
      subst h1; subst h2
      have : Int.fdiv minI64 (-1) = 9223372036854775808 := by decide
      simp [this, fitsI64, minI64]
    · have hs' : (a == minI64 && b == -1) = false := by
        cases h1 : (a == minI64) <;> cases h2 : (b == -1) <;> simp_all
      simp only [hs', Bool.false_eq_true, if_false]
      -- the truncated quotient fits
      have hqI : I64 (Int.tdiv a b) := by
        unfold I64 at *
        by_cases hq : Int.tdiv a b = 9223372036854775808
        · rw [hq] at hmt; exfalso; apply hs; unfold minI64; omega
        · omega
      have hgd : goDiv a b = Int.tdiv a b := by unfold goDiv; exact wrap_of_I64 hqI
      simp only [hgd, goMod]
      -- case analysis on divisibility and signs
      by_cases hd : Int.tmod a b = 0
      · have hdv : b ∣ a := hdvd.mpr hd
        simp only [hdv, if_true, Int.sub_zero] at hfd
        have hr : (Int.tmod a b != 0) = false := by simp [hd]
        simp only [hr, Bool.false_eq_true, if_false, hfd]
        have : fitsI64 (Int.tdiv a b) = true := (fitsI64_iff _).mpr hqI
        simp [this]
      · have hdv : ¬ b ∣ a := fun h => hd (hdvd.mp h)
        have hr : (Int.tmod a b != 0) = true := by simp [hd]
        simp only [hdv, if_false] at hfd
        simp only [hr, if_true]
        by_cases hapos : 0 ≤ a
        · have han : ¬ a < 0 := by omega
          simp only [han, if_false, hapos, if_true] at hfd ⊢
          by_cases hbpos : 0 ≤ b
          · have hbn : ¬ b < 0 := by omega
            simp only [hbn, hbpos, if_true, if_false, Int.sub_zero] at hfd ⊢
            rw [hfd]; simp [(fitsI64_iff _).mpr hqI]
          · have hbn : b < 0 := by omega
            simp only [hbn, hbpos, if_true, if_false] at hfd ⊢
            -- a ≥ 0, b < 0, not divisible: tdiv ≤ 0 hence q - 1 fits unless q = -2^63 (impossible as |q| ≤ |a| < 2^63)
            have hq1 : I64 (Int.tdiv a b - 1) := by unfold I64 at *; omega
            rw [hfd, wrap_of_I64 hq1]; simp [(fitsI64_iff _).mpr hq1]
        · have han : a < 0 := by omega
          simp only [han, if_true, hapos, if_false] at hfd ⊢
          by_cases hbpos : 0 < b
          · have hb0 : 0 ≤ b := by omega
            simp only [hbpos, hb0, if_true, sign_pos' hbpos] at hfd ⊢
            -- a < 0 < b, not divisible: |q| ≤ |a|/2?  q - 1 ≥ -2^63 since q ≥ -(2^63)/1 only if b = 1 (then divisible)
            have hq1 : I64 (Int.tdiv a b - 1) := by
              unfold I64 at *
              by_cases hq : Int.tdiv a b = -9223372036854775808
              · rw [hq] at hmt; exfalso; omega
              · omega
            rw [hfd, wrap_of_I64 hq1]; simp [(fitsI64_iff _).mpr hq1]
          · have hbn : b < 0 := by omega
            have hb0 : ¬ 0 ≤ b := by omega
            have hbp : ¬ b > 0 := by omega
            simp only [hbp, hb0, if_false, sign_neg' hbn] at hfd ⊢
            have : Int.fdiv a b = Int.tdiv a b := by omega
            rw [this]; simp [(fitsI64_iff _).mpr hqI]


theorem modulus_exact (a b : Int) (ha : I64 a) (hb : I64 b) :
    modulus_i_ii a b = Spec.Arith.modulus a b := by
  unfold modulus_i_ii Spec.Arith.modulus
  by_cases h0 : b = 0
  · simp [h0]
  · have h0' : (b == 0) = false := by simp [h0]
    simp only [h0', h0, Bool.false_eq_true, if_false, goMod]
    have hfm := @Int.fmod_eq_tmod a b
    have hdvd : b ∣ a ↔ Int.tmod a b = 0 := Int.dvd_iff_tmod_eq_zero
    have htb := tmod_bounds a b
    have hs1 : 0 ≤ a → 0 ≤ Int.tmod a b := fun h => Int.tmod_nonneg b h
    have hs2 : a ≤ 0 → Int.tmod a b ≤ 0 := by
      intro h
      have h1 := Int.tmod_nonneg b (show 0 ≤ -a by omega)
      have h2 := Int.neg_tmod a b
      omega
    congr 1
    by_cases hd : Int.tmod a b = 0
    · have hdv : b ∣ a := hdvd.mpr hd
      simp only [hdv, if_true, Int.add_zero] at hfm
      simp [hd, hfm]
    · have hdv : ¬ b ∣ a := fun h => hd (hdvd.mp h)
      have hr : (Int.tmod a b != 0) = true := by simp [hd]
      simp only [hdv, if_false] at hfm
      simp only [hr, if_true]
      rw [hfm]
      unfold I64 at *
      by_cases hapos : 0 ≤ a
      · have : a ≥ 0 := hapos
        simp only [this, hapos, if_true]
        by_cases hbn : b < 0
        · have hb0 : ¬ 0 ≤ b := by omega
          simp only [hbn, hb0, if_true, if_false]
          apply wrap_of_I64; unfold I64; omega
        · have hb0 : 0 ≤ b := by omega
          simp [hbn, hb0]
      · have han : ¬ a ≥ 0 := by omega
        simp only [han, hapos, if_false]
        by_cases hbpos : b ≥ 0
        · have hb0 : 0 ≤ b := hbpos
          simp only [hbpos, hb0, if_true]
          have : (b.natAbs : Int) = b := by omega
          rw [this]; apply wrap_of_I64; unfold I64; omega
        · have hb0 : ¬ 0 ≤ b := by omega
          simp only [hbpos, hb0, if_false]
          have : (b.toNat : Int) = 0 := by omega
          omega


theorem mlrmod_pos (a m : Int) (hm : 0 < m) (hm64 : I64 m) : mlrmod a m = a % m := by
  unfold mlrmod goMod
  have h1 := @Int.tmod_eq_emod a m
  have h2 := Int.emod_lt_of_pos a hm
  have h3 := Int.emod_nonneg a (show m ≠ 0 by omega)
  have hn : (m.natAbs : Int) = m := by omega
  by_cases hc : 0 ≤ a ∨ m ∣ a
  · simp only [hc, if_true] at h1
    have : ¬ Int.tmod a m < 0 := by omega
    simp only [this, if_false]; omega
  · simp only [hc, if_false] at h1
    have : Int.tmod a m < 0 := by omega
    simp only [this, if_true]
    rw [wrap_of_I64 (by unfold I64 at *; omega)]; omega

theorem emod_small (x m : Int) (h0 : 0 ≤ x) (h1 : x < m) : x % m = x := Int.emod_eq_of_lt h0 h1

theorem madd_exact (a b m : Int) (hm : 0 < m) (hm64 : I64 m) :
    imodadd a b m = (a + b) % m := by
  unfold imodadd
  have hmn : ¬ m ≤ 0 := by omega
  simp only [hmn, if_false, mlrmod_pos a m hm hm64, mlrmod_pos b m hm hm64]
  have ha1 := Int.emod_lt_of_pos a hm
  have ha0 := Int.emod_nonneg a (show m ≠ 0 by omega)
  have hb1 := Int.emod_lt_of_pos b hm
  have hb0 := Int.emod_nonneg b (show m ≠ 0 by omega)
  rw [Int.add_emod a b m]
  generalize a % m = x at *
  generalize b % m = y at *
  by_cases hs : x.toNat + y.toNat ≥ m.toNat
  · simp only [hs, if_true]
    have : (x + y) % m = (x + y - m) % m := by
      rw [Int.sub_emod, Int.emod_self, Int.sub_zero, Int.emod_emod]
    rw [this, emod_small (x + y - m) m (by omega) (by omega)]
    simp only [Int.ofNat_eq_natCast]; omega
  · simp only [hs, if_false]
    rw [emod_small (x + y) m (by omega) (by omega)]
    simp only [Int.ofNat_eq_natCast]; omega

theorem msub_exact (a b m : Int) (hm : 0 < m) (hm64 : I64 m) :
    imodsub a b m = (a - b) % m := by
  unfold imodsub
  have hmn : ¬ m ≤ 0 := by omega
  simp only [hmn, if_false, mlrmod_pos a m hm hm64, mlrmod_pos b m hm hm64]
  have ha1 := Int.emod_lt_of_pos a hm
  have ha0 := Int.emod_nonneg a (show m ≠ 0 by omega)
  have hb1 := Int.emod_lt_of_pos b hm
  have hb0 := Int.emod_nonneg b (show m ≠ 0 by omega)
  rw [Int.sub_emod a b m]
  generalize a % m = x at *
  generalize b % m = y at *
  by_cases hs : x - y < 0
  · simp only [hs, if_true]
    have : (x - y) % m = (x - y + m) % m := by
      rw [Int.add_emod, Int.emod_self, Int.add_zero, Int.emod_emod]
    rw [this, emod_small (x - y + m) m (by omega) (by omega)]
  · simp only [hs, if_false]
    rw [emod_small (x - y) m (by omega) (by omega)]

theorem mmul_exact (a b m : Int) (hm : 0 < m) (hm64 : I64 m) :
    imodmul a b m = (a * b) % m := by
  unfold imodmul
  have hmn : ¬ m ≤ 0 := by omega
  simp only [hmn, if_false, mlrmod_pos a m hm hm64, mlrmod_pos b m hm hm64]
  have ha0 := Int.emod_nonneg a (show m ≠ 0 by omega)
  have hb0 := Int.emod_nonneg b (show m ≠ 0 by omega)
  rw [Int.mul_emod a b m]
  generalize a % m = x at *
  generalize b % m = y at *
  simp only [Int.ofNat_eq_natCast, Int.natCast_emod, Int.natCast_mul]
  have hx : (x.toNat : Int) = x := by omega
  have hy : (y.toNat : Int) = y := by omega
  have hmm : (m.toNat : Int) = m := by omega
  rw [hx, hy, hmm]


theorem pow_emod (x m : Int) (k : Nat) : ((x % m) ^ k) % m = (x ^ k) % m := by
  induction k with
  | zero => simp
  | succ k ih =>
    rw [Int.pow_succ, Int.pow_succ, Int.mul_emod, ih, Int.emod_emod, ← Int.mul_emod]

theorem loop_inv (fuel : Nat) (u : Nat) (c p m : Int) (hm : 0 < m) (hm64 : I64 m) (hu : u < 2 ^ fuel) :
    imodexpLoop fuel u c p m = if u = 0 then c else (c * p ^ u) % m := by
  induction fuel generalizing u c p with
  | zero =>
    have : u = 0 := by simp at hu; omega
    subst this; simp [imodexpLoop]
  | succ fuel ih =>
    unfold imodexpLoop
    by_cases h0 : u = 0
    · subst h0; simp
    · have h0' : (u == 0) = false := by simp [h0]
      simp only [h0', Bool.false_eq_true, if_false, h0]
      have hu2 : u / 2 < 2 ^ fuel := by
        rw [Nat.pow_succ] at hu; omega
      rw [ih (u / 2) _ _ hu2, mmul_exact p p m hm hm64]
      by_cases hodd : u % 2 = 1
      · have hodd' : (u % 2 == 1) = true := by simp [hodd]
        simp only [hodd', if_true, mmul_exact c p m hm hm64]
        by_cases hh : u / 2 = 0
        · have : u = 1 := by omega
          subst this; simp [Int.pow_succ]
        · simp only [hh, if_false]
          have hu' : u = 2 * (u / 2) + 1 := by omega
          rw [Int.mul_emod, pow_emod, Int.emod_emod, ← Int.mul_emod]
          congr 1
          conv => rhs; rw [hu', Int.pow_succ, Int.pow_mul]
          have : p ^ 2 = p * p := by rw [Int.pow_succ, Int.pow_succ, Int.pow_zero, Int.one_mul]
          rw [this, Int.mul_assoc, Int.mul_comm p]
      · have hodd' : (u % 2 == 1) = false := by simp [hodd]
        simp only [hodd', Bool.false_eq_true, if_false]
        have hh : u / 2 ≠ 0 := by omega
        simp only [hh, if_false]
        have hu' : u = 2 * (u / 2) := by omega
        rw [Int.mul_emod, pow_emod, ← Int.mul_emod]
        congr 2
        conv => rhs; rw [hu', Int.pow_mul]
        have : p ^ 2 = p * p := by rw [Int.pow_succ, Int.pow_succ, Int.pow_zero, Int.one_mul]
        rw [this]

theorem mexp_exact (a e m : Int) (he : 0 ≤ e) (he64 : I64 e) (hm : 0 < m) (hm64 : I64 m) :
    imodexp a e m = (a ^ e.toNat) % m := by
  unfold imodexp
  by_cases h0 : e = 0
  · subst h0; simp [mlrmod_pos 1 m hm hm64]
  · by_cases h1 : e = 1
    · subst h1; simp [mlrmod_pos a m hm hm64, Int.pow_succ]
    · have h0' : (e == 0) = false := by simp [h0]
      have h1' : (e == 1) = false := by simp [h1]
      simp only [h0', h1', Bool.false_eq_true, if_false]
      have hu : i2u e = e.toNat := by
        unfold i2u I64 at *
        have : e % 18446744073709551616 = e := by omega
        rw [this]
      rw [hu, loop_inv 64 e.toNat 1 a m hm hm64 (by unfold I64 at he64; omega)]
      have : e.toNat ≠ 0 := by omega
      simp [this]


end Lemmas.C07
end Miller
