/-
The frame stack is balanced over EVERY construct of the reference interpreter: whatever a piece of
program does and however it ends (normally, by break/continue/return, or with an error of any kind),
the stack has as many frames afterwards as before.  One induction on the fuel over all 23 mutually
recursive functions of `Model/DSL.lean`.
-/
import MillerModel.Model.DSL
namespace Miller
namespace DSL

def runM {α} (m : M α) (s : St) : Except Err α × St := (ExceptT.run m).run s

@[simp] theorem runM_pure {α} (a : α) (s : St) : runM (pure a : M α) s = (.ok a, s) := rfl
@[simp] theorem runM_bind {α β} (m : M α) (f : α → M β) (s : St) :
    runM (m >>= f) s = match runM m s with | (.ok a, s1) => runM (f a) s1 | (.error e, s1) => (.error e, s1) := by
  show (ExceptT.run (ExceptT.bind m f)) s = _
  unfold ExceptT.bind ExceptT.mk ExceptT.run
  simp only [bind, StateT.bind, runM, ExceptT.run, StateT.run]
  cases h : m s with
  | mk r s1 => cases r <;> simp [ExceptT.bindCont] <;> rfl
@[simp] theorem runM_get (s : St) : runM (get : M St) s = (.ok s, s) := rfl
@[simp] theorem runM_set (s' s : St) : runM (set s' : M Unit) s = (.ok (), s') := rfl
@[simp] theorem runM_modify (f : St → St) (s : St) : runM (modify f : M Unit) s = (.ok (), f s) := rfl
@[simp] theorem runM_failM {α} (e : Err) (s : St) : runM (failM e : M α) s = (.error e, s) := rfl
@[simp] theorem runM_throw {α} (e : Err) (s : St) : runM (throw e : M α) s = (.error e, s) := rfl
@[simp] theorem runM_liftR {α} (r : Res α) (s : St) : runM (liftR r : M α) s = (r, s) := by
  cases r <;> rfl
theorem runM_truthy (v : DV) (s : St) : (runM (truthy v) s).2 = s := by
  unfold truthy
  split <;> rfl
@[simp] theorem runM_map {α β} (f : α → β) (m : M α) (s : St) :
    runM (f <$> m) s = match runM m s with | (.ok a, s1) => (.ok (f a), s1) | (.error e, s1) => (.error e, s1) := by
  have : f <$> m = m >>= fun a => pure (f a) := by
    simp [Functor.map, ExceptT.map, bind, ExceptT.bind, ExceptT.mk, pure, ExceptT.pure]
    congr
  rw [this, runM_bind]
  cases runM m s with
  | mk r s1 => cases r <;> rfl
theorem runM_tryCatch {α} (m : M α) (h : Err → M α) (s : St) :
    runM (tryCatch m h) s = match runM m s with | (.ok a, s1) => (.ok a, s1) | (.error e, s1) => runM (h e) s1 := by
  simp only [runM, tryCatch, tryCatchThe, MonadExceptOf.tryCatch, ExceptT.tryCatch, ExceptT.run, ExceptT.mk, bind, StateT.bind, StateT.run]
  cases hh : m s with
  | mk r s1 => cases r <;> simp <;> rfl

/-- `m` leaves the number of frames as it found it, whatever its outcome. -/
def Pres {α} (m : M α) : Prop := ∀ s, (runM m s).2.stack.length = s.stack.length

theorem Pres.out {α} {m : M α} (h : Pres m) {s : St} {r : Except Err α} {s' : St} (hr : runM m s = (r, s')) :
    s'.stack.length = s.stack.length := by
  have := h s; rw [hr] at this; exact this

theorem pres_of {α} {m : M α} (h : ∀ s r s', runM m s = (r, s') → s'.stack.length = s.stack.length) : Pres m := by
  intro s
  cases hr : runM m s with
  | mk r s' => exact h s r s' hr

theorem pres_pure {α} (a : α) : Pres (pure a : M α) := fun _ => rfl
theorem pres_failM {α} (e : Err) : Pres (failM e : M α) := fun _ => rfl
theorem pres_liftR {α} (x : Res α) : Pres (liftR x : M α) := by
  intro s; simp
theorem pres_bind {α β} (m : M α) (f : α → M β) (hm : Pres m) (hf : ∀ a, Pres (f a)) : Pres (m >>= f) := by
  apply pres_of
  intro s r s' h
  simp only [runM_bind] at h
  split at h
  · rename_i a s1 h1
    have := hm.out h1
    have := (hf a).out h
    omega
  · rename_i e s1 h1
    have := hm.out h1
    simp at h
    rw [← h.2]; exact this
theorem pres_tryCatch {α} (m : M α) (h : Err → M α) (hm : Pres m) (hh : ∀ e, Pres (h e)) : Pres (tryCatch m h) := by
  apply pres_of
  intro s r s' hr
  rw [runM_tryCatch] at hr
  split at hr
  · rename_i a s1 h1
    have := hm.out h1
    simp at hr; rw [← hr.2]; exact this
  · rename_i e s1 h1
    have := hm.out h1
    have := (hh e).out hr
    omega

/-- The scoping combinator: whatever `m` does with the stack it was given, afterwards there are as
many frames as before it was entered. -/
theorem pres_withStack {α} (enter : Stack → Stack) (leave : Stack → Stack → Stack) (m : M α) (hm : Pres m)
    (hl : ∀ saved cur, cur.length = (enter saved).length → (leave saved cur).length = saved.length) :
    Pres (withStack enter leave m) := by
  apply pres_of
  intro s r s' h
  unfold withStack at h
  simp only [runM_bind, runM_get, runM_modify, runM_tryCatch, runM_pure, runM_throw] at h
  split at h
  · rename_i a s1 h1
    split at h1
    · rename_i a2 s2 h2
      have := hm.out h2
      simp at h1 h
      rw [← h.2, ← h1.2]
      simp at this
      exact hl _ _ this
    · simp at h1
  · rename_i e s1 h1
    split at h1
    · simp at h1
    · rename_i e2 s2 h2
      have := hm.out h2
      simp at h1 h
      rw [← h.2, ← h1.2]
      simp at this
      exact hl _ _ this

theorem pres_inNewFrame {α} (m : M α) (hm : Pres m) : Pres (inNewFrame m) := by
  apply pres_withStack _ _ _ hm
  intro saved cur h
  simp at h
  simp [h]

theorem pres_inCall {α} (isLit : Bool) (frame : Frame) (m : M α) (hm : Pres m) : Pres (inCall isLit frame m) := by
  apply pres_withStack _ _ _ hm
  intro saved cur h
  cases isLit <;> simp at h ⊢
  simp [h]

theorem pres_bodyValue (blk : M Sig) (h : Pres blk) : Pres (bodyValue blk) := by
  apply pres_tryCatch
  · exact pres_bind _ _ h (fun _ => pres_pure _)
  · intro e
    cases e <;> first | exact pres_pure _ | exact pres_failM _

theorem pres_andThen {α β} (a : M α) (b : M β) (ha : Pres a) (hb : Pres b) : Pres (andThen a b) :=
  pres_bind _ _ ha (fun _ => hb)

/-! The stack primitives keep the number of frames. -/

theorem frame_update_length (f : Frame) (x : String) (v : DV) : (Frame.update f x v).length = f.length := by
  induction f with
  | nil => rfl
  | cons b rest ih => unfold Frame.update; split <;> simp [ih]

theorem define_length (st : Stack) (x : String) (ty : Ty) (v : DV) (st' : Stack)
    (h : Stack.define st x ty v = .ok st') : st'.length = st.length := by
  unfold Stack.define at h
  split at h
  · cases h
  · split at h
    · cases h
    · split at h
      · cases h
      · cases h; rfl

theorem setAtScope_length (st : Stack) (x : String) (v : DV) (st' : Stack)
    (h : Stack.setAtScope st x v = .ok st') : st'.length = st.length := by
  unfold Stack.setAtScope at h
  split at h
  · cases h
  · split at h
    · split at h
      · cases h; rfl
      · cases h
    · cases h; rfl

theorem assign_length : ∀ (st : Stack) (x : String) (v : DV) (st' : Stack),
    Stack.assign st x v = .ok st' → st'.length = st.length
  | [], _, _, _, h => by simp [Stack.assign] at h
  | [f], x, v, st', h => by
    unfold Stack.assign at h
    split at h
    · split at h
      · cases h; rfl
      · cases h
    · cases h; rfl
  | f :: g :: rest, x, v, st', h => by
    unfold Stack.assign at h
    split at h
    · split at h
      · cases h; rfl
      · cases h
    · split at h
      · cases hr : Stack.assign (g :: rest) x v with
        | error e => rw [hr] at h; cases h
        | ok r =>
          rw [hr] at h
          have := assign_length (g :: rest) x v r hr
          cases h
          simp [this]
      · cases h; rfl

theorem setOpt_length (st : Stack) (x : Option String) (v : DV) (st' : Stack)
    (h : Stack.setOpt st x v = .ok st') : st'.length = st.length := by
  cases x with
  | none => simp [Stack.setOpt] at h; cases h; rfl
  | some k => exact setAtScope_length st k v st' h

theorem unset_length : ∀ (st : Stack) (x : String), (Stack.unset st x).length = st.length
  | [], _ => rfl
  | f :: rest, x => by
    unfold Stack.unset
    split
    · rfl
    · simp [unset_length rest x]

theorem foldlM_setAtScope_length : ∀ (kvs : List (String × DV)) (st st' : Stack),
    kvs.foldlM (fun (st : Stack) (kv : String × DV) => st.setAtScope kv.1 kv.2) st = .ok st' → st'.length = st.length
  | [], st, st', h => by simp [List.foldlM] at h; cases h; rfl
  | (k, v) :: rest, st, st', h => by
    simp only [List.foldlM] at h
    cases hs : Stack.setAtScope st k v with
    | error e => rw [hs] at h; cases h
    | ok s1 =>
      rw [hs] at h
      have h1 := setAtScope_length st k v s1 hs
      have h2 := foldlM_setAtScope_length rest s1 st' h
      omega

/-- Everything the interpreter is made of, at one fuel. -/
structure AllPres (p : Prog) (fuel : Nat) : Prop where
  eval : ∀ e, Pres (eval p fuel e)
  evalList : ∀ es, Pres (evalList p fuel es)
  evalKVs : ∀ kvs, Pres (evalKVs p fuel kvs)
  callFn : ∀ f args, Pres (callFn p fuel f args)
  hof : ∀ n args, Pres (hof p fuel n args)
  anyEvery : ∀ b f xs, Pres (anyEvery p fuel b f xs)
  mapFn : ∀ f xs, Pres (mapFn p fuel f xs)
  mapKV : ∀ f kvs, Pres (mapKV p fuel f kvs)
  foldFn : ∀ f acc xs, Pres (foldFn p fuel f acc xs)
  foldKV : ∀ f acc kvs, Pres (foldKV p fuel f acc kvs)
  sortFn : ∀ f xs, Pres (sortFn p fuel f xs)
  insertFn : ∀ f x ys, Pres (insertFn p fuel f x ys)
  execBlock : ∀ body, Pres (execBlock p fuel body)
  execStmts : ∀ body, Pres (execStmts p fuel body)
  assignTo : ∀ lhs path v, Pres (assignTo p fuel lhs path v)
  unsetOne : ∀ lhs path, Pres (unsetOne p fuel lhs path)
  unsetList : ∀ ls, Pres (unsetList p fuel ls)
  execIf : ∀ bs els, Pres (execIf p fuel bs els)
  execWhile : ∀ c body, Pres (execWhile p fuel c body)
  execForKV : ∀ k v es body, Pres (execForKV p fuel k v es body)
  execForMulti : ∀ ks v sofar es body, Pres (execForMulti p fuel ks v sofar es body)
  forMultiOne : ∀ ks v here val body, Pres (forMultiOne p fuel ks v here val body)
  forCGo : ∀ c, Pres (forCGo p fuel c)
  execForC : ∀ c u body, Pres (execForC p fuel c u body)
  exec : ∀ st, Pres (exec p fuel st)

/-- One step of the automation: unfold the run of a do-block into matches on the runs of its parts,
split them all, and let the hypotheses about the parts close the arithmetic on lengths. -/
macro "pres_step" : tactic => `(tactic| (
  apply pres_of
  intro s r s' h
  repeat' (first
    | (simp only [runM_bind, runM_map, runM_get, runM_set, runM_modify, runM_pure, runM_failM, runM_throw, runM_liftR, emitRec, emitRecs, emitLine] at h)
    | (split at h))
  all_goals (try simp at h)
  all_goals (try grind)))

set_option maxHeartbeats 4000000 in
theorem pres_eval_step (p : Prog) (fuel : Nat) (ih : AllPres p fuel) : ∀ e, Pres (eval p (fuel + 1) e) := by
  intro e
  have h_eval := ih.eval
  have h_evalList := ih.evalList
  have h_evalKVs := ih.evalKVs
  have h_callFn := ih.callFn
  have h_hof := ih.hof
  have h_anyEvery := ih.anyEvery
  have h_mapFn := ih.mapFn
  have h_mapKV := ih.mapKV
  have h_foldFn := ih.foldFn
  have h_foldKV := ih.foldKV
  have h_sortFn := ih.sortFn
  have h_insertFn := ih.insertFn
  have h_execBlock := ih.execBlock
  have h_execStmts := ih.execStmts
  have h_assignTo := ih.assignTo
  have h_unsetOne := ih.unsetOne
  have h_unsetList := ih.unsetList
  have h_execIf := ih.execIf
  have h_execWhile := ih.execWhile
  have h_execForKV := ih.execForKV
  have h_execForMulti := ih.execForMulti
  have h_forMultiOne := ih.forMultiOne
  have h_forCGo := ih.forCGo
  have h_execForC := ih.execForC
  have h_exec := ih.exec
  have h_truthy := runM_truthy
  have h_define := define_length
  have h_assign := assign_length
  have h_setAtScope := setAtScope_length
  have h_setOpt := setOpt_length
  have h_unset := unset_length
  have h_foldSet := foldlM_setAtScope_length
  have h_call : ∀ (isLit : Bool) (frame : Frame) (body : List Stmt), Pres (inCall isLit frame (bodyValue (execBlock p fuel body))) :=
    fun isLit frame body => pres_inCall _ _ _ (pres_bodyValue _ (ih.execBlock body))
  have h_sub : ∀ (frame : Frame) (body : List Stmt), Pres (inCall false frame (execBlock p fuel body)) :=
    fun frame body => pres_inCall _ _ _ (ih.execBlock body)
  have h_loopKV : ∀ k v es body, Pres (inNewFrame (execForKV p fuel k v es body)) :=
    fun k v es body => pres_inNewFrame _ (ih.execForKV k v es body)
  have h_loopMulti : ∀ ks v sofar es body, Pres (inNewFrame (execForMulti p fuel ks v sofar es body)) :=
    fun ks v sofar es body => pres_inNewFrame _ (ih.execForMulti ks v sofar es body)
  have h_loopC : ∀ init c u body, Pres (inNewFrame (andThen (execStmts p fuel init) (execForC p fuel c u body))) :=
    fun init c u body => pres_inNewFrame _ (pres_andThen _ _ (ih.execStmts init) (ih.execForC c u body))
  unfold Pres at h_eval h_evalList h_evalKVs h_callFn h_hof h_anyEvery h_mapFn h_mapKV h_foldFn h_foldKV h_sortFn h_insertFn h_execBlock h_execStmts h_assignTo h_unsetOne h_unsetList h_execIf h_execWhile h_execForKV h_execForMulti h_forMultiOne h_forCGo h_execForC h_exec h_call h_sub h_loopKV h_loopMulti h_loopC
  unfold eval
  cases e <;> pres_step

set_option maxHeartbeats 4000000 in
theorem pres_evalList_step (p : Prog) (fuel : Nat) (ih : AllPres p fuel) : ∀ es, Pres (evalList p (fuel + 1) es) := by
  intro es
  have h_eval := ih.eval
  have h_evalList := ih.evalList
  have h_evalKVs := ih.evalKVs
  have h_callFn := ih.callFn
  have h_hof := ih.hof
  have h_anyEvery := ih.anyEvery
  have h_mapFn := ih.mapFn
  have h_mapKV := ih.mapKV
  have h_foldFn := ih.foldFn
  have h_foldKV := ih.foldKV
  have h_sortFn := ih.sortFn
  have h_insertFn := ih.insertFn
  have h_execBlock := ih.execBlock
  have h_execStmts := ih.execStmts
  have h_assignTo := ih.assignTo
  have h_unsetOne := ih.unsetOne
  have h_unsetList := ih.unsetList
  have h_execIf := ih.execIf
  have h_execWhile := ih.execWhile
  have h_execForKV := ih.execForKV
  have h_execForMulti := ih.execForMulti
  have h_forMultiOne := ih.forMultiOne
  have h_forCGo := ih.forCGo
  have h_execForC := ih.execForC
  have h_exec := ih.exec
  have h_truthy := runM_truthy
  have h_define := define_length
  have h_assign := assign_length
  have h_setAtScope := setAtScope_length
  have h_setOpt := setOpt_length
  have h_unset := unset_length
  have h_foldSet := foldlM_setAtScope_length
  have h_call : ∀ (isLit : Bool) (frame : Frame) (body : List Stmt), Pres (inCall isLit frame (bodyValue (execBlock p fuel body))) :=
    fun isLit frame body => pres_inCall _ _ _ (pres_bodyValue _ (ih.execBlock body))
  have h_sub : ∀ (frame : Frame) (body : List Stmt), Pres (inCall false frame (execBlock p fuel body)) :=
    fun frame body => pres_inCall _ _ _ (ih.execBlock body)
  have h_loopKV : ∀ k v es body, Pres (inNewFrame (execForKV p fuel k v es body)) :=
    fun k v es body => pres_inNewFrame _ (ih.execForKV k v es body)
  have h_loopMulti : ∀ ks v sofar es body, Pres (inNewFrame (execForMulti p fuel ks v sofar es body)) :=
    fun ks v sofar es body => pres_inNewFrame _ (ih.execForMulti ks v sofar es body)
  have h_loopC : ∀ init c u body, Pres (inNewFrame (andThen (execStmts p fuel init) (execForC p fuel c u body))) :=
    fun init c u body => pres_inNewFrame _ (pres_andThen _ _ (ih.execStmts init) (ih.execForC c u body))
  unfold Pres at h_eval h_evalList h_evalKVs h_callFn h_hof h_anyEvery h_mapFn h_mapKV h_foldFn h_foldKV h_sortFn h_insertFn h_execBlock h_execStmts h_assignTo h_unsetOne h_unsetList h_execIf h_execWhile h_execForKV h_execForMulti h_forMultiOne h_forCGo h_execForC h_exec h_call h_sub h_loopKV h_loopMulti h_loopC
  unfold evalList
  cases es <;> pres_step

set_option maxHeartbeats 4000000 in
theorem pres_evalKVs_step (p : Prog) (fuel : Nat) (ih : AllPres p fuel) : ∀ kvs, Pres (evalKVs p (fuel + 1) kvs) := by
  intro kvs
  have h_eval := ih.eval
  have h_evalList := ih.evalList
  have h_evalKVs := ih.evalKVs
  have h_callFn := ih.callFn
  have h_hof := ih.hof
  have h_anyEvery := ih.anyEvery
  have h_mapFn := ih.mapFn
  have h_mapKV := ih.mapKV
  have h_foldFn := ih.foldFn
  have h_foldKV := ih.foldKV
  have h_sortFn := ih.sortFn
  have h_insertFn := ih.insertFn
  have h_execBlock := ih.execBlock
  have h_execStmts := ih.execStmts
  have h_assignTo := ih.assignTo
  have h_unsetOne := ih.unsetOne
  have h_unsetList := ih.unsetList
  have h_execIf := ih.execIf
  have h_execWhile := ih.execWhile
  have h_execForKV := ih.execForKV
  have h_execForMulti := ih.execForMulti
  have h_forMultiOne := ih.forMultiOne
  have h_forCGo := ih.forCGo
  have h_execForC := ih.execForC
  have h_exec := ih.exec
  have h_truthy := runM_truthy
  have h_define := define_length
  have h_assign := assign_length
  have h_setAtScope := setAtScope_length
  have h_setOpt := setOpt_length
  have h_unset := unset_length
  have h_foldSet := foldlM_setAtScope_length
  have h_call : ∀ (isLit : Bool) (frame : Frame) (body : List Stmt), Pres (inCall isLit frame (bodyValue (execBlock p fuel body))) :=
    fun isLit frame body => pres_inCall _ _ _ (pres_bodyValue _ (ih.execBlock body))
  have h_sub : ∀ (frame : Frame) (body : List Stmt), Pres (inCall false frame (execBlock p fuel body)) :=
    fun frame body => pres_inCall _ _ _ (ih.execBlock body)
  have h_loopKV : ∀ k v es body, Pres (inNewFrame (execForKV p fuel k v es body)) :=
    fun k v es body => pres_inNewFrame _ (ih.execForKV k v es body)
  have h_loopMulti : ∀ ks v sofar es body, Pres (inNewFrame (execForMulti p fuel ks v sofar es body)) :=
    fun ks v sofar es body => pres_inNewFrame _ (ih.execForMulti ks v sofar es body)
  have h_loopC : ∀ init c u body, Pres (inNewFrame (andThen (execStmts p fuel init) (execForC p fuel c u body))) :=
    fun init c u body => pres_inNewFrame _ (pres_andThen _ _ (ih.execStmts init) (ih.execForC c u body))
  unfold Pres at h_eval h_evalList h_evalKVs h_callFn h_hof h_anyEvery h_mapFn h_mapKV h_foldFn h_foldKV h_sortFn h_insertFn h_execBlock h_execStmts h_assignTo h_unsetOne h_unsetList h_execIf h_execWhile h_execForKV h_execForMulti h_forMultiOne h_forCGo h_execForC h_exec h_call h_sub h_loopKV h_loopMulti h_loopC
  unfold evalKVs
  cases kvs <;> pres_step

set_option maxHeartbeats 4000000 in
theorem pres_callFn_step (p : Prog) (fuel : Nat) (ih : AllPres p fuel) : ∀ f args, Pres (callFn p (fuel + 1) f args) := by
  intro f args
  have h_eval := ih.eval
  have h_evalList := ih.evalList
  have h_evalKVs := ih.evalKVs
  have h_callFn := ih.callFn
  have h_hof := ih.hof
  have h_anyEvery := ih.anyEvery
  have h_mapFn := ih.mapFn
  have h_mapKV := ih.mapKV
  have h_foldFn := ih.foldFn
  have h_foldKV := ih.foldKV
  have h_sortFn := ih.sortFn
  have h_insertFn := ih.insertFn
  have h_execBlock := ih.execBlock
  have h_execStmts := ih.execStmts
  have h_assignTo := ih.assignTo
  have h_unsetOne := ih.unsetOne
  have h_unsetList := ih.unsetList
  have h_execIf := ih.execIf
  have h_execWhile := ih.execWhile
  have h_execForKV := ih.execForKV
  have h_execForMulti := ih.execForMulti
  have h_forMultiOne := ih.forMultiOne
  have h_forCGo := ih.forCGo
  have h_execForC := ih.execForC
  have h_exec := ih.exec
  have h_truthy := runM_truthy
  have h_define := define_length
  have h_assign := assign_length
  have h_setAtScope := setAtScope_length
  have h_setOpt := setOpt_length
  have h_unset := unset_length
  have h_foldSet := foldlM_setAtScope_length
  have h_call : ∀ (isLit : Bool) (frame : Frame) (body : List Stmt), Pres (inCall isLit frame (bodyValue (execBlock p fuel body))) :=
    fun isLit frame body => pres_inCall _ _ _ (pres_bodyValue _ (ih.execBlock body))
  have h_sub : ∀ (frame : Frame) (body : List Stmt), Pres (inCall false frame (execBlock p fuel body)) :=
    fun frame body => pres_inCall _ _ _ (ih.execBlock body)
  have h_loopKV : ∀ k v es body, Pres (inNewFrame (execForKV p fuel k v es body)) :=
    fun k v es body => pres_inNewFrame _ (ih.execForKV k v es body)
  have h_loopMulti : ∀ ks v sofar es body, Pres (inNewFrame (execForMulti p fuel ks v sofar es body)) :=
    fun ks v sofar es body => pres_inNewFrame _ (ih.execForMulti ks v sofar es body)
  have h_loopC : ∀ init c u body, Pres (inNewFrame (andThen (execStmts p fuel init) (execForC p fuel c u body))) :=
    fun init c u body => pres_inNewFrame _ (pres_andThen _ _ (ih.execStmts init) (ih.execForC c u body))
  unfold Pres at h_eval h_evalList h_evalKVs h_callFn h_hof h_anyEvery h_mapFn h_mapKV h_foldFn h_foldKV h_sortFn h_insertFn h_execBlock h_execStmts h_assignTo h_unsetOne h_unsetList h_execIf h_execWhile h_execForKV h_execForMulti h_forMultiOne h_forCGo h_execForC h_exec h_call h_sub h_loopKV h_loopMulti h_loopC
  unfold callFn
  pres_step

set_option maxHeartbeats 4000000 in
theorem pres_hof_step (p : Prog) (fuel : Nat) (ih : AllPres p fuel) : ∀ n args, Pres (hof p (fuel + 1) n args) := by
  intro n args
  have h_eval := ih.eval
  have h_evalList := ih.evalList
  have h_evalKVs := ih.evalKVs
  have h_callFn := ih.callFn
  have h_hof := ih.hof
  have h_anyEvery := ih.anyEvery
  have h_mapFn := ih.mapFn
  have h_mapKV := ih.mapKV
  have h_foldFn := ih.foldFn
  have h_foldKV := ih.foldKV
  have h_sortFn := ih.sortFn
  have h_insertFn := ih.insertFn
  have h_execBlock := ih.execBlock
  have h_execStmts := ih.execStmts
  have h_assignTo := ih.assignTo
  have h_unsetOne := ih.unsetOne
  have h_unsetList := ih.unsetList
  have h_execIf := ih.execIf
  have h_execWhile := ih.execWhile
  have h_execForKV := ih.execForKV
  have h_execForMulti := ih.execForMulti
  have h_forMultiOne := ih.forMultiOne
  have h_forCGo := ih.forCGo
  have h_execForC := ih.execForC
  have h_exec := ih.exec
  have h_truthy := runM_truthy
  have h_define := define_length
  have h_assign := assign_length
  have h_setAtScope := setAtScope_length
  have h_setOpt := setOpt_length
  have h_unset := unset_length
  have h_foldSet := foldlM_setAtScope_length
  have h_call : ∀ (isLit : Bool) (frame : Frame) (body : List Stmt), Pres (inCall isLit frame (bodyValue (execBlock p fuel body))) :=
    fun isLit frame body => pres_inCall _ _ _ (pres_bodyValue _ (ih.execBlock body))
  have h_sub : ∀ (frame : Frame) (body : List Stmt), Pres (inCall false frame (execBlock p fuel body)) :=
    fun frame body => pres_inCall _ _ _ (ih.execBlock body)
  have h_loopKV : ∀ k v es body, Pres (inNewFrame (execForKV p fuel k v es body)) :=
    fun k v es body => pres_inNewFrame _ (ih.execForKV k v es body)
  have h_loopMulti : ∀ ks v sofar es body, Pres (inNewFrame (execForMulti p fuel ks v sofar es body)) :=
    fun ks v sofar es body => pres_inNewFrame _ (ih.execForMulti ks v sofar es body)
  have h_loopC : ∀ init c u body, Pres (inNewFrame (andThen (execStmts p fuel init) (execForC p fuel c u body))) :=
    fun init c u body => pres_inNewFrame _ (pres_andThen _ _ (ih.execStmts init) (ih.execForC c u body))
  unfold Pres at h_eval h_evalList h_evalKVs h_callFn h_hof h_anyEvery h_mapFn h_mapKV h_foldFn h_foldKV h_sortFn h_insertFn h_execBlock h_execStmts h_assignTo h_unsetOne h_unsetList h_execIf h_execWhile h_execForKV h_execForMulti h_forMultiOne h_forCGo h_execForC h_exec h_call h_sub h_loopKV h_loopMulti h_loopC
  unfold hof
  pres_step

set_option maxHeartbeats 4000000 in
theorem pres_anyEvery_step (p : Prog) (fuel : Nat) (ih : AllPres p fuel) : ∀ b f xs, Pres (anyEvery p (fuel + 1) b f xs) := by
  intro b f xs
  have h_eval := ih.eval
  have h_evalList := ih.evalList
  have h_evalKVs := ih.evalKVs
  have h_callFn := ih.callFn
  have h_hof := ih.hof
  have h_anyEvery := ih.anyEvery
  have h_mapFn := ih.mapFn
  have h_mapKV := ih.mapKV
  have h_foldFn := ih.foldFn
  have h_foldKV := ih.foldKV
  have h_sortFn := ih.sortFn
  have h_insertFn := ih.insertFn
  have h_execBlock := ih.execBlock
  have h_execStmts := ih.execStmts
  have h_assignTo := ih.assignTo
  have h_unsetOne := ih.unsetOne
  have h_unsetList := ih.unsetList
  have h_execIf := ih.execIf
  have h_execWhile := ih.execWhile
  have h_execForKV := ih.execForKV
  have h_execForMulti := ih.execForMulti
  have h_forMultiOne := ih.forMultiOne
  have h_forCGo := ih.forCGo
  have h_execForC := ih.execForC
  have h_exec := ih.exec
  have h_truthy := runM_truthy
  have h_define := define_length
  have h_assign := assign_length
  have h_setAtScope := setAtScope_length
  have h_setOpt := setOpt_length
  have h_unset := unset_length
  have h_foldSet := foldlM_setAtScope_length
  have h_call : ∀ (isLit : Bool) (frame : Frame) (body : List Stmt), Pres (inCall isLit frame (bodyValue (execBlock p fuel body))) :=
    fun isLit frame body => pres_inCall _ _ _ (pres_bodyValue _ (ih.execBlock body))
  have h_sub : ∀ (frame : Frame) (body : List Stmt), Pres (inCall false frame (execBlock p fuel body)) :=
    fun frame body => pres_inCall _ _ _ (ih.execBlock body)
  have h_loopKV : ∀ k v es body, Pres (inNewFrame (execForKV p fuel k v es body)) :=
    fun k v es body => pres_inNewFrame _ (ih.execForKV k v es body)
  have h_loopMulti : ∀ ks v sofar es body, Pres (inNewFrame (execForMulti p fuel ks v sofar es body)) :=
    fun ks v sofar es body => pres_inNewFrame _ (ih.execForMulti ks v sofar es body)
  have h_loopC : ∀ init c u body, Pres (inNewFrame (andThen (execStmts p fuel init) (execForC p fuel c u body))) :=
    fun init c u body => pres_inNewFrame _ (pres_andThen _ _ (ih.execStmts init) (ih.execForC c u body))
  unfold Pres at h_eval h_evalList h_evalKVs h_callFn h_hof h_anyEvery h_mapFn h_mapKV h_foldFn h_foldKV h_sortFn h_insertFn h_execBlock h_execStmts h_assignTo h_unsetOne h_unsetList h_execIf h_execWhile h_execForKV h_execForMulti h_forMultiOne h_forCGo h_execForC h_exec h_call h_sub h_loopKV h_loopMulti h_loopC
  unfold anyEvery
  cases xs <;> pres_step

set_option maxHeartbeats 4000000 in
theorem pres_mapFn_step (p : Prog) (fuel : Nat) (ih : AllPres p fuel) : ∀ f xs, Pres (mapFn p (fuel + 1) f xs) := by
  intro f xs
  have h_eval := ih.eval
  have h_evalList := ih.evalList
  have h_evalKVs := ih.evalKVs
  have h_callFn := ih.callFn
  have h_hof := ih.hof
  have h_anyEvery := ih.anyEvery
  have h_mapFn := ih.mapFn
  have h_mapKV := ih.mapKV
  have h_foldFn := ih.foldFn
  have h_foldKV := ih.foldKV
  have h_sortFn := ih.sortFn
  have h_insertFn := ih.insertFn
  have h_execBlock := ih.execBlock
  have h_execStmts := ih.execStmts
  have h_assignTo := ih.assignTo
  have h_unsetOne := ih.unsetOne
  have h_unsetList := ih.unsetList
  have h_execIf := ih.execIf
  have h_execWhile := ih.execWhile
  have h_execForKV := ih.execForKV
  have h_execForMulti := ih.execForMulti
  have h_forMultiOne := ih.forMultiOne
  have h_forCGo := ih.forCGo
  have h_execForC := ih.execForC
  have h_exec := ih.exec
  have h_truthy := runM_truthy
  have h_define := define_length
  have h_assign := assign_length
  have h_setAtScope := setAtScope_length
  have h_setOpt := setOpt_length
  have h_unset := unset_length
  have h_foldSet := foldlM_setAtScope_length
  have h_call : ∀ (isLit : Bool) (frame : Frame) (body : List Stmt), Pres (inCall isLit frame (bodyValue (execBlock p fuel body))) :=
    fun isLit frame body => pres_inCall _ _ _ (pres_bodyValue _ (ih.execBlock body))
  have h_sub : ∀ (frame : Frame) (body : List Stmt), Pres (inCall false frame (execBlock p fuel body)) :=
    fun frame body => pres_inCall _ _ _ (ih.execBlock body)
  have h_loopKV : ∀ k v es body, Pres (inNewFrame (execForKV p fuel k v es body)) :=
    fun k v es body => pres_inNewFrame _ (ih.execForKV k v es body)
  have h_loopMulti : ∀ ks v sofar es body, Pres (inNewFrame (execForMulti p fuel ks v sofar es body)) :=
    fun ks v sofar es body => pres_inNewFrame _ (ih.execForMulti ks v sofar es body)
  have h_loopC : ∀ init c u body, Pres (inNewFrame (andThen (execStmts p fuel init) (execForC p fuel c u body))) :=
    fun init c u body => pres_inNewFrame _ (pres_andThen _ _ (ih.execStmts init) (ih.execForC c u body))
  unfold Pres at h_eval h_evalList h_evalKVs h_callFn h_hof h_anyEvery h_mapFn h_mapKV h_foldFn h_foldKV h_sortFn h_insertFn h_execBlock h_execStmts h_assignTo h_unsetOne h_unsetList h_execIf h_execWhile h_execForKV h_execForMulti h_forMultiOne h_forCGo h_execForC h_exec h_call h_sub h_loopKV h_loopMulti h_loopC
  unfold mapFn
  cases xs <;> pres_step

set_option maxHeartbeats 4000000 in
theorem pres_mapKV_step (p : Prog) (fuel : Nat) (ih : AllPres p fuel) : ∀ f kvs, Pres (mapKV p (fuel + 1) f kvs) := by
  intro f kvs
  have h_eval := ih.eval
  have h_evalList := ih.evalList
  have h_evalKVs := ih.evalKVs
  have h_callFn := ih.callFn
  have h_hof := ih.hof
  have h_anyEvery := ih.anyEvery
  have h_mapFn := ih.mapFn
  have h_mapKV := ih.mapKV
  have h_foldFn := ih.foldFn
  have h_foldKV := ih.foldKV
  have h_sortFn := ih.sortFn
  have h_insertFn := ih.insertFn
  have h_execBlock := ih.execBlock
  have h_execStmts := ih.execStmts
  have h_assignTo := ih.assignTo
  have h_unsetOne := ih.unsetOne
  have h_unsetList := ih.unsetList
  have h_execIf := ih.execIf
  have h_execWhile := ih.execWhile
  have h_execForKV := ih.execForKV
  have h_execForMulti := ih.execForMulti
  have h_forMultiOne := ih.forMultiOne
  have h_forCGo := ih.forCGo
  have h_execForC := ih.execForC
  have h_exec := ih.exec
  have h_truthy := runM_truthy
  have h_define := define_length
  have h_assign := assign_length
  have h_setAtScope := setAtScope_length
  have h_setOpt := setOpt_length
  have h_unset := unset_length
  have h_foldSet := foldlM_setAtScope_length
  have h_call : ∀ (isLit : Bool) (frame : Frame) (body : List Stmt), Pres (inCall isLit frame (bodyValue (execBlock p fuel body))) :=
    fun isLit frame body => pres_inCall _ _ _ (pres_bodyValue _ (ih.execBlock body))
  have h_sub : ∀ (frame : Frame) (body : List Stmt), Pres (inCall false frame (execBlock p fuel body)) :=
    fun frame body => pres_inCall _ _ _ (ih.execBlock body)
  have h_loopKV : ∀ k v es body, Pres (inNewFrame (execForKV p fuel k v es body)) :=
    fun k v es body => pres_inNewFrame _ (ih.execForKV k v es body)
  have h_loopMulti : ∀ ks v sofar es body, Pres (inNewFrame (execForMulti p fuel ks v sofar es body)) :=
    fun ks v sofar es body => pres_inNewFrame _ (ih.execForMulti ks v sofar es body)
  have h_loopC : ∀ init c u body, Pres (inNewFrame (andThen (execStmts p fuel init) (execForC p fuel c u body))) :=
    fun init c u body => pres_inNewFrame _ (pres_andThen _ _ (ih.execStmts init) (ih.execForC c u body))
  unfold Pres at h_eval h_evalList h_evalKVs h_callFn h_hof h_anyEvery h_mapFn h_mapKV h_foldFn h_foldKV h_sortFn h_insertFn h_execBlock h_execStmts h_assignTo h_unsetOne h_unsetList h_execIf h_execWhile h_execForKV h_execForMulti h_forMultiOne h_forCGo h_execForC h_exec h_call h_sub h_loopKV h_loopMulti h_loopC
  unfold mapKV
  cases kvs <;> pres_step

set_option maxHeartbeats 4000000 in
theorem pres_foldFn_step (p : Prog) (fuel : Nat) (ih : AllPres p fuel) : ∀ f acc xs, Pres (foldFn p (fuel + 1) f acc xs) := by
  intro f acc xs
  have h_eval := ih.eval
  have h_evalList := ih.evalList
  have h_evalKVs := ih.evalKVs
  have h_callFn := ih.callFn
  have h_hof := ih.hof
  have h_anyEvery := ih.anyEvery
  have h_mapFn := ih.mapFn
  have h_mapKV := ih.mapKV
  have h_foldFn := ih.foldFn
  have h_foldKV := ih.foldKV
  have h_sortFn := ih.sortFn
  have h_insertFn := ih.insertFn
  have h_execBlock := ih.execBlock
  have h_execStmts := ih.execStmts
  have h_assignTo := ih.assignTo
  have h_unsetOne := ih.unsetOne
  have h_unsetList := ih.unsetList
  have h_execIf := ih.execIf
  have h_execWhile := ih.execWhile
  have h_execForKV := ih.execForKV
  have h_execForMulti := ih.execForMulti
  have h_forMultiOne := ih.forMultiOne
  have h_forCGo := ih.forCGo
  have h_execForC := ih.execForC
  have h_exec := ih.exec
  have h_truthy := runM_truthy
  have h_define := define_length
  have h_assign := assign_length
  have h_setAtScope := setAtScope_length
  have h_setOpt := setOpt_length
  have h_unset := unset_length
  have h_foldSet := foldlM_setAtScope_length
  have h_call : ∀ (isLit : Bool) (frame : Frame) (body : List Stmt), Pres (inCall isLit frame (bodyValue (execBlock p fuel body))) :=
    fun isLit frame body => pres_inCall _ _ _ (pres_bodyValue _ (ih.execBlock body))
  have h_sub : ∀ (frame : Frame) (body : List Stmt), Pres (inCall false frame (execBlock p fuel body)) :=
    fun frame body => pres_inCall _ _ _ (ih.execBlock body)
  have h_loopKV : ∀ k v es body, Pres (inNewFrame (execForKV p fuel k v es body)) :=
    fun k v es body => pres_inNewFrame _ (ih.execForKV k v es body)
  have h_loopMulti : ∀ ks v sofar es body, Pres (inNewFrame (execForMulti p fuel ks v sofar es body)) :=
    fun ks v sofar es body => pres_inNewFrame _ (ih.execForMulti ks v sofar es body)
  have h_loopC : ∀ init c u body, Pres (inNewFrame (andThen (execStmts p fuel init) (execForC p fuel c u body))) :=
    fun init c u body => pres_inNewFrame _ (pres_andThen _ _ (ih.execStmts init) (ih.execForC c u body))
  unfold Pres at h_eval h_evalList h_evalKVs h_callFn h_hof h_anyEvery h_mapFn h_mapKV h_foldFn h_foldKV h_sortFn h_insertFn h_execBlock h_execStmts h_assignTo h_unsetOne h_unsetList h_execIf h_execWhile h_execForKV h_execForMulti h_forMultiOne h_forCGo h_execForC h_exec h_call h_sub h_loopKV h_loopMulti h_loopC
  unfold foldFn
  cases xs <;> pres_step

set_option maxHeartbeats 4000000 in
theorem pres_foldKV_step (p : Prog) (fuel : Nat) (ih : AllPres p fuel) : ∀ f acc kvs, Pres (foldKV p (fuel + 1) f acc kvs) := by
  intro f acc kvs
  have h_eval := ih.eval
  have h_evalList := ih.evalList
  have h_evalKVs := ih.evalKVs
  have h_callFn := ih.callFn
  have h_hof := ih.hof
  have h_anyEvery := ih.anyEvery
  have h_mapFn := ih.mapFn
  have h_mapKV := ih.mapKV
  have h_foldFn := ih.foldFn
  have h_foldKV := ih.foldKV
  have h_sortFn := ih.sortFn
  have h_insertFn := ih.insertFn
  have h_execBlock := ih.execBlock
  have h_execStmts := ih.execStmts
  have h_assignTo := ih.assignTo
  have h_unsetOne := ih.unsetOne
  have h_unsetList := ih.unsetList
  have h_execIf := ih.execIf
  have h_execWhile := ih.execWhile
  have h_execForKV := ih.execForKV
  have h_execForMulti := ih.execForMulti
  have h_forMultiOne := ih.forMultiOne
  have h_forCGo := ih.forCGo
  have h_execForC := ih.execForC
  have h_exec := ih.exec
  have h_truthy := runM_truthy
  have h_define := define_length
  have h_assign := assign_length
  have h_setAtScope := setAtScope_length
  have h_setOpt := setOpt_length
  have h_unset := unset_length
  have h_foldSet := foldlM_setAtScope_length
  have h_call : ∀ (isLit : Bool) (frame : Frame) (body : List Stmt), Pres (inCall isLit frame (bodyValue (execBlock p fuel body))) :=
    fun isLit frame body => pres_inCall _ _ _ (pres_bodyValue _ (ih.execBlock body))
  have h_sub : ∀ (frame : Frame) (body : List Stmt), Pres (inCall false frame (execBlock p fuel body)) :=
    fun frame body => pres_inCall _ _ _ (ih.execBlock body)
  have h_loopKV : ∀ k v es body, Pres (inNewFrame (execForKV p fuel k v es body)) :=
    fun k v es body => pres_inNewFrame _ (ih.execForKV k v es body)
  have h_loopMulti : ∀ ks v sofar es body, Pres (inNewFrame (execForMulti p fuel ks v sofar es body)) :=
    fun ks v sofar es body => pres_inNewFrame _ (ih.execForMulti ks v sofar es body)
  have h_loopC : ∀ init c u body, Pres (inNewFrame (andThen (execStmts p fuel init) (execForC p fuel c u body))) :=
    fun init c u body => pres_inNewFrame _ (pres_andThen _ _ (ih.execStmts init) (ih.execForC c u body))
  unfold Pres at h_eval h_evalList h_evalKVs h_callFn h_hof h_anyEvery h_mapFn h_mapKV h_foldFn h_foldKV h_sortFn h_insertFn h_execBlock h_execStmts h_assignTo h_unsetOne h_unsetList h_execIf h_execWhile h_execForKV h_execForMulti h_forMultiOne h_forCGo h_execForC h_exec h_call h_sub h_loopKV h_loopMulti h_loopC
  unfold foldKV
  cases kvs <;> pres_step

set_option maxHeartbeats 4000000 in
theorem pres_sortFn_step (p : Prog) (fuel : Nat) (ih : AllPres p fuel) : ∀ f xs, Pres (sortFn p (fuel + 1) f xs) := by
  intro f xs
  have h_eval := ih.eval
  have h_evalList := ih.evalList
  have h_evalKVs := ih.evalKVs
  have h_callFn := ih.callFn
  have h_hof := ih.hof
  have h_anyEvery := ih.anyEvery
  have h_mapFn := ih.mapFn
  have h_mapKV := ih.mapKV
  have h_foldFn := ih.foldFn
  have h_foldKV := ih.foldKV
  have h_sortFn := ih.sortFn
  have h_insertFn := ih.insertFn
  have h_execBlock := ih.execBlock
  have h_execStmts := ih.execStmts
  have h_assignTo := ih.assignTo
  have h_unsetOne := ih.unsetOne
  have h_unsetList := ih.unsetList
  have h_execIf := ih.execIf
  have h_execWhile := ih.execWhile
  have h_execForKV := ih.execForKV
  have h_execForMulti := ih.execForMulti
  have h_forMultiOne := ih.forMultiOne
  have h_forCGo := ih.forCGo
  have h_execForC := ih.execForC
  have h_exec := ih.exec
  have h_truthy := runM_truthy
  have h_define := define_length
  have h_assign := assign_length
  have h_setAtScope := setAtScope_length
  have h_setOpt := setOpt_length
  have h_unset := unset_length
  have h_foldSet := foldlM_setAtScope_length
  have h_call : ∀ (isLit : Bool) (frame : Frame) (body : List Stmt), Pres (inCall isLit frame (bodyValue (execBlock p fuel body))) :=
    fun isLit frame body => pres_inCall _ _ _ (pres_bodyValue _ (ih.execBlock body))
  have h_sub : ∀ (frame : Frame) (body : List Stmt), Pres (inCall false frame (execBlock p fuel body)) :=
    fun frame body => pres_inCall _ _ _ (ih.execBlock body)
  have h_loopKV : ∀ k v es body, Pres (inNewFrame (execForKV p fuel k v es body)) :=
    fun k v es body => pres_inNewFrame _ (ih.execForKV k v es body)
  have h_loopMulti : ∀ ks v sofar es body, Pres (inNewFrame (execForMulti p fuel ks v sofar es body)) :=
    fun ks v sofar es body => pres_inNewFrame _ (ih.execForMulti ks v sofar es body)
  have h_loopC : ∀ init c u body, Pres (inNewFrame (andThen (execStmts p fuel init) (execForC p fuel c u body))) :=
    fun init c u body => pres_inNewFrame _ (pres_andThen _ _ (ih.execStmts init) (ih.execForC c u body))
  unfold Pres at h_eval h_evalList h_evalKVs h_callFn h_hof h_anyEvery h_mapFn h_mapKV h_foldFn h_foldKV h_sortFn h_insertFn h_execBlock h_execStmts h_assignTo h_unsetOne h_unsetList h_execIf h_execWhile h_execForKV h_execForMulti h_forMultiOne h_forCGo h_execForC h_exec h_call h_sub h_loopKV h_loopMulti h_loopC
  unfold sortFn
  cases xs <;> pres_step

set_option maxHeartbeats 4000000 in
theorem pres_insertFn_step (p : Prog) (fuel : Nat) (ih : AllPres p fuel) : ∀ f x ys, Pres (insertFn p (fuel + 1) f x ys) := by
  intro f x ys
  have h_eval := ih.eval
  have h_evalList := ih.evalList
  have h_evalKVs := ih.evalKVs
  have h_callFn := ih.callFn
  have h_hof := ih.hof
  have h_anyEvery := ih.anyEvery
  have h_mapFn := ih.mapFn
  have h_mapKV := ih.mapKV
  have h_foldFn := ih.foldFn
  have h_foldKV := ih.foldKV
  have h_sortFn := ih.sortFn
  have h_insertFn := ih.insertFn
  have h_execBlock := ih.execBlock
  have h_execStmts := ih.execStmts
  have h_assignTo := ih.assignTo
  have h_unsetOne := ih.unsetOne
  have h_unsetList := ih.unsetList
  have h_execIf := ih.execIf
  have h_execWhile := ih.execWhile
  have h_execForKV := ih.execForKV
  have h_execForMulti := ih.execForMulti
  have h_forMultiOne := ih.forMultiOne
  have h_forCGo := ih.forCGo
  have h_execForC := ih.execForC
  have h_exec := ih.exec
  have h_truthy := runM_truthy
  have h_define := define_length
  have h_assign := assign_length
  have h_setAtScope := setAtScope_length
  have h_setOpt := setOpt_length
  have h_unset := unset_length
  have h_foldSet := foldlM_setAtScope_length
  have h_call : ∀ (isLit : Bool) (frame : Frame) (body : List Stmt), Pres (inCall isLit frame (bodyValue (execBlock p fuel body))) :=
    fun isLit frame body => pres_inCall _ _ _ (pres_bodyValue _ (ih.execBlock body))
  have h_sub : ∀ (frame : Frame) (body : List Stmt), Pres (inCall false frame (execBlock p fuel body)) :=
    fun frame body => pres_inCall _ _ _ (ih.execBlock body)
  have h_loopKV : ∀ k v es body, Pres (inNewFrame (execForKV p fuel k v es body)) :=
    fun k v es body => pres_inNewFrame _ (ih.execForKV k v es body)
  have h_loopMulti : ∀ ks v sofar es body, Pres (inNewFrame (execForMulti p fuel ks v sofar es body)) :=
    fun ks v sofar es body => pres_inNewFrame _ (ih.execForMulti ks v sofar es body)
  have h_loopC : ∀ init c u body, Pres (inNewFrame (andThen (execStmts p fuel init) (execForC p fuel c u body))) :=
    fun init c u body => pres_inNewFrame _ (pres_andThen _ _ (ih.execStmts init) (ih.execForC c u body))
  unfold Pres at h_eval h_evalList h_evalKVs h_callFn h_hof h_anyEvery h_mapFn h_mapKV h_foldFn h_foldKV h_sortFn h_insertFn h_execBlock h_execStmts h_assignTo h_unsetOne h_unsetList h_execIf h_execWhile h_execForKV h_execForMulti h_forMultiOne h_forCGo h_execForC h_exec h_call h_sub h_loopKV h_loopMulti h_loopC
  unfold insertFn
  cases ys <;> pres_step

set_option maxHeartbeats 4000000 in
theorem pres_execStmts_step (p : Prog) (fuel : Nat) (ih : AllPres p fuel) : ∀ body, Pres (execStmts p (fuel + 1) body) := by
  intro body
  have h_eval := ih.eval
  have h_evalList := ih.evalList
  have h_evalKVs := ih.evalKVs
  have h_callFn := ih.callFn
  have h_hof := ih.hof
  have h_anyEvery := ih.anyEvery
  have h_mapFn := ih.mapFn
  have h_mapKV := ih.mapKV
  have h_foldFn := ih.foldFn
  have h_foldKV := ih.foldKV
  have h_sortFn := ih.sortFn
  have h_insertFn := ih.insertFn
  have h_execBlock := ih.execBlock
  have h_execStmts := ih.execStmts
  have h_assignTo := ih.assignTo
  have h_unsetOne := ih.unsetOne
  have h_unsetList := ih.unsetList
  have h_execIf := ih.execIf
  have h_execWhile := ih.execWhile
  have h_execForKV := ih.execForKV
  have h_execForMulti := ih.execForMulti
  have h_forMultiOne := ih.forMultiOne
  have h_forCGo := ih.forCGo
  have h_execForC := ih.execForC
  have h_exec := ih.exec
  have h_truthy := runM_truthy
  have h_define := define_length
  have h_assign := assign_length
  have h_setAtScope := setAtScope_length
  have h_setOpt := setOpt_length
  have h_unset := unset_length
  have h_foldSet := foldlM_setAtScope_length
  have h_call : ∀ (isLit : Bool) (frame : Frame) (body : List Stmt), Pres (inCall isLit frame (bodyValue (execBlock p fuel body))) :=
    fun isLit frame body => pres_inCall _ _ _ (pres_bodyValue _ (ih.execBlock body))
  have h_sub : ∀ (frame : Frame) (body : List Stmt), Pres (inCall false frame (execBlock p fuel body)) :=
    fun frame body => pres_inCall _ _ _ (ih.execBlock body)
  have h_loopKV : ∀ k v es body, Pres (inNewFrame (execForKV p fuel k v es body)) :=
    fun k v es body => pres_inNewFrame _ (ih.execForKV k v es body)
  have h_loopMulti : ∀ ks v sofar es body, Pres (inNewFrame (execForMulti p fuel ks v sofar es body)) :=
    fun ks v sofar es body => pres_inNewFrame _ (ih.execForMulti ks v sofar es body)
  have h_loopC : ∀ init c u body, Pres (inNewFrame (andThen (execStmts p fuel init) (execForC p fuel c u body))) :=
    fun init c u body => pres_inNewFrame _ (pres_andThen _ _ (ih.execStmts init) (ih.execForC c u body))
  unfold Pres at h_eval h_evalList h_evalKVs h_callFn h_hof h_anyEvery h_mapFn h_mapKV h_foldFn h_foldKV h_sortFn h_insertFn h_execBlock h_execStmts h_assignTo h_unsetOne h_unsetList h_execIf h_execWhile h_execForKV h_execForMulti h_forMultiOne h_forCGo h_execForC h_exec h_call h_sub h_loopKV h_loopMulti h_loopC
  unfold execStmts
  cases body <;> pres_step

set_option maxHeartbeats 4000000 in
theorem pres_assignTo_step (p : Prog) (fuel : Nat) (ih : AllPres p fuel) : ∀ lhs path v, Pres (assignTo p (fuel + 1) lhs path v) := by
  intro lhs path v
  have h_eval := ih.eval
  have h_evalList := ih.evalList
  have h_evalKVs := ih.evalKVs
  have h_callFn := ih.callFn
  have h_hof := ih.hof
  have h_anyEvery := ih.anyEvery
  have h_mapFn := ih.mapFn
  have h_mapKV := ih.mapKV
  have h_foldFn := ih.foldFn
  have h_foldKV := ih.foldKV
  have h_sortFn := ih.sortFn
  have h_insertFn := ih.insertFn
  have h_execBlock := ih.execBlock
  have h_execStmts := ih.execStmts
  have h_assignTo := ih.assignTo
  have h_unsetOne := ih.unsetOne
  have h_unsetList := ih.unsetList
  have h_execIf := ih.execIf
  have h_execWhile := ih.execWhile
  have h_execForKV := ih.execForKV
  have h_execForMulti := ih.execForMulti
  have h_forMultiOne := ih.forMultiOne
  have h_forCGo := ih.forCGo
  have h_execForC := ih.execForC
  have h_exec := ih.exec
  have h_truthy := runM_truthy
  have h_define := define_length
  have h_assign := assign_length
  have h_setAtScope := setAtScope_length
  have h_setOpt := setOpt_length
  have h_unset := unset_length
  have h_foldSet := foldlM_setAtScope_length
  have h_call : ∀ (isLit : Bool) (frame : Frame) (body : List Stmt), Pres (inCall isLit frame (bodyValue (execBlock p fuel body))) :=
    fun isLit frame body => pres_inCall _ _ _ (pres_bodyValue _ (ih.execBlock body))
  have h_sub : ∀ (frame : Frame) (body : List Stmt), Pres (inCall false frame (execBlock p fuel body)) :=
    fun frame body => pres_inCall _ _ _ (ih.execBlock body)
  have h_loopKV : ∀ k v es body, Pres (inNewFrame (execForKV p fuel k v es body)) :=
    fun k v es body => pres_inNewFrame _ (ih.execForKV k v es body)
  have h_loopMulti : ∀ ks v sofar es body, Pres (inNewFrame (execForMulti p fuel ks v sofar es body)) :=
    fun ks v sofar es body => pres_inNewFrame _ (ih.execForMulti ks v sofar es body)
  have h_loopC : ∀ init c u body, Pres (inNewFrame (andThen (execStmts p fuel init) (execForC p fuel c u body))) :=
    fun init c u body => pres_inNewFrame _ (pres_andThen _ _ (ih.execStmts init) (ih.execForC c u body))
  unfold Pres at h_eval h_evalList h_evalKVs h_callFn h_hof h_anyEvery h_mapFn h_mapKV h_foldFn h_foldKV h_sortFn h_insertFn h_execBlock h_execStmts h_assignTo h_unsetOne h_unsetList h_execIf h_execWhile h_execForKV h_execForMulti h_forMultiOne h_forCGo h_execForC h_exec h_call h_sub h_loopKV h_loopMulti h_loopC
  unfold assignTo
  cases lhs <;> pres_step

set_option maxHeartbeats 4000000 in
theorem pres_unsetOne_step (p : Prog) (fuel : Nat) (ih : AllPres p fuel) : ∀ lhs path, Pres (unsetOne p (fuel + 1) lhs path) := by
  intro lhs path
  have h_eval := ih.eval
  have h_evalList := ih.evalList
  have h_evalKVs := ih.evalKVs
  have h_callFn := ih.callFn
  have h_hof := ih.hof
  have h_anyEvery := ih.anyEvery
  have h_mapFn := ih.mapFn
  have h_mapKV := ih.mapKV
  have h_foldFn := ih.foldFn
  have h_foldKV := ih.foldKV
  have h_sortFn := ih.sortFn
  have h_insertFn := ih.insertFn
  have h_execBlock := ih.execBlock
  have h_execStmts := ih.execStmts
  have h_assignTo := ih.assignTo
  have h_unsetOne := ih.unsetOne
  have h_unsetList := ih.unsetList
  have h_execIf := ih.execIf
  have h_execWhile := ih.execWhile
  have h_execForKV := ih.execForKV
  have h_execForMulti := ih.execForMulti
  have h_forMultiOne := ih.forMultiOne
  have h_forCGo := ih.forCGo
  have h_execForC := ih.execForC
  have h_exec := ih.exec
  have h_truthy := runM_truthy
  have h_define := define_length
  have h_assign := assign_length
  have h_setAtScope := setAtScope_length
  have h_setOpt := setOpt_length
  have h_unset := unset_length
  have h_foldSet := foldlM_setAtScope_length
  have h_call : ∀ (isLit : Bool) (frame : Frame) (body : List Stmt), Pres (inCall isLit frame (bodyValue (execBlock p fuel body))) :=
    fun isLit frame body => pres_inCall _ _ _ (pres_bodyValue _ (ih.execBlock body))
  have h_sub : ∀ (frame : Frame) (body : List Stmt), Pres (inCall false frame (execBlock p fuel body)) :=
    fun frame body => pres_inCall _ _ _ (ih.execBlock body)
  have h_loopKV : ∀ k v es body, Pres (inNewFrame (execForKV p fuel k v es body)) :=
    fun k v es body => pres_inNewFrame _ (ih.execForKV k v es body)
  have h_loopMulti : ∀ ks v sofar es body, Pres (inNewFrame (execForMulti p fuel ks v sofar es body)) :=
    fun ks v sofar es body => pres_inNewFrame _ (ih.execForMulti ks v sofar es body)
  have h_loopC : ∀ init c u body, Pres (inNewFrame (andThen (execStmts p fuel init) (execForC p fuel c u body))) :=
    fun init c u body => pres_inNewFrame _ (pres_andThen _ _ (ih.execStmts init) (ih.execForC c u body))
  unfold Pres at h_eval h_evalList h_evalKVs h_callFn h_hof h_anyEvery h_mapFn h_mapKV h_foldFn h_foldKV h_sortFn h_insertFn h_execBlock h_execStmts h_assignTo h_unsetOne h_unsetList h_execIf h_execWhile h_execForKV h_execForMulti h_forMultiOne h_forCGo h_execForC h_exec h_call h_sub h_loopKV h_loopMulti h_loopC
  unfold unsetOne
  cases lhs <;> pres_step

set_option maxHeartbeats 4000000 in
theorem pres_unsetList_step (p : Prog) (fuel : Nat) (ih : AllPres p fuel) : ∀ ls, Pres (unsetList p (fuel + 1) ls) := by
  intro ls
  have h_eval := ih.eval
  have h_evalList := ih.evalList
  have h_evalKVs := ih.evalKVs
  have h_callFn := ih.callFn
  have h_hof := ih.hof
  have h_anyEvery := ih.anyEvery
  have h_mapFn := ih.mapFn
  have h_mapKV := ih.mapKV
  have h_foldFn := ih.foldFn
  have h_foldKV := ih.foldKV
  have h_sortFn := ih.sortFn
  have h_insertFn := ih.insertFn
  have h_execBlock := ih.execBlock
  have h_execStmts := ih.execStmts
  have h_assignTo := ih.assignTo
  have h_unsetOne := ih.unsetOne
  have h_unsetList := ih.unsetList
  have h_execIf := ih.execIf
  have h_execWhile := ih.execWhile
  have h_execForKV := ih.execForKV
  have h_execForMulti := ih.execForMulti
  have h_forMultiOne := ih.forMultiOne
  have h_forCGo := ih.forCGo
  have h_execForC := ih.execForC
  have h_exec := ih.exec
  have h_truthy := runM_truthy
  have h_define := define_length
  have h_assign := assign_length
  have h_setAtScope := setAtScope_length
  have h_setOpt := setOpt_length
  have h_unset := unset_length
  have h_foldSet := foldlM_setAtScope_length
  have h_call : ∀ (isLit : Bool) (frame : Frame) (body : List Stmt), Pres (inCall isLit frame (bodyValue (execBlock p fuel body))) :=
    fun isLit frame body => pres_inCall _ _ _ (pres_bodyValue _ (ih.execBlock body))
  have h_sub : ∀ (frame : Frame) (body : List Stmt), Pres (inCall false frame (execBlock p fuel body)) :=
    fun frame body => pres_inCall _ _ _ (ih.execBlock body)
  have h_loopKV : ∀ k v es body, Pres (inNewFrame (execForKV p fuel k v es body)) :=
    fun k v es body => pres_inNewFrame _ (ih.execForKV k v es body)
  have h_loopMulti : ∀ ks v sofar es body, Pres (inNewFrame (execForMulti p fuel ks v sofar es body)) :=
    fun ks v sofar es body => pres_inNewFrame _ (ih.execForMulti ks v sofar es body)
  have h_loopC : ∀ init c u body, Pres (inNewFrame (andThen (execStmts p fuel init) (execForC p fuel c u body))) :=
    fun init c u body => pres_inNewFrame _ (pres_andThen _ _ (ih.execStmts init) (ih.execForC c u body))
  unfold Pres at h_eval h_evalList h_evalKVs h_callFn h_hof h_anyEvery h_mapFn h_mapKV h_foldFn h_foldKV h_sortFn h_insertFn h_execBlock h_execStmts h_assignTo h_unsetOne h_unsetList h_execIf h_execWhile h_execForKV h_execForMulti h_forMultiOne h_forCGo h_execForC h_exec h_call h_sub h_loopKV h_loopMulti h_loopC
  unfold unsetList
  cases ls <;> pres_step

set_option maxHeartbeats 4000000 in
theorem pres_execIf_step (p : Prog) (fuel : Nat) (ih : AllPres p fuel) : ∀ bs els, Pres (execIf p (fuel + 1) bs els) := by
  intro bs els
  have h_eval := ih.eval
  have h_evalList := ih.evalList
  have h_evalKVs := ih.evalKVs
  have h_callFn := ih.callFn
  have h_hof := ih.hof
  have h_anyEvery := ih.anyEvery
  have h_mapFn := ih.mapFn
  have h_mapKV := ih.mapKV
  have h_foldFn := ih.foldFn
  have h_foldKV := ih.foldKV
  have h_sortFn := ih.sortFn
  have h_insertFn := ih.insertFn
  have h_execBlock := ih.execBlock
  have h_execStmts := ih.execStmts
  have h_assignTo := ih.assignTo
  have h_unsetOne := ih.unsetOne
  have h_unsetList := ih.unsetList
  have h_execIf := ih.execIf
  have h_execWhile := ih.execWhile
  have h_execForKV := ih.execForKV
  have h_execForMulti := ih.execForMulti
  have h_forMultiOne := ih.forMultiOne
  have h_forCGo := ih.forCGo
  have h_execForC := ih.execForC
  have h_exec := ih.exec
  have h_truthy := runM_truthy
  have h_define := define_length
  have h_assign := assign_length
  have h_setAtScope := setAtScope_length
  have h_setOpt := setOpt_length
  have h_unset := unset_length
  have h_foldSet := foldlM_setAtScope_length
  have h_call : ∀ (isLit : Bool) (frame : Frame) (body : List Stmt), Pres (inCall isLit frame (bodyValue (execBlock p fuel body))) :=
    fun isLit frame body => pres_inCall _ _ _ (pres_bodyValue _ (ih.execBlock body))
  have h_sub : ∀ (frame : Frame) (body : List Stmt), Pres (inCall false frame (execBlock p fuel body)) :=
    fun frame body => pres_inCall _ _ _ (ih.execBlock body)
  have h_loopKV : ∀ k v es body, Pres (inNewFrame (execForKV p fuel k v es body)) :=
    fun k v es body => pres_inNewFrame _ (ih.execForKV k v es body)
  have h_loopMulti : ∀ ks v sofar es body, Pres (inNewFrame (execForMulti p fuel ks v sofar es body)) :=
    fun ks v sofar es body => pres_inNewFrame _ (ih.execForMulti ks v sofar es body)
  have h_loopC : ∀ init c u body, Pres (inNewFrame (andThen (execStmts p fuel init) (execForC p fuel c u body))) :=
    fun init c u body => pres_inNewFrame _ (pres_andThen _ _ (ih.execStmts init) (ih.execForC c u body))
  unfold Pres at h_eval h_evalList h_evalKVs h_callFn h_hof h_anyEvery h_mapFn h_mapKV h_foldFn h_foldKV h_sortFn h_insertFn h_execBlock h_execStmts h_assignTo h_unsetOne h_unsetList h_execIf h_execWhile h_execForKV h_execForMulti h_forMultiOne h_forCGo h_execForC h_exec h_call h_sub h_loopKV h_loopMulti h_loopC
  unfold execIf
  cases bs <;> pres_step

set_option maxHeartbeats 4000000 in
theorem pres_execWhile_step (p : Prog) (fuel : Nat) (ih : AllPres p fuel) : ∀ c body, Pres (execWhile p (fuel + 1) c body) := by
  intro c body
  have h_eval := ih.eval
  have h_evalList := ih.evalList
  have h_evalKVs := ih.evalKVs
  have h_callFn := ih.callFn
  have h_hof := ih.hof
  have h_anyEvery := ih.anyEvery
  have h_mapFn := ih.mapFn
  have h_mapKV := ih.mapKV
  have h_foldFn := ih.foldFn
  have h_foldKV := ih.foldKV
  have h_sortFn := ih.sortFn
  have h_insertFn := ih.insertFn
  have h_execBlock := ih.execBlock
  have h_execStmts := ih.execStmts
  have h_assignTo := ih.assignTo
  have h_unsetOne := ih.unsetOne
  have h_unsetList := ih.unsetList
  have h_execIf := ih.execIf
  have h_execWhile := ih.execWhile
  have h_execForKV := ih.execForKV
  have h_execForMulti := ih.execForMulti
  have h_forMultiOne := ih.forMultiOne
  have h_forCGo := ih.forCGo
  have h_execForC := ih.execForC
  have h_exec := ih.exec
  have h_truthy := runM_truthy
  have h_define := define_length
  have h_assign := assign_length
  have h_setAtScope := setAtScope_length
  have h_setOpt := setOpt_length
  have h_unset := unset_length
  have h_foldSet := foldlM_setAtScope_length
  have h_call : ∀ (isLit : Bool) (frame : Frame) (body : List Stmt), Pres (inCall isLit frame (bodyValue (execBlock p fuel body))) :=
    fun isLit frame body => pres_inCall _ _ _ (pres_bodyValue _ (ih.execBlock body))
  have h_sub : ∀ (frame : Frame) (body : List Stmt), Pres (inCall false frame (execBlock p fuel body)) :=
    fun frame body => pres_inCall _ _ _ (ih.execBlock body)
  have h_loopKV : ∀ k v es body, Pres (inNewFrame (execForKV p fuel k v es body)) :=
    fun k v es body => pres_inNewFrame _ (ih.execForKV k v es body)
  have h_loopMulti : ∀ ks v sofar es body, Pres (inNewFrame (execForMulti p fuel ks v sofar es body)) :=
    fun ks v sofar es body => pres_inNewFrame _ (ih.execForMulti ks v sofar es body)
  have h_loopC : ∀ init c u body, Pres (inNewFrame (andThen (execStmts p fuel init) (execForC p fuel c u body))) :=
    fun init c u body => pres_inNewFrame _ (pres_andThen _ _ (ih.execStmts init) (ih.execForC c u body))
  unfold Pres at h_eval h_evalList h_evalKVs h_callFn h_hof h_anyEvery h_mapFn h_mapKV h_foldFn h_foldKV h_sortFn h_insertFn h_execBlock h_execStmts h_assignTo h_unsetOne h_unsetList h_execIf h_execWhile h_execForKV h_execForMulti h_forMultiOne h_forCGo h_execForC h_exec h_call h_sub h_loopKV h_loopMulti h_loopC
  unfold execWhile
  pres_step

set_option maxHeartbeats 4000000 in
theorem pres_execForKV_step (p : Prog) (fuel : Nat) (ih : AllPres p fuel) : ∀ k v es body, Pres (execForKV p (fuel + 1) k v es body) := by
  intro k v es body
  have h_eval := ih.eval
  have h_evalList := ih.evalList
  have h_evalKVs := ih.evalKVs
  have h_callFn := ih.callFn
  have h_hof := ih.hof
  have h_anyEvery := ih.anyEvery
  have h_mapFn := ih.mapFn
  have h_mapKV := ih.mapKV
  have h_foldFn := ih.foldFn
  have h_foldKV := ih.foldKV
  have h_sortFn := ih.sortFn
  have h_insertFn := ih.insertFn
  have h_execBlock := ih.execBlock
  have h_execStmts := ih.execStmts
  have h_assignTo := ih.assignTo
  have h_unsetOne := ih.unsetOne
  have h_unsetList := ih.unsetList
  have h_execIf := ih.execIf
  have h_execWhile := ih.execWhile
  have h_execForKV := ih.execForKV
  have h_execForMulti := ih.execForMulti
  have h_forMultiOne := ih.forMultiOne
  have h_forCGo := ih.forCGo
  have h_execForC := ih.execForC
  have h_exec := ih.exec
  have h_truthy := runM_truthy
  have h_define := define_length
  have h_assign := assign_length
  have h_setAtScope := setAtScope_length
  have h_setOpt := setOpt_length
  have h_unset := unset_length
  have h_foldSet := foldlM_setAtScope_length
  have h_call : ∀ (isLit : Bool) (frame : Frame) (body : List Stmt), Pres (inCall isLit frame (bodyValue (execBlock p fuel body))) :=
    fun isLit frame body => pres_inCall _ _ _ (pres_bodyValue _ (ih.execBlock body))
  have h_sub : ∀ (frame : Frame) (body : List Stmt), Pres (inCall false frame (execBlock p fuel body)) :=
    fun frame body => pres_inCall _ _ _ (ih.execBlock body)
  have h_loopKV : ∀ k v es body, Pres (inNewFrame (execForKV p fuel k v es body)) :=
    fun k v es body => pres_inNewFrame _ (ih.execForKV k v es body)
  have h_loopMulti : ∀ ks v sofar es body, Pres (inNewFrame (execForMulti p fuel ks v sofar es body)) :=
    fun ks v sofar es body => pres_inNewFrame _ (ih.execForMulti ks v sofar es body)
  have h_loopC : ∀ init c u body, Pres (inNewFrame (andThen (execStmts p fuel init) (execForC p fuel c u body))) :=
    fun init c u body => pres_inNewFrame _ (pres_andThen _ _ (ih.execStmts init) (ih.execForC c u body))
  unfold Pres at h_eval h_evalList h_evalKVs h_callFn h_hof h_anyEvery h_mapFn h_mapKV h_foldFn h_foldKV h_sortFn h_insertFn h_execBlock h_execStmts h_assignTo h_unsetOne h_unsetList h_execIf h_execWhile h_execForKV h_execForMulti h_forMultiOne h_forCGo h_execForC h_exec h_call h_sub h_loopKV h_loopMulti h_loopC
  unfold execForKV
  cases es <;> pres_step

set_option maxHeartbeats 4000000 in
theorem pres_execForMulti_step (p : Prog) (fuel : Nat) (ih : AllPres p fuel) : ∀ ks v sofar es body, Pres (execForMulti p (fuel + 1) ks v sofar es body) := by
  intro ks v sofar es body
  have h_eval := ih.eval
  have h_evalList := ih.evalList
  have h_evalKVs := ih.evalKVs
  have h_callFn := ih.callFn
  have h_hof := ih.hof
  have h_anyEvery := ih.anyEvery
  have h_mapFn := ih.mapFn
  have h_mapKV := ih.mapKV
  have h_foldFn := ih.foldFn
  have h_foldKV := ih.foldKV
  have h_sortFn := ih.sortFn
  have h_insertFn := ih.insertFn
  have h_execBlock := ih.execBlock
  have h_execStmts := ih.execStmts
  have h_assignTo := ih.assignTo
  have h_unsetOne := ih.unsetOne
  have h_unsetList := ih.unsetList
  have h_execIf := ih.execIf
  have h_execWhile := ih.execWhile
  have h_execForKV := ih.execForKV
  have h_execForMulti := ih.execForMulti
  have h_forMultiOne := ih.forMultiOne
  have h_forCGo := ih.forCGo
  have h_execForC := ih.execForC
  have h_exec := ih.exec
  have h_truthy := runM_truthy
  have h_define := define_length
  have h_assign := assign_length
  have h_setAtScope := setAtScope_length
  have h_setOpt := setOpt_length
  have h_unset := unset_length
  have h_foldSet := foldlM_setAtScope_length
  have h_call : ∀ (isLit : Bool) (frame : Frame) (body : List Stmt), Pres (inCall isLit frame (bodyValue (execBlock p fuel body))) :=
    fun isLit frame body => pres_inCall _ _ _ (pres_bodyValue _ (ih.execBlock body))
  have h_sub : ∀ (frame : Frame) (body : List Stmt), Pres (inCall false frame (execBlock p fuel body)) :=
    fun frame body => pres_inCall _ _ _ (ih.execBlock body)
  have h_loopKV : ∀ k v es body, Pres (inNewFrame (execForKV p fuel k v es body)) :=
    fun k v es body => pres_inNewFrame _ (ih.execForKV k v es body)
  have h_loopMulti : ∀ ks v sofar es body, Pres (inNewFrame (execForMulti p fuel ks v sofar es body)) :=
    fun ks v sofar es body => pres_inNewFrame _ (ih.execForMulti ks v sofar es body)
  have h_loopC : ∀ init c u body, Pres (inNewFrame (andThen (execStmts p fuel init) (execForC p fuel c u body))) :=
    fun init c u body => pres_inNewFrame _ (pres_andThen _ _ (ih.execStmts init) (ih.execForC c u body))
  unfold Pres at h_eval h_evalList h_evalKVs h_callFn h_hof h_anyEvery h_mapFn h_mapKV h_foldFn h_foldKV h_sortFn h_insertFn h_execBlock h_execStmts h_assignTo h_unsetOne h_unsetList h_execIf h_execWhile h_execForKV h_execForMulti h_forMultiOne h_forCGo h_execForC h_exec h_call h_sub h_loopKV h_loopMulti h_loopC
  unfold execForMulti
  cases es <;> pres_step

set_option maxHeartbeats 4000000 in
theorem pres_forMultiOne_step (p : Prog) (fuel : Nat) (ih : AllPres p fuel) : ∀ ks v here val body, Pres (forMultiOne p (fuel + 1) ks v here val body) := by
  intro ks v here val body
  have h_eval := ih.eval
  have h_evalList := ih.evalList
  have h_evalKVs := ih.evalKVs
  have h_callFn := ih.callFn
  have h_hof := ih.hof
  have h_anyEvery := ih.anyEvery
  have h_mapFn := ih.mapFn
  have h_mapKV := ih.mapKV
  have h_foldFn := ih.foldFn
  have h_foldKV := ih.foldKV
  have h_sortFn := ih.sortFn
  have h_insertFn := ih.insertFn
  have h_execBlock := ih.execBlock
  have h_execStmts := ih.execStmts
  have h_assignTo := ih.assignTo
  have h_unsetOne := ih.unsetOne
  have h_unsetList := ih.unsetList
  have h_execIf := ih.execIf
  have h_execWhile := ih.execWhile
  have h_execForKV := ih.execForKV
  have h_execForMulti := ih.execForMulti
  have h_forMultiOne := ih.forMultiOne
  have h_forCGo := ih.forCGo
  have h_execForC := ih.execForC
  have h_exec := ih.exec
  have h_truthy := runM_truthy
  have h_define := define_length
  have h_assign := assign_length
  have h_setAtScope := setAtScope_length
  have h_setOpt := setOpt_length
  have h_unset := unset_length
  have h_foldSet := foldlM_setAtScope_length
  have h_call : ∀ (isLit : Bool) (frame : Frame) (body : List Stmt), Pres (inCall isLit frame (bodyValue (execBlock p fuel body))) :=
    fun isLit frame body => pres_inCall _ _ _ (pres_bodyValue _ (ih.execBlock body))
  have h_sub : ∀ (frame : Frame) (body : List Stmt), Pres (inCall false frame (execBlock p fuel body)) :=
    fun frame body => pres_inCall _ _ _ (ih.execBlock body)
  have h_loopKV : ∀ k v es body, Pres (inNewFrame (execForKV p fuel k v es body)) :=
    fun k v es body => pres_inNewFrame _ (ih.execForKV k v es body)
  have h_loopMulti : ∀ ks v sofar es body, Pres (inNewFrame (execForMulti p fuel ks v sofar es body)) :=
    fun ks v sofar es body => pres_inNewFrame _ (ih.execForMulti ks v sofar es body)
  have h_loopC : ∀ init c u body, Pres (inNewFrame (andThen (execStmts p fuel init) (execForC p fuel c u body))) :=
    fun init c u body => pres_inNewFrame _ (pres_andThen _ _ (ih.execStmts init) (ih.execForC c u body))
  unfold Pres at h_eval h_evalList h_evalKVs h_callFn h_hof h_anyEvery h_mapFn h_mapKV h_foldFn h_foldKV h_sortFn h_insertFn h_execBlock h_execStmts h_assignTo h_unsetOne h_unsetList h_execIf h_execWhile h_execForKV h_execForMulti h_forMultiOne h_forCGo h_execForC h_exec h_call h_sub h_loopKV h_loopMulti h_loopC
  unfold forMultiOne
  pres_step

set_option maxHeartbeats 4000000 in
theorem pres_forCGo_step (p : Prog) (fuel : Nat) (ih : AllPres p fuel) : ∀ c, Pres (forCGo p (fuel + 1) c) := by
  intro c
  have h_eval := ih.eval
  have h_evalList := ih.evalList
  have h_evalKVs := ih.evalKVs
  have h_callFn := ih.callFn
  have h_hof := ih.hof
  have h_anyEvery := ih.anyEvery
  have h_mapFn := ih.mapFn
  have h_mapKV := ih.mapKV
  have h_foldFn := ih.foldFn
  have h_foldKV := ih.foldKV
  have h_sortFn := ih.sortFn
  have h_insertFn := ih.insertFn
  have h_execBlock := ih.execBlock
  have h_execStmts := ih.execStmts
  have h_assignTo := ih.assignTo
  have h_unsetOne := ih.unsetOne
  have h_unsetList := ih.unsetList
  have h_execIf := ih.execIf
  have h_execWhile := ih.execWhile
  have h_execForKV := ih.execForKV
  have h_execForMulti := ih.execForMulti
  have h_forMultiOne := ih.forMultiOne
  have h_forCGo := ih.forCGo
  have h_execForC := ih.execForC
  have h_exec := ih.exec
  have h_truthy := runM_truthy
  have h_define := define_length
  have h_assign := assign_length
  have h_setAtScope := setAtScope_length
  have h_setOpt := setOpt_length
  have h_unset := unset_length
  have h_foldSet := foldlM_setAtScope_length
  have h_call : ∀ (isLit : Bool) (frame : Frame) (body : List Stmt), Pres (inCall isLit frame (bodyValue (execBlock p fuel body))) :=
    fun isLit frame body => pres_inCall _ _ _ (pres_bodyValue _ (ih.execBlock body))
  have h_sub : ∀ (frame : Frame) (body : List Stmt), Pres (inCall false frame (execBlock p fuel body)) :=
    fun frame body => pres_inCall _ _ _ (ih.execBlock body)
  have h_loopKV : ∀ k v es body, Pres (inNewFrame (execForKV p fuel k v es body)) :=
    fun k v es body => pres_inNewFrame _ (ih.execForKV k v es body)
  have h_loopMulti : ∀ ks v sofar es body, Pres (inNewFrame (execForMulti p fuel ks v sofar es body)) :=
    fun ks v sofar es body => pres_inNewFrame _ (ih.execForMulti ks v sofar es body)
  have h_loopC : ∀ init c u body, Pres (inNewFrame (andThen (execStmts p fuel init) (execForC p fuel c u body))) :=
    fun init c u body => pres_inNewFrame _ (pres_andThen _ _ (ih.execStmts init) (ih.execForC c u body))
  unfold Pres at h_eval h_evalList h_evalKVs h_callFn h_hof h_anyEvery h_mapFn h_mapKV h_foldFn h_foldKV h_sortFn h_insertFn h_execBlock h_execStmts h_assignTo h_unsetOne h_unsetList h_execIf h_execWhile h_execForKV h_execForMulti h_forMultiOne h_forCGo h_execForC h_exec h_call h_sub h_loopKV h_loopMulti h_loopC
  unfold forCGo
  pres_step

set_option maxHeartbeats 4000000 in
theorem pres_execForC_step (p : Prog) (fuel : Nat) (ih : AllPres p fuel) : ∀ c u body, Pres (execForC p (fuel + 1) c u body) := by
  intro c u body
  have h_eval := ih.eval
  have h_evalList := ih.evalList
  have h_evalKVs := ih.evalKVs
  have h_callFn := ih.callFn
  have h_hof := ih.hof
  have h_anyEvery := ih.anyEvery
  have h_mapFn := ih.mapFn
  have h_mapKV := ih.mapKV
  have h_foldFn := ih.foldFn
  have h_foldKV := ih.foldKV
  have h_sortFn := ih.sortFn
  have h_insertFn := ih.insertFn
  have h_execBlock := ih.execBlock
  have h_execStmts := ih.execStmts
  have h_assignTo := ih.assignTo
  have h_unsetOne := ih.unsetOne
  have h_unsetList := ih.unsetList
  have h_execIf := ih.execIf
  have h_execWhile := ih.execWhile
  have h_execForKV := ih.execForKV
  have h_execForMulti := ih.execForMulti
  have h_forMultiOne := ih.forMultiOne
  have h_forCGo := ih.forCGo
  have h_execForC := ih.execForC
  have h_exec := ih.exec
  have h_truthy := runM_truthy
  have h_define := define_length
  have h_assign := assign_length
  have h_setAtScope := setAtScope_length
  have h_setOpt := setOpt_length
  have h_unset := unset_length
  have h_foldSet := foldlM_setAtScope_length
  have h_call : ∀ (isLit : Bool) (frame : Frame) (body : List Stmt), Pres (inCall isLit frame (bodyValue (execBlock p fuel body))) :=
    fun isLit frame body => pres_inCall _ _ _ (pres_bodyValue _ (ih.execBlock body))
  have h_sub : ∀ (frame : Frame) (body : List Stmt), Pres (inCall false frame (execBlock p fuel body)) :=
    fun frame body => pres_inCall _ _ _ (ih.execBlock body)
  have h_loopKV : ∀ k v es body, Pres (inNewFrame (execForKV p fuel k v es body)) :=
    fun k v es body => pres_inNewFrame _ (ih.execForKV k v es body)
  have h_loopMulti : ∀ ks v sofar es body, Pres (inNewFrame (execForMulti p fuel ks v sofar es body)) :=
    fun ks v sofar es body => pres_inNewFrame _ (ih.execForMulti ks v sofar es body)
  have h_loopC : ∀ init c u body, Pres (inNewFrame (andThen (execStmts p fuel init) (execForC p fuel c u body))) :=
    fun init c u body => pres_inNewFrame _ (pres_andThen _ _ (ih.execStmts init) (ih.execForC c u body))
  unfold Pres at h_eval h_evalList h_evalKVs h_callFn h_hof h_anyEvery h_mapFn h_mapKV h_foldFn h_foldKV h_sortFn h_insertFn h_execBlock h_execStmts h_assignTo h_unsetOne h_unsetList h_execIf h_execWhile h_execForKV h_execForMulti h_forMultiOne h_forCGo h_execForC h_exec h_call h_sub h_loopKV h_loopMulti h_loopC
  unfold execForC
  pres_step

set_option maxHeartbeats 4000000 in
theorem pres_exec_step (p : Prog) (fuel : Nat) (ih : AllPres p fuel) : ∀ st, Pres (exec p (fuel + 1) st) := by
  intro st
  have h_eval := ih.eval
  have h_evalList := ih.evalList
  have h_evalKVs := ih.evalKVs
  have h_callFn := ih.callFn
  have h_hof := ih.hof
  have h_anyEvery := ih.anyEvery
  have h_mapFn := ih.mapFn
  have h_mapKV := ih.mapKV
  have h_foldFn := ih.foldFn
  have h_foldKV := ih.foldKV
  have h_sortFn := ih.sortFn
  have h_insertFn := ih.insertFn
  have h_execBlock := ih.execBlock
  have h_execStmts := ih.execStmts
  have h_assignTo := ih.assignTo
  have h_unsetOne := ih.unsetOne
  have h_unsetList := ih.unsetList
  have h_execIf := ih.execIf
  have h_execWhile := ih.execWhile
  have h_execForKV := ih.execForKV
  have h_execForMulti := ih.execForMulti
  have h_forMultiOne := ih.forMultiOne
  have h_forCGo := ih.forCGo
  have h_execForC := ih.execForC
  have h_exec := ih.exec
  have h_truthy := runM_truthy
  have h_define := define_length
  have h_assign := assign_length
  have h_setAtScope := setAtScope_length
  have h_setOpt := setOpt_length
  have h_unset := unset_length
  have h_foldSet := foldlM_setAtScope_length
  have h_call : ∀ (isLit : Bool) (frame : Frame) (body : List Stmt), Pres (inCall isLit frame (bodyValue (execBlock p fuel body))) :=
    fun isLit frame body => pres_inCall _ _ _ (pres_bodyValue _ (ih.execBlock body))
  have h_sub : ∀ (frame : Frame) (body : List Stmt), Pres (inCall false frame (execBlock p fuel body)) :=
    fun frame body => pres_inCall _ _ _ (ih.execBlock body)
  have h_loopKV : ∀ k v es body, Pres (inNewFrame (execForKV p fuel k v es body)) :=
    fun k v es body => pres_inNewFrame _ (ih.execForKV k v es body)
  have h_loopMulti : ∀ ks v sofar es body, Pres (inNewFrame (execForMulti p fuel ks v sofar es body)) :=
    fun ks v sofar es body => pres_inNewFrame _ (ih.execForMulti ks v sofar es body)
  have h_loopC : ∀ init c u body, Pres (inNewFrame (andThen (execStmts p fuel init) (execForC p fuel c u body))) :=
    fun init c u body => pres_inNewFrame _ (pres_andThen _ _ (ih.execStmts init) (ih.execForC c u body))
  unfold Pres at h_eval h_evalList h_evalKVs h_callFn h_hof h_anyEvery h_mapFn h_mapKV h_foldFn h_foldKV h_sortFn h_insertFn h_execBlock h_execStmts h_assignTo h_unsetOne h_unsetList h_execIf h_execWhile h_execForKV h_execForMulti h_forMultiOne h_forCGo h_execForC h_exec h_call h_sub h_loopKV h_loopMulti h_loopC
  unfold exec
  cases st <;> pres_step

theorem pres_execBlock_step (p : Prog) (fuel : Nat) (ih : AllPres p fuel) : ∀ body, Pres (execBlock p (fuel + 1) body) := by
  intro body
  unfold execBlock
  exact pres_inNewFrame _ (ih.execStmts body)

theorem allPres_zero (p : Prog) : AllPres p 0 := by
  constructor <;> intros <;> first
    | (unfold eval; exact pres_failM _)
    | (unfold evalList; exact pres_failM _)
    | (unfold evalKVs; exact pres_failM _)
    | (unfold callFn; exact pres_failM _)
    | (unfold hof; exact pres_failM _)
    | (unfold anyEvery; exact pres_failM _)
    | (unfold mapFn; exact pres_failM _)
    | (unfold mapKV; exact pres_failM _)
    | (unfold foldFn; exact pres_failM _)
    | (unfold foldKV; exact pres_failM _)
    | (unfold sortFn; exact pres_failM _)
    | (unfold insertFn; exact pres_failM _)
    | (unfold execBlock; exact pres_failM _)
    | (unfold execStmts; exact pres_failM _)
    | (unfold assignTo; exact pres_failM _)
    | (unfold unsetOne; exact pres_failM _)
    | (unfold unsetList; exact pres_failM _)
    | (unfold execIf; exact pres_failM _)
    | (unfold execWhile; exact pres_failM _)
    | (unfold execForKV; exact pres_failM _)
    | (unfold execForMulti; exact pres_failM _)
    | (unfold forMultiOne; exact pres_failM _)
    | (unfold forCGo; exact pres_failM _)
    | (unfold execForC; exact pres_failM _)
    | (unfold exec; exact pres_failM _)

/-- THE INDUCTION: at every fuel, every function of the interpreter leaves the frame stack balanced. -/
theorem allPres (p : Prog) : ∀ fuel, AllPres p fuel
  | 0 => allPres_zero p
  | fuel + 1 =>
    have ih := allPres p fuel
    { eval := pres_eval_step p fuel ih,
      evalList := pres_evalList_step p fuel ih,
      evalKVs := pres_evalKVs_step p fuel ih,
      callFn := pres_callFn_step p fuel ih,
      hof := pres_hof_step p fuel ih,
      anyEvery := pres_anyEvery_step p fuel ih,
      mapFn := pres_mapFn_step p fuel ih,
      mapKV := pres_mapKV_step p fuel ih,
      foldFn := pres_foldFn_step p fuel ih,
      foldKV := pres_foldKV_step p fuel ih,
      sortFn := pres_sortFn_step p fuel ih,
      insertFn := pres_insertFn_step p fuel ih,
      execBlock := pres_execBlock_step p fuel ih,
      execStmts := pres_execStmts_step p fuel ih,
      assignTo := pres_assignTo_step p fuel ih,
      unsetOne := pres_unsetOne_step p fuel ih,
      unsetList := pres_unsetList_step p fuel ih,
      execIf := pres_execIf_step p fuel ih,
      execWhile := pres_execWhile_step p fuel ih,
      execForKV := pres_execForKV_step p fuel ih,
      execForMulti := pres_execForMulti_step p fuel ih,
      forMultiOne := pres_forMultiOne_step p fuel ih,
      forCGo := pres_forCGo_step p fuel ih,
      execForC := pres_execForC_step p fuel ih,
      exec := pres_exec_step p fuel ih }

/-- A named call hands the caller's stack back EXACTLY as it was (not merely as long): the callee's
frames are a set of their own. -/
theorem inCall_named_restores {α} (frame : Frame) (m : M α) (s : St) :
    (runM (inCall false frame m) s).2.stack = s.stack := by
  cases hr : runM (inCall false frame m) s with
  | mk r s' =>
    unfold inCall withStack at hr
    simp only [runM_bind, runM_get, runM_modify, runM_tryCatch, runM_pure, runM_throw] at hr
    split at hr
    · rename_i a s1 h1
      split at h1
      · simp at h1 hr; rw [← hr.2, ← h1.2]
      · simp at h1
    · rename_i e s1 h1
      split at h1
      · simp at h1
      · simp at h1 hr; rw [← hr.2, ← h1.2]

theorem findFunc_mem (fs : List FuncDef) (n : String) (d : FuncDef) (h : findFunc fs n = some d) : d ∈ fs := by
  unfold findFunc at h
  exact List.mem_of_find?_eq_some h

/-- A call of a NAMED user function, whatever it does and however it ends, hands the caller's stack back
exactly as it was. -/
theorem callFn_named_restores (p : Prog) (fuel : Nat) (name : String) (args : List DV) (s : St)
    (hname : name.startsWith "#" = false) (hfs : ∀ d ∈ p.funcs, d.isLit = false) :
    (runM (callFn p fuel name args) s).2.stack = s.stack := by
  cases fuel with
  | zero => unfold callFn; rfl
  | succ fuel =>
    have hr := inCall_named_restores (α := DV)
    cases hrun : runM (callFn p (fuel + 1) name args) s with
    | mk r s' =>
      unfold callFn at hrun
      simp only [hname, Bool.false_eq_true, if_false] at hrun
      cases hd : findFunc p.funcs name with
      | none => simp [hd] at hrun; simp [← hrun.2]
      | some d =>
        have hlit := hfs d (findFunc_mem _ _ _ hd)
        simp only [hd, hlit] at hrun
        repeat' (first
          | (simp only [runM_bind, runM_pure, runM_failM] at hrun)
          | (split at hrun))
        all_goals (try simp at hrun)
        all_goals (try grind)

end DSL
end Miller
