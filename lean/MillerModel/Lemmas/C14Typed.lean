/-
TYPE DECLARATIONS ARE ENFORCED EVERYWHERE: the invariant "every binding on the stack holds a value its
declared type admits (or nothing, after `unset`)" is kept by every function of the interpreter, on every
outcome.  Same induction on the fuel as `C14Interp.lean`, with the invariant in place of the length.
-/
import MillerModel.Lemmas.C14Interp
namespace Miller
namespace DSL

def Binding.wt (b : Binding) : Bool := b.ty.admits b.val || b.val.isAbsent
def Frame.wt (f : Frame) : Bool := List.all f Binding.wt
/-- Well-typed stack. -/
def wtB (st : Stack) : Bool := List.all st Frame.wt

theorem any_admits (v : DV) : Ty.any.admits v = true := by
  cases v <;> rfl

theorem frame_wt_append (f : Frame) (b : Binding) (hf : Frame.wt f = true) (hb : b.wt = true) : Frame.wt (f ++ [b]) = true := by
  simp [Frame.wt, List.all_append] at *
  exact ⟨hf, hb⟩

theorem update_wt : ∀ (f : Frame) (x : String) (v : DV) (b : Binding),
    Frame.wt f = true → Frame.find f x = some b → (b.ty.admits v || v.isAbsent) = true → Frame.wt (Frame.update f x v) = true
  | [], _, _, _, _, hfind, _ => by simp [Frame.find] at hfind
  | c :: rest, x, v, b, hf, hfind, hv => by
    unfold Frame.update
    unfold Frame.find at hfind
    simp only [List.find?_cons] at hfind
    simp only [Frame.wt, List.all_cons, Bool.and_eq_true] at hf
    cases hc : (c.name == x) with
    | true =>
      rw [hc] at hfind
      have hcb : c = b := by injection hfind
      subst hcb
      simp only [if_true, Frame.wt, List.all_cons, Bool.and_eq_true]
      exact ⟨by simpa [Binding.wt] using hv, hf.2⟩
    | false =>
      rw [hc] at hfind
      simp only [Bool.false_eq_true, if_false, Frame.wt, List.all_cons, Bool.and_eq_true]
      exact ⟨hf.1, update_wt rest x v b hf.2 hfind hv⟩

theorem update_absent_wt : ∀ (f : Frame) (x : String), Frame.wt f = true → Frame.wt (Frame.update f x absent) = true
  | [], _, _ => rfl
  | c :: rest, x, hf => by
    unfold Frame.update
    simp only [Frame.wt, List.all_cons, Bool.and_eq_true] at hf
    split
    · simp only [Frame.wt, List.all_cons, Bool.and_eq_true]
      exact ⟨by simp [Binding.wt, absent, DV.isAbsent], hf.2⟩
    · simp only [Frame.wt, List.all_cons, Bool.and_eq_true]
      exact ⟨hf.1, update_absent_wt rest x hf.2⟩

theorem wtB_cons (f : Frame) (st : Stack) : wtB (f :: st) = (Frame.wt f && wtB st) := rfl

theorem define_wt (st : Stack) (x : String) (ty : Ty) (v : DV) (st' : Stack)
    (h : Stack.define st x ty v = .ok st') (hw : wtB st = true) : wtB st' = true := by
  unfold Stack.define at h
  split at h
  · cases h
  · rename_i f rest
    rw [wtB_cons, Bool.and_eq_true] at hw
    split at h
    · cases h
    · split at h
      · cases h
      · rename_i hadm
        cases h
        rw [wtB_cons, Bool.and_eq_true]
        refine ⟨frame_wt_append f _ hw.1 ?_, hw.2⟩
        simp only [Bool.not_eq_true, Bool.not_eq_false'] at hadm
        simp [Binding.wt]
        left
        simpa using hadm

theorem setAtScope_wt (st : Stack) (x : String) (v : DV) (st' : Stack)
    (h : Stack.setAtScope st x v = .ok st') (hw : wtB st = true) : wtB st' = true := by
  unfold Stack.setAtScope at h
  split at h
  · cases h
  · rename_i f rest
    rw [wtB_cons, Bool.and_eq_true] at hw
    split at h
    · rename_i b hb
      split at h
      · rename_i hadm
        cases h
        rw [wtB_cons, Bool.and_eq_true]
        exact ⟨update_wt f x v b hw.1 hb (by simp [hadm]), hw.2⟩
      · cases h
    · cases h
      rw [wtB_cons, Bool.and_eq_true]
      exact ⟨frame_wt_append f _ hw.1 (by simp [Binding.wt, any_admits]), hw.2⟩

theorem setOpt_wt (st : Stack) (x : Option String) (v : DV) (st' : Stack)
    (h : Stack.setOpt st x v = .ok st') (hw : wtB st = true) : wtB st' = true := by
  cases x with
  | none => simp [Stack.setOpt] at h; cases h; exact hw
  | some k => exact setAtScope_wt st k v st' h hw

theorem assign_wt : ∀ (st : Stack) (x : String) (v : DV) (st' : Stack),
    Stack.assign st x v = .ok st' → wtB st = true → wtB st' = true
  | [], _, _, _, h, _ => by simp [Stack.assign] at h
  | [f], x, v, st', h, hw => by
    unfold Stack.assign at h
    rw [wtB_cons, Bool.and_eq_true] at hw
    split at h
    · rename_i b hb
      split at h
      · rename_i hadm
        cases h
        rw [wtB_cons, Bool.and_eq_true]
        exact ⟨update_wt f x v b hw.1 hb (by simp [hadm]), hw.2⟩
      · cases h
    · cases h
      rw [wtB_cons, Bool.and_eq_true]
      exact ⟨frame_wt_append f _ hw.1 (by simp [Binding.wt, any_admits]), hw.2⟩
  | f :: g :: rest, x, v, st', h, hw => by
    unfold Stack.assign at h
    rw [wtB_cons, Bool.and_eq_true] at hw
    split at h
    · rename_i b hb
      split at h
      · rename_i hadm
        cases h
        rw [wtB_cons, Bool.and_eq_true]
        exact ⟨update_wt f x v b hw.1 hb (by simp [hadm]), hw.2⟩
      · cases h
    · split at h
      · cases hr : Stack.assign (g :: rest) x v with
        | error e => rw [hr] at h; cases h
        | ok r =>
          rw [hr] at h
          have := assign_wt (g :: rest) x v r hr hw.2
          cases h
          rw [wtB_cons, Bool.and_eq_true]
          exact ⟨hw.1, this⟩
      · cases h
        rw [wtB_cons, Bool.and_eq_true]
        exact ⟨frame_wt_append f _ hw.1 (by simp [Binding.wt, any_admits]), hw.2⟩

theorem unset_wt : ∀ (st : Stack) (x : String), wtB st = true → wtB (Stack.unset st x) = true
  | [], _, _ => rfl
  | f :: rest, x, hw => by
    unfold Stack.unset
    rw [wtB_cons, Bool.and_eq_true] at hw
    split
    · rw [wtB_cons, Bool.and_eq_true]; exact ⟨update_absent_wt f x hw.1, hw.2⟩
    · rw [wtB_cons, Bool.and_eq_true]; exact ⟨hw.1, unset_wt rest x hw.2⟩

theorem foldlM_setAtScope_wt : ∀ (kvs : List (String × DV)) (st st' : Stack),
    kvs.foldlM (fun (st : Stack) (kv : String × DV) => st.setAtScope kv.1 kv.2) st = .ok st' → wtB st = true → wtB st' = true
  | [], st, st', h, hw => by simp [List.foldlM] at h; cases h; exact hw
  | (k, v) :: rest, st, st', h, hw => by
    simp only [List.foldlM] at h
    cases hs : Stack.setAtScope st k v with
    | error e => rw [hs] at h; cases h
    | ok s1 =>
      rw [hs] at h
      exact foldlM_setAtScope_wt rest s1 st' h (setAtScope_wt st k v s1 hs hw)

theorem paramFrame_wt : ∀ (ps : List (String × Ty)) (as : List DV), paramsAdmit ps as = true → Frame.wt (paramFrame ps as) = true
  | [], _, _ => by simp [paramFrame, Frame.wt]
  | _ :: _, [], _ => by simp [paramFrame, Frame.wt]
  | (n, ty) :: ps, a :: as, h => by
    simp only [paramsAdmit, Bool.and_eq_true] at h
    simp only [paramFrame, Frame.wt, List.all_cons, Bool.and_eq_true]
    exact ⟨by simp [Binding.wt, h.1], paramFrame_wt ps as h.2⟩

theorem drop_wt (st : Stack) (n : Nat) (hw : wtB st = true) : wtB (st.drop n) = true := by
  simp only [wtB, List.all_eq_true] at *
  intro f hf
  exact hw f (List.mem_of_mem_drop hf)

/-! ### the invariant through the monad -/

/-- `m` keeps the stack well-typed, whatever its outcome. -/
def Keeps {α} (m : M α) : Prop := ∀ s, wtB s.stack = true → wtB (runM m s).2.stack = true

theorem Keeps.out {α} {m : M α} (h : Keeps m) {s : St} {r : Except Err α} {s' : St} (hs : wtB s.stack = true)
    (hr : runM m s = (r, s')) : wtB s'.stack = true := by
  have := h s hs; rw [hr] at this; exact this

theorem keeps_of {α} {m : M α} (h : ∀ s r s', wtB s.stack = true → runM m s = (r, s') → wtB s'.stack = true) : Keeps m := by
  intro s hs
  cases hr : runM m s with
  | mk r s' => exact h s r s' hs hr

theorem keeps_pure {α} (a : α) : Keeps (pure a : M α) := fun _ h => h
theorem keeps_failM {α} (e : Err) : Keeps (failM e : M α) := fun _ h => h
theorem keeps_bind {α β} (m : M α) (f : α → M β) (hm : Keeps m) (hf : ∀ a, Keeps (f a)) : Keeps (m >>= f) := by
  apply keeps_of
  intro s r s' hs h
  simp only [runM_bind] at h
  split at h
  · rename_i a s1 h1
    exact (hf a).out (hm.out hs h1) h
  · rename_i e s1 h1
    have := hm.out hs h1
    simp at h
    rw [← h.2]; exact this
theorem keeps_tryCatch {α} (m : M α) (h : Err → M α) (hm : Keeps m) (hh : ∀ e, Keeps (h e)) : Keeps (tryCatch m h) := by
  apply keeps_of
  intro s r s' hs hr
  rw [runM_tryCatch] at hr
  split at hr
  · rename_i a s1 h1
    have := hm.out hs h1
    simp at hr; rw [← hr.2]; exact this
  · rename_i e s1 h1
    exact (hh e).out (hm.out hs h1) hr

theorem keeps_withStack {α} (enter : Stack → Stack) (leave : Stack → Stack → Stack) (m : M α) (hm : Keeps m)
    (he : ∀ saved, wtB saved = true → wtB (enter saved) = true)
    (hl : ∀ saved cur, wtB saved = true → wtB cur = true → wtB (leave saved cur) = true) :
    Keeps (withStack enter leave m) := by
  apply keeps_of
  intro s r s' hs h
  unfold withStack at h
  simp only [runM_bind, runM_get, runM_modify, runM_tryCatch, runM_pure, runM_throw] at h
  split at h
  · rename_i a s1 h1
    split at h1
    · rename_i a2 s2 h2
      have := hm.out (s := { s with stack := enter s.stack }) (by simpa using he _ hs) h2
      simp at h1 h
      rw [← h.2, ← h1.2]
      exact hl _ _ hs this
    · simp at h1
  · rename_i e s1 h1
    split at h1
    · simp at h1
    · rename_i e2 s2 h2
      have := hm.out (s := { s with stack := enter s.stack }) (by simpa using he _ hs) h2
      simp at h1 h
      rw [← h.2, ← h1.2]
      exact hl _ _ hs this

theorem keeps_inNewFrame {α} (m : M α) (hm : Keeps m) : Keeps (inNewFrame m) := by
  apply keeps_withStack _ _ _ hm
  · intro saved h; simpa [wtB_cons, Frame.wt] using h
  · intro saved cur _ h; exact drop_wt cur 1 h

theorem keeps_inCall {α} (isLit : Bool) (frame : Frame) (m : M α) (hf : Frame.wt frame = true) (hm : Keeps m) :
    Keeps (inCall isLit frame m) := by
  apply keeps_withStack _ _ _ hm
  · intro saved h
    cases isLit
    · show wtB [frame] = true
      simp [wtB, hf]
    · show wtB (frame :: saved) = true
      rw [wtB_cons, hf, h]; rfl
  · intro saved cur hs h
    cases isLit
    · simpa using hs
    · simpa using drop_wt cur 1 h

theorem keeps_bodyValue (blk : M Sig) (h : Keeps blk) : Keeps (bodyValue blk) := by
  apply keeps_tryCatch
  · exact keeps_bind _ _ h (fun _ => keeps_pure _)
  · intro e
    cases e <;> first | exact keeps_pure _ | exact keeps_failM _

theorem keeps_andThen {α β} (a : M α) (b : M β) (ha : Keeps a) (hb : Keeps b) : Keeps (andThen a b) :=
  keeps_bind _ _ ha (fun _ => hb)

theorem runM_truthy_stack (v : DV) (s : St) : (runM (truthy v) s).2 = s := runM_truthy v s

/-- Everything the interpreter is made of, at one fuel. -/
structure AllKeeps (p : Prog) (fuel : Nat) : Prop where
  eval : ∀ e, Keeps (eval p fuel e)
  evalList : ∀ es, Keeps (evalList p fuel es)
  evalKVs : ∀ kvs, Keeps (evalKVs p fuel kvs)
  callFn : ∀ f args, Keeps (callFn p fuel f args)
  hof : ∀ n args, Keeps (hof p fuel n args)
  anyEvery : ∀ b f xs, Keeps (anyEvery p fuel b f xs)
  mapFn : ∀ f xs, Keeps (mapFn p fuel f xs)
  mapKV : ∀ f kvs, Keeps (mapKV p fuel f kvs)
  foldFn : ∀ f acc xs, Keeps (foldFn p fuel f acc xs)
  foldKV : ∀ f acc kvs, Keeps (foldKV p fuel f acc kvs)
  sortFn : ∀ f xs, Keeps (sortFn p fuel f xs)
  insertFn : ∀ f x ys, Keeps (insertFn p fuel f x ys)
  execBlock : ∀ body, Keeps (execBlock p fuel body)
  execStmts : ∀ body, Keeps (execStmts p fuel body)
  assignTo : ∀ lhs path v, Keeps (assignTo p fuel lhs path v)
  unsetOne : ∀ lhs path, Keeps (unsetOne p fuel lhs path)
  unsetList : ∀ ls, Keeps (unsetList p fuel ls)
  execIf : ∀ bs els, Keeps (execIf p fuel bs els)
  execWhile : ∀ c body, Keeps (execWhile p fuel c body)
  execForKV : ∀ k v es body, Keeps (execForKV p fuel k v es body)
  execForMulti : ∀ ks v sofar es body, Keeps (execForMulti p fuel ks v sofar es body)
  forMultiOne : ∀ ks v here val body, Keeps (forMultiOne p fuel ks v here val body)
  forCGo : ∀ c, Keeps (forCGo p fuel c)
  execForC : ∀ c u body, Keeps (execForC p fuel c u body)
  exec : ∀ st, Keeps (exec p fuel st)

macro "inv_step" : tactic => `(tactic| (
  apply keeps_of
  intro s r s' hs h
  repeat' (first
    | (simp only [runM_bind, runM_map, runM_get, runM_set, runM_modify, runM_pure, runM_failM, runM_throw, runM_liftR, emitRec, emitRecs, emitLine] at h)
    | (split at h))
  all_goals (try simp at h)
  all_goals (try grind)))

set_option maxHeartbeats 4000000 in
theorem keeps_eval_step (p : Prog) (fuel : Nat) (ih : AllKeeps p fuel) : ∀ e, Keeps (eval p (fuel + 1) e) := by
  intro e
  have h_eval := ih.eval
  have h_evalList := ih.evalList
  have h_evalKVs := ih.evalKVs
  have h_callFn := ih.callFn
  have h_hof := ih.hof
  have h_anyEvery := ih.anyEvery
  have h_mapFn := ih.mapFn
  have h_mapKV := ih.mapKV
  have h_foldFn := ih.foldFn
  have h_foldKV := ih.foldKV
  have h_sortFn := ih.sortFn
  have h_insertFn := ih.insertFn
  have h_execBlock := ih.execBlock
  have h_execStmts := ih.execStmts
  have h_assignTo := ih.assignTo
  have h_unsetOne := ih.unsetOne
  have h_unsetList := ih.unsetList
  have h_execIf := ih.execIf
  have h_execWhile := ih.execWhile
  have h_execForKV := ih.execForKV
  have h_execForMulti := ih.execForMulti
  have h_forMultiOne := ih.forMultiOne
  have h_forCGo := ih.forCGo
  have h_execForC := ih.execForC
  have h_exec := ih.exec
  have h_truthy := runM_truthy
  have h_define := define_wt
  have h_assign := assign_wt
  have h_setAtScope := setAtScope_wt
  have h_setOpt := setOpt_wt
  have h_unset := unset_wt
  have h_foldSet := foldlM_setAtScope_wt
  have h_frame := paramFrame_wt
  have h_call : ∀ (isLit : Bool) (frame : Frame) (body : List Stmt), Frame.wt frame = true → Keeps (inCall isLit frame (bodyValue (execBlock p fuel body))) :=
    fun isLit frame body hf => keeps_inCall _ _ _ hf (keeps_bodyValue _ (ih.execBlock body))
  have h_sub : ∀ (frame : Frame) (body : List Stmt), Frame.wt frame = true → Keeps (inCall false frame (execBlock p fuel body)) :=
    fun frame body hf => keeps_inCall _ _ _ hf (ih.execBlock body)
  have h_loopKV : ∀ k v es body, Keeps (inNewFrame (execForKV p fuel k v es body)) :=
    fun k v es body => keeps_inNewFrame _ (ih.execForKV k v es body)
  have h_loopMulti : ∀ ks v sofar es body, Keeps (inNewFrame (execForMulti p fuel ks v sofar es body)) :=
    fun ks v sofar es body => keeps_inNewFrame _ (ih.execForMulti ks v sofar es body)
  have h_loopC : ∀ init c u body, Keeps (inNewFrame (andThen (execStmts p fuel init) (execForC p fuel c u body))) :=
    fun init c u body => keeps_inNewFrame _ (keeps_andThen _ _ (ih.execStmts init) (ih.execForC c u body))
  unfold Keeps at h_eval h_evalList h_evalKVs h_callFn h_hof h_anyEvery h_mapFn h_mapKV h_foldFn h_foldKV h_sortFn h_insertFn h_execBlock h_execStmts h_assignTo h_unsetOne h_unsetList h_execIf h_execWhile h_execForKV h_execForMulti h_forMultiOne h_forCGo h_execForC h_exec h_call h_sub h_loopKV h_loopMulti h_loopC
  unfold eval
  cases e <;> inv_step

set_option maxHeartbeats 4000000 in
theorem keeps_evalList_step (p : Prog) (fuel : Nat) (ih : AllKeeps p fuel) : ∀ es, Keeps (evalList p (fuel + 1) es) := by
  intro es
  have h_eval := ih.eval
  have h_evalList := ih.evalList
  have h_evalKVs := ih.evalKVs
  have h_callFn := ih.callFn
  have h_hof := ih.hof
  have h_anyEvery := ih.anyEvery
  have h_mapFn := ih.mapFn
  have h_mapKV := ih.mapKV
  have h_foldFn := ih.foldFn
  have h_foldKV := ih.foldKV
  have h_sortFn := ih.sortFn
  have h_insertFn := ih.insertFn
  have h_execBlock := ih.execBlock
  have h_execStmts := ih.execStmts
  have h_assignTo := ih.assignTo
  have h_unsetOne := ih.unsetOne
  have h_unsetList := ih.unsetList
  have h_execIf := ih.execIf
  have h_execWhile := ih.execWhile
  have h_execForKV := ih.execForKV
  have h_execForMulti := ih.execForMulti
  have h_forMultiOne := ih.forMultiOne
  have h_forCGo := ih.forCGo
  have h_execForC := ih.execForC
  have h_exec := ih.exec
  have h_truthy := runM_truthy
  have h_define := define_wt
  have h_assign := assign_wt
  have h_setAtScope := setAtScope_wt
  have h_setOpt := setOpt_wt
  have h_unset := unset_wt
  have h_foldSet := foldlM_setAtScope_wt
  have h_frame := paramFrame_wt
  have h_call : ∀ (isLit : Bool) (frame : Frame) (body : List Stmt), Frame.wt frame = true → Keeps (inCall isLit frame (bodyValue (execBlock p fuel body))) :=
    fun isLit frame body hf => keeps_inCall _ _ _ hf (keeps_bodyValue _ (ih.execBlock body))
  have h_sub : ∀ (frame : Frame) (body : List Stmt), Frame.wt frame = true → Keeps (inCall false frame (execBlock p fuel body)) :=
    fun frame body hf => keeps_inCall _ _ _ hf (ih.execBlock body)
  have h_loopKV : ∀ k v es body, Keeps (inNewFrame (execForKV p fuel k v es body)) :=
    fun k v es body => keeps_inNewFrame _ (ih.execForKV k v es body)
  have h_loopMulti : ∀ ks v sofar es body, Keeps (inNewFrame (execForMulti p fuel ks v sofar es body)) :=
    fun ks v sofar es body => keeps_inNewFrame _ (ih.execForMulti ks v sofar es body)
  have h_loopC : ∀ init c u body, Keeps (inNewFrame (andThen (execStmts p fuel init) (execForC p fuel c u body))) :=
    fun init c u body => keeps_inNewFrame _ (keeps_andThen _ _ (ih.execStmts init) (ih.execForC c u body))
  unfold Keeps at h_eval h_evalList h_evalKVs h_callFn h_hof h_anyEvery h_mapFn h_mapKV h_foldFn h_foldKV h_sortFn h_insertFn h_execBlock h_execStmts h_assignTo h_unsetOne h_unsetList h_execIf h_execWhile h_execForKV h_execForMulti h_forMultiOne h_forCGo h_execForC h_exec h_call h_sub h_loopKV h_loopMulti h_loopC
  unfold evalList
  cases es <;> inv_step

set_option maxHeartbeats 4000000 in
theorem keeps_evalKVs_step (p : Prog) (fuel : Nat) (ih : AllKeeps p fuel) : ∀ kvs, Keeps (evalKVs p (fuel + 1) kvs) := by
  intro kvs
  have h_eval := ih.eval
  have h_evalList := ih.evalList
  have h_evalKVs := ih.evalKVs
  have h_callFn := ih.callFn
  have h_hof := ih.hof
  have h_anyEvery := ih.anyEvery
  have h_mapFn := ih.mapFn
  have h_mapKV := ih.mapKV
  have h_foldFn := ih.foldFn
  have h_foldKV := ih.foldKV
  have h_sortFn := ih.sortFn
  have h_insertFn := ih.insertFn
  have h_execBlock := ih.execBlock
  have h_execStmts := ih.execStmts
  have h_assignTo := ih.assignTo
  have h_unsetOne := ih.unsetOne
  have h_unsetList := ih.unsetList
  have h_execIf := ih.execIf
  have h_execWhile := ih.execWhile
  have h_execForKV := ih.execForKV
  have h_execForMulti := ih.execForMulti
  have h_forMultiOne := ih.forMultiOne
  have h_forCGo := ih.forCGo
  have h_execForC := ih.execForC
  have h_exec := ih.exec
  have h_truthy := runM_truthy
  have h_define := define_wt
  have h_assign := assign_wt
  have h_setAtScope := setAtScope_wt
  have h_setOpt := setOpt_wt
  have h_unset := unset_wt
  have h_foldSet := foldlM_setAtScope_wt
  have h_frame := paramFrame_wt
  have h_call : ∀ (isLit : Bool) (frame : Frame) (body : List Stmt), Frame.wt frame = true → Keeps (inCall isLit frame (bodyValue (execBlock p fuel body))) :=
    fun isLit frame body hf => keeps_inCall _ _ _ hf (keeps_bodyValue _ (ih.execBlock body))
  have h_sub : ∀ (frame : Frame) (body : List Stmt), Frame.wt frame = true → Keeps (inCall false frame (execBlock p fuel body)) :=
    fun frame body hf => keeps_inCall _ _ _ hf (ih.execBlock body)
  have h_loopKV : ∀ k v es body, Keeps (inNewFrame (execForKV p fuel k v es body)) :=
    fun k v es body => keeps_inNewFrame _ (ih.execForKV k v es body)
  have h_loopMulti : ∀ ks v sofar es body, Keeps (inNewFrame (execForMulti p fuel ks v sofar es body)) :=
    fun ks v sofar es body => keeps_inNewFrame _ (ih.execForMulti ks v sofar es body)
  have h_loopC : ∀ init c u body, Keeps (inNewFrame (andThen (execStmts p fuel init) (execForC p fuel c u body))) :=
    fun init c u body => keeps_inNewFrame _ (keeps_andThen _ _ (ih.execStmts init) (ih.execForC c u body))
  unfold Keeps at h_eval h_evalList h_evalKVs h_callFn h_hof h_anyEvery h_mapFn h_mapKV h_foldFn h_foldKV h_sortFn h_insertFn h_execBlock h_execStmts h_assignTo h_unsetOne h_unsetList h_execIf h_execWhile h_execForKV h_execForMulti h_forMultiOne h_forCGo h_execForC h_exec h_call h_sub h_loopKV h_loopMulti h_loopC
  unfold evalKVs
  cases kvs <;> inv_step

set_option maxHeartbeats 4000000 in
theorem keeps_callFn_step (p : Prog) (fuel : Nat) (ih : AllKeeps p fuel) : ∀ f args, Keeps (callFn p (fuel + 1) f args) := by
  intro f args
  have h_eval := ih.eval
  have h_evalList := ih.evalList
  have h_evalKVs := ih.evalKVs
  have h_callFn := ih.callFn
  have h_hof := ih.hof
  have h_anyEvery := ih.anyEvery
  have h_mapFn := ih.mapFn
  have h_mapKV := ih.mapKV
  have h_foldFn := ih.foldFn
  have h_foldKV := ih.foldKV
  have h_sortFn := ih.sortFn
  have h_insertFn := ih.insertFn
  have h_execBlock := ih.execBlock
  have h_execStmts := ih.execStmts
  have h_assignTo := ih.assignTo
  have h_unsetOne := ih.unsetOne
  have h_unsetList := ih.unsetList
  have h_execIf := ih.execIf
  have h_execWhile := ih.execWhile
  have h_execForKV := ih.execForKV
  have h_execForMulti := ih.execForMulti
  have h_forMultiOne := ih.forMultiOne
  have h_forCGo := ih.forCGo
  have h_execForC := ih.execForC
  have h_exec := ih.exec
  have h_truthy := runM_truthy
  have h_define := define_wt
  have h_assign := assign_wt
  have h_setAtScope := setAtScope_wt
  have h_setOpt := setOpt_wt
  have h_unset := unset_wt
  have h_foldSet := foldlM_setAtScope_wt
  have h_frame := paramFrame_wt
  have h_call : ∀ (isLit : Bool) (frame : Frame) (body : List Stmt), Frame.wt frame = true → Keeps (inCall isLit frame (bodyValue (execBlock p fuel body))) :=
    fun isLit frame body hf => keeps_inCall _ _ _ hf (keeps_bodyValue _ (ih.execBlock body))
  have h_sub : ∀ (frame : Frame) (body : List Stmt), Frame.wt frame = true → Keeps (inCall false frame (execBlock p fuel body)) :=
    fun frame body hf => keeps_inCall _ _ _ hf (ih.execBlock body)
  have h_loopKV : ∀ k v es body, Keeps (inNewFrame (execForKV p fuel k v es body)) :=
    fun k v es body => keeps_inNewFrame _ (ih.execForKV k v es body)
  have h_loopMulti : ∀ ks v sofar es body, Keeps (inNewFrame (execForMulti p fuel ks v sofar es body)) :=
    fun ks v sofar es body => keeps_inNewFrame _ (ih.execForMulti ks v sofar es body)
  have h_loopC : ∀ init c u body, Keeps (inNewFrame (andThen (execStmts p fuel init) (execForC p fuel c u body))) :=
    fun init c u body => keeps_inNewFrame _ (keeps_andThen _ _ (ih.execStmts init) (ih.execForC c u body))
  unfold Keeps at h_eval h_evalList h_evalKVs h_callFn h_hof h_anyEvery h_mapFn h_mapKV h_foldFn h_foldKV h_sortFn h_insertFn h_execBlock h_execStmts h_assignTo h_unsetOne h_unsetList h_execIf h_execWhile h_execForKV h_execForMulti h_forMultiOne h_forCGo h_execForC h_exec h_call h_sub h_loopKV h_loopMulti h_loopC
  unfold callFn
  inv_step

set_option maxHeartbeats 4000000 in
theorem keeps_hof_step (p : Prog) (fuel : Nat) (ih : AllKeeps p fuel) : ∀ n args, Keeps (hof p (fuel + 1) n args) := by
  intro n args
  have h_eval := ih.eval
  have h_evalList := ih.evalList
  have h_evalKVs := ih.evalKVs
  have h_callFn := ih.callFn
  have h_hof := ih.hof
  have h_anyEvery := ih.anyEvery
  have h_mapFn := ih.mapFn
  have h_mapKV := ih.mapKV
  have h_foldFn := ih.foldFn
  have h_foldKV := ih.foldKV
  have h_sortFn := ih.sortFn
  have h_insertFn := ih.insertFn
  have h_execBlock := ih.execBlock
  have h_execStmts := ih.execStmts
  have h_assignTo := ih.assignTo
  have h_unsetOne := ih.unsetOne
  have h_unsetList := ih.unsetList
  have h_execIf := ih.execIf
  have h_execWhile := ih.execWhile
  have h_execForKV := ih.execForKV
  have h_execForMulti := ih.execForMulti
  have h_forMultiOne := ih.forMultiOne
  have h_forCGo := ih.forCGo
  have h_execForC := ih.execForC
  have h_exec := ih.exec
  have h_truthy := runM_truthy
  have h_define := define_wt
  have h_assign := assign_wt
  have h_setAtScope := setAtScope_wt
  have h_setOpt := setOpt_wt
  have h_unset := unset_wt
  have h_foldSet := foldlM_setAtScope_wt
  have h_frame := paramFrame_wt
  have h_call : ∀ (isLit : Bool) (frame : Frame) (body : List Stmt), Frame.wt frame = true → Keeps (inCall isLit frame (bodyValue (execBlock p fuel body))) :=
    fun isLit frame body hf => keeps_inCall _ _ _ hf (keeps_bodyValue _ (ih.execBlock body))
  have h_sub : ∀ (frame : Frame) (body : List Stmt), Frame.wt frame = true → Keeps (inCall false frame (execBlock p fuel body)) :=
    fun frame body hf => keeps_inCall _ _ _ hf (ih.execBlock body)
  have h_loopKV : ∀ k v es body, Keeps (inNewFrame (execForKV p fuel k v es body)) :=
    fun k v es body => keeps_inNewFrame _ (ih.execForKV k v es body)
  have h_loopMulti : ∀ ks v sofar es body, Keeps (inNewFrame (execForMulti p fuel ks v sofar es body)) :=
    fun ks v sofar es body => keeps_inNewFrame _ (ih.execForMulti ks v sofar es body)
  have h_loopC : ∀ init c u body, Keeps (inNewFrame (andThen (execStmts p fuel init) (execForC p fuel c u body))) :=
    fun init c u body => keeps_inNewFrame _ (keeps_andThen _ _ (ih.execStmts init) (ih.execForC c u body))
  unfold Keeps at h_eval h_evalList h_evalKVs h_callFn h_hof h_anyEvery h_mapFn h_mapKV h_foldFn h_foldKV h_sortFn h_insertFn h_execBlock h_execStmts h_assignTo h_unsetOne h_unsetList h_execIf h_execWhile h_execForKV h_execForMulti h_forMultiOne h_forCGo h_execForC h_exec h_call h_sub h_loopKV h_loopMulti h_loopC
  unfold hof
  inv_step

set_option maxHeartbeats 4000000 in
theorem keeps_anyEvery_step (p : Prog) (fuel : Nat) (ih : AllKeeps p fuel) : ∀ b f xs, Keeps (anyEvery p (fuel + 1) b f xs) := by
  intro b f xs
  have h_eval := ih.eval
  have h_evalList := ih.evalList
  have h_evalKVs := ih.evalKVs
  have h_callFn := ih.callFn
  have h_hof := ih.hof
  have h_anyEvery := ih.anyEvery
  have h_mapFn := ih.mapFn
  have h_mapKV := ih.mapKV
  have h_foldFn := ih.foldFn
  have h_foldKV := ih.foldKV
  have h_sortFn := ih.sortFn
  have h_insertFn := ih.insertFn
  have h_execBlock := ih.execBlock
  have h_execStmts := ih.execStmts
  have h_assignTo := ih.assignTo
  have h_unsetOne := ih.unsetOne
  have h_unsetList := ih.unsetList
  have h_execIf := ih.execIf
  have h_execWhile := ih.execWhile
  have h_execForKV := ih.execForKV
  have h_execForMulti := ih.execForMulti
  have h_forMultiOne := ih.forMultiOne
  have h_forCGo := ih.forCGo
  have h_execForC := ih.execForC
  have h_exec := ih.exec
  have h_truthy := runM_truthy
  have h_define := define_wt
  have h_assign := assign_wt
  have h_setAtScope := setAtScope_wt
  have h_setOpt := setOpt_wt
  have h_unset := unset_wt
  have h_foldSet := foldlM_setAtScope_wt
  have h_frame := paramFrame_wt
  have h_call : ∀ (isLit : Bool) (frame : Frame) (body : List Stmt), Frame.wt frame = true → Keeps (inCall isLit frame (bodyValue (execBlock p fuel body))) :=
    fun isLit frame body hf => keeps_inCall _ _ _ hf (keeps_bodyValue _ (ih.execBlock body))
  have h_sub : ∀ (frame : Frame) (body : List Stmt), Frame.wt frame = true → Keeps (inCall false frame (execBlock p fuel body)) :=
    fun frame body hf => keeps_inCall _ _ _ hf (ih.execBlock body)
  have h_loopKV : ∀ k v es body, Keeps (inNewFrame (execForKV p fuel k v es body)) :=
    fun k v es body => keeps_inNewFrame _ (ih.execForKV k v es body)
  have h_loopMulti : ∀ ks v sofar es body, Keeps (inNewFrame (execForMulti p fuel ks v sofar es body)) :=
    fun ks v sofar es body => keeps_inNewFrame _ (ih.execForMulti ks v sofar es body)
  have h_loopC : ∀ init c u body, Keeps (inNewFrame (andThen (execStmts p fuel init) (execForC p fuel c u body))) :=
    fun init c u body => keeps_inNewFrame _ (keeps_andThen _ _ (ih.execStmts init) (ih.execForC c u body))
  unfold Keeps at h_eval h_evalList h_evalKVs h_callFn h_hof h_anyEvery h_mapFn h_mapKV h_foldFn h_foldKV h_sortFn h_insertFn h_execBlock h_execStmts h_assignTo h_unsetOne h_unsetList h_execIf h_execWhile h_execForKV h_execForMulti h_forMultiOne h_forCGo h_execForC h_exec h_call h_sub h_loopKV h_loopMulti h_loopC
  unfold anyEvery
  cases xs <;> inv_step

set_option maxHeartbeats 4000000 in
theorem keeps_mapFn_step (p : Prog) (fuel : Nat) (ih : AllKeeps p fuel) : ∀ f xs, Keeps (mapFn p (fuel + 1) f xs) := by
  intro f xs
  have h_eval := ih.eval
  have h_evalList := ih.evalList
  have h_evalKVs := ih.evalKVs
  have h_callFn := ih.callFn
  have h_hof := ih.hof
  have h_anyEvery := ih.anyEvery
  have h_mapFn := ih.mapFn
  have h_mapKV := ih.mapKV
  have h_foldFn := ih.foldFn
  have h_foldKV := ih.foldKV
  have h_sortFn := ih.sortFn
  have h_insertFn := ih.insertFn
  have h_execBlock := ih.execBlock
  have h_execStmts := ih.execStmts
  have h_assignTo := ih.assignTo
  have h_unsetOne := ih.unsetOne
  have h_unsetList := ih.unsetList
  have h_execIf := ih.execIf
  have h_execWhile := ih.execWhile
  have h_execForKV := ih.execForKV
  have h_execForMulti := ih.execForMulti
  have h_forMultiOne := ih.forMultiOne
  have h_forCGo := ih.forCGo
  have h_execForC := ih.execForC
  have h_exec := ih.exec
  have h_truthy := runM_truthy
  have h_define := define_wt
  have h_assign := assign_wt
  have h_setAtScope := setAtScope_wt
  have h_setOpt := setOpt_wt
  have h_unset := unset_wt
  have h_foldSet := foldlM_setAtScope_wt
  have h_frame := paramFrame_wt
  have h_call : ∀ (isLit : Bool) (frame : Frame) (body : List Stmt), Frame.wt frame = true → Keeps (inCall isLit frame (bodyValue (execBlock p fuel body))) :=
    fun isLit frame body hf => keeps_inCall _ _ _ hf (keeps_bodyValue _ (ih.execBlock body))
  have h_sub : ∀ (frame : Frame) (body : List Stmt), Frame.wt frame = true → Keeps (inCall false frame (execBlock p fuel body)) :=
    fun frame body hf => keeps_inCall _ _ _ hf (ih.execBlock body)
  have h_loopKV : ∀ k v es body, Keeps (inNewFrame (execForKV p fuel k v es body)) :=
    fun k v es body => keeps_inNewFrame _ (ih.execForKV k v es body)
  have h_loopMulti : ∀ ks v sofar es body, Keeps (inNewFrame (execForMulti p fuel ks v sofar es body)) :=
    fun ks v sofar es body => keeps_inNewFrame _ (ih.execForMulti ks v sofar es body)
  have h_loopC : ∀ init c u body, Keeps (inNewFrame (andThen (execStmts p fuel init) (execForC p fuel c u body))) :=
    fun init c u body => keeps_inNewFrame _ (keeps_andThen _ _ (ih.execStmts init) (ih.execForC c u body))
  unfold Keeps at h_eval h_evalList h_evalKVs h_callFn h_hof h_anyEvery h_mapFn h_mapKV h_foldFn h_foldKV h_sortFn h_insertFn h_execBlock h_execStmts h_assignTo h_unsetOne h_unsetList h_execIf h_execWhile h_execForKV h_execForMulti h_forMultiOne h_forCGo h_execForC h_exec h_call h_sub h_loopKV h_loopMulti h_loopC
  unfold mapFn
  cases xs <;> inv_step

set_option maxHeartbeats 4000000 in
theorem keeps_mapKV_step (p : Prog) (fuel : Nat) (ih : AllKeeps p fuel) : ∀ f kvs, Keeps (mapKV p (fuel + 1) f kvs) := by
  intro f kvs
  have h_eval := ih.eval
  have h_evalList := ih.evalList
  have h_evalKVs := ih.evalKVs
  have h_callFn := ih.callFn
  have h_hof := ih.hof
  have h_anyEvery := ih.anyEvery
  have h_mapFn := ih.mapFn
  have h_mapKV := ih.mapKV
  have h_foldFn := ih.foldFn
  have h_foldKV := ih.foldKV
  have h_sortFn := ih.sortFn
  have h_insertFn := ih.insertFn
  have h_execBlock := ih.execBlock
  have h_execStmts := ih.execStmts
  have h_assignTo := ih.assignTo
  have h_unsetOne := ih.unsetOne
  have h_unsetList := ih.unsetList
  have h_execIf := ih.execIf
  have h_execWhile := ih.execWhile
  have h_execForKV := ih.execForKV
  have h_execForMulti := ih.execForMulti
  have h_forMultiOne := ih.forMultiOne
  have h_forCGo := ih.forCGo
  have h_execForC := ih.execForC
  have h_exec := ih.exec
  have h_truthy := runM_truthy
  have h_define := define_wt
  have h_assign := assign_wt
  have h_setAtScope := setAtScope_wt
  have h_setOpt := setOpt_wt
  have h_unset := unset_wt
  have h_foldSet := foldlM_setAtScope_wt
  have h_frame := paramFrame_wt
  have h_call : ∀ (isLit : Bool) (frame : Frame) (body : List Stmt), Frame.wt frame = true → Keeps (inCall isLit frame (bodyValue (execBlock p fuel body))) :=
    fun isLit frame body hf => keeps_inCall _ _ _ hf (keeps_bodyValue _ (ih.execBlock body))
  have h_sub : ∀ (frame : Frame) (body : List Stmt), Frame.wt frame = true → Keeps (inCall false frame (execBlock p fuel body)) :=
    fun frame body hf => keeps_inCall _ _ _ hf (ih.execBlock body)
  have h_loopKV : ∀ k v es body, Keeps (inNewFrame (execForKV p fuel k v es body)) :=
    fun k v es body => keeps_inNewFrame _ (ih.execForKV k v es body)
  have h_loopMulti : ∀ ks v sofar es body, Keeps (inNewFrame (execForMulti p fuel ks v sofar es body)) :=
    fun ks v sofar es body => keeps_inNewFrame _ (ih.execForMulti ks v sofar es body)
  have h_loopC : ∀ init c u body, Keeps (inNewFrame (andThen (execStmts p fuel init) (execForC p fuel c u body))) :=
    fun init c u body => keeps_inNewFrame _ (keeps_andThen _ _ (ih.execStmts init) (ih.execForC c u body))
  unfold Keeps at h_eval h_evalList h_evalKVs h_callFn h_hof h_anyEvery h_mapFn h_mapKV h_foldFn h_foldKV h_sortFn h_insertFn h_execBlock h_execStmts h_assignTo h_unsetOne h_unsetList h_execIf h_execWhile h_execForKV h_execForMulti h_forMultiOne h_forCGo h_execForC h_exec h_call h_sub h_loopKV h_loopMulti h_loopC
  unfold mapKV
  cases kvs <;> inv_step

set_option maxHeartbeats 4000000 in
theorem keeps_foldFn_step (p : Prog) (fuel : Nat) (ih : AllKeeps p fuel) : ∀ f acc xs, Keeps (foldFn p (fuel + 1) f acc xs) := by
  intro f acc xs
  have h_eval := ih.eval
  have h_evalList := ih.evalList
  have h_evalKVs := ih.evalKVs
  have h_callFn := ih.callFn
  have h_hof := ih.hof
  have h_anyEvery := ih.anyEvery
  have h_mapFn := ih.mapFn
  have h_mapKV := ih.mapKV
  have h_foldFn := ih.foldFn
  have h_foldKV := ih.foldKV
  have h_sortFn := ih.sortFn
  have h_insertFn := ih.insertFn
  have h_execBlock := ih.execBlock
  have h_execStmts := ih.execStmts
  have h_assignTo := ih.assignTo
  have h_unsetOne := ih.unsetOne
  have h_unsetList := ih.unsetList
  have h_execIf := ih.execIf
  have h_execWhile := ih.execWhile
  have h_execForKV := ih.execForKV
  have h_execForMulti := ih.execForMulti
  have h_forMultiOne := ih.forMultiOne
  have h_forCGo := ih.forCGo
  have h_execForC := ih.execForC
  have h_exec := ih.exec
  have h_truthy := runM_truthy
  have h_define := define_wt
  have h_assign := assign_wt
  have h_setAtScope := setAtScope_wt
  have h_setOpt := setOpt_wt
  have h_unset := unset_wt
  have h_foldSet := foldlM_setAtScope_wt
  have h_frame := paramFrame_wt
  have h_call : ∀ (isLit : Bool) (frame : Frame) (body : List Stmt), Frame.wt frame = true → Keeps (inCall isLit frame (bodyValue (execBlock p fuel body))) :=
    fun isLit frame body hf => keeps_inCall _ _ _ hf (keeps_bodyValue _ (ih.execBlock body))
  have h_sub : ∀ (frame : Frame) (body : List Stmt), Frame.wt frame = true → Keeps (inCall false frame (execBlock p fuel body)) :=
    fun frame body hf => keeps_inCall _ _ _ hf (ih.execBlock body)
  have h_loopKV : ∀ k v es body, Keeps (inNewFrame (execForKV p fuel k v es body)) :=
    fun k v es body => keeps_inNewFrame _ (ih.execForKV k v es body)
  have h_loopMulti : ∀ ks v sofar es body, Keeps (inNewFrame (execForMulti p fuel ks v sofar es body)) :=
    fun ks v sofar es body => keeps_inNewFrame _ (ih.execForMulti ks v sofar es body)
  have h_loopC : ∀ init c u body, Keeps (inNewFrame (andThen (execStmts p fuel init) (execForC p fuel c u body))) :=
    fun init c u body => keeps_inNewFrame _ (keeps_andThen _ _ (ih.execStmts init) (ih.execForC c u body))
  unfold Keeps at h_eval h_evalList h_evalKVs h_callFn h_hof h_anyEvery h_mapFn h_mapKV h_foldFn h_foldKV h_sortFn h_insertFn h_execBlock h_execStmts h_assignTo h_unsetOne h_unsetList h_execIf h_execWhile h_execForKV h_execForMulti h_forMultiOne h_forCGo h_execForC h_exec h_call h_sub h_loopKV h_loopMulti h_loopC
  unfold foldFn
  cases xs <;> inv_step

set_option maxHeartbeats 4000000 in
theorem keeps_foldKV_step (p : Prog) (fuel : Nat) (ih : AllKeeps p fuel) : ∀ f acc kvs, Keeps (foldKV p (fuel + 1) f acc kvs) := by
  intro f acc kvs
  have h_eval := ih.eval
  have h_evalList := ih.evalList
  have h_evalKVs := ih.evalKVs
  have h_callFn := ih.callFn
  have h_hof := ih.hof
  have h_anyEvery := ih.anyEvery
  have h_mapFn := ih.mapFn
  have h_mapKV := ih.mapKV
  have h_foldFn := ih.foldFn
  have h_foldKV := ih.foldKV
  have h_sortFn := ih.sortFn
  have h_insertFn := ih.insertFn
  have h_execBlock := ih.execBlock
  have h_execStmts := ih.execStmts
  have h_assignTo := ih.assignTo
  have h_unsetOne := ih.unsetOne
  have h_unsetList := ih.unsetList
  have h_execIf := ih.execIf
  have h_execWhile := ih.execWhile
  have h_execForKV := ih.execForKV
  have h_execForMulti := ih.execForMulti
  have h_forMultiOne := ih.forMultiOne
  have h_forCGo := ih.forCGo
  have h_execForC := ih.execForC
  have h_exec := ih.exec
  have h_truthy := runM_truthy
  have h_define := define_wt
  have h_assign := assign_wt
  have h_setAtScope := setAtScope_wt
  have h_setOpt := setOpt_wt
  have h_unset := unset_wt
  have h_foldSet := foldlM_setAtScope_wt
  have h_frame := paramFrame_wt
  have h_call : ∀ (isLit : Bool) (frame : Frame) (body : List Stmt), Frame.wt frame = true → Keeps (inCall isLit frame (bodyValue (execBlock p fuel body))) :=
    fun isLit frame body hf => keeps_inCall _ _ _ hf (keeps_bodyValue _ (ih.execBlock body))
  have h_sub : ∀ (frame : Frame) (body : List Stmt), Frame.wt frame = true → Keeps (inCall false frame (execBlock p fuel body)) :=
    fun frame body hf => keeps_inCall _ _ _ hf (ih.execBlock body)
  have h_loopKV : ∀ k v es body, Keeps (inNewFrame (execForKV p fuel k v es body)) :=
    fun k v es body => keeps_inNewFrame _ (ih.execForKV k v es body)
  have h_loopMulti : ∀ ks v sofar es body, Keeps (inNewFrame (execForMulti p fuel ks v sofar es body)) :=
    fun ks v sofar es body => keeps_inNewFrame _ (ih.execForMulti ks v sofar es body)
  have h_loopC : ∀ init c u body, Keeps (inNewFrame (andThen (execStmts p fuel init) (execForC p fuel c u body))) :=
    fun init c u body => keeps_inNewFrame _ (keeps_andThen _ _ (ih.execStmts init) (ih.execForC c u body))
  unfold Keeps at h_eval h_evalList h_evalKVs h_callFn h_hof h_anyEvery h_mapFn h_mapKV h_foldFn h_foldKV h_sortFn h_insertFn h_execBlock h_execStmts h_assignTo h_unsetOne h_unsetList h_execIf h_execWhile h_execForKV h_execForMulti h_forMultiOne h_forCGo h_execForC h_exec h_call h_sub h_loopKV h_loopMulti h_loopC
  unfold foldKV
  cases kvs <;> inv_step

set_option maxHeartbeats 4000000 in
theorem keeps_sortFn_step (p : Prog) (fuel : Nat) (ih : AllKeeps p fuel) : ∀ f xs, Keeps (sortFn p (fuel + 1) f xs) := by
  intro f xs
  have h_eval := ih.eval
  have h_evalList := ih.evalList
  have h_evalKVs := ih.evalKVs
  have h_callFn := ih.callFn
  have h_hof := ih.hof
  have h_anyEvery := ih.anyEvery
  have h_mapFn := ih.mapFn
  have h_mapKV := ih.mapKV
  have h_foldFn := ih.foldFn
  have h_foldKV := ih.foldKV
  have h_sortFn := ih.sortFn
  have h_insertFn := ih.insertFn
  have h_execBlock := ih.execBlock
  have h_execStmts := ih.execStmts
  have h_assignTo := ih.assignTo
  have h_unsetOne := ih.unsetOne
  have h_unsetList := ih.unsetList
  have h_execIf := ih.execIf
  have h_execWhile := ih.execWhile
  have h_execForKV := ih.execForKV
  have h_execForMulti := ih.execForMulti
  have h_forMultiOne := ih.forMultiOne
  have h_forCGo := ih.forCGo
  have h_execForC := ih.execForC
  have h_exec := ih.exec
  have h_truthy := runM_truthy
  have h_define := define_wt
  have h_assign := assign_wt
  have h_setAtScope := setAtScope_wt
  have h_setOpt := setOpt_wt
  have h_unset := unset_wt
  have h_foldSet := foldlM_setAtScope_wt
  have h_frame := paramFrame_wt
  have h_call : ∀ (isLit : Bool) (frame : Frame) (body : List Stmt), Frame.wt frame = true → Keeps (inCall isLit frame (bodyValue (execBlock p fuel body))) :=
    fun isLit frame body hf => keeps_inCall _ _ _ hf (keeps_bodyValue _ (ih.execBlock body))
  have h_sub : ∀ (frame : Frame) (body : List Stmt), Frame.wt frame = true → Keeps (inCall false frame (execBlock p fuel body)) :=
    fun frame body hf => keeps_inCall _ _ _ hf (ih.execBlock body)
  have h_loopKV : ∀ k v es body, Keeps (inNewFrame (execForKV p fuel k v es body)) :=
    fun k v es body => keeps_inNewFrame _ (ih.execForKV k v es body)
  have h_loopMulti : ∀ ks v sofar es body, Keeps (inNewFrame (execForMulti p fuel ks v sofar es body)) :=
    fun ks v sofar es body => keeps_inNewFrame _ (ih.execForMulti ks v sofar es body)
  have h_loopC : ∀ init c u body, Keeps (inNewFrame (andThen (execStmts p fuel init) (execForC p fuel c u body))) :=
    fun init c u body => keeps_inNewFrame _ (keeps_andThen _ _ (ih.execStmts init) (ih.execForC c u body))
  unfold Keeps at h_eval h_evalList h_evalKVs h_callFn h_hof h_anyEvery h_mapFn h_mapKV h_foldFn h_foldKV h_sortFn h_insertFn h_execBlock h_execStmts h_assignTo h_unsetOne h_unsetList h_execIf h_execWhile h_execForKV h_execForMulti h_forMultiOne h_forCGo h_execForC h_exec h_call h_sub h_loopKV h_loopMulti h_loopC
  unfold sortFn
  cases xs <;> inv_step

set_option maxHeartbeats 4000000 in
theorem keeps_insertFn_step (p : Prog) (fuel : Nat) (ih : AllKeeps p fuel) : ∀ f x ys, Keeps (insertFn p (fuel + 1) f x ys) := by
  intro f x ys
  have h_eval := ih.eval
  have h_evalList := ih.evalList
  have h_evalKVs := ih.evalKVs
  have h_callFn := ih.callFn
  have h_hof := ih.hof
  have h_anyEvery := ih.anyEvery
  have h_mapFn := ih.mapFn
  have h_mapKV := ih.mapKV
  have h_foldFn := ih.foldFn
  have h_foldKV := ih.foldKV
  have h_sortFn := ih.sortFn
  have h_insertFn := ih.insertFn
  have h_execBlock := ih.execBlock
  have h_execStmts := ih.execStmts
  have h_assignTo := ih.assignTo
  have h_unsetOne := ih.unsetOne
  have h_unsetList := ih.unsetList
  have h_execIf := ih.execIf
  have h_execWhile := ih.execWhile
  have h_execForKV := ih.execForKV
  have h_execForMulti := ih.execForMulti
  have h_forMultiOne := ih.forMultiOne
  have h_forCGo := ih.forCGo
  have h_execForC := ih.execForC
  have h_exec := ih.exec
  have h_truthy := runM_truthy
  have h_define := define_wt
  have h_assign := assign_wt
  have h_setAtScope := setAtScope_wt
  have h_setOpt := setOpt_wt
  have h_unset := unset_wt
  have h_foldSet := foldlM_setAtScope_wt
  have h_frame := paramFrame_wt
  have h_call : ∀ (isLit : Bool) (frame : Frame) (body : List Stmt), Frame.wt frame = true → Keeps (inCall isLit frame (bodyValue (execBlock p fuel body))) :=
    fun isLit frame body hf => keeps_inCall _ _ _ hf (keeps_bodyValue _ (ih.execBlock body))
  have h_sub : ∀ (frame : Frame) (body : List Stmt), Frame.wt frame = true → Keeps (inCall false frame (execBlock p fuel body)) :=
    fun frame body hf => keeps_inCall _ _ _ hf (ih.execBlock body)
  have h_loopKV : ∀ k v es body, Keeps (inNewFrame (execForKV p fuel k v es body)) :=
    fun k v es body => keeps_inNewFrame _ (ih.execForKV k v es body)
  have h_loopMulti : ∀ ks v sofar es body, Keeps (inNewFrame (execForMulti p fuel ks v sofar es body)) :=
    fun ks v sofar es body => keeps_inNewFrame _ (ih.execForMulti ks v sofar es body)
  have h_loopC : ∀ init c u body, Keeps (inNewFrame (andThen (execStmts p fuel init) (execForC p fuel c u body))) :=
    fun init c u body => keeps_inNewFrame _ (keeps_andThen _ _ (ih.execStmts init) (ih.execForC c u body))
  unfold Keeps at h_eval h_evalList h_evalKVs h_callFn h_hof h_anyEvery h_mapFn h_mapKV h_foldFn h_foldKV h_sortFn h_insertFn h_execBlock h_execStmts h_assignTo h_unsetOne h_unsetList h_execIf h_execWhile h_execForKV h_execForMulti h_forMultiOne h_forCGo h_execForC h_exec h_call h_sub h_loopKV h_loopMulti h_loopC
  unfold insertFn
  cases ys <;> inv_step

set_option maxHeartbeats 4000000 in
theorem keeps_execStmts_step (p : Prog) (fuel : Nat) (ih : AllKeeps p fuel) : ∀ body, Keeps (execStmts p (fuel + 1) body) := by
  intro body
  have h_eval := ih.eval
  have h_evalList := ih.evalList
  have h_evalKVs := ih.evalKVs
  have h_callFn := ih.callFn
  have h_hof := ih.hof
  have h_anyEvery := ih.anyEvery
  have h_mapFn := ih.mapFn
  have h_mapKV := ih.mapKV
  have h_foldFn := ih.foldFn
  have h_foldKV := ih.foldKV
  have h_sortFn := ih.sortFn
  have h_insertFn := ih.insertFn
  have h_execBlock := ih.execBlock
  have h_execStmts := ih.execStmts
  have h_assignTo := ih.assignTo
  have h_unsetOne := ih.unsetOne
  have h_unsetList := ih.unsetList
  have h_execIf := ih.execIf
  have h_execWhile := ih.execWhile
  have h_execForKV := ih.execForKV
  have h_execForMulti := ih.execForMulti
  have h_forMultiOne := ih.forMultiOne
  have h_forCGo := ih.forCGo
  have h_execForC := ih.execForC
  have h_exec := ih.exec
  have h_truthy := runM_truthy
  have h_define := define_wt
  have h_assign := assign_wt
  have h_setAtScope := setAtScope_wt
  have h_setOpt := setOpt_wt
  have h_unset := unset_wt
  have h_foldSet := foldlM_setAtScope_wt
  have h_frame := paramFrame_wt
  have h_call : ∀ (isLit : Bool) (frame : Frame) (body : List Stmt), Frame.wt frame = true → Keeps (inCall isLit frame (bodyValue (execBlock p fuel body))) :=
    fun isLit frame body hf => keeps_inCall _ _ _ hf (keeps_bodyValue _ (ih.execBlock body))
  have h_sub : ∀ (frame : Frame) (body : List Stmt), Frame.wt frame = true → Keeps (inCall false frame (execBlock p fuel body)) :=
    fun frame body hf => keeps_inCall _ _ _ hf (ih.execBlock body)
  have h_loopKV : ∀ k v es body, Keeps (inNewFrame (execForKV p fuel k v es body)) :=
    fun k v es body => keeps_inNewFrame _ (ih.execForKV k v es body)
  have h_loopMulti : ∀ ks v sofar es body, Keeps (inNewFrame (execForMulti p fuel ks v sofar es body)) :=
    fun ks v sofar es body => keeps_inNewFrame _ (ih.execForMulti ks v sofar es body)
  have h_loopC : ∀ init c u body, Keeps (inNewFrame (andThen (execStmts p fuel init) (execForC p fuel c u body))) :=
    fun init c u body => keeps_inNewFrame _ (keeps_andThen _ _ (ih.execStmts init) (ih.execForC c u body))
  unfold Keeps at h_eval h_evalList h_evalKVs h_callFn h_hof h_anyEvery h_mapFn h_mapKV h_foldFn h_foldKV h_sortFn h_insertFn h_execBlock h_execStmts h_assignTo h_unsetOne h_unsetList h_execIf h_execWhile h_execForKV h_execForMulti h_forMultiOne h_forCGo h_execForC h_exec h_call h_sub h_loopKV h_loopMulti h_loopC
  unfold execStmts
  cases body <;> inv_step

set_option maxHeartbeats 4000000 in
theorem keeps_assignTo_step (p : Prog) (fuel : Nat) (ih : AllKeeps p fuel) : ∀ lhs path v, Keeps (assignTo p (fuel + 1) lhs path v) := by
  intro lhs path v
  have h_eval := ih.eval
  have h_evalList := ih.evalList
  have h_evalKVs := ih.evalKVs
  have h_callFn := ih.callFn
  have h_hof := ih.hof
  have h_anyEvery := ih.anyEvery
  have h_mapFn := ih.mapFn
  have h_mapKV := ih.mapKV
  have h_foldFn := ih.foldFn
  have h_foldKV := ih.foldKV
  have h_sortFn := ih.sortFn
  have h_insertFn := ih.insertFn
  have h_execBlock := ih.execBlock
  have h_execStmts := ih.execStmts
  have h_assignTo := ih.assignTo
  have h_unsetOne := ih.unsetOne
  have h_unsetList := ih.unsetList
  have h_execIf := ih.execIf
  have h_execWhile := ih.execWhile
  have h_execForKV := ih.execForKV
  have h_execForMulti := ih.execForMulti
  have h_forMultiOne := ih.forMultiOne
  have h_forCGo := ih.forCGo
  have h_execForC := ih.execForC
  have h_exec := ih.exec
  have h_truthy := runM_truthy
  have h_define := define_wt
  have h_assign := assign_wt
  have h_setAtScope := setAtScope_wt
  have h_setOpt := setOpt_wt
  have h_unset := unset_wt
  have h_foldSet := foldlM_setAtScope_wt
  have h_frame := paramFrame_wt
  have h_call : ∀ (isLit : Bool) (frame : Frame) (body : List Stmt), Frame.wt frame = true → Keeps (inCall isLit frame (bodyValue (execBlock p fuel body))) :=
    fun isLit frame body hf => keeps_inCall _ _ _ hf (keeps_bodyValue _ (ih.execBlock body))
  have h_sub : ∀ (frame : Frame) (body : List Stmt), Frame.wt frame = true → Keeps (inCall false frame (execBlock p fuel body)) :=
    fun frame body hf => keeps_inCall _ _ _ hf (ih.execBlock body)
  have h_loopKV : ∀ k v es body, Keeps (inNewFrame (execForKV p fuel k v es body)) :=
    fun k v es body => keeps_inNewFrame _ (ih.execForKV k v es body)
  have h_loopMulti : ∀ ks v sofar es body, Keeps (inNewFrame (execForMulti p fuel ks v sofar es body)) :=
    fun ks v sofar es body => keeps_inNewFrame _ (ih.execForMulti ks v sofar es body)
  have h_loopC : ∀ init c u body, Keeps (inNewFrame (andThen (execStmts p fuel init) (execForC p fuel c u body))) :=
    fun init c u body => keeps_inNewFrame _ (keeps_andThen _ _ (ih.execStmts init) (ih.execForC c u body))
  unfold Keeps at h_eval h_evalList h_evalKVs h_callFn h_hof h_anyEvery h_mapFn h_mapKV h_foldFn h_foldKV h_sortFn h_insertFn h_execBlock h_execStmts h_assignTo h_unsetOne h_unsetList h_execIf h_execWhile h_execForKV h_execForMulti h_forMultiOne h_forCGo h_execForC h_exec h_call h_sub h_loopKV h_loopMulti h_loopC
  unfold assignTo
  cases lhs <;> inv_step

set_option maxHeartbeats 4000000 in
theorem keeps_unsetOne_step (p : Prog) (fuel : Nat) (ih : AllKeeps p fuel) : ∀ lhs path, Keeps (unsetOne p (fuel + 1) lhs path) := by
  intro lhs path
  have h_eval := ih.eval
  have h_evalList := ih.evalList
  have h_evalKVs := ih.evalKVs
  have h_callFn := ih.callFn
  have h_hof := ih.hof
  have h_anyEvery := ih.anyEvery
  have h_mapFn := ih.mapFn
  have h_mapKV := ih.mapKV
  have h_foldFn := ih.foldFn
  have h_foldKV := ih.foldKV
  have h_sortFn := ih.sortFn
  have h_insertFn := ih.insertFn
  have h_execBlock := ih.execBlock
  have h_execStmts := ih.execStmts
  have h_assignTo := ih.assignTo
  have h_unsetOne := ih.unsetOne
  have h_unsetList := ih.unsetList
  have h_execIf := ih.execIf
  have h_execWhile := ih.execWhile
  have h_execForKV := ih.execForKV
  have h_execForMulti := ih.execForMulti
  have h_forMultiOne := ih.forMultiOne
  have h_forCGo := ih.forCGo
  have h_execForC := ih.execForC
  have h_exec := ih.exec
  have h_truthy := runM_truthy
  have h_define := define_wt
  have h_assign := assign_wt
  have h_setAtScope := setAtScope_wt
  have h_setOpt := setOpt_wt
  have h_unset := unset_wt
  have h_foldSet := foldlM_setAtScope_wt
  have h_frame := paramFrame_wt
  have h_call : ∀ (isLit : Bool) (frame : Frame) (body : List Stmt), Frame.wt frame = true → Keeps (inCall isLit frame (bodyValue (execBlock p fuel body))) :=
    fun isLit frame body hf => keeps_inCall _ _ _ hf (keeps_bodyValue _ (ih.execBlock body))
  have h_sub : ∀ (frame : Frame) (body : List Stmt), Frame.wt frame = true → Keeps (inCall false frame (execBlock p fuel body)) :=
    fun frame body hf => keeps_inCall _ _ _ hf (ih.execBlock body)
  have h_loopKV : ∀ k v es body, Keeps (inNewFrame (execForKV p fuel k v es body)) :=
    fun k v es body => keeps_inNewFrame _ (ih.execForKV k v es body)
  have h_loopMulti : ∀ ks v sofar es body, Keeps (inNewFrame (execForMulti p fuel ks v sofar es body)) :=
    fun ks v sofar es body => keeps_inNewFrame _ (ih.execForMulti ks v sofar es body)
  have h_loopC : ∀ init c u body, Keeps (inNewFrame (andThen (execStmts p fuel init) (execForC p fuel c u body))) :=
    fun init c u body => keeps_inNewFrame _ (keeps_andThen _ _ (ih.execStmts init) (ih.execForC c u body))
  unfold Keeps at h_eval h_evalList h_evalKVs h_callFn h_hof h_anyEvery h_mapFn h_mapKV h_foldFn h_foldKV h_sortFn h_insertFn h_execBlock h_execStmts h_assignTo h_unsetOne h_unsetList h_execIf h_execWhile h_execForKV h_execForMulti h_forMultiOne h_forCGo h_execForC h_exec h_call h_sub h_loopKV h_loopMulti h_loopC
  unfold unsetOne
  cases lhs <;> inv_step

set_option maxHeartbeats 4000000 in
theorem keeps_unsetList_step (p : Prog) (fuel : Nat) (ih : AllKeeps p fuel) : ∀ ls, Keeps (unsetList p (fuel + 1) ls) := by
  intro ls
  have h_eval := ih.eval
  have h_evalList := ih.evalList
  have h_evalKVs := ih.evalKVs
  have h_callFn := ih.callFn
  have h_hof := ih.hof
  have h_anyEvery := ih.anyEvery
  have h_mapFn := ih.mapFn
  have h_mapKV := ih.mapKV
  have h_foldFn := ih.foldFn
  have h_foldKV := ih.foldKV
  have h_sortFn := ih.sortFn
  have h_insertFn := ih.insertFn
  have h_execBlock := ih.execBlock
  have h_execStmts := ih.execStmts
  have h_assignTo := ih.assignTo
  have h_unsetOne := ih.unsetOne
  have h_unsetList := ih.unsetList
  have h_execIf := ih.execIf
  have h_execWhile := ih.execWhile
  have h_execForKV := ih.execForKV
  have h_execForMulti := ih.execForMulti
  have h_forMultiOne := ih.forMultiOne
  have h_forCGo := ih.forCGo
  have h_execForC := ih.execForC
  have h_exec := ih.exec
  have h_truthy := runM_truthy
  have h_define := define_wt
  have h_assign := assign_wt
  have h_setAtScope := setAtScope_wt
  have h_setOpt := setOpt_wt
  have h_unset := unset_wt
  have h_foldSet := foldlM_setAtScope_wt
  have h_frame := paramFrame_wt
  have h_call : ∀ (isLit : Bool) (frame : Frame) (body : List Stmt), Frame.wt frame = true → Keeps (inCall isLit frame (bodyValue (execBlock p fuel body))) :=
    fun isLit frame body hf => keeps_inCall _ _ _ hf (keeps_bodyValue _ (ih.execBlock body))
  have h_sub : ∀ (frame : Frame) (body : List Stmt), Frame.wt frame = true → Keeps (inCall false frame (execBlock p fuel body)) :=
    fun frame body hf => keeps_inCall _ _ _ hf (ih.execBlock body)
  have h_loopKV : ∀ k v es body, Keeps (inNewFrame (execForKV p fuel k v es body)) :=
    fun k v es body => keeps_inNewFrame _ (ih.execForKV k v es body)
  have h_loopMulti : ∀ ks v sofar es body, Keeps (inNewFrame (execForMulti p fuel ks v sofar es body)) :=
    fun ks v sofar es body => keeps_inNewFrame _ (ih.execForMulti ks v sofar es body)
  have h_loopC : ∀ init c u body, Keeps (inNewFrame (andThen (execStmts p fuel init) (execForC p fuel c u body))) :=
    fun init c u body => keeps_inNewFrame _ (keeps_andThen _ _ (ih.execStmts init) (ih.execForC c u body))
  unfold Keeps at h_eval h_evalList h_evalKVs h_callFn h_hof h_anyEvery h_mapFn h_mapKV h_foldFn h_foldKV h_sortFn h_insertFn h_execBlock h_execStmts h_assignTo h_unsetOne h_unsetList h_execIf h_execWhile h_execForKV h_execForMulti h_forMultiOne h_forCGo h_execForC h_exec h_call h_sub h_loopKV h_loopMulti h_loopC
  unfold unsetList
  cases ls <;> inv_step

set_option maxHeartbeats 4000000 in
theorem keeps_execIf_step (p : Prog) (fuel : Nat) (ih : AllKeeps p fuel) : ∀ bs els, Keeps (execIf p (fuel + 1) bs els) := by
  intro bs els
  have h_eval := ih.eval
  have h_evalList := ih.evalList
  have h_evalKVs := ih.evalKVs
  have h_callFn := ih.callFn
  have h_hof := ih.hof
  have h_anyEvery := ih.anyEvery
  have h_mapFn := ih.mapFn
  have h_mapKV := ih.mapKV
  have h_foldFn := ih.foldFn
  have h_foldKV := ih.foldKV
  have h_sortFn := ih.sortFn
  have h_insertFn := ih.insertFn
  have h_execBlock := ih.execBlock
  have h_execStmts := ih.execStmts
  have h_assignTo := ih.assignTo
  have h_unsetOne := ih.unsetOne
  have h_unsetList := ih.unsetList
  have h_execIf := ih.execIf
  have h_execWhile := ih.execWhile
  have h_execForKV := ih.execForKV
  have h_execForMulti := ih.execForMulti
  have h_forMultiOne := ih.forMultiOne
  have h_forCGo := ih.forCGo
  have h_execForC := ih.execForC
  have h_exec := ih.exec
  have h_truthy := runM_truthy
  have h_define := define_wt
  have h_assign := assign_wt
  have h_setAtScope := setAtScope_wt
  have h_setOpt := setOpt_wt
  have h_unset := unset_wt
  have h_foldSet := foldlM_setAtScope_wt
  have h_frame := paramFrame_wt
  have h_call : ∀ (isLit : Bool) (frame : Frame) (body : List Stmt), Frame.wt frame = true → Keeps (inCall isLit frame (bodyValue (execBlock p fuel body))) :=
    fun isLit frame body hf => keeps_inCall _ _ _ hf (keeps_bodyValue _ (ih.execBlock body))
  have h_sub : ∀ (frame : Frame) (body : List Stmt), Frame.wt frame = true → Keeps (inCall false frame (execBlock p fuel body)) :=
    fun frame body hf => keeps_inCall _ _ _ hf (ih.execBlock body)
  have h_loopKV : ∀ k v es body, Keeps (inNewFrame (execForKV p fuel k v es body)) :=
    fun k v es body => keeps_inNewFrame _ (ih.execForKV k v es body)
  have h_loopMulti : ∀ ks v sofar es body, Keeps (inNewFrame (execForMulti p fuel ks v sofar es body)) :=
    fun ks v sofar es body => keeps_inNewFrame _ (ih.execForMulti ks v sofar es body)
  have h_loopC : ∀ init c u body, Keeps (inNewFrame (andThen (execStmts p fuel init) (execForC p fuel c u body))) :=
    fun init c u body => keeps_inNewFrame _ (keeps_andThen _ _ (ih.execStmts init) (ih.execForC c u body))
  unfold Keeps at h_eval h_evalList h_evalKVs h_callFn h_hof h_anyEvery h_mapFn h_mapKV h_foldFn h_foldKV h_sortFn h_insertFn h_execBlock h_execStmts h_assignTo h_unsetOne h_unsetList h_execIf h_execWhile h_execForKV h_execForMulti h_forMultiOne h_forCGo h_execForC h_exec h_call h_sub h_loopKV h_loopMulti h_loopC
  unfold execIf
  cases bs <;> inv_step

set_option maxHeartbeats 4000000 in
theorem keeps_execWhile_step (p : Prog) (fuel : Nat) (ih : AllKeeps p fuel) : ∀ c body, Keeps (execWhile p (fuel + 1) c body) := by
  intro c body
  have h_eval := ih.eval
  have h_evalList := ih.evalList
  have h_evalKVs := ih.evalKVs
  have h_callFn := ih.callFn
  have h_hof := ih.hof
  have h_anyEvery := ih.anyEvery
  have h_mapFn := ih.mapFn
  have h_mapKV := ih.mapKV
  have h_foldFn := ih.foldFn
  have h_foldKV := ih.foldKV
  have h_sortFn := ih.sortFn
  have h_insertFn := ih.insertFn
  have h_execBlock := ih.execBlock
  have h_execStmts := ih.execStmts
  have h_assignTo := ih.assignTo
  have h_unsetOne := ih.unsetOne
  have h_unsetList := ih.unsetList
  have h_execIf := ih.execIf
  have h_execWhile := ih.execWhile
  have h_execForKV := ih.execForKV
  have h_execForMulti := ih.execForMulti
  have h_forMultiOne := ih.forMultiOne
  have h_forCGo := ih.forCGo
  have h_execForC := ih.execForC
  have h_exec := ih.exec
  have h_truthy := runM_truthy
  have h_define := define_wt
  have h_assign := assign_wt
  have h_setAtScope := setAtScope_wt
  have h_setOpt := setOpt_wt
  have h_unset := unset_wt
  have h_foldSet := foldlM_setAtScope_wt
  have h_frame := paramFrame_wt
  have h_call : ∀ (isLit : Bool) (frame : Frame) (body : List Stmt), Frame.wt frame = true → Keeps (inCall isLit frame (bodyValue (execBlock p fuel body))) :=
    fun isLit frame body hf => keeps_inCall _ _ _ hf (keeps_bodyValue _ (ih.execBlock body))
  have h_sub : ∀ (frame : Frame) (body : List Stmt), Frame.wt frame = true → Keeps (inCall false frame (execBlock p fuel body)) :=
    fun frame body hf => keeps_inCall _ _ _ hf (ih.execBlock body)
  have h_loopKV : ∀ k v es body, Keeps (inNewFrame (execForKV p fuel k v es body)) :=
    fun k v es body => keeps_inNewFrame _ (ih.execForKV k v es body)
  have h_loopMulti : ∀ ks v sofar es body, Keeps (inNewFrame (execForMulti p fuel ks v sofar es body)) :=
    fun ks v sofar es body => keeps_inNewFrame _ (ih.execForMulti ks v sofar es body)
  have h_loopC : ∀ init c u body, Keeps (inNewFrame (andThen (execStmts p fuel init) (execForC p fuel c u body))) :=
    fun init c u body => keeps_inNewFrame _ (keeps_andThen _ _ (ih.execStmts init) (ih.execForC c u body))
  unfold Keeps at h_eval h_evalList h_evalKVs h_callFn h_hof h_anyEvery h_mapFn h_mapKV h_foldFn h_foldKV h_sortFn h_insertFn h_execBlock h_execStmts h_assignTo h_unsetOne h_unsetList h_execIf h_execWhile h_execForKV h_execForMulti h_forMultiOne h_forCGo h_execForC h_exec h_call h_sub h_loopKV h_loopMulti h_loopC
  unfold execWhile
  inv_step

set_option maxHeartbeats 4000000 in
theorem keeps_execForKV_step (p : Prog) (fuel : Nat) (ih : AllKeeps p fuel) : ∀ k v es body, Keeps (execForKV p (fuel + 1) k v es body) := by
  intro k v es body
  have h_eval := ih.eval
  have h_evalList := ih.evalList
  have h_evalKVs := ih.evalKVs
  have h_callFn := ih.callFn
  have h_hof := ih.hof
  have h_anyEvery := ih.anyEvery
  have h_mapFn := ih.mapFn
  have h_mapKV := ih.mapKV
  have h_foldFn := ih.foldFn
  have h_foldKV := ih.foldKV
  have h_sortFn := ih.sortFn
  have h_insertFn := ih.insertFn
  have h_execBlock := ih.execBlock
  have h_execStmts := ih.execStmts
  have h_assignTo := ih.assignTo
  have h_unsetOne := ih.unsetOne
  have h_unsetList := ih.unsetList
  have h_execIf := ih.execIf
  have h_execWhile := ih.execWhile
  have h_execForKV := ih.execForKV
  have h_execForMulti := ih.execForMulti
  have h_forMultiOne := ih.forMultiOne
  have h_forCGo := ih.forCGo
  have h_execForC := ih.execForC
  have h_exec := ih.exec
  have h_truthy := runM_truthy
  have h_define := define_wt
  have h_assign := assign_wt
  have h_setAtScope := setAtScope_wt
  have h_setOpt := setOpt_wt
  have h_unset := unset_wt
  have h_foldSet := foldlM_setAtScope_wt
  have h_frame := paramFrame_wt
  have h_call : ∀ (isLit : Bool) (frame : Frame) (body : List Stmt), Frame.wt frame = true → Keeps (inCall isLit frame (bodyValue (execBlock p fuel body))) :=
    fun isLit frame body hf => keeps_inCall _ _ _ hf (keeps_bodyValue _ (ih.execBlock body))
  have h_sub : ∀ (frame : Frame) (body : List Stmt), Frame.wt frame = true → Keeps (inCall false frame (execBlock p fuel body)) :=
    fun frame body hf => keeps_inCall _ _ _ hf (ih.execBlock body)
  have h_loopKV : ∀ k v es body, Keeps (inNewFrame (execForKV p fuel k v es body)) :=
    fun k v es body => keeps_inNewFrame _ (ih.execForKV k v es body)
  have h_loopMulti : ∀ ks v sofar es body, Keeps (inNewFrame (execForMulti p fuel ks v sofar es body)) :=
    fun ks v sofar es body => keeps_inNewFrame _ (ih.execForMulti ks v sofar es body)
  have h_loopC : ∀ init c u body, Keeps (inNewFrame (andThen (execStmts p fuel init) (execForC p fuel c u body))) :=
    fun init c u body => keeps_inNewFrame _ (keeps_andThen _ _ (ih.execStmts init) (ih.execForC c u body))
  unfold Keeps at h_eval h_evalList h_evalKVs h_callFn h_hof h_anyEvery h_mapFn h_mapKV h_foldFn h_foldKV h_sortFn h_insertFn h_execBlock h_execStmts h_assignTo h_unsetOne h_unsetList h_execIf h_execWhile h_execForKV h_execForMulti h_forMultiOne h_forCGo h_execForC h_exec h_call h_sub h_loopKV h_loopMulti h_loopC
  unfold execForKV
  cases es <;> inv_step

set_option maxHeartbeats 4000000 in
theorem keeps_execForMulti_step (p : Prog) (fuel : Nat) (ih : AllKeeps p fuel) : ∀ ks v sofar es body, Keeps (execForMulti p (fuel + 1) ks v sofar es body) := by
  intro ks v sofar es body
  have h_eval := ih.eval
  have h_evalList := ih.evalList
  have h_evalKVs := ih.evalKVs
  have h_callFn := ih.callFn
  have h_hof := ih.hof
  have h_anyEvery := ih.anyEvery
  have h_mapFn := ih.mapFn
  have h_mapKV := ih.mapKV
  have h_foldFn := ih.foldFn
  have h_foldKV := ih.foldKV
  have h_sortFn := ih.sortFn
  have h_insertFn := ih.insertFn
  have h_execBlock := ih.execBlock
  have h_execStmts := ih.execStmts
  have h_assignTo := ih.assignTo
  have h_unsetOne := ih.unsetOne
  have h_unsetList := ih.unsetList
  have h_execIf := ih.execIf
  have h_execWhile := ih.execWhile
  have h_execForKV := ih.execForKV
  have h_execForMulti := ih.execForMulti
  have h_forMultiOne := ih.forMultiOne
  have h_forCGo := ih.forCGo
  have h_execForC := ih.execForC
  have h_exec := ih.exec
  have h_truthy := runM_truthy
  have h_define := define_wt
  have h_assign := assign_wt
  have h_setAtScope := setAtScope_wt
  have h_setOpt := setOpt_wt
  have h_unset := unset_wt
  have h_foldSet := foldlM_setAtScope_wt
  have h_frame := paramFrame_wt
  have h_call : ∀ (isLit : Bool) (frame : Frame) (body : List Stmt), Frame.wt frame = true → Keeps (inCall isLit frame (bodyValue (execBlock p fuel body))) :=
    fun isLit frame body hf => keeps_inCall _ _ _ hf (keeps_bodyValue _ (ih.execBlock body))
  have h_sub : ∀ (frame : Frame) (body : List Stmt), Frame.wt frame = true → Keeps (inCall false frame (execBlock p fuel body)) :=
    fun frame body hf => keeps_inCall _ _ _ hf (ih.execBlock body)
  have h_loopKV : ∀ k v es body, Keeps (inNewFrame (execForKV p fuel k v es body)) :=
    fun k v es body => keeps_inNewFrame _ (ih.execForKV k v es body)
  have h_loopMulti : ∀ ks v sofar es body, Keeps (inNewFrame (execForMulti p fuel ks v sofar es body)) :=
    fun ks v sofar es body => keeps_inNewFrame _ (ih.execForMulti ks v sofar es body)
  have h_loopC : ∀ init c u body, Keeps (inNewFrame (andThen (execStmts p fuel init) (execForC p fuel c u body))) :=
    fun init c u body => keeps_inNewFrame _ (keeps_andThen _ _ (ih.execStmts init) (ih.execForC c u body))
  unfold Keeps at h_eval h_evalList h_evalKVs h_callFn h_hof h_anyEvery h_mapFn h_mapKV h_foldFn h_foldKV h_sortFn h_insertFn h_execBlock h_execStmts h_assignTo h_unsetOne h_unsetList h_execIf h_execWhile h_execForKV h_execForMulti h_forMultiOne h_forCGo h_execForC h_exec h_call h_sub h_loopKV h_loopMulti h_loopC
  unfold execForMulti
  cases es <;> inv_step

set_option maxHeartbeats 4000000 in
theorem keeps_forMultiOne_step (p : Prog) (fuel : Nat) (ih : AllKeeps p fuel) : ∀ ks v here val body, Keeps (forMultiOne p (fuel + 1) ks v here val body) := by
  intro ks v here val body
  have h_eval := ih.eval
  have h_evalList := ih.evalList
  have h_evalKVs := ih.evalKVs
  have h_callFn := ih.callFn
  have h_hof := ih.hof
  have h_anyEvery := ih.anyEvery
  have h_mapFn := ih.mapFn
  have h_mapKV := ih.mapKV
  have h_foldFn := ih.foldFn
  have h_foldKV := ih.foldKV
  have h_sortFn := ih.sortFn
  have h_insertFn := ih.insertFn
  have h_execBlock := ih.execBlock
  have h_execStmts := ih.execStmts
  have h_assignTo := ih.assignTo
  have h_unsetOne := ih.unsetOne
  have h_unsetList := ih.unsetList
  have h_execIf := ih.execIf
  have h_execWhile := ih.execWhile
  have h_execForKV := ih.execForKV
  have h_execForMulti := ih.execForMulti
  have h_forMultiOne := ih.forMultiOne
  have h_forCGo := ih.forCGo
  have h_execForC := ih.execForC
  have h_exec := ih.exec
  have h_truthy := runM_truthy
  have h_define := define_wt
  have h_assign := assign_wt
  have h_setAtScope := setAtScope_wt
  have h_setOpt := setOpt_wt
  have h_unset := unset_wt
  have h_foldSet := foldlM_setAtScope_wt
  have h_frame := paramFrame_wt
  have h_call : ∀ (isLit : Bool) (frame : Frame) (body : List Stmt), Frame.wt frame = true → Keeps (inCall isLit frame (bodyValue (execBlock p fuel body))) :=
    fun isLit frame body hf => keeps_inCall _ _ _ hf (keeps_bodyValue _ (ih.execBlock body))
  have h_sub : ∀ (frame : Frame) (body : List Stmt), Frame.wt frame = true → Keeps (inCall false frame (execBlock p fuel body)) :=
    fun frame body hf => keeps_inCall _ _ _ hf (ih.execBlock body)
  have h_loopKV : ∀ k v es body, Keeps (inNewFrame (execForKV p fuel k v es body)) :=
    fun k v es body => keeps_inNewFrame _ (ih.execForKV k v es body)
  have h_loopMulti : ∀ ks v sofar es body, Keeps (inNewFrame (execForMulti p fuel ks v sofar es body)) :=
    fun ks v sofar es body => keeps_inNewFrame _ (ih.execForMulti ks v sofar es body)
  have h_loopC : ∀ init c u body, Keeps (inNewFrame (andThen (execStmts p fuel init) (execForC p fuel c u body))) :=
    fun init c u body => keeps_inNewFrame _ (keeps_andThen _ _ (ih.execStmts init) (ih.execForC c u body))
  unfold Keeps at h_eval h_evalList h_evalKVs h_callFn h_hof h_anyEvery h_mapFn h_mapKV h_foldFn h_foldKV h_sortFn h_insertFn h_execBlock h_execStmts h_assignTo h_unsetOne h_unsetList h_execIf h_execWhile h_execForKV h_execForMulti h_forMultiOne h_forCGo h_execForC h_exec h_call h_sub h_loopKV h_loopMulti h_loopC
  unfold forMultiOne
  inv_step

set_option maxHeartbeats 4000000 in
theorem keeps_forCGo_step (p : Prog) (fuel : Nat) (ih : AllKeeps p fuel) : ∀ c, Keeps (forCGo p (fuel + 1) c) := by
  intro c
  have h_eval := ih.eval
  have h_evalList := ih.evalList
  have h_evalKVs := ih.evalKVs
  have h_callFn := ih.callFn
  have h_hof := ih.hof
  have h_anyEvery := ih.anyEvery
  have h_mapFn := ih.mapFn
  have h_mapKV := ih.mapKV
  have h_foldFn := ih.foldFn
  have h_foldKV := ih.foldKV
  have h_sortFn := ih.sortFn
  have h_insertFn := ih.insertFn
  have h_execBlock := ih.execBlock
  have h_execStmts := ih.execStmts
  have h_assignTo := ih.assignTo
  have h_unsetOne := ih.unsetOne
  have h_unsetList := ih.unsetList
  have h_execIf := ih.execIf
  have h_execWhile := ih.execWhile
  have h_execForKV := ih.execForKV
  have h_execForMulti := ih.execForMulti
  have h_forMultiOne := ih.forMultiOne
  have h_forCGo := ih.forCGo
  have h_execForC := ih.execForC
  have h_exec := ih.exec
  have h_truthy := runM_truthy
  have h_define := define_wt
  have h_assign := assign_wt
  have h_setAtScope := setAtScope_wt
  have h_setOpt := setOpt_wt
  have h_unset := unset_wt
  have h_foldSet := foldlM_setAtScope_wt
  have h_frame := paramFrame_wt
  have h_call : ∀ (isLit : Bool) (frame : Frame) (body : List Stmt), Frame.wt frame = true → Keeps (inCall isLit frame (bodyValue (execBlock p fuel body))) :=
    fun isLit frame body hf => keeps_inCall _ _ _ hf (keeps_bodyValue _ (ih.execBlock body))
  have h_sub : ∀ (frame : Frame) (body : List Stmt), Frame.wt frame = true → Keeps (inCall false frame (execBlock p fuel body)) :=
    fun frame body hf => keeps_inCall _ _ _ hf (ih.execBlock body)
  have h_loopKV : ∀ k v es body, Keeps (inNewFrame (execForKV p fuel k v es body)) :=
    fun k v es body => keeps_inNewFrame _ (ih.execForKV k v es body)
  have h_loopMulti : ∀ ks v sofar es body, Keeps (inNewFrame (execForMulti p fuel ks v sofar es body)) :=
    fun ks v sofar es body => keeps_inNewFrame _ (ih.execForMulti ks v sofar es body)
  have h_loopC : ∀ init c u body, Keeps (inNewFrame (andThen (execStmts p fuel init) (execForC p fuel c u body))) :=
    fun init c u body => keeps_inNewFrame _ (keeps_andThen _ _ (ih.execStmts init) (ih.execForC c u body))
  unfold Keeps at h_eval h_evalList h_evalKVs h_callFn h_hof h_anyEvery h_mapFn h_mapKV h_foldFn h_foldKV h_sortFn h_insertFn h_execBlock h_execStmts h_assignTo h_unsetOne h_unsetList h_execIf h_execWhile h_execForKV h_execForMulti h_forMultiOne h_forCGo h_execForC h_exec h_call h_sub h_loopKV h_loopMulti h_loopC
  unfold forCGo
  inv_step

set_option maxHeartbeats 4000000 in
theorem keeps_execForC_step (p : Prog) (fuel : Nat) (ih : AllKeeps p fuel) : ∀ c u body, Keeps (execForC p (fuel + 1) c u body) := by
  intro c u body
  have h_eval := ih.eval
  have h_evalList := ih.evalList
  have h_evalKVs := ih.evalKVs
  have h_callFn := ih.callFn
  have h_hof := ih.hof
  have h_anyEvery := ih.anyEvery
  have h_mapFn := ih.mapFn
  have h_mapKV := ih.mapKV
  have h_foldFn := ih.foldFn
  have h_foldKV := ih.foldKV
  have h_sortFn := ih.sortFn
  have h_insertFn := ih.insertFn
  have h_execBlock := ih.execBlock
  have h_execStmts := ih.execStmts
  have h_assignTo := ih.assignTo
  have h_unsetOne := ih.unsetOne
  have h_unsetList := ih.unsetList
  have h_execIf := ih.execIf
  have h_execWhile := ih.execWhile
  have h_execForKV := ih.execForKV
  have h_execForMulti := ih.execForMulti
  have h_forMultiOne := ih.forMultiOne
  have h_forCGo := ih.forCGo
  have h_execForC := ih.execForC
  have h_exec := ih.exec
  have h_truthy := runM_truthy
  have h_define := define_wt
  have h_assign := assign_wt
  have h_setAtScope := setAtScope_wt
  have h_setOpt := setOpt_wt
  have h_unset := unset_wt
  have h_foldSet := foldlM_setAtScope_wt
  have h_frame := paramFrame_wt
  have h_call : ∀ (isLit : Bool) (frame : Frame) (body : List Stmt), Frame.wt frame = true → Keeps (inCall isLit frame (bodyValue (execBlock p fuel body))) :=
    fun isLit frame body hf => keeps_inCall _ _ _ hf (keeps_bodyValue _ (ih.execBlock body))
  have h_sub : ∀ (frame : Frame) (body : List Stmt), Frame.wt frame = true → Keeps (inCall false frame (execBlock p fuel body)) :=
    fun frame body hf => keeps_inCall _ _ _ hf (ih.execBlock body)
  have h_loopKV : ∀ k v es body, Keeps (inNewFrame (execForKV p fuel k v es body)) :=
    fun k v es body => keeps_inNewFrame _ (ih.execForKV k v es body)
  have h_loopMulti : ∀ ks v sofar es body, Keeps (inNewFrame (execForMulti p fuel ks v sofar es body)) :=
    fun ks v sofar es body => keeps_inNewFrame _ (ih.execForMulti ks v sofar es body)
  have h_loopC : ∀ init c u body, Keeps (inNewFrame (andThen (execStmts p fuel init) (execForC p fuel c u body))) :=
    fun init c u body => keeps_inNewFrame _ (keeps_andThen _ _ (ih.execStmts init) (ih.execForC c u body))
  unfold Keeps at h_eval h_evalList h_evalKVs h_callFn h_hof h_anyEvery h_mapFn h_mapKV h_foldFn h_foldKV h_sortFn h_insertFn h_execBlock h_execStmts h_assignTo h_unsetOne h_unsetList h_execIf h_execWhile h_execForKV h_execForMulti h_forMultiOne h_forCGo h_execForC h_exec h_call h_sub h_loopKV h_loopMulti h_loopC
  unfold execForC
  inv_step

set_option maxHeartbeats 4000000 in
theorem keeps_exec_step (p : Prog) (fuel : Nat) (ih : AllKeeps p fuel) : ∀ st, Keeps (exec p (fuel + 1) st) := by
  intro st
  have h_eval := ih.eval
  have h_evalList := ih.evalList
  have h_evalKVs := ih.evalKVs
  have h_callFn := ih.callFn
  have h_hof := ih.hof
  have h_anyEvery := ih.anyEvery
  have h_mapFn := ih.mapFn
  have h_mapKV := ih.mapKV
  have h_foldFn := ih.foldFn
  have h_foldKV := ih.foldKV
  have h_sortFn := ih.sortFn
  have h_insertFn := ih.insertFn
  have h_execBlock := ih.execBlock
  have h_execStmts := ih.execStmts
  have h_assignTo := ih.assignTo
  have h_unsetOne := ih.unsetOne
  have h_unsetList := ih.unsetList
  have h_execIf := ih.execIf
  have h_execWhile := ih.execWhile
  have h_execForKV := ih.execForKV
  have h_execForMulti := ih.execForMulti
  have h_forMultiOne := ih.forMultiOne
  have h_forCGo := ih.forCGo
  have h_execForC := ih.execForC
  have h_exec := ih.exec
  have h_truthy := runM_truthy
  have h_define := define_wt
  have h_assign := assign_wt
  have h_setAtScope := setAtScope_wt
  have h_setOpt := setOpt_wt
  have h_unset := unset_wt
  have h_foldSet := foldlM_setAtScope_wt
  have h_frame := paramFrame_wt
  have h_call : ∀ (isLit : Bool) (frame : Frame) (body : List Stmt), Frame.wt frame = true → Keeps (inCall isLit frame (bodyValue (execBlock p fuel body))) :=
    fun isLit frame body hf => keeps_inCall _ _ _ hf (keeps_bodyValue _ (ih.execBlock body))
  have h_sub : ∀ (frame : Frame) (body : List Stmt), Frame.wt frame = true → Keeps (inCall false frame (execBlock p fuel body)) :=
    fun frame body hf => keeps_inCall _ _ _ hf (ih.execBlock body)
  have h_loopKV : ∀ k v es body, Keeps (inNewFrame (execForKV p fuel k v es body)) :=
    fun k v es body => keeps_inNewFrame _ (ih.execForKV k v es body)
  have h_loopMulti : ∀ ks v sofar es body, Keeps (inNewFrame (execForMulti p fuel ks v sofar es body)) :=
    fun ks v sofar es body => keeps_inNewFrame _ (ih.execForMulti ks v sofar es body)
  have h_loopC : ∀ init c u body, Keeps (inNewFrame (andThen (execStmts p fuel init) (execForC p fuel c u body))) :=
    fun init c u body => keeps_inNewFrame _ (keeps_andThen _ _ (ih.execStmts init) (ih.execForC c u body))
  unfold Keeps at h_eval h_evalList h_evalKVs h_callFn h_hof h_anyEvery h_mapFn h_mapKV h_foldFn h_foldKV h_sortFn h_insertFn h_execBlock h_execStmts h_assignTo h_unsetOne h_unsetList h_execIf h_execWhile h_execForKV h_execForMulti h_forMultiOne h_forCGo h_execForC h_exec h_call h_sub h_loopKV h_loopMulti h_loopC
  unfold exec
  cases st <;> inv_step

theorem keeps_execBlock_step (p : Prog) (fuel : Nat) (ih : AllKeeps p fuel) : ∀ body, Keeps (execBlock p (fuel + 1) body) := by
  intro body
  unfold execBlock
  exact keeps_inNewFrame _ (ih.execStmts body)

theorem allKeeps_zero (p : Prog) : AllKeeps p 0 := by
  constructor <;> intros <;> first
    | (unfold eval; exact keeps_failM _)
    | (unfold evalList; exact keeps_failM _)
    | (unfold evalKVs; exact keeps_failM _)
    | (unfold callFn; exact keeps_failM _)
    | (unfold hof; exact keeps_failM _)
    | (unfold anyEvery; exact keeps_failM _)
    | (unfold mapFn; exact keeps_failM _)
    | (unfold mapKV; exact keeps_failM _)
    | (unfold foldFn; exact keeps_failM _)
    | (unfold foldKV; exact keeps_failM _)
    | (unfold sortFn; exact keeps_failM _)
    | (unfold insertFn; exact keeps_failM _)
    | (unfold execBlock; exact keeps_failM _)
    | (unfold execStmts; exact keeps_failM _)
    | (unfold assignTo; exact keeps_failM _)
    | (unfold unsetOne; exact keeps_failM _)
    | (unfold unsetList; exact keeps_failM _)
    | (unfold execIf; exact keeps_failM _)
    | (unfold execWhile; exact keeps_failM _)
    | (unfold execForKV; exact keeps_failM _)
    | (unfold execForMulti; exact keeps_failM _)
    | (unfold forMultiOne; exact keeps_failM _)
    | (unfold forCGo; exact keeps_failM _)
    | (unfold execForC; exact keeps_failM _)
    | (unfold exec; exact keeps_failM _)

/-- THE INDUCTION: at every fuel, every function of the interpreter keeps the stack well-typed. -/
theorem allKeeps (p : Prog) : ∀ fuel, AllKeeps p fuel
  | 0 => allKeeps_zero p
  | fuel + 1 =>
    have ih := allKeeps p fuel
    { eval := keeps_eval_step p fuel ih,
      evalList := keeps_evalList_step p fuel ih,
      evalKVs := keeps_evalKVs_step p fuel ih,
      callFn := keeps_callFn_step p fuel ih,
      hof := keeps_hof_step p fuel ih,
      anyEvery := keeps_anyEvery_step p fuel ih,
      mapFn := keeps_mapFn_step p fuel ih,
      mapKV := keeps_mapKV_step p fuel ih,
      foldFn := keeps_foldFn_step p fuel ih,
      foldKV := keeps_foldKV_step p fuel ih,
      sortFn := keeps_sortFn_step p fuel ih,
      insertFn := keeps_insertFn_step p fuel ih,
      execBlock := keeps_execBlock_step p fuel ih,
      execStmts := keeps_execStmts_step p fuel ih,
      assignTo := keeps_assignTo_step p fuel ih,
      unsetOne := keeps_unsetOne_step p fuel ih,
      unsetList := keeps_unsetList_step p fuel ih,
      execIf := keeps_execIf_step p fuel ih,
      execWhile := keeps_execWhile_step p fuel ih,
      execForKV := keeps_execForKV_step p fuel ih,
      execForMulti := keeps_execForMulti_step p fuel ih,
      forMultiOne := keeps_forMultiOne_step p fuel ih,
      forCGo := keeps_forCGo_step p fuel ih,
      execForC := keeps_execForC_step p fuel ih,
      exec := keeps_exec_step p fuel ih }

end DSL
end Miller
