/-
Lemmas for C10: the streaming per-group accumulation (`Verbs.groupFold`) is the per-group fold
of the stateless grouping (`Lemmas.C11.dkeys` / `grp`).  Proof by simulation: the accumulating
map is the image, under "fold the group's records", of the map that just collects each group's
records, whose invariant `GInv` is proved in Lemmas/C11.
-/
import MillerModel.Model.Verbs.Stats
import MillerModel.Lemmas.C11
namespace Miller
namespace Lemmas.C10
open Verbs Lemmas.C11

/-- Grouping key of a record: the selected values joined with commas; none if a field is missing. -/
def gkey (fields : List Bytes) (r : Rec) : Option Bytes := (fields.mapM (get r)).map (joinKey)

def firstVals (fields : List Bytes) : List Rec → List Bytes
  | [] => []
  | r :: _ => (fields.mapM (get r)).getD []

/-- What the accumulating map holds for a group whose records are `g`. -/
def summ {α} (fields : List Bytes) (init : α) (upd : α → Rec → α) (g : List Rec) : List Bytes × α :=
  (firstVals fields g, g.foldl upd init)

def absM {β γ} (f : β → γ) (m : OMap β) : OMap γ := m.map (fun p => (p.1, f p.2))

theorem abs_get {β γ} (f : β → γ) (m : OMap β) (k : Bytes) : (absM f m).get? k = (m.get? k).map f := by
  unfold absM OMap.get?
  induction m with
  | nil => rfl
  | cons p m ih =>
    simp only [List.map_cons, List.find?_cons]
    by_cases h : (p.1 == k) = true
    · simp [h]
    · simp only [h]; exact ih

theorem abs_put {β γ} (f : β → γ) (m : OMap β) (k : Bytes) (v : β) :
    absM f (m.put k v) = (absM f m).put k (f v) := by
  unfold absM OMap.put
  have hany : (m.map (fun p => (p.1, f p.2))).any (·.1 == k) = m.any (·.1 == k) := by
    rw [List.any_map]; rfl
  rw [hany]
  by_cases h : m.any (·.1 == k) = true
  · simp only [h, if_true, List.map_map]
    apply List.map_congr_left
    intro p _
    by_cases hp : (p.1 == k) = true <;> simp [Function.comp, hp]
  · simp only [h, Bool.false_eq_true, if_false, List.map_append, List.map_cons, List.map_nil]

def stepState (fields : List Bytes) (m : OMap (List Rec)) (r : Rec) : OMap (List Rec) :=
  ((groupMachine (gkey fields)).step m r).1

theorem firstVals_append (fields : List Bytes) (g : List Rec) (r : Rec) (h : g ≠ []) :
    firstVals fields (g ++ [r]) = firstVals fields g := by
  cases g with
  | nil => exact absurd rfl h
  | cons x xs => rfl

theorem mem_of_get {β} (m : OMap β) (k : Bytes) (v : β) (h : m.get? k = some v) : ∃ p ∈ m, p.2 = v := by
  unfold OMap.get? at h
  cases hf : m.find? (·.1 == k) with
  | none => simp [hf] at h
  | some p =>
    simp only [hf, Option.map_some, Option.some.injEq] at h
    exact ⟨p, List.mem_of_find?_eq_some hf, h⟩

theorem stepState_none (fields : List Bytes) (m : OMap (List Rec)) (r : Rec) (h : gkey fields r = none) :
    stepState fields m r = m := by simp [stepState, groupMachine, h]

theorem stepState_some (fields : List Bytes) (m : OMap (List Rec)) (r : Rec) (k : Bytes) (h : gkey fields r = some k) :
    stepState fields m r = m.put k ((m.get? k).getD [] ++ [r]) := by simp [stepState, groupMachine, h]

theorem sim_step {α} (fields : List Bytes) (init : α) (upd : α → Rec → α)
    (m : OMap (List Rec)) (hne : ∀ p ∈ m, p.2 ≠ []) (r : Rec) :
    groupUpdate fields init upd (absM (summ fields init upd) m) r
      = absM (summ fields init upd) (stepState fields m r) := by
  unfold groupUpdate
  cases hv : fields.mapM (get r) with
  | none =>
    rw [stepState_none fields m r (by simp [gkey, hv])]
  | some vs =>
    rw [stepState_some fields m r (joinKey vs) (by simp [gkey, hv])]
    simp only
    rw [abs_get]
    cases hg : m.get? (joinKey vs) with
    | none =>
      simp only [Option.map_none, Option.getD_none, List.nil_append]
      rw [abs_put]
      simp [summ, firstVals, hv]
    | some g =>
      obtain ⟨p, hp, hpg⟩ := mem_of_get m _ g hg
      have hgne : g ≠ [] := by rw [← hpg]; exact hne p hp
      simp only [Option.map_some, Option.getD_some]
      rw [abs_put]
      simp [summ, firstVals_append fields g r hgne, List.foldl_append]

theorem nonempty_step (fields : List Bytes) (m : OMap (List Rec)) (hne : ∀ p ∈ m, p.2 ≠ []) (r : Rec) :
    ∀ p ∈ stepState fields m r, p.2 ≠ [] := by
  cases hk : gkey fields r with
  | none => rw [stepState_none fields m r hk]; exact hne
  | some k =>
    rw [stepState_some fields m r k hk]
    intro p hp
    unfold OMap.put at hp
    split at hp
    · obtain ⟨q, hq, rfl⟩ := List.mem_map.mp hp
      split
      · simp
      · exact hne q hq
    · rcases List.mem_append.mp hp with hp | hp
      · exact hne p hp
      · simp only [List.mem_singleton] at hp; subst hp; simp

theorem sim_fold {α} (fields : List Bytes) (init : α) (upd : α → Rec → α)
    (m : OMap (List Rec)) (hne : ∀ p ∈ m, p.2 ≠ []) (xs : List Rec) :
    xs.foldl (groupUpdate fields init upd) (absM (summ fields init upd) m)
      = absM (summ fields init upd) (xs.foldl (stepState fields) m) := by
  induction xs generalizing m with
  | nil => rfl
  | cons r rest ih =>
    simp only [List.foldl_cons]
    rw [sim_step fields init upd m hne r]
    exact ih _ (nonempty_step fields m hne r)

theorem ginv_fold (fields : List Bytes) (m : OMap (List Rec)) (pre rest : List Rec)
    (h : GInv (gkey fields) m pre) : GInv (gkey fields) (rest.foldl (stepState fields) m) (pre ++ rest) := by
  induction rest generalizing m pre with
  | nil => simpa using h
  | cons r rest ih =>
    simp only [List.foldl_cons]
    have : GInv (gkey fields) (stepState fields m r) (pre ++ [r]) := by
      cases hk : gkey fields r with
      | none => rw [stepState_none fields m r hk]; exact ginv_skip _ m pre r hk h
      | some k => rw [stepState_some fields m r k hk]; exact ginv_step _ m pre r k hk h
    have := ih _ (pre ++ [r]) this
    simpa using this

/-- MAIN LEMMA: the streaming per-group accumulation equals, group by group in first-appearance
order, the fold of the update function over exactly that group's records in input order. -/
theorem groupFold_eq {α} (fields : List Bytes) (init : α) (upd : α → Rec → α) (xs : List Rec) :
    groupFold fields init upd xs
      = (dkeys (gkey fields) xs).map fun k => (k, summ fields init upd (grp (gkey fields) xs k)) := by
  unfold groupFold
  have hs := sim_fold fields init upd [] (by simp) xs
  simp only [absM, List.map_nil] at hs
  rw [hs]
  have hg := ginv_fold fields [] [] xs (ginv_init _)
  simp only [List.nil_append] at hg
  rw [← hg.keys, List.map_map]
  apply List.map_congr_left
  intro p hp
  simp only [Function.comp]
  rw [hg.vals p hp]

/-- Sum over the distinct keys of the group sizes. -/
def S (keyOf : Rec → Option Bytes) (xs : List Rec) : Nat := ((dkeys keyOf xs).map fun k => (grp keyOf xs k).length).sum

theorem sum_map_add_indicator (D : List Bytes) (f : Bytes → Nat) (k : Bytes) :
    (D.map fun k' => f k' + if k' = k then 1 else 0).sum = (D.map f).sum + D.count k := by
  induction D with
  | nil => simp
  | cons d D ih =>
    simp only [List.map_cons, List.sum_cons, ih, List.count_cons]
    by_cases h : d = k
    · subst h; simp; omega
    · have : (d == k) = false := by simpa using h
      simp [h, this]; omega

theorem S_step (keyOf : Rec → Option Bytes) (pre : List Rec) (r : Rec) (m : OMap (List Rec)) (h : GInv keyOf m pre) :
    S keyOf (pre ++ [r]) = S keyOf pre + (if (keyOf r).isSome then 1 else 0) := by
  unfold S
  cases hk : keyOf r with
  | none =>
    rw [dkeys_append_none keyOf pre r hk]
    simp only [Option.isSome_none, Bool.false_eq_true, if_false, Nat.add_zero]
    congr 1
    apply List.map_congr_left
    intro k _
    rw [grp_append_other keyOf pre r k (by rw [hk]; simp)]
  | some k =>
    rw [dkeys_append_some keyOf pre r k hk]
    simp only [Option.isSome_some, if_true]
    have hlen : ∀ k', (grp keyOf (pre ++ [r]) k').length = (grp keyOf pre k').length + if k' = k then 1 else 0 := by
      intro k'
      by_cases hkk : k' = k
      · subst hkk; rw [grp_append_same keyOf pre r k' hk]; simp
      · rw [grp_append_other keyOf pre r k' (by rw [hk]; intro he; simp at he; exact hkk he.symm)]; simp [hkk]
    have hnd : (dkeys keyOf pre).Nodup := by rw [← h.keys]; exact h.nodup
    unfold Spec.Select.addKey
    by_cases hin : (dkeys keyOf pre).contains k = true
    · simp only [hin, if_true]
      rw [show (fun k' => (grp keyOf (pre ++ [r]) k').length) = fun k' => (grp keyOf pre k').length + if k' = k then 1 else 0 from funext hlen]
      rw [sum_map_add_indicator, hnd.count]
      have : k ∈ dkeys keyOf pre := by simpa using hin
      simp [this]
    · simp only [hin, Bool.false_eq_true, if_false, List.map_append, List.sum_append, List.map_cons, List.map_nil, List.sum_cons, List.sum_nil]
      have hnot : k ∉ dkeys keyOf pre := by simpa using hin
      rw [show (fun k' => (grp keyOf (pre ++ [r]) k').length) = fun k' => (grp keyOf pre k').length + if k' = k then 1 else 0 from funext hlen]
      rw [sum_map_add_indicator, hnd.count]
      have habs : grp keyOf pre k = [] := h.absent k (by rw [h.keys]; exact hnot)
      simp only [hnot, if_false, Nat.add_zero]
      rw [hlen k, habs]; simp

theorem S_total (fields : List Bytes) (xs : List Rec) :
    S (gkey fields) xs = (xs.filter fun r => (gkey fields r).isSome).length := by
  have aux : ∀ rest pre : List Rec, S (gkey fields) pre = (pre.filter fun r => (gkey fields r).isSome).length →
      S (gkey fields) (pre ++ rest) = ((pre ++ rest).filter fun r => (gkey fields r).isSome).length := by
    intro rest
    induction rest with
    | nil => intro pre h; simpa using h
    | cons r rest ih =>
      intro pre h
      have hg := ginv_fold fields [] [] pre (ginv_init _)
      simp only [List.nil_append] at hg
      have hs := S_step (gkey fields) pre r _ hg
      have := ih (pre ++ [r]) (by
        rw [hs, h, List.filter_append]
        by_cases hk : (gkey fields r).isSome = true <;> simp [hk])
      simpa using this
  have := aux xs [] (by simp [S, dkeys])
  simpa using this

end Lemmas.C10
end Miller
