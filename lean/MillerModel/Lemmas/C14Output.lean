/-
OUTPUT IS APPEND-ONLY: whatever a piece of program does and however it ends, everything printed or
emitted before it is still there afterwards, in the same order, at the front of the output - nothing
already produced is ever changed, dropped or reordered.  Third induction over the interpreter.
-/
import MillerModel.Lemmas.C14Interp
namespace Miller
namespace DSL

/-- `m` only appends to the output. -/
def Appends {α} (m : M α) : Prop := ∀ s, s.out <+: (runM m s).2.out

theorem Appends.out {α} {m : M α} (h : Appends m) {s : St} {r : Except Err α} {s' : St} (hr : runM m s = (r, s')) : s.out <+: s'.out := by
  have := h s; rw [hr] at this; exact this

theorem appends_of {α} {m : M α} (h : ∀ s r s', runM m s = (r, s') → s.out <+: s'.out) : Appends m := by
  intro s
  cases hr : runM m s with
  | mk r s' => exact h s r s' hr

theorem appends_pure {α} (a : α) : Appends (pure a : M α) := fun _ => List.prefix_refl _
theorem appends_failM {α} (e : Err) : Appends (failM e : M α) := fun _ => List.prefix_refl _
theorem appends_bind {α β} (m : M α) (f : α → M β) (hm : Appends m) (hf : ∀ a, Appends (f a)) : Appends (m >>= f) := by
  apply appends_of
  intro s r s' h
  simp only [runM_bind] at h
  split at h
  · rename_i a s1 h1
    exact (hm.out h1).trans ((hf a).out h)
  · rename_i e s1 h1
    have := hm.out h1
    simp at h
    rw [← h.2]; exact this
theorem appends_tryCatch {α} (m : M α) (h : Err → M α) (hm : Appends m) (hh : ∀ e, Appends (h e)) : Appends (tryCatch m h) := by
  apply appends_of
  intro s r s' hr
  rw [runM_tryCatch] at hr
  split at hr
  · rename_i a s1 h1
    have := hm.out h1
    simp at hr; rw [← hr.2]; exact this
  · rename_i e s1 h1
    exact (hm.out h1).trans ((hh e).out hr)

theorem appends_withStack {α} (enter : Stack → Stack) (leave : Stack → Stack → Stack) (m : M α) (hm : Appends m) :
    Appends (withStack enter leave m) := by
  apply appends_of
  intro s r s' h
  unfold withStack at h
  simp only [runM_bind, runM_get, runM_modify, runM_tryCatch, runM_pure, runM_throw] at h
  split at h
  · rename_i a s1 h1
    split at h1
    · rename_i a2 s2 h2
      have := hm.out h2
      simp at h1 h
      rw [← h.2, ← h1.2]
      simpa using this
    · simp at h1
  · rename_i e s1 h1
    split at h1
    · simp at h1
    · rename_i e2 s2 h2
      have := hm.out h2
      simp at h1 h
      rw [← h.2, ← h1.2]
      simpa using this

theorem appends_bodyValue (blk : M Sig) (h : Appends blk) : Appends (bodyValue blk) := by
  apply appends_tryCatch
  · exact appends_bind _ _ h (fun _ => appends_pure _)
  · intro e
    cases e <;> first | exact appends_pure _ | exact appends_failM _

theorem appends_andThen {α β} (a : M α) (b : M β) (ha : Appends a) (hb : Appends b) : Appends (andThen a b) :=
  appends_bind _ _ ha (fun _ => hb)

structure AllAppends (p : Prog) (fuel : Nat) : Prop where
  eval : ∀ e, Appends (eval p fuel e)
  evalList : ∀ es, Appends (evalList p fuel es)
  evalKVs : ∀ kvs, Appends (evalKVs p fuel kvs)
  callFn : ∀ f args, Appends (callFn p fuel f args)
  hof : ∀ n args, Appends (hof p fuel n args)
  anyEvery : ∀ b f xs, Appends (anyEvery p fuel b f xs)
  mapFn : ∀ f xs, Appends (mapFn p fuel f xs)
  mapKV : ∀ f kvs, Appends (mapKV p fuel f kvs)
  foldFn : ∀ f acc xs, Appends (foldFn p fuel f acc xs)
  foldKV : ∀ f acc kvs, Appends (foldKV p fuel f acc kvs)
  sortFn : ∀ f xs, Appends (sortFn p fuel f xs)
  insertFn : ∀ f x ys, Appends (insertFn p fuel f x ys)
  execBlock : ∀ body, Appends (execBlock p fuel body)
  execStmts : ∀ body, Appends (execStmts p fuel body)
  assignTo : ∀ lhs path v, Appends (assignTo p fuel lhs path v)
  unsetOne : ∀ lhs path, Appends (unsetOne p fuel lhs path)
  unsetList : ∀ ls, Appends (unsetList p fuel ls)
  execIf : ∀ bs els, Appends (execIf p fuel bs els)
  execWhile : ∀ c body, Appends (execWhile p fuel c body)
  execForKV : ∀ k v es body, Appends (execForKV p fuel k v es body)
  execForMulti : ∀ ks v sofar es body, Appends (execForMulti p fuel ks v sofar es body)
  forMultiOne : ∀ ks v here val body, Appends (forMultiOne p fuel ks v here val body)
  forCGo : ∀ c, Appends (forCGo p fuel c)
  execForC : ∀ c u body, Appends (execForC p fuel c u body)
  exec : ∀ st, Appends (exec p fuel st)

macro "out_step" : tactic => `(tactic| (
  apply appends_of
  intro s r s' h
  repeat' (first
    | (simp only [runM_bind, runM_map, runM_get, runM_set, runM_modify, runM_pure, runM_failM, runM_throw, runM_liftR, emitRec, emitRecs, emitLine] at h)
    | (split at h))
  all_goals (try simp at h)
  all_goals (try grind [List.prefix_refl, List.IsPrefix.trans, List.prefix_append])))

set_option maxHeartbeats 4000000 in
theorem appends_eval_step (p : Prog) (fuel : Nat) (ih : AllAppends p fuel) : ∀ e, Appends (eval p (fuel + 1) e) := by
  intro e
  have h_eval := ih.eval
  have h_evalList := ih.evalList
  have h_evalKVs := ih.evalKVs
  have h_callFn := ih.callFn
  have h_hof := ih.hof
  have h_anyEvery := ih.anyEvery
  have h_mapFn := ih.mapFn
  have h_mapKV := ih.mapKV
  have h_foldFn := ih.foldFn
  have h_foldKV := ih.foldKV
  have h_sortFn := ih.sortFn
  have h_insertFn := ih.insertFn
  have h_execBlock := ih.execBlock
  have h_execStmts := ih.execStmts
  have h_assignTo := ih.assignTo
  have h_unsetOne := ih.unsetOne
  have h_unsetList := ih.unsetList
  have h_execIf := ih.execIf
  have h_execWhile := ih.execWhile
  have h_execForKV := ih.execForKV
  have h_execForMulti := ih.execForMulti
  have h_forMultiOne := ih.forMultiOne
  have h_forCGo := ih.forCGo
  have h_execForC := ih.execForC
  have h_exec := ih.exec
  have h_truthy := runM_truthy
  have h_call : ∀ (isLit : Bool) (frame : Frame) (body : List Stmt), Appends (inCall isLit frame (bodyValue (execBlock p fuel body))) :=
    fun isLit frame body => appends_withStack _ _ _ (appends_bodyValue _ (ih.execBlock body))
  have h_sub : ∀ (frame : Frame) (body : List Stmt), Appends (inCall false frame (execBlock p fuel body)) :=
    fun frame body => appends_withStack _ _ _ (ih.execBlock body)
  have h_loopKV : ∀ k v es body, Appends (inNewFrame (execForKV p fuel k v es body)) :=
    fun k v es body => appends_withStack _ _ _ (ih.execForKV k v es body)
  have h_loopMulti : ∀ ks v sofar es body, Appends (inNewFrame (execForMulti p fuel ks v sofar es body)) :=
    fun ks v sofar es body => appends_withStack _ _ _ (ih.execForMulti ks v sofar es body)
  have h_loopC : ∀ init c u body, Appends (inNewFrame (andThen (execStmts p fuel init) (execForC p fuel c u body))) :=
    fun init c u body => appends_withStack _ _ _ (appends_andThen _ _ (ih.execStmts init) (ih.execForC c u body))
  unfold Appends at h_eval h_evalList h_evalKVs h_callFn h_hof h_anyEvery h_mapFn h_mapKV h_foldFn h_foldKV h_sortFn h_insertFn h_execBlock h_execStmts h_assignTo h_unsetOne h_unsetList h_execIf h_execWhile h_execForKV h_execForMulti h_forMultiOne h_forCGo h_execForC h_exec h_call h_sub h_loopKV h_loopMulti h_loopC
  unfold eval
  cases e <;> out_step

set_option maxHeartbeats 4000000 in
theorem appends_evalList_step (p : Prog) (fuel : Nat) (ih : AllAppends p fuel) : ∀ es, Appends (evalList p (fuel + 1) es) := by
  intro es
  have h_eval := ih.eval
  have h_evalList := ih.evalList
  have h_evalKVs := ih.evalKVs
  have h_callFn := ih.callFn
  have h_hof := ih.hof
  have h_anyEvery := ih.anyEvery
  have h_mapFn := ih.mapFn
  have h_mapKV := ih.mapKV
  have h_foldFn := ih.foldFn
  have h_foldKV := ih.foldKV
  have h_sortFn := ih.sortFn
  have h_insertFn := ih.insertFn
  have h_execBlock := ih.execBlock
  have h_execStmts := ih.execStmts
  have h_assignTo := ih.assignTo
  have h_unsetOne := ih.unsetOne
  have h_unsetList := ih.unsetList
  have h_execIf := ih.execIf
  have h_execWhile := ih.execWhile
  have h_execForKV := ih.execForKV
  have h_execForMulti := ih.execForMulti
  have h_forMultiOne := ih.forMultiOne
  have h_forCGo := ih.forCGo
  have h_execForC := ih.execForC
  have h_exec := ih.exec
  have h_truthy := runM_truthy
  have h_call : ∀ (isLit : Bool) (frame : Frame) (body : List Stmt), Appends (inCall isLit frame (bodyValue (execBlock p fuel body))) :=
    fun isLit frame body => appends_withStack _ _ _ (appends_bodyValue _ (ih.execBlock body))
  have h_sub : ∀ (frame : Frame) (body : List Stmt), Appends (inCall false frame (execBlock p fuel body)) :=
    fun frame body => appends_withStack _ _ _ (ih.execBlock body)
  have h_loopKV : ∀ k v es body, Appends (inNewFrame (execForKV p fuel k v es body)) :=
    fun k v es body => appends_withStack _ _ _ (ih.execForKV k v es body)
  have h_loopMulti : ∀ ks v sofar es body, Appends (inNewFrame (execForMulti p fuel ks v sofar es body)) :=
    fun ks v sofar es body => appends_withStack _ _ _ (ih.execForMulti ks v sofar es body)
  have h_loopC : ∀ init c u body, Appends (inNewFrame (andThen (execStmts p fuel init) (execForC p fuel c u body))) :=
    fun init c u body => appends_withStack _ _ _ (appends_andThen _ _ (ih.execStmts init) (ih.execForC c u body))
  unfold Appends at h_eval h_evalList h_evalKVs h_callFn h_hof h_anyEvery h_mapFn h_mapKV h_foldFn h_foldKV h_sortFn h_insertFn h_execBlock h_execStmts h_assignTo h_unsetOne h_unsetList h_execIf h_execWhile h_execForKV h_execForMulti h_forMultiOne h_forCGo h_execForC h_exec h_call h_sub h_loopKV h_loopMulti h_loopC
  unfold evalList
  cases es <;> out_step

set_option maxHeartbeats 4000000 in
theorem appends_evalKVs_step (p : Prog) (fuel : Nat) (ih : AllAppends p fuel) : ∀ kvs, Appends (evalKVs p (fuel + 1) kvs) := by
  intro kvs
  have h_eval := ih.eval
  have h_evalList := ih.evalList
  have h_evalKVs := ih.evalKVs
  have h_callFn := ih.callFn
  have h_hof := ih.hof
  have h_anyEvery := ih.anyEvery
  have h_mapFn := ih.mapFn
  have h_mapKV := ih.mapKV
  have h_foldFn := ih.foldFn
  have h_foldKV := ih.foldKV
  have h_sortFn := ih.sortFn
  have h_insertFn := ih.insertFn
  have h_execBlock := ih.execBlock
  have h_execStmts := ih.execStmts
  have h_assignTo := ih.assignTo
  have h_unsetOne := ih.unsetOne
  have h_unsetList := ih.unsetList
  have h_execIf := ih.execIf
  have h_execWhile := ih.execWhile
  have h_execForKV := ih.execForKV
  have h_execForMulti := ih.execForMulti
  have h_forMultiOne := ih.forMultiOne
  have h_forCGo := ih.forCGo
  have h_execForC := ih.execForC
  have h_exec := ih.exec
  have h_truthy := runM_truthy
  have h_call : ∀ (isLit : Bool) (frame : Frame) (body : List Stmt), Appends (inCall isLit frame (bodyValue (execBlock p fuel body))) :=
    fun isLit frame body => appends_withStack _ _ _ (appends_bodyValue _ (ih.execBlock body))
  have h_sub : ∀ (frame : Frame) (body : List Stmt), Appends (inCall false frame (execBlock p fuel body)) :=
    fun frame body => appends_withStack _ _ _ (ih.execBlock body)
  have h_loopKV : ∀ k v es body, Appends (inNewFrame (execForKV p fuel k v es body)) :=
    fun k v es body => appends_withStack _ _ _ (ih.execForKV k v es body)
  have h_loopMulti : ∀ ks v sofar es body, Appends (inNewFrame (execForMulti p fuel ks v sofar es body)) :=
    fun ks v sofar es body => appends_withStack _ _ _ (ih.execForMulti ks v sofar es body)
  have h_loopC : ∀ init c u body, Appends (inNewFrame (andThen (execStmts p fuel init) (execForC p fuel c u body))) :=
    fun init c u body => appends_withStack _ _ _ (appends_andThen _ _ (ih.execStmts init) (ih.execForC c u body))
  unfold Appends at h_eval h_evalList h_evalKVs h_callFn h_hof h_anyEvery h_mapFn h_mapKV h_foldFn h_foldKV h_sortFn h_insertFn h_execBlock h_execStmts h_assignTo h_unsetOne h_unsetList h_execIf h_execWhile h_execForKV h_execForMulti h_forMultiOne h_forCGo h_execForC h_exec h_call h_sub h_loopKV h_loopMulti h_loopC
  unfold evalKVs
  cases kvs <;> out_step

set_option maxHeartbeats 4000000 in
theorem appends_callFn_step (p : Prog) (fuel : Nat) (ih : AllAppends p fuel) : ∀ f args, Appends (callFn p (fuel + 1) f args) := by
  intro f args
  have h_eval := ih.eval
  have h_evalList := ih.evalList
  have h_evalKVs := ih.evalKVs
  have h_callFn := ih.callFn
  have h_hof := ih.hof
  have h_anyEvery := ih.anyEvery
  have h_mapFn := ih.mapFn
  have h_mapKV := ih.mapKV
  have h_foldFn := ih.foldFn
  have h_foldKV := ih.foldKV
  have h_sortFn := ih.sortFn
  have h_insertFn := ih.insertFn
  have h_execBlock := ih.execBlock
  have h_execStmts := ih.execStmts
  have h_assignTo := ih.assignTo
  have h_unsetOne := ih.unsetOne
  have h_unsetList := ih.unsetList
  have h_execIf := ih.execIf
  have h_execWhile := ih.execWhile
  have h_execForKV := ih.execForKV
  have h_execForMulti := ih.execForMulti
  have h_forMultiOne := ih.forMultiOne
  have h_forCGo := ih.forCGo
  have h_execForC := ih.execForC
  have h_exec := ih.exec
  have h_truthy := runM_truthy
  have h_call : ∀ (isLit : Bool) (frame : Frame) (body : List Stmt), Appends (inCall isLit frame (bodyValue (execBlock p fuel body))) :=
    fun isLit frame body => appends_withStack _ _ _ (appends_bodyValue _ (ih.execBlock body))
  have h_sub : ∀ (frame : Frame) (body : List Stmt), Appends (inCall false frame (execBlock p fuel body)) :=
    fun frame body => appends_withStack _ _ _ (ih.execBlock body)
  have h_loopKV : ∀ k v es body, Appends (inNewFrame (execForKV p fuel k v es body)) :=
    fun k v es body => appends_withStack _ _ _ (ih.execForKV k v es body)
  have h_loopMulti : ∀ ks v sofar es body, Appends (inNewFrame (execForMulti p fuel ks v sofar es body)) :=
    fun ks v sofar es body => appends_withStack _ _ _ (ih.execForMulti ks v sofar es body)
  have h_loopC : ∀ init c u body, Appends (inNewFrame (andThen (execStmts p fuel init) (execForC p fuel c u body))) :=
    fun init c u body => appends_withStack _ _ _ (appends_andThen _ _ (ih.execStmts init) (ih.execForC c u body))
  unfold Appends at h_eval h_evalList h_evalKVs h_callFn h_hof h_anyEvery h_mapFn h_mapKV h_foldFn h_foldKV h_sortFn h_insertFn h_execBlock h_execStmts h_assignTo h_unsetOne h_unsetList h_execIf h_execWhile h_execForKV h_execForMulti h_forMultiOne h_forCGo h_execForC h_exec h_call h_sub h_loopKV h_loopMulti h_loopC
  unfold callFn
  out_step

set_option maxHeartbeats 4000000 in
theorem appends_hof_step (p : Prog) (fuel : Nat) (ih : AllAppends p fuel) : ∀ n args, Appends (hof p (fuel + 1) n args) := by
  intro n args
  have h_eval := ih.eval
  have h_evalList := ih.evalList
  have h_evalKVs := ih.evalKVs
  have h_callFn := ih.callFn
  have h_hof := ih.hof
  have h_anyEvery := ih.anyEvery
  have h_mapFn := ih.mapFn
  have h_mapKV := ih.mapKV
  have h_foldFn := ih.foldFn
  have h_foldKV := ih.foldKV
  have h_sortFn := ih.sortFn
  have h_insertFn := ih.insertFn
  have h_execBlock := ih.execBlock
  have h_execStmts := ih.execStmts
  have h_assignTo := ih.assignTo
  have h_unsetOne := ih.unsetOne
  have h_unsetList := ih.unsetList
  have h_execIf := ih.execIf
  have h_execWhile := ih.execWhile
  have h_execForKV := ih.execForKV
  have h_execForMulti := ih.execForMulti
  have h_forMultiOne := ih.forMultiOne
  have h_forCGo := ih.forCGo
  have h_execForC := ih.execForC
  have h_exec := ih.exec
  have h_truthy := runM_truthy
  have h_call : ∀ (isLit : Bool) (frame : Frame) (body : List Stmt), Appends (inCall isLit frame (bodyValue (execBlock p fuel body))) :=
    fun isLit frame body => appends_withStack _ _ _ (appends_bodyValue _ (ih.execBlock body))
  have h_sub : ∀ (frame : Frame) (body : List Stmt), Appends (inCall false frame (execBlock p fuel body)) :=
    fun frame body => appends_withStack _ _ _ (ih.execBlock body)
  have h_loopKV : ∀ k v es body, Appends (inNewFrame (execForKV p fuel k v es body)) :=
    fun k v es body => appends_withStack _ _ _ (ih.execForKV k v es body)
  have h_loopMulti : ∀ ks v sofar es body, Appends (inNewFrame (execForMulti p fuel ks v sofar es body)) :=
    fun ks v sofar es body => appends_withStack _ _ _ (ih.execForMulti ks v sofar es body)
  have h_loopC : ∀ init c u body, Appends (inNewFrame (andThen (execStmts p fuel init) (execForC p fuel c u body))) :=
    fun init c u body => appends_withStack _ _ _ (appends_andThen _ _ (ih.execStmts init) (ih.execForC c u body))
  unfold Appends at h_eval h_evalList h_evalKVs h_callFn h_hof h_anyEvery h_mapFn h_mapKV h_foldFn h_foldKV h_sortFn h_insertFn h_execBlock h_execStmts h_assignTo h_unsetOne h_unsetList h_execIf h_execWhile h_execForKV h_execForMulti h_forMultiOne h_forCGo h_execForC h_exec h_call h_sub h_loopKV h_loopMulti h_loopC
  unfold hof
  out_step

set_option maxHeartbeats 4000000 in
theorem appends_anyEvery_step (p : Prog) (fuel : Nat) (ih : AllAppends p fuel) : ∀ b f xs, Appends (anyEvery p (fuel + 1) b f xs) := by
  intro b f xs
  have h_eval := ih.eval
  have h_evalList := ih.evalList
  have h_evalKVs := ih.evalKVs
  have h_callFn := ih.callFn
  have h_hof := ih.hof
  have h_anyEvery := ih.anyEvery
  have h_mapFn := ih.mapFn
  have h_mapKV := ih.mapKV
  have h_foldFn := ih.foldFn
  have h_foldKV := ih.foldKV
  have h_sortFn := ih.sortFn
  have h_insertFn := ih.insertFn
  have h_execBlock := ih.execBlock
  have h_execStmts := ih.execStmts
  have h_assignTo := ih.assignTo
  have h_unsetOne := ih.unsetOne
  have h_unsetList := ih.unsetList
  have h_execIf := ih.execIf
  have h_execWhile := ih.execWhile
  have h_execForKV := ih.execForKV
  have h_execForMulti := ih.execForMulti
  have h_forMultiOne := ih.forMultiOne
  have h_forCGo := ih.forCGo
  have h_execForC := ih.execForC
  have h_exec := ih.exec
  have h_truthy := runM_truthy
  have h_call : ∀ (isLit : Bool) (frame : Frame) (body : List Stmt), Appends (inCall isLit frame (bodyValue (execBlock p fuel body))) :=
    fun isLit frame body => appends_withStack _ _ _ (appends_bodyValue _ (ih.execBlock body))
  have h_sub : ∀ (frame : Frame) (body : List Stmt), Appends (inCall false frame (execBlock p fuel body)) :=
    fun frame body => appends_withStack _ _ _ (ih.execBlock body)
  have h_loopKV : ∀ k v es body, Appends (inNewFrame (execForKV p fuel k v es body)) :=
    fun k v es body => appends_withStack _ _ _ (ih.execForKV k v es body)
  have h_loopMulti : ∀ ks v sofar es body, Appends (inNewFrame (execForMulti p fuel ks v sofar es body)) :=
    fun ks v sofar es body => appends_withStack _ _ _ (ih.execForMulti ks v sofar es body)
  have h_loopC : ∀ init c u body, Appends (inNewFrame (andThen (execStmts p fuel init) (execForC p fuel c u body))) :=
    fun init c u body => appends_withStack _ _ _ (appends_andThen _ _ (ih.execStmts init) (ih.execForC c u body))
  unfold Appends at h_eval h_evalList h_evalKVs h_callFn h_hof h_anyEvery h_mapFn h_mapKV h_foldFn h_foldKV h_sortFn h_insertFn h_execBlock h_execStmts h_assignTo h_unsetOne h_unsetList h_execIf h_execWhile h_execForKV h_execForMulti h_forMultiOne h_forCGo h_execForC h_exec h_call h_sub h_loopKV h_loopMulti h_loopC
  unfold anyEvery
  cases xs <;> out_step

set_option maxHeartbeats 4000000 in
theorem appends_mapFn_step (p : Prog) (fuel : Nat) (ih : AllAppends p fuel) : ∀ f xs, Appends (mapFn p (fuel + 1) f xs) := by
  intro f xs
  have h_eval := ih.eval
  have h_evalList := ih.evalList
  have h_evalKVs := ih.evalKVs
  have h_callFn := ih.callFn
  have h_hof := ih.hof
  have h_anyEvery := ih.anyEvery
  have h_mapFn := ih.mapFn
  have h_mapKV := ih.mapKV
  have h_foldFn := ih.foldFn
  have h_foldKV := ih.foldKV
  have h_sortFn := ih.sortFn
  have h_insertFn := ih.insertFn
  have h_execBlock := ih.execBlock
  have h_execStmts := ih.execStmts
  have h_assignTo := ih.assignTo
  have h_unsetOne := ih.unsetOne
  have h_unsetList := ih.unsetList
  have h_execIf := ih.execIf
  have h_execWhile := ih.execWhile
  have h_execForKV := ih.execForKV
  have h_execForMulti := ih.execForMulti
  have h_forMultiOne := ih.forMultiOne
  have h_forCGo := ih.forCGo
  have h_execForC := ih.execForC
  have h_exec := ih.exec
  have h_truthy := runM_truthy
  have h_call : ∀ (isLit : Bool) (frame : Frame) (body : List Stmt), Appends (inCall isLit frame (bodyValue (execBlock p fuel body))) :=
    fun isLit frame body => appends_withStack _ _ _ (appends_bodyValue _ (ih.execBlock body))
  have h_sub : ∀ (frame : Frame) (body : List Stmt), Appends (inCall false frame (execBlock p fuel body)) :=
    fun frame body => appends_withStack _ _ _ (ih.execBlock body)
  have h_loopKV : ∀ k v es body, Appends (inNewFrame (execForKV p fuel k v es body)) :=
    fun k v es body => appends_withStack _ _ _ (ih.execForKV k v es body)
  have h_loopMulti : ∀ ks v sofar es body, Appends (inNewFrame (execForMulti p fuel ks v sofar es body)) :=
    fun ks v sofar es body => appends_withStack _ _ _ (ih.execForMulti ks v sofar es body)
  have h_loopC : ∀ init c u body, Appends (inNewFrame (andThen (execStmts p fuel init) (execForC p fuel c u body))) :=
    fun init c u body => appends_withStack _ _ _ (appends_andThen _ _ (ih.execStmts init) (ih.execForC c u body))
  unfold Appends at h_eval h_evalList h_evalKVs h_callFn h_hof h_anyEvery h_mapFn h_mapKV h_foldFn h_foldKV h_sortFn h_insertFn h_execBlock h_execStmts h_assignTo h_unsetOne h_unsetList h_execIf h_execWhile h_execForKV h_execForMulti h_forMultiOne h_forCGo h_execForC h_exec h_call h_sub h_loopKV h_loopMulti h_loopC
  unfold mapFn
  cases xs <;> out_step

set_option maxHeartbeats 4000000 in
theorem appends_mapKV_step (p : Prog) (fuel : Nat) (ih : AllAppends p fuel) : ∀ f kvs, Appends (mapKV p (fuel + 1) f kvs) := by
  intro f kvs
  have h_eval := ih.eval
  have h_evalList := ih.evalList
  have h_evalKVs := ih.evalKVs
  have h_callFn := ih.callFn
  have h_hof := ih.hof
  have h_anyEvery := ih.anyEvery
  have h_mapFn := ih.mapFn
  have h_mapKV := ih.mapKV
  have h_foldFn := ih.foldFn
  have h_foldKV := ih.foldKV
  have h_sortFn := ih.sortFn
  have h_insertFn := ih.insertFn
  have h_execBlock := ih.execBlock
  have h_execStmts := ih.execStmts
  have h_assignTo := ih.assignTo
  have h_unsetOne := ih.unsetOne
  have h_unsetList := ih.unsetList
  have h_execIf := ih.execIf
  have h_execWhile := ih.execWhile
  have h_execForKV := ih.execForKV
  have h_execForMulti := ih.execForMulti
  have h_forMultiOne := ih.forMultiOne
  have h_forCGo := ih.forCGo
  have h_execForC := ih.execForC
  have h_exec := ih.exec
  have h_truthy := runM_truthy
  have h_call : ∀ (isLit : Bool) (frame : Frame) (body : List Stmt), Appends (inCall isLit frame (bodyValue (execBlock p fuel body))) :=
    fun isLit frame body => appends_withStack _ _ _ (appends_bodyValue _ (ih.execBlock body))
  have h_sub : ∀ (frame : Frame) (body : List Stmt), Appends (inCall false frame (execBlock p fuel body)) :=
    fun frame body => appends_withStack _ _ _ (ih.execBlock body)
  have h_loopKV : ∀ k v es body, Appends (inNewFrame (execForKV p fuel k v es body)) :=
    fun k v es body => appends_withStack _ _ _ (ih.execForKV k v es body)
  have h_loopMulti : ∀ ks v sofar es body, Appends (inNewFrame (execForMulti p fuel ks v sofar es body)) :=
    fun ks v sofar es body => appends_withStack _ _ _ (ih.execForMulti ks v sofar es body)
  have h_loopC : ∀ init c u body, Appends (inNewFrame (andThen (execStmts p fuel init) (execForC p fuel c u body))) :=
    fun init c u body => appends_withStack _ _ _ (appends_andThen _ _ (ih.execStmts init) (ih.execForC c u body))
  unfold Appends at h_eval h_evalList h_evalKVs h_callFn h_hof h_anyEvery h_mapFn h_mapKV h_foldFn h_foldKV h_sortFn h_insertFn h_execBlock h_execStmts h_assignTo h_unsetOne h_unsetList h_execIf h_execWhile h_execForKV h_execForMulti h_forMultiOne h_forCGo h_execForC h_exec h_call h_sub h_loopKV h_loopMulti h_loopC
  unfold mapKV
  cases kvs <;> out_step

set_option maxHeartbeats 4000000 in
theorem appends_foldFn_step (p : Prog) (fuel : Nat) (ih : AllAppends p fuel) : ∀ f acc xs, Appends (foldFn p (fuel + 1) f acc xs) := by
  intro f acc xs
  have h_eval := ih.eval
  have h_evalList := ih.evalList
  have h_evalKVs := ih.evalKVs
  have h_callFn := ih.callFn
  have h_hof := ih.hof
  have h_anyEvery := ih.anyEvery
  have h_mapFn := ih.mapFn
  have h_mapKV := ih.mapKV
  have h_foldFn := ih.foldFn
  have h_foldKV := ih.foldKV
  have h_sortFn := ih.sortFn
  have h_insertFn := ih.insertFn
  have h_execBlock := ih.execBlock
  have h_execStmts := ih.execStmts
  have h_assignTo := ih.assignTo
  have h_unsetOne := ih.unsetOne
  have h_unsetList := ih.unsetList
  have h_execIf := ih.execIf
  have h_execWhile := ih.execWhile
  have h_execForKV := ih.execForKV
  have h_execForMulti := ih.execForMulti
  have h_forMultiOne := ih.forMultiOne
  have h_forCGo := ih.forCGo
  have h_execForC := ih.execForC
  have h_exec := ih.exec
  have h_truthy := runM_truthy
  have h_call : ∀ (isLit : Bool) (frame : Frame) (body : List Stmt), Appends (inCall isLit frame (bodyValue (execBlock p fuel body))) :=
    fun isLit frame body => appends_withStack _ _ _ (appends_bodyValue _ (ih.execBlock body))
  have h_sub : ∀ (frame : Frame) (body : List Stmt), Appends (inCall false frame (execBlock p fuel body)) :=
    fun frame body => appends_withStack _ _ _ (ih.execBlock body)
  have h_loopKV : ∀ k v es body, Appends (inNewFrame (execForKV p fuel k v es body)) :=
    fun k v es body => appends_withStack _ _ _ (ih.execForKV k v es body)
  have h_loopMulti : ∀ ks v sofar es body, Appends (inNewFrame (execForMulti p fuel ks v sofar es body)) :=
    fun ks v sofar es body => appends_withStack _ _ _ (ih.execForMulti ks v sofar es body)
  have h_loopC : ∀ init c u body, Appends (inNewFrame (andThen (execStmts p fuel init) (execForC p fuel c u body))) :=
    fun init c u body => appends_withStack _ _ _ (appends_andThen _ _ (ih.execStmts init) (ih.execForC c u body))
  unfold Appends at h_eval h_evalList h_evalKVs h_callFn h_hof h_anyEvery h_mapFn h_mapKV h_foldFn h_foldKV h_sortFn h_insertFn h_execBlock h_execStmts h_assignTo h_unsetOne h_unsetList h_execIf h_execWhile h_execForKV h_execForMulti h_forMultiOne h_forCGo h_execForC h_exec h_call h_sub h_loopKV h_loopMulti h_loopC
  unfold foldFn
  cases xs <;> out_step

set_option maxHeartbeats 4000000 in
theorem appends_foldKV_step (p : Prog) (fuel : Nat) (ih : AllAppends p fuel) : ∀ f acc kvs, Appends (foldKV p (fuel + 1) f acc kvs) := by
  intro f acc kvs
  have h_eval := ih.eval
  have h_evalList := ih.evalList
  have h_evalKVs := ih.evalKVs
  have h_callFn := ih.callFn
  have h_hof := ih.hof
  have h_anyEvery := ih.anyEvery
  have h_mapFn := ih.mapFn
  have h_mapKV := ih.mapKV
  have h_foldFn := ih.foldFn
  have h_foldKV := ih.foldKV
  have h_sortFn := ih.sortFn
  have h_insertFn := ih.insertFn
  have h_execBlock := ih.execBlock
  have h_execStmts := ih.execStmts
  have h_assignTo := ih.assignTo
  have h_unsetOne := ih.unsetOne
  have h_unsetList := ih.unsetList
  have h_execIf := ih.execIf
  have h_execWhile := ih.execWhile
  have h_execForKV := ih.execForKV
  have h_execForMulti := ih.execForMulti
  have h_forMultiOne := ih.forMultiOne
  have h_forCGo := ih.forCGo
  have h_execForC := ih.execForC
  have h_exec := ih.exec
  have h_truthy := runM_truthy
  have h_call : ∀ (isLit : Bool) (frame : Frame) (body : List Stmt), Appends (inCall isLit frame (bodyValue (execBlock p fuel body))) :=
    fun isLit frame body => appends_withStack _ _ _ (appends_bodyValue _ (ih.execBlock body))
  have h_sub : ∀ (frame : Frame) (body : List Stmt), Appends (inCall false frame (execBlock p fuel body)) :=
    fun frame body => appends_withStack _ _ _ (ih.execBlock body)
  have h_loopKV : ∀ k v es body, Appends (inNewFrame (execForKV p fuel k v es body)) :=
    fun k v es body => appends_withStack _ _ _ (ih.execForKV k v es body)
  have h_loopMulti : ∀ ks v sofar es body, Appends (inNewFrame (execForMulti p fuel ks v sofar es body)) :=
    fun ks v sofar es body => appends_withStack _ _ _ (ih.execForMulti ks v sofar es body)
  have h_loopC : ∀ init c u body, Appends (inNewFrame (andThen (execStmts p fuel init) (execForC p fuel c u body))) :=
    fun init c u body => appends_withStack _ _ _ (appends_andThen _ _ (ih.execStmts init) (ih.execForC c u body))
  unfold Appends at h_eval h_evalList h_evalKVs h_callFn h_hof h_anyEvery h_mapFn h_mapKV h_foldFn h_foldKV h_sortFn h_insertFn h_execBlock h_execStmts h_assignTo h_unsetOne h_unsetList h_execIf h_execWhile h_execForKV h_execForMulti h_forMultiOne h_forCGo h_execForC h_exec h_call h_sub h_loopKV h_loopMulti h_loopC
  unfold foldKV
  cases kvs <;> out_step

set_option maxHeartbeats 4000000 in
theorem appends_sortFn_step (p : Prog) (fuel : Nat) (ih : AllAppends p fuel) : ∀ f xs, Appends (sortFn p (fuel + 1) f xs) := by
  intro f xs
  have h_eval := ih.eval
  have h_evalList := ih.evalList
  have h_evalKVs := ih.evalKVs
  have h_callFn := ih.callFn
  have h_hof := ih.hof
  have h_anyEvery := ih.anyEvery
  have h_mapFn := ih.mapFn
  have h_mapKV := ih.mapKV
  have h_foldFn := ih.foldFn
  have h_foldKV := ih.foldKV
  have h_sortFn := ih.sortFn
  have h_insertFn := ih.insertFn
  have h_execBlock := ih.execBlock
  have h_execStmts := ih.execStmts
  have h_assignTo := ih.assignTo
  have h_unsetOne := ih.unsetOne
  have h_unsetList := ih.unsetList
  have h_execIf := ih.execIf
  have h_execWhile := ih.execWhile
  have h_execForKV := ih.execForKV
  have h_execForMulti := ih.execForMulti
  have h_forMultiOne := ih.forMultiOne
  have h_forCGo := ih.forCGo
  have h_execForC := ih.execForC
  have h_exec := ih.exec
  have h_truthy := runM_truthy
  have h_call : ∀ (isLit : Bool) (frame : Frame) (body : List Stmt), Appends (inCall isLit frame (bodyValue (execBlock p fuel body))) :=
    fun isLit frame body => appends_withStack _ _ _ (appends_bodyValue _ (ih.execBlock body))
  have h_sub : ∀ (frame : Frame) (body : List Stmt), Appends (inCall false frame (execBlock p fuel body)) :=
    fun frame body => appends_withStack _ _ _ (ih.execBlock body)
  have h_loopKV : ∀ k v es body, Appends (inNewFrame (execForKV p fuel k v es body)) :=
    fun k v es body => appends_withStack _ _ _ (ih.execForKV k v es body)
  have h_loopMulti : ∀ ks v sofar es body, Appends (inNewFrame (execForMulti p fuel ks v sofar es body)) :=
    fun ks v sofar es body => appends_withStack _ _ _ (ih.execForMulti ks v sofar es body)
  have h_loopC : ∀ init c u body, Appends (inNewFrame (andThen (execStmts p fuel init) (execForC p fuel c u body))) :=
    fun init c u body => appends_withStack _ _ _ (appends_andThen _ _ (ih.execStmts init) (ih.execForC c u body))
  unfold Appends at h_eval h_evalList h_evalKVs h_callFn h_hof h_anyEvery h_mapFn h_mapKV h_foldFn h_foldKV h_sortFn h_insertFn h_execBlock h_execStmts h_assignTo h_unsetOne h_unsetList h_execIf h_execWhile h_execForKV h_execForMulti h_forMultiOne h_forCGo h_execForC h_exec h_call h_sub h_loopKV h_loopMulti h_loopC
  unfold sortFn
  cases xs <;> out_step

set_option maxHeartbeats 4000000 in
theorem appends_insertFn_step (p : Prog) (fuel : Nat) (ih : AllAppends p fuel) : ∀ f x ys, Appends (insertFn p (fuel + 1) f x ys) := by
  intro f x ys
  have h_eval := ih.eval
  have h_evalList := ih.evalList
  have h_evalKVs := ih.evalKVs
  have h_callFn := ih.callFn
  have h_hof := ih.hof
  have h_anyEvery := ih.anyEvery
  have h_mapFn := ih.mapFn
  have h_mapKV := ih.mapKV
  have h_foldFn := ih.foldFn
  have h_foldKV := ih.foldKV
  have h_sortFn := ih.sortFn
  have h_insertFn := ih.insertFn
  have h_execBlock := ih.execBlock
  have h_execStmts := ih.execStmts
  have h_assignTo := ih.assignTo
  have h_unsetOne := ih.unsetOne
  have h_unsetList := ih.unsetList
  have h_execIf := ih.execIf
  have h_execWhile := ih.execWhile
  have h_execForKV := ih.execForKV
  have h_execForMulti := ih.execForMulti
  have h_forMultiOne := ih.forMultiOne
  have h_forCGo := ih.forCGo
  have h_execForC := ih.execForC
  have h_exec := ih.exec
  have h_truthy := runM_truthy
  have h_call : ∀ (isLit : Bool) (frame : Frame) (body : List Stmt), Appends (inCall isLit frame (bodyValue (execBlock p fuel body))) :=
    fun isLit frame body => appends_withStack _ _ _ (appends_bodyValue _ (ih.execBlock body))
  have h_sub : ∀ (frame : Frame) (body : List Stmt), Appends (inCall false frame (execBlock p fuel body)) :=
    fun frame body => appends_withStack _ _ _ (ih.execBlock body)
  have h_loopKV : ∀ k v es body, Appends (inNewFrame (execForKV p fuel k v es body)) :=
    fun k v es body => appends_withStack _ _ _ (ih.execForKV k v es body)
  have h_loopMulti : ∀ ks v sofar es body, Appends (inNewFrame (execForMulti p fuel ks v sofar es body)) :=
    fun ks v sofar es body => appends_withStack _ _ _ (ih.execForMulti ks v sofar es body)
  have h_loopC : ∀ init c u body, Appends (inNewFrame (andThen (execStmts p fuel init) (execForC p fuel c u body))) :=
    fun init c u body => appends_withStack _ _ _ (appends_andThen _ _ (ih.execStmts init) (ih.execForC c u body))
  unfold Appends at h_eval h_evalList h_evalKVs h_callFn h_hof h_anyEvery h_mapFn h_mapKV h_foldFn h_foldKV h_sortFn h_insertFn h_execBlock h_execStmts h_assignTo h_unsetOne h_unsetList h_execIf h_execWhile h_execForKV h_execForMulti h_forMultiOne h_forCGo h_execForC h_exec h_call h_sub h_loopKV h_loopMulti h_loopC
  unfold insertFn
  cases ys <;> out_step

set_option maxHeartbeats 4000000 in
theorem appends_execStmts_step (p : Prog) (fuel : Nat) (ih : AllAppends p fuel) : ∀ body, Appends (execStmts p (fuel + 1) body) := by
  intro body
  have h_eval := ih.eval
  have h_evalList := ih.evalList
  have h_evalKVs := ih.evalKVs
  have h_callFn := ih.callFn
  have h_hof := ih.hof
  have h_anyEvery := ih.anyEvery
  have h_mapFn := ih.mapFn
  have h_mapKV := ih.mapKV
  have h_foldFn := ih.foldFn
  have h_foldKV := ih.foldKV
  have h_sortFn := ih.sortFn
  have h_insertFn := ih.insertFn
  have h_execBlock := ih.execBlock
  have h_execStmts := ih.execStmts
  have h_assignTo := ih.assignTo
  have h_unsetOne := ih.unsetOne
  have h_unsetList := ih.unsetList
  have h_execIf := ih.execIf
  have h_execWhile := ih.execWhile
  have h_execForKV := ih.execForKV
  have h_execForMulti := ih.execForMulti
  have h_forMultiOne := ih.forMultiOne
  have h_forCGo := ih.forCGo
  have h_execForC := ih.execForC
  have h_exec := ih.exec
  have h_truthy := runM_truthy
  have h_call : ∀ (isLit : Bool) (frame : Frame) (body : List Stmt), Appends (inCall isLit frame (bodyValue (execBlock p fuel body))) :=
    fun isLit frame body => appends_withStack _ _ _ (appends_bodyValue _ (ih.execBlock body))
  have h_sub : ∀ (frame : Frame) (body : List Stmt), Appends (inCall false frame (execBlock p fuel body)) :=
    fun frame body => appends_withStack _ _ _ (ih.execBlock body)
  have h_loopKV : ∀ k v es body, Appends (inNewFrame (execForKV p fuel k v es body)) :=
    fun k v es body => appends_withStack _ _ _ (ih.execForKV k v es body)
  have h_loopMulti : ∀ ks v sofar es body, Appends (inNewFrame (execForMulti p fuel ks v sofar es body)) :=
    fun ks v sofar es body => appends_withStack _ _ _ (ih.execForMulti ks v sofar es body)
  have h_loopC : ∀ init c u body, Appends (inNewFrame (andThen (execStmts p fuel init) (execForC p fuel c u body))) :=
    fun init c u body => appends_withStack _ _ _ (appends_andThen _ _ (ih.execStmts init) (ih.execForC c u body))
  unfold Appends at h_eval h_evalList h_evalKVs h_callFn h_hof h_anyEvery h_mapFn h_mapKV h_foldFn h_foldKV h_sortFn h_insertFn h_execBlock h_execStmts h_assignTo h_unsetOne h_unsetList h_execIf h_execWhile h_execForKV h_execForMulti h_forMultiOne h_forCGo h_execForC h_exec h_call h_sub h_loopKV h_loopMulti h_loopC
  unfold execStmts
  cases body <;> out_step

set_option maxHeartbeats 4000000 in
theorem appends_assignTo_step (p : Prog) (fuel : Nat) (ih : AllAppends p fuel) : ∀ lhs path v, Appends (assignTo p (fuel + 1) lhs path v) := by
  intro lhs path v
  have h_eval := ih.eval
  have h_evalList := ih.evalList
  have h_evalKVs := ih.evalKVs
  have h_callFn := ih.callFn
  have h_hof := ih.hof
  have h_anyEvery := ih.anyEvery
  have h_mapFn := ih.mapFn
  have h_mapKV := ih.mapKV
  have h_foldFn := ih.foldFn
  have h_foldKV := ih.foldKV
  have h_sortFn := ih.sortFn
  have h_insertFn := ih.insertFn
  have h_execBlock := ih.execBlock
  have h_execStmts := ih.execStmts
  have h_assignTo := ih.assignTo
  have h_unsetOne := ih.unsetOne
  have h_unsetList := ih.unsetList
  have h_execIf := ih.execIf
  have h_execWhile := ih.execWhile
  have h_execForKV := ih.execForKV
  have h_execForMulti := ih.execForMulti
  have h_forMultiOne := ih.forMultiOne
  have h_forCGo := ih.forCGo
  have h_execForC := ih.execForC
  have h_exec := ih.exec
  have h_truthy := runM_truthy
  have h_call : ∀ (isLit : Bool) (frame : Frame) (body : List Stmt), Appends (inCall isLit frame (bodyValue (execBlock p fuel body))) :=
    fun isLit frame body => appends_withStack _ _ _ (appends_bodyValue _ (ih.execBlock body))
  have h_sub : ∀ (frame : Frame) (body : List Stmt), Appends (inCall false frame (execBlock p fuel body)) :=
    fun frame body => appends_withStack _ _ _ (ih.execBlock body)
  have h_loopKV : ∀ k v es body, Appends (inNewFrame (execForKV p fuel k v es body)) :=
    fun k v es body => appends_withStack _ _ _ (ih.execForKV k v es body)
  have h_loopMulti : ∀ ks v sofar es body, Appends (inNewFrame (execForMulti p fuel ks v sofar es body)) :=
    fun ks v sofar es body => appends_withStack _ _ _ (ih.execForMulti ks v sofar es body)
  have h_loopC : ∀ init c u body, Appends (inNewFrame (andThen (execStmts p fuel init) (execForC p fuel c u body))) :=
    fun init c u body => appends_withStack _ _ _ (appends_andThen _ _ (ih.execStmts init) (ih.execForC c u body))
  unfold Appends at h_eval h_evalList h_evalKVs h_callFn h_hof h_anyEvery h_mapFn h_mapKV h_foldFn h_foldKV h_sortFn h_insertFn h_execBlock h_execStmts h_assignTo h_unsetOne h_unsetList h_execIf h_execWhile h_execForKV h_execForMulti h_forMultiOne h_forCGo h_execForC h_exec h_call h_sub h_loopKV h_loopMulti h_loopC
  unfold assignTo
  cases lhs <;> out_step

set_option maxHeartbeats 4000000 in
theorem appends_unsetOne_step (p : Prog) (fuel : Nat) (ih : AllAppends p fuel) : ∀ lhs path, Appends (unsetOne p (fuel + 1) lhs path) := by
  intro lhs path
  have h_eval := ih.eval
  have h_evalList := ih.evalList
  have h_evalKVs := ih.evalKVs
  have h_callFn := ih.callFn
  have h_hof := ih.hof
  have h_anyEvery := ih.anyEvery
  have h_mapFn := ih.mapFn
  have h_mapKV := ih.mapKV
  have h_foldFn := ih.foldFn
  have h_foldKV := ih.foldKV
  have h_sortFn := ih.sortFn
  have h_insertFn := ih.insertFn
  have h_execBlock := ih.execBlock
  have h_execStmts := ih.execStmts
  have h_assignTo := ih.assignTo
  have h_unsetOne := ih.unsetOne
  have h_unsetList := ih.unsetList
  have h_execIf := ih.execIf
  have h_execWhile := ih.execWhile
  have h_execForKV := ih.execForKV
  have h_execForMulti := ih.execForMulti
  have h_forMultiOne := ih.forMultiOne
  have h_forCGo := ih.forCGo
  have h_execForC := ih.execForC
  have h_exec := ih.exec
  have h_truthy := runM_truthy
  have h_call : ∀ (isLit : Bool) (frame : Frame) (body : List Stmt), Appends (inCall isLit frame (bodyValue (execBlock p fuel body))) :=
    fun isLit frame body => appends_withStack _ _ _ (appends_bodyValue _ (ih.execBlock body))
  have h_sub : ∀ (frame : Frame) (body : List Stmt), Appends (inCall false frame (execBlock p fuel body)) :=
    fun frame body => appends_withStack _ _ _ (ih.execBlock body)
  have h_loopKV : ∀ k v es body, Appends (inNewFrame (execForKV p fuel k v es body)) :=
    fun k v es body => appends_withStack _ _ _ (ih.execForKV k v es body)
  have h_loopMulti : ∀ ks v sofar es body, Appends (inNewFrame (execForMulti p fuel ks v sofar es body)) :=
    fun ks v sofar es body => appends_withStack _ _ _ (ih.execForMulti ks v sofar es body)
  have h_loopC : ∀ init c u body, Appends (inNewFrame (andThen (execStmts p fuel init) (execForC p fuel c u body))) :=
    fun init c u body => appends_withStack _ _ _ (appends_andThen _ _ (ih.execStmts init) (ih.execForC c u body))
  unfold Appends at h_eval h_evalList h_evalKVs h_callFn h_hof h_anyEvery h_mapFn h_mapKV h_foldFn h_foldKV h_sortFn h_insertFn h_execBlock h_execStmts h_assignTo h_unsetOne h_unsetList h_execIf h_execWhile h_execForKV h_execForMulti h_forMultiOne h_forCGo h_execForC h_exec h_call h_sub h_loopKV h_loopMulti h_loopC
  unfold unsetOne
  cases lhs <;> out_step

set_option maxHeartbeats 4000000 in
theorem appends_unsetList_step (p : Prog) (fuel : Nat) (ih : AllAppends p fuel) : ∀ ls, Appends (unsetList p (fuel + 1) ls) := by
  intro ls
  have h_eval := ih.eval
  have h_evalList := ih.evalList
  have h_evalKVs := ih.evalKVs
  have h_callFn := ih.callFn
  have h_hof := ih.hof
  have h_anyEvery := ih.anyEvery
  have h_mapFn := ih.mapFn
  have h_mapKV := ih.mapKV
  have h_foldFn := ih.foldFn
  have h_foldKV := ih.foldKV
  have h_sortFn := ih.sortFn
  have h_insertFn := ih.insertFn
  have h_execBlock := ih.execBlock
  have h_execStmts := ih.execStmts
  have h_assignTo := ih.assignTo
  have h_unsetOne := ih.unsetOne
  have h_unsetList := ih.unsetList
  have h_execIf := ih.execIf
  have h_execWhile := ih.execWhile
  have h_execForKV := ih.execForKV
  have h_execForMulti := ih.execForMulti
  have h_forMultiOne := ih.forMultiOne
  have h_forCGo := ih.forCGo
  have h_execForC := ih.execForC
  have h_exec := ih.exec
  have h_truthy := runM_truthy
  have h_call : ∀ (isLit : Bool) (frame : Frame) (body : List Stmt), Appends (inCall isLit frame (bodyValue (execBlock p fuel body))) :=
    fun isLit frame body => appends_withStack _ _ _ (appends_bodyValue _ (ih.execBlock body))
  have h_sub : ∀ (frame : Frame) (body : List Stmt), Appends (inCall false frame (execBlock p fuel body)) :=
    fun frame body => appends_withStack _ _ _ (ih.execBlock body)
  have h_loopKV : ∀ k v es body, Appends (inNewFrame (execForKV p fuel k v es body)) :=
    fun k v es body => appends_withStack _ _ _ (ih.execForKV k v es body)
  have h_loopMulti : ∀ ks v sofar es body, Appends (inNewFrame (execForMulti p fuel ks v sofar es body)) :=
    fun ks v sofar es body => appends_withStack _ _ _ (ih.execForMulti ks v sofar es body)
  have h_loopC : ∀ init c u body, Appends (inNewFrame (andThen (execStmts p fuel init) (execForC p fuel c u body))) :=
    fun init c u body => appends_withStack _ _ _ (appends_andThen _ _ (ih.execStmts init) (ih.execForC c u body))
  unfold Appends at h_eval h_evalList h_evalKVs h_callFn h_hof h_anyEvery h_mapFn h_mapKV h_foldFn h_foldKV h_sortFn h_insertFn h_execBlock h_execStmts h_assignTo h_unsetOne h_unsetList h_execIf h_execWhile h_execForKV h_execForMulti h_forMultiOne h_forCGo h_execForC h_exec h_call h_sub h_loopKV h_loopMulti h_loopC
  unfold unsetList
  cases ls <;> out_step

set_option maxHeartbeats 4000000 in
theorem appends_execIf_step (p : Prog) (fuel : Nat) (ih : AllAppends p fuel) : ∀ bs els, Appends (execIf p (fuel + 1) bs els) := by
  intro bs els
  have h_eval := ih.eval
  have h_evalList := ih.evalList
  have h_evalKVs := ih.evalKVs
  have h_callFn := ih.callFn
  have h_hof := ih.hof
  have h_anyEvery := ih.anyEvery
  have h_mapFn := ih.mapFn
  have h_mapKV := ih.mapKV
  have h_foldFn := ih.foldFn
  have h_foldKV := ih.foldKV
  have h_sortFn := ih.sortFn
  have h_insertFn := ih.insertFn
  have h_execBlock := ih.execBlock
  have h_execStmts := ih.execStmts
  have h_assignTo := ih.assignTo
  have h_unsetOne := ih.unsetOne
  have h_unsetList := ih.unsetList
  have h_execIf := ih.execIf
  have h_execWhile := ih.execWhile
  have h_execForKV := ih.execForKV
  have h_execForMulti := ih.execForMulti
  have h_forMultiOne := ih.forMultiOne
  have h_forCGo := ih.forCGo
  have h_execForC := ih.execForC
  have h_exec := ih.exec
  have h_truthy := runM_truthy
  have h_call : ∀ (isLit : Bool) (frame : Frame) (body : List Stmt), Appends (inCall isLit frame (bodyValue (execBlock p fuel body))) :=
    fun isLit frame body => appends_withStack _ _ _ (appends_bodyValue _ (ih.execBlock body))
  have h_sub : ∀ (frame : Frame) (body : List Stmt), Appends (inCall false frame (execBlock p fuel body)) :=
    fun frame body => appends_withStack _ _ _ (ih.execBlock body)
  have h_loopKV : ∀ k v es body, Appends (inNewFrame (execForKV p fuel k v es body)) :=
    fun k v es body => appends_withStack _ _ _ (ih.execForKV k v es body)
  have h_loopMulti : ∀ ks v sofar es body, Appends (inNewFrame (execForMulti p fuel ks v sofar es body)) :=
    fun ks v sofar es body => appends_withStack _ _ _ (ih.execForMulti ks v sofar es body)
  have h_loopC : ∀ init c u body, Appends (inNewFrame (andThen (execStmts p fuel init) (execForC p fuel c u body))) :=
    fun init c u body => appends_withStack _ _ _ (appends_andThen _ _ (ih.execStmts init) (ih.execForC c u body))
  unfold Appends at h_eval h_evalList h_evalKVs h_callFn h_hof h_anyEvery h_mapFn h_mapKV h_foldFn h_foldKV h_sortFn h_insertFn h_execBlock h_execStmts h_assignTo h_unsetOne h_unsetList h_execIf h_execWhile h_execForKV h_execForMulti h_forMultiOne h_forCGo h_execForC h_exec h_call h_sub h_loopKV h_loopMulti h_loopC
  unfold execIf
  cases bs <;> out_step

set_option maxHeartbeats 4000000 in
theorem appends_execWhile_step (p : Prog) (fuel : Nat) (ih : AllAppends p fuel) : ∀ c body, Appends (execWhile p (fuel + 1) c body) := by
  intro c body
  have h_eval := ih.eval
  have h_evalList := ih.evalList
  have h_evalKVs := ih.evalKVs
  have h_callFn := ih.callFn
  have h_hof := ih.hof
  have h_anyEvery := ih.anyEvery
  have h_mapFn := ih.mapFn
  have h_mapKV := ih.mapKV
  have h_foldFn := ih.foldFn
  have h_foldKV := ih.foldKV
  have h_sortFn := ih.sortFn
  have h_insertFn := ih.insertFn
  have h_execBlock := ih.execBlock
  have h_execStmts := ih.execStmts
  have h_assignTo := ih.assignTo
  have h_unsetOne := ih.unsetOne
  have h_unsetList := ih.unsetList
  have h_execIf := ih.execIf
  have h_execWhile := ih.execWhile
  have h_execForKV := ih.execForKV
  have h_execForMulti := ih.execForMulti
  have h_forMultiOne := ih.forMultiOne
  have h_forCGo := ih.forCGo
  have h_execForC := ih.execForC
  have h_exec := ih.exec
  have h_truthy := runM_truthy
  have h_call : ∀ (isLit : Bool) (frame : Frame) (body : List Stmt), Appends (inCall isLit frame (bodyValue (execBlock p fuel body))) :=
    fun isLit frame body => appends_withStack _ _ _ (appends_bodyValue _ (ih.execBlock body))
  have h_sub : ∀ (frame : Frame) (body : List Stmt), Appends (inCall false frame (execBlock p fuel body)) :=
    fun frame body => appends_withStack _ _ _ (ih.execBlock body)
  have h_loopKV : ∀ k v es body, Appends (inNewFrame (execForKV p fuel k v es body)) :=
    fun k v es body => appends_withStack _ _ _ (ih.execForKV k v es body)
  have h_loopMulti : ∀ ks v sofar es body, Appends (inNewFrame (execForMulti p fuel ks v sofar es body)) :=
    fun ks v sofar es body => appends_withStack _ _ _ (ih.execForMulti ks v sofar es body)
  have h_loopC : ∀ init c u body, Appends (inNewFrame (andThen (execStmts p fuel init) (execForC p fuel c u body))) :=
    fun init c u body => appends_withStack _ _ _ (appends_andThen _ _ (ih.execStmts init) (ih.execForC c u body))
  unfold Appends at h_eval h_evalList h_evalKVs h_callFn h_hof h_anyEvery h_mapFn h_mapKV h_foldFn h_foldKV h_sortFn h_insertFn h_execBlock h_execStmts h_assignTo h_unsetOne h_unsetList h_execIf h_execWhile h_execForKV h_execForMulti h_forMultiOne h_forCGo h_execForC h_exec h_call h_sub h_loopKV h_loopMulti h_loopC
  unfold execWhile
  out_step

set_option maxHeartbeats 4000000 in
theorem appends_execForKV_step (p : Prog) (fuel : Nat) (ih : AllAppends p fuel) : ∀ k v es body, Appends (execForKV p (fuel + 1) k v es body) := by
  intro k v es body
  have h_eval := ih.eval
  have h_evalList := ih.evalList
  have h_evalKVs := ih.evalKVs
  have h_callFn := ih.callFn
  have h_hof := ih.hof
  have h_anyEvery := ih.anyEvery
  have h_mapFn := ih.mapFn
  have h_mapKV := ih.mapKV
  have h_foldFn := ih.foldFn
  have h_foldKV := ih.foldKV
  have h_sortFn := ih.sortFn
  have h_insertFn := ih.insertFn
  have h_execBlock := ih.execBlock
  have h_execStmts := ih.execStmts
  have h_assignTo := ih.assignTo
  have h_unsetOne := ih.unsetOne
  have h_unsetList := ih.unsetList
  have h_execIf := ih.execIf
  have h_execWhile := ih.execWhile
  have h_execForKV := ih.execForKV
  have h_execForMulti := ih.execForMulti
  have h_forMultiOne := ih.forMultiOne
  have h_forCGo := ih.forCGo
  have h_execForC := ih.execForC
  have h_exec := ih.exec
  have h_truthy := runM_truthy
  have h_call : ∀ (isLit : Bool) (frame : Frame) (body : List Stmt), Appends (inCall isLit frame (bodyValue (execBlock p fuel body))) :=
    fun isLit frame body => appends_withStack _ _ _ (appends_bodyValue _ (ih.execBlock body))
  have h_sub : ∀ (frame : Frame) (body : List Stmt), Appends (inCall false frame (execBlock p fuel body)) :=
    fun frame body => appends_withStack _ _ _ (ih.execBlock body)
  have h_loopKV : ∀ k v es body, Appends (inNewFrame (execForKV p fuel k v es body)) :=
    fun k v es body => appends_withStack _ _ _ (ih.execForKV k v es body)
  have h_loopMulti : ∀ ks v sofar es body, Appends (inNewFrame (execForMulti p fuel ks v sofar es body)) :=
    fun ks v sofar es body => appends_withStack _ _ _ (ih.execForMulti ks v sofar es body)
  have h_loopC : ∀ init c u body, Appends (inNewFrame (andThen (execStmts p fuel init) (execForC p fuel c u body))) :=
    fun init c u body => appends_withStack _ _ _ (appends_andThen _ _ (ih.execStmts init) (ih.execForC c u body))
  unfold Appends at h_eval h_evalList h_evalKVs h_callFn h_hof h_anyEvery h_mapFn h_mapKV h_foldFn h_foldKV h_sortFn h_insertFn h_execBlock h_execStmts h_assignTo h_unsetOne h_unsetList h_execIf h_execWhile h_execForKV h_execForMulti h_forMultiOne h_forCGo h_execForC h_exec h_call h_sub h_loopKV h_loopMulti h_loopC
  unfold execForKV
  cases es <;> out_step

set_option maxHeartbeats 4000000 in
theorem appends_execForMulti_step (p : Prog) (fuel : Nat) (ih : AllAppends p fuel) : ∀ ks v sofar es body, Appends (execForMulti p (fuel + 1) ks v sofar es body) := by
  intro ks v sofar es body
  have h_eval := ih.eval
  have h_evalList := ih.evalList
  have h_evalKVs := ih.evalKVs
  have h_callFn := ih.callFn
  have h_hof := ih.hof
  have h_anyEvery := ih.anyEvery
  have h_mapFn := ih.mapFn
  have h_mapKV := ih.mapKV
  have h_foldFn := ih.foldFn
  have h_foldKV := ih.foldKV
  have h_sortFn := ih.sortFn
  have h_insertFn := ih.insertFn
  have h_execBlock := ih.execBlock
  have h_execStmts := ih.execStmts
  have h_assignTo := ih.assignTo
  have h_unsetOne := ih.unsetOne
  have h_unsetList := ih.unsetList
  have h_execIf := ih.execIf
  have h_execWhile := ih.execWhile
  have h_execForKV := ih.execForKV
  have h_execForMulti := ih.execForMulti
  have h_forMultiOne := ih.forMultiOne
  have h_forCGo := ih.forCGo
  have h_execForC := ih.execForC
  have h_exec := ih.exec
  have h_truthy := runM_truthy
  have h_call : ∀ (isLit : Bool) (frame : Frame) (body : List Stmt), Appends (inCall isLit frame (bodyValue (execBlock p fuel body))) :=
    fun isLit frame body => appends_withStack _ _ _ (appends_bodyValue _ (ih.execBlock body))
  have h_sub : ∀ (frame : Frame) (body : List Stmt), Appends (inCall false frame (execBlock p fuel body)) :=
    fun frame body => appends_withStack _ _ _ (ih.execBlock body)
  have h_loopKV : ∀ k v es body, Appends (inNewFrame (execForKV p fuel k v es body)) :=
    fun k v es body => appends_withStack _ _ _ (ih.execForKV k v es body)
  have h_loopMulti : ∀ ks v sofar es body, Appends (inNewFrame (execForMulti p fuel ks v sofar es body)) :=
    fun ks v sofar es body => appends_withStack _ _ _ (ih.execForMulti ks v sofar es body)
  have h_loopC : ∀ init c u body, Appends (inNewFrame (andThen (execStmts p fuel init) (execForC p fuel c u body))) :=
    fun init c u body => appends_withStack _ _ _ (appends_andThen _ _ (ih.execStmts init) (ih.execForC c u body))
  unfold Appends at h_eval h_evalList h_evalKVs h_callFn h_hof h_anyEvery h_mapFn h_mapKV h_foldFn h_foldKV h_sortFn h_insertFn h_execBlock h_execStmts h_assignTo h_unsetOne h_unsetList h_execIf h_execWhile h_execForKV h_execForMulti h_forMultiOne h_forCGo h_execForC h_exec h_call h_sub h_loopKV h_loopMulti h_loopC
  unfold execForMulti
  cases es <;> out_step

set_option maxHeartbeats 4000000 in
theorem appends_forMultiOne_step (p : Prog) (fuel : Nat) (ih : AllAppends p fuel) : ∀ ks v here val body, Appends (forMultiOne p (fuel + 1) ks v here val body) := by
  intro ks v here val body
  have h_eval := ih.eval
  have h_evalList := ih.evalList
  have h_evalKVs := ih.evalKVs
  have h_callFn := ih.callFn
  have h_hof := ih.hof
  have h_anyEvery := ih.anyEvery
  have h_mapFn := ih.mapFn
  have h_mapKV := ih.mapKV
  have h_foldFn := ih.foldFn
  have h_foldKV := ih.foldKV
  have h_sortFn := ih.sortFn
  have h_insertFn := ih.insertFn
  have h_execBlock := ih.execBlock
  have h_execStmts := ih.execStmts
  have h_assignTo := ih.assignTo
  have h_unsetOne := ih.unsetOne
  have h_unsetList := ih.unsetList
  have h_execIf := ih.execIf
  have h_execWhile := ih.execWhile
  have h_execForKV := ih.execForKV
  have h_execForMulti := ih.execForMulti
  have h_forMultiOne := ih.forMultiOne
  have h_forCGo := ih.forCGo
  have h_execForC := ih.execForC
  have h_exec := ih.exec
  have h_truthy := runM_truthy
  have h_call : ∀ (isLit : Bool) (frame : Frame) (body : List Stmt), Appends (inCall isLit frame (bodyValue (execBlock p fuel body))) :=
    fun isLit frame body => appends_withStack _ _ _ (appends_bodyValue _ (ih.execBlock body))
  have h_sub : ∀ (frame : Frame) (body : List Stmt), Appends (inCall false frame (execBlock p fuel body)) :=
    fun frame body => appends_withStack _ _ _ (ih.execBlock body)
  have h_loopKV : ∀ k v es body, Appends (inNewFrame (execForKV p fuel k v es body)) :=
    fun k v es body => appends_withStack _ _ _ (ih.execForKV k v es body)
  have h_loopMulti : ∀ ks v sofar es body, Appends (inNewFrame (execForMulti p fuel ks v sofar es body)) :=
    fun ks v sofar es body => appends_withStack _ _ _ (ih.execForMulti ks v sofar es body)
  have h_loopC : ∀ init c u body, Appends (inNewFrame (andThen (execStmts p fuel init) (execForC p fuel c u body))) :=
    fun init c u body => appends_withStack _ _ _ (appends_andThen _ _ (ih.execStmts init) (ih.execForC c u body))
  unfold Appends at h_eval h_evalList h_evalKVs h_callFn h_hof h_anyEvery h_mapFn h_mapKV h_foldFn h_foldKV h_sortFn h_insertFn h_execBlock h_execStmts h_assignTo h_unsetOne h_unsetList h_execIf h_execWhile h_execForKV h_execForMulti h_forMultiOne h_forCGo h_execForC h_exec h_call h_sub h_loopKV h_loopMulti h_loopC
  unfold forMultiOne
  out_step

set_option maxHeartbeats 4000000 in
theorem appends_forCGo_step (p : Prog) (fuel : Nat) (ih : AllAppends p fuel) : ∀ c, Appends (forCGo p (fuel + 1) c) := by
  intro c
  have h_eval := ih.eval
  have h_evalList := ih.evalList
  have h_evalKVs := ih.evalKVs
  have h_callFn := ih.callFn
  have h_hof := ih.hof
  have h_anyEvery := ih.anyEvery
  have h_mapFn := ih.mapFn
  have h_mapKV := ih.mapKV
  have h_foldFn := ih.foldFn
  have h_foldKV := ih.foldKV
  have h_sortFn := ih.sortFn
  have h_insertFn := ih.insertFn
  have h_execBlock := ih.execBlock
  have h_execStmts := ih.execStmts
  have h_assignTo := ih.assignTo
  have h_unsetOne := ih.unsetOne
  have h_unsetList := ih.unsetList
  have h_execIf := ih.execIf
  have h_execWhile := ih.execWhile
  have h_execForKV := ih.execForKV
  have h_execForMulti := ih.execForMulti
  have h_forMultiOne := ih.forMultiOne
  have h_forCGo := ih.forCGo
  have h_execForC := ih.execForC
  have h_exec := ih.exec
  have h_truthy := runM_truthy
  have h_call : ∀ (isLit : Bool) (frame : Frame) (body : List Stmt), Appends (inCall isLit frame (bodyValue (execBlock p fuel body))) :=
    fun isLit frame body => appends_withStack _ _ _ (appends_bodyValue _ (ih.execBlock body))
  have h_sub : ∀ (frame : Frame) (body : List Stmt), Appends (inCall false frame (execBlock p fuel body)) :=
    fun frame body => appends_withStack _ _ _ (ih.execBlock body)
  have h_loopKV : ∀ k v es body, Appends (inNewFrame (execForKV p fuel k v es body)) :=
    fun k v es body => appends_withStack _ _ _ (ih.execForKV k v es body)
  have h_loopMulti : ∀ ks v sofar es body, Appends (inNewFrame (execForMulti p fuel ks v sofar es body)) :=
    fun ks v sofar es body => appends_withStack _ _ _ (ih.execForMulti ks v sofar es body)
  have h_loopC : ∀ init c u body, Appends (inNewFrame (andThen (execStmts p fuel init) (execForC p fuel c u body))) :=
    fun init c u body => appends_withStack _ _ _ (appends_andThen _ _ (ih.execStmts init) (ih.execForC c u body))
  unfold Appends at h_eval h_evalList h_evalKVs h_callFn h_hof h_anyEvery h_mapFn h_mapKV h_foldFn h_foldKV h_sortFn h_insertFn h_execBlock h_execStmts h_assignTo h_unsetOne h_unsetList h_execIf h_execWhile h_execForKV h_execForMulti h_forMultiOne h_forCGo h_execForC h_exec h_call h_sub h_loopKV h_loopMulti h_loopC
  unfold forCGo
  out_step

set_option maxHeartbeats 4000000 in
theorem appends_execForC_step (p : Prog) (fuel : Nat) (ih : AllAppends p fuel) : ∀ c u body, Appends (execForC p (fuel + 1) c u body) := by
  intro c u body
  have h_eval := ih.eval
  have h_evalList := ih.evalList
  have h_evalKVs := ih.evalKVs
  have h_callFn := ih.callFn
  have h_hof := ih.hof
  have h_anyEvery := ih.anyEvery
  have h_mapFn := ih.mapFn
  have h_mapKV := ih.mapKV
  have h_foldFn := ih.foldFn
  have h_foldKV := ih.foldKV
  have h_sortFn := ih.sortFn
  have h_insertFn := ih.insertFn
  have h_execBlock := ih.execBlock
  have h_execStmts := ih.execStmts
  have h_assignTo := ih.assignTo
  have h_unsetOne := ih.unsetOne
  have h_unsetList := ih.unsetList
  have h_execIf := ih.execIf
  have h_execWhile := ih.execWhile
  have h_execForKV := ih.execForKV
  have h_execForMulti := ih.execForMulti
  have h_forMultiOne := ih.forMultiOne
  have h_forCGo := ih.forCGo
  have h_execForC := ih.execForC
  have h_exec := ih.exec
  have h_truthy := runM_truthy
  have h_call : ∀ (isLit : Bool) (frame : Frame) (body : List Stmt), Appends (inCall isLit frame (bodyValue (execBlock p fuel body))) :=
    fun isLit frame body => appends_withStack _ _ _ (appends_bodyValue _ (ih.execBlock body))
  have h_sub : ∀ (frame : Frame) (body : List Stmt), Appends (inCall false frame (execBlock p fuel body)) :=
    fun frame body => appends_withStack _ _ _ (ih.execBlock body)
  have h_loopKV : ∀ k v es body, Appends (inNewFrame (execForKV p fuel k v es body)) :=
    fun k v es body => appends_withStack _ _ _ (ih.execForKV k v es body)
  have h_loopMulti : ∀ ks v sofar es body, Appends (inNewFrame (execForMulti p fuel ks v sofar es body)) :=
    fun ks v sofar es body => appends_withStack _ _ _ (ih.execForMulti ks v sofar es body)
  have h_loopC : ∀ init c u body, Appends (inNewFrame (andThen (execStmts p fuel init) (execForC p fuel c u body))) :=
    fun init c u body => appends_withStack _ _ _ (appends_andThen _ _ (ih.execStmts init) (ih.execForC c u body))
  unfold Appends at h_eval h_evalList h_evalKVs h_callFn h_hof h_anyEvery h_mapFn h_mapKV h_foldFn h_foldKV h_sortFn h_insertFn h_execBlock h_execStmts h_assignTo h_unsetOne h_unsetList h_execIf h_execWhile h_execForKV h_execForMulti h_forMultiOne h_forCGo h_execForC h_exec h_call h_sub h_loopKV h_loopMulti h_loopC
  unfold execForC
  out_step

set_option maxHeartbeats 4000000 in
theorem appends_exec_step (p : Prog) (fuel : Nat) (ih : AllAppends p fuel) : ∀ st, Appends (exec p (fuel + 1) st) := by
  intro st
  have h_eval := ih.eval
  have h_evalList := ih.evalList
  have h_evalKVs := ih.evalKVs
  have h_callFn := ih.callFn
  have h_hof := ih.hof
  have h_anyEvery := ih.anyEvery
  have h_mapFn := ih.mapFn
  have h_mapKV := ih.mapKV
  have h_foldFn := ih.foldFn
  have h_foldKV := ih.foldKV
  have h_sortFn := ih.sortFn
  have h_insertFn := ih.insertFn
  have h_execBlock := ih.execBlock
  have h_execStmts := ih.execStmts
  have h_assignTo := ih.assignTo
  have h_unsetOne := ih.unsetOne
  have h_unsetList := ih.unsetList
  have h_execIf := ih.execIf
  have h_execWhile := ih.execWhile
  have h_execForKV := ih.execForKV
  have h_execForMulti := ih.execForMulti
  have h_forMultiOne := ih.forMultiOne
  have h_forCGo := ih.forCGo
  have h_execForC := ih.execForC
  have h_exec := ih.exec
  have h_truthy := runM_truthy
  have h_call : ∀ (isLit : Bool) (frame : Frame) (body : List Stmt), Appends (inCall isLit frame (bodyValue (execBlock p fuel body))) :=
    fun isLit frame body => appends_withStack _ _ _ (appends_bodyValue _ (ih.execBlock body))
  have h_sub : ∀ (frame : Frame) (body : List Stmt), Appends (inCall false frame (execBlock p fuel body)) :=
    fun frame body => appends_withStack _ _ _ (ih.execBlock body)
  have h_loopKV : ∀ k v es body, Appends (inNewFrame (execForKV p fuel k v es body)) :=
    fun k v es body => appends_withStack _ _ _ (ih.execForKV k v es body)
  have h_loopMulti : ∀ ks v sofar es body, Appends (inNewFrame (execForMulti p fuel ks v sofar es body)) :=
    fun ks v sofar es body => appends_withStack _ _ _ (ih.execForMulti ks v sofar es body)
  have h_loopC : ∀ init c u body, Appends (inNewFrame (andThen (execStmts p fuel init) (execForC p fuel c u body))) :=
    fun init c u body => appends_withStack _ _ _ (appends_andThen _ _ (ih.execStmts init) (ih.execForC c u body))
  unfold Appends at h_eval h_evalList h_evalKVs h_callFn h_hof h_anyEvery h_mapFn h_mapKV h_foldFn h_foldKV h_sortFn h_insertFn h_execBlock h_execStmts h_assignTo h_unsetOne h_unsetList h_execIf h_execWhile h_execForKV h_execForMulti h_forMultiOne h_forCGo h_execForC h_exec h_call h_sub h_loopKV h_loopMulti h_loopC
  unfold exec
  cases st <;> out_step

theorem appends_execBlock_step (p : Prog) (fuel : Nat) (ih : AllAppends p fuel) : ∀ body, Appends (execBlock p (fuel + 1) body) := by
  intro body
  unfold execBlock
  exact appends_withStack _ _ _ (ih.execStmts body)

theorem allAppends_zero (p : Prog) : AllAppends p 0 := by
  constructor <;> intros <;> first
    | (unfold eval; exact appends_failM _)
    | (unfold evalList; exact appends_failM _)
    | (unfold evalKVs; exact appends_failM _)
    | (unfold callFn; exact appends_failM _)
    | (unfold hof; exact appends_failM _)
    | (unfold anyEvery; exact appends_failM _)
    | (unfold mapFn; exact appends_failM _)
    | (unfold mapKV; exact appends_failM _)
    | (unfold foldFn; exact appends_failM _)
    | (unfold foldKV; exact appends_failM _)
    | (unfold sortFn; exact appends_failM _)
    | (unfold insertFn; exact appends_failM _)
    | (unfold execBlock; exact appends_failM _)
    | (unfold execStmts; exact appends_failM _)
    | (unfold assignTo; exact appends_failM _)
    | (unfold unsetOne; exact appends_failM _)
    | (unfold unsetList; exact appends_failM _)
    | (unfold execIf; exact appends_failM _)
    | (unfold execWhile; exact appends_failM _)
    | (unfold execForKV; exact appends_failM _)
    | (unfold execForMulti; exact appends_failM _)
    | (unfold forMultiOne; exact appends_failM _)
    | (unfold forCGo; exact appends_failM _)
    | (unfold execForC; exact appends_failM _)
    | (unfold exec; exact appends_failM _)

/-- THE INDUCTION: at every fuel, every function of the interpreter only appends to the output. -/
theorem allAppends (p : Prog) : ∀ fuel, AllAppends p fuel
  | 0 => allAppends_zero p
  | fuel + 1 =>
    have ih := allAppends p fuel
    { eval := appends_eval_step p fuel ih,
      evalList := appends_evalList_step p fuel ih,
      evalKVs := appends_evalKVs_step p fuel ih,
      callFn := appends_callFn_step p fuel ih,
      hof := appends_hof_step p fuel ih,
      anyEvery := appends_anyEvery_step p fuel ih,
      mapFn := appends_mapFn_step p fuel ih,
      mapKV := appends_mapKV_step p fuel ih,
      foldFn := appends_foldFn_step p fuel ih,
      foldKV := appends_foldKV_step p fuel ih,
      sortFn := appends_sortFn_step p fuel ih,
      insertFn := appends_insertFn_step p fuel ih,
      execBlock := appends_execBlock_step p fuel ih,
      execStmts := appends_execStmts_step p fuel ih,
      assignTo := appends_assignTo_step p fuel ih,
      unsetOne := appends_unsetOne_step p fuel ih,
      unsetList := appends_unsetList_step p fuel ih,
      execIf := appends_execIf_step p fuel ih,
      execWhile := appends_execWhile_step p fuel ih,
      execForKV := appends_execForKV_step p fuel ih,
      execForMulti := appends_execForMulti_step p fuel ih,
      forMultiOne := appends_forMultiOne_step p fuel ih,
      forCGo := appends_forCGo_step p fuel ih,
      execForC := appends_execForC_step p fuel ih,
      exec := appends_exec_step p fuel ih }

end DSL
end Miller
