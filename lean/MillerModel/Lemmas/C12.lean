import MillerModel.Model.Verbs.Restructure
set_option linter.unusedSimpArgs false
namespace Miller
namespace Lemmas.C12
open Verbs


theorem foldl_remove (fields : List Bytes) (r : Rec) :
    fields.foldl remove r = r.filter (fun p => !fields.contains p.1) := by
  induction fields generalizing r with
  | nil => exact (List.filter_eq_self.mpr (by simp)).symm
  | cons f fs ih =>
    simp only [List.foldl_cons, ih, remove, List.filter_filter]
    congr 1
    funext p
    simp only [List.contains_cons, Bool.not_or]
    cases h1 : (p.1 == f) <;> cases h2 : fs.contains p.1 <;> simp [bne, h1, h2]

/-- cut -f F and cut -x -f F split every record into complementary parts. -/
theorem cut_complement (fields : List Bytes) (r : Rec) :
    List.Perm (cutInclude fields r ++ cutExclude fields r) r ∧
    List.Sublist (cutInclude fields r) r ∧ List.Sublist (cutExclude fields r) r := by
  unfold cutInclude cutExclude
  rw [foldl_remove]
  exact ⟨List.filter_append_perm _ r, List.filter_sublist, List.filter_sublist⟩

theorem rename_self (r : Rec) (a : Bytes) : rename r a a = r := by
  unfold rename
  cases get r a <;> simp

theorem not_has_iff (r : Rec) (k : Bytes) : has r k = false ↔ ∀ p ∈ r, (p.1 == k) = false := by
  unfold has; simp [List.any_eq_false]

theorem get_isSome_of_has (r : Rec) (k : Bytes) (h : has r k = true) : ∃ v, Verbs.get r k = some v := by
  unfold Verbs.get has at *
  obtain ⟨p, hp, hk⟩ := List.any_eq_true.mp h
  cases hf : r.find? (·.1 == k) with
  | none => exact absurd hk (by simpa using (List.find?_eq_none.mp hf) p hp)
  | some q => exact ⟨q.2, rfl⟩

theorem has_of_get (r : Rec) (k v : Bytes) (h : Verbs.get r k = some v) : has r k = true := by
  unfold Verbs.get at h
  cases hf : r.find? (·.1 == k) with
  | none => simp [hf] at h
  | some q =>
    unfold has
    have hq := List.find?_some hf
    exact List.any_eq_true.mpr ⟨q, List.mem_of_find?_eq_some hf, hq⟩

/-- rename a,b then b,a is the identity when `b` is new (whether or not `a` is present). -/
theorem rename_inverse (r : Rec) (a b : Bytes) (hb : has r b = false) (hab : a ≠ b) :
    rename (rename r a b) b a = r := by
  have hne : (a == b) = false := by simpa using hab
  have hne' : (b == a) = false := by simpa using fun h => hab h.symm
  have hgb : Verbs.get r b = none := by
    cases h : Verbs.get r b with
    | none => rfl
    | some v => rw [has_of_get r b v h] at hb; exact absurd hb (by simp)
  cases hga : Verbs.get r a with
  | none => simp [rename, hga, hgb]
  | some v =>
    have h1 : rename r a b = r.map fun p => if p.1 == a then (b, p.2) else p := by
      simp [rename, hga, hne, hb]
    rw [h1]
    have hmem := (not_has_iff r b).mp hb
    -- in the renamed record: `a` is gone, `b` is present
    have hnoa : has (r.map fun p => if p.1 == a then (b, p.2) else p) a = false := by
      rw [not_has_iff]
      intro q hq
      obtain ⟨p, hp, rfl⟩ := List.mem_map.mp hq
      by_cases hpa : (p.1 == a) = true
      · simp [hpa, hne']
      · simp [hpa]
    have hhasb : has (r.map fun p => if p.1 == a then (b, p.2) else p) b = true := by
      have ha := has_of_get r a v hga
      unfold has at ha ⊢
      obtain ⟨p, hp, hk⟩ := List.any_eq_true.mp ha
      exact List.any_eq_true.mpr ⟨_, List.mem_map.mpr ⟨p, hp, rfl⟩, by simp [hk]⟩
    obtain ⟨w, hw⟩ := get_isSome_of_has _ b hhasb
    simp only [rename, hw, hne', Bool.false_eq_true, if_false, hnoa, List.map_map]
    conv => rhs; rw [← List.map_id r]
    apply List.map_congr_left
    intro p hp
    by_cases hpa : (p.1 == a) = true
    · have : p.1 = a := by simpa using hpa
      simp [Function.comp, hpa, ← this]
    · have hpb := hmem p hp
      simp [Function.comp, hpa, hpb]

/-- Fields other than the two named ones are untouched by `rename`: same value. -/
theorem rename_bystander (r : Rec) (a b k : Bytes) (hka : k ≠ a) (hkb : k ≠ b) :
    Verbs.get (rename r a b) k = Verbs.get r k := by
  have e1 : (a == k) = false := by simpa using fun h => hka h.symm
  have e2 : (b == k) = false := by simpa using fun h => hkb h.symm
  have findMap : ∀ (l : Rec) (f : Bytes × Bytes → Bytes × Bytes),
      (∀ p, (p.1 == k) = true → f p = p) → (∀ p, (p.1 == k) = false → ((f p).1 == k) = false) →
      (l.map f).find? (·.1 == k) = l.find? (·.1 == k) := by
    intro l f h1 h2
    induction l with
    | nil => rfl
    | cons p rest ih =>
      simp only [List.map_cons, List.find?_cons]
      cases hp : (p.1 == k) with
      | true => rw [h1 p hp, hp]
      | false => rw [h2 p hp]; exact ih
  unfold rename
  cases hga : Verbs.get r a with
  | none => rfl
  | some v =>
    simp only
    by_cases hab : (a == b) = true
    · simp [hab]
    · simp only [hab, Bool.false_eq_true, if_false]
      by_cases hhb : has r b = true
      · simp only [hhb, if_true]
        unfold Verbs.get remove
        rw [List.find?_filter]
        have : ∀ l : Rec, l.find? (fun p => decide ((p.1 != a) = true ∧ (p.1 == k) = true)) = l.find? (·.1 == k) := by
          intro l; congr 1; funext p
          cases hp : (p.1 == k) with
          | false => simp
          | true =>
            have : p.1 = k := by simpa using hp
            simp [bne, this]; exact hka
        rw [this, findMap]
        · intro p hp
          have : p.1 = k := by simpa using hp
          have : (p.1 == b) = false := by rw [this]; simpa using hkb
          simp [this]
        · intro p hp
          by_cases hpb : (p.1 == b) = true
          · simp [hpb, e2]
          · simp [hpb, hp]
      · simp only [hhb, Bool.false_eq_true, if_false]
        unfold Verbs.get
        rw [findMap]
        · intro p hp
          have : p.1 = k := by simpa using hp
          have : (p.1 == a) = false := by rw [this]; simpa using hka
          simp [this]
        · intro p hp
          by_cases hpa : (p.1 == a) = true
          · simp [hpa, e2]
          · simp [hpa, hp]



/-- Union of all field names in first-seen order. -/
def unionKeysFrom (seen : List Bytes) (xs : List Rec) : List Bytes := xs.foldl (fun s r => r.keys.foldl addNew s) seen

theorem unsparsify_runFrom (fill : Bytes) (seen : List Bytes) (acc rest : List Rec) :
    (unsparsify fill).runFrom (seen, acc) rest
      = (acc ++ rest).map (fun r => (unionKeysFrom seen rest).map fun k => (k, (Verbs.get r k).getD fill)) := by
  induction rest generalizing seen acc with
  | nil => simp [Machine.runFrom, unsparsify, unionKeysFrom]
  | cons r rest ih =>
    simp only [Machine.runFrom, unsparsify, List.nil_append] at ih ⊢
    rw [ih]
    simp [unionKeysFrom]

/-- unsparsify: every output record has exactly the union of all field names, in first-seen
order; one output per input; a missing field gets the filler. -/
theorem unsparsify_spec (fill : Bytes) (xs : List Rec) :
    (unsparsify fill).run xs
      = xs.map (fun r => (unionKeysFrom [] xs).map fun k => (k, (Verbs.get r k).getD fill)) := by
  have := unsparsify_runFrom fill [] [] xs
  simpa [Machine.run, unsparsify] using this

theorem unsparsify_rectangular (fill : Bytes) (xs : List Rec) :
    ∀ out ∈ (unsparsify fill).run xs, out.keys = unionKeysFrom [] xs := by
  intro out hout
  rw [unsparsify_spec] at hout
  obtain ⟨r, _, rfl⟩ := List.mem_map.mp hout
  simp only [Rec.keys, List.map_map]
  conv => rhs; rw [← List.map_id (unionKeysFrom [] xs)]
  apply List.map_congr_left
  intro k _; rfl

/-- insertion sort is a permutation -/
theorem insertSorted_perm (le : Bytes → Bytes → Bool) (p : Bytes × Bytes) (l : Rec) :
    List.Perm (insertSorted le p l) (p :: l) := by
  induction l with
  | nil => exact List.Perm.refl _
  | cons q rest ih =>
    unfold insertSorted
    split
    · exact List.Perm.refl _
    · exact (List.Perm.cons q ih).trans (List.Perm.swap p q rest)

theorem sortWithinRecords_perm (rev : Bool) (r : Rec) : List.Perm (sortWithinRecords rev r) r := by
  unfold sortWithinRecords
  have : ∀ (le : Bytes → Bytes → Bool) (l acc : Rec),
      List.Perm (l.foldl (fun acc p => insertSorted le p acc) acc) (l ++ acc) := by
    intro le l
    induction l with
    | nil => intro acc; exact List.Perm.refl _
    | cons p rest ih =>
      intro acc
      simp only [List.foldl_cons, List.cons_append]
      exact (ih _).trans ((List.Perm.append_left rest (insertSorted_perm le p acc)).trans List.perm_middle)
  simpa using this _ r []


end Lemmas.C12
end Miller
