/-
Lemmas for C16: the day-counting calendar and its inverse.
-/
import MillerModel.Model.Time
namespace Miller
namespace Lemmas.C16
open Time

theorem yearLen_ge (y : Nat) : 365 ≤ yearLen y ∧ yearLen y ≤ 366 := by unfold yearLen; split <;> omega

theorem daysBeforeYear_succ (y : Nat) (h : 1 ≤ y) : daysBeforeYear (y + 1) = daysBeforeYear y + yearLen y := by
  cases y with
  | zero => omega
  | succ k => rfl

theorem daysBeforeMonth_succ (y m : Nat) (h : 1 ≤ m) : daysBeforeMonth y (m + 1) = daysBeforeMonth y m + monthLen y m := by
  cases m with
  | zero => omega
  | succ k => rfl

theorem yearFrom_spec (fuel y n : Nat) (hy : 1 ≤ y) (hf : n < fuel * 365) :
    daysBeforeYear (yearFrom fuel y n).1 + (yearFrom fuel y n).2 = daysBeforeYear y + n ∧
    (yearFrom fuel y n).2 < yearLen (yearFrom fuel y n).1 ∧ y ≤ (yearFrom fuel y n).1 := by
  induction fuel generalizing y n with
  | zero => omega
  | succ fuel ih =>
    unfold yearFrom
    by_cases h : n < yearLen y
    · simp [h]
    · simp only [h, if_false]
      have hl := yearLen_ge y
      have := ih (y + 1) (n - yearLen y) (by omega) (by omega)
      rw [daysBeforeYear_succ y hy] at this
      omega

theorem daysBeforeMonth_13 (y : Nat) : daysBeforeMonth y 13 = yearLen y := by
  unfold yearLen
  simp only [daysBeforeMonth, monthLen]
  cases isLeap y <;> rfl

theorem monthFrom_spec (y fuel m r : Nat) (hm : 1 ≤ m) (hf : m + fuel = 13)
    (hr : daysBeforeMonth y m + r < yearLen y) :
    daysBeforeMonth y (monthFrom y fuel m r).1 + (monthFrom y fuel m r).2 = daysBeforeMonth y m + r ∧
    (monthFrom y fuel m r).2 < monthLen y (monthFrom y fuel m r).1 ∧
    m ≤ (monthFrom y fuel m r).1 ∧ (monthFrom y fuel m r).1 ≤ 12 := by
  induction fuel generalizing m r with
  | zero =>
    have : m = 13 := by omega
    subst this
    rw [daysBeforeMonth_13] at hr
    omega
  | succ fuel ih =>
    unfold monthFrom
    by_cases h : r < monthLen y m
    · simp [h]
      omega
    · simp only [h, if_false]
      have hs := daysBeforeMonth_succ y m hm
      have := ih (m + 1) (r - monthLen y m) (by omega) (by omega) (by omega)
      omega

/-- The civil date of a day number is a valid date, and counting its days gives the number back. -/
theorem civil_roundtrip (n : Nat) :
    let c := civilFromDays n
    daysFromCivil c.1 c.2.1 c.2.2 = n ∧ 1 ≤ c.1 ∧ 1 ≤ c.2.1 ∧ c.2.1 ≤ 12 ∧ 1 ≤ c.2.2 ∧ c.2.2 ≤ monthLen c.1 c.2.1 := by
  simp only [civilFromDays]
  have hy := yearFrom_spec (n / 365 + 1) 1 n (by omega) (by omega)
  generalize yearFrom (n / 365 + 1) 1 n = yr at hy
  obtain ⟨y, r⟩ := yr
  simp only at hy ⊢
  have hm := monthFrom_spec y 12 1 r (by omega) (by omega) (by simp [daysBeforeMonth]; omega)
  generalize monthFrom y 12 1 r = md at hm
  obtain ⟨m, d⟩ := md
  simp only at hm ⊢
  have h1 : daysBeforeYear 1 = 0 := rfl
  have h2 : daysBeforeMonth y 1 = 0 := rfl
  unfold daysFromCivil
  omega

end Lemmas.C16
end Miller

namespace Miller
namespace Lemmas.C16
open Time

def shift (acc : Nat) (n : Nat) : Nat := if n < 10 then acc * 10 + n else shift acc (n / 10) * 10 + n % 10
termination_by n
decreasing_by omega

theorem shift_zero (n : Nat) : shift 0 n = n := by
  induction n using Nat.strongRecOn with
  | _ n ih =>
    unfold shift
    by_cases h : n < 10
    · simp [h]
    · simp only [h, if_false]
      rw [ih (n / 10) (by omega)]
      omega

theorem scan_natText (n : Nat) : ∀ (acc : Nat) (seen : Bool) (tail : Bytes),
    scanNat (natText n ++ tail) acc seen = scanNat tail (shift acc n) true := by
  induction n using Nat.strongRecOn with
  | _ n ih =>
    intro acc seen tail
    unfold natText shift
    by_cases h : n < 10
    · simp only [h, if_true, List.cons_append, List.nil_append, scanNat, digit]
      have : 48 ≤ 48 + n % 10 ∧ 48 + n % 10 ≤ 57 := by omega
      simp only [this, and_self, if_true]
      congr 1
      omega
    · simp only [h, if_false, List.append_assoc, List.cons_append, List.nil_append]
      rw [ih (n / 10) (by omega)]
      simp only [scanNat, digit]
      have : 48 ≤ 48 + n % 10 ∧ 48 + n % 10 ≤ 57 := by omega
      simp only [this, and_self, if_true]
      congr 1
      omega

theorem natText_head (n : Nat) : ∃ c cs, natText n = c :: cs ∧ 48 ≤ c ∧ c ≤ 57 := by
  induction n using Nat.strongRecOn with
  | _ n ih =>
    unfold natText
    by_cases h : n < 10
    · simp only [h, if_true, digit]
      exact ⟨_, _, rfl, by omega, by omega⟩
    · simp only [h, if_false]
      obtain ⟨c, cs, hc, h1, h2⟩ := ih (n / 10) (by omega)
      rw [hc]
      exact ⟨c, cs ++ [digit n], rfl, h1, h2⟩

def unitMul (u : Nat) : Option Nat :=
  if u == 100 then some 86400 else if u == 104 then some 3600 else if u == 109 then some 60 else if u == 115 then some 1 else none

theorem unit_not_digit (unit k : Nat) (hu : unitMul unit = some k) : ¬ (48 ≤ unit ∧ unit ≤ 57) := by
  unfold unitMul at hu
  intro hd
  by_cases h1 : unit = 100 <;> by_cases h2 : unit = 104 <;> by_cases h3 : unit = 109 <;> by_cases h4 : unit = 115 <;> simp_all <;> omega

theorem scan_pad2 (n acc : Nat) (seen : Bool) (tail : Bytes) (hn : n < 100) :
    scanNat (pad2 n ++ tail) acc seen = scanNat tail (acc * 100 + n) true := by
  simp only [pad2, List.cons_append, List.nil_append, scanNat, digit]
  have : 48 ≤ 48 + n / 10 % 10 ∧ 48 + n / 10 % 10 ≤ 57 ∧ 48 ≤ 48 + n % 10 ∧ 48 + n % 10 ≤ 57 := by omega
  simp only [this, and_self, if_true]
  congr 1
  omega

theorem group_of_scan (fuel unit k acc n : Nat) (txt tail : Bytes) (hne : txt.isEmpty = false)
    (hs : scanNat (txt ++ unit :: tail) 0 false = scanNat (unit :: tail) n true)
    (hu : unitMul unit = some k) :
    dhmsGroups (fuel + 1) (txt ++ unit :: tail) acc = dhmsGroups fuel tail (acc + n * k) := by
  have hnd := unit_not_digit unit k hu
  have hne' : (txt ++ unit :: tail).isEmpty = false := by
    cases txt with
    | nil => simp at hne
    | cons c cs => rfl
  conv => lhs; rw [dhmsGroups]
  simp only [hne', Bool.false_eq_true, if_false]
  rw [hs]
  simp only [scanNat, hnd, if_false, if_true]
  unfold unitMul at hu
  simp only [hu]

theorem group_natText (fuel n unit k acc : Nat) (tail : Bytes) (hu : unitMul unit = some k) :
    dhmsGroups (fuel + 1) (natText n ++ unit :: tail) acc = dhmsGroups fuel tail (acc + n * k) := by
  obtain ⟨c, cs, hc, _, _⟩ := natText_head n
  apply group_of_scan fuel unit k acc n (natText n) tail (by rw [hc]; rfl) _ hu
  rw [scan_natText, shift_zero]

theorem group_pad2 (fuel n unit k acc : Nat) (tail : Bytes) (hn : n < 100) (hu : unitMul unit = some k) :
    dhmsGroups (fuel + 1) (pad2 n ++ unit :: tail) acc = dhmsGroups fuel tail (acc + n * k) := by
  apply group_of_scan fuel unit k acc n (pad2 n) tail rfl _ hu
  rw [scan_pad2 n 0 false _ hn]
  simp

theorem groups_end (fuel acc : Nat) : dhmsGroups (fuel + 1) [] acc = some acc := by
  unfold dhmsGroups; simp

theorem groups_of_abs (u : Nat) :
    dhmsGroups ((sec2dhms (u : Int)).length + 1) (sec2dhms (u : Int)) 0 = some u := by
  have hnn : ¬ ((u : Int) < 0) := by omega
  have habs : (u : Int).natAbs = u := Int.natAbs_natCast u
  have hd : unitMul 100 = some 86400 := rfl
  have hh : unitMul 104 = some 3600 := rfl
  have hm : unitMul 109 = some 60 := rfl
  have hs : unitMul 115 = some 1 := rfl
  unfold sec2dhms
  simp only [habs, hnn, if_false, List.nil_append]
  by_cases c1 : (u / 86400 != 0) = true
  · simp only [c1, if_true]
    obtain ⟨c, cs, hc, _, _⟩ := natText_head (u / 86400)
    generalize hL : (natText (u / 86400) ++ [100] ++ pad2 (u / 3600 % 24) ++ [104] ++ pad2 (u / 60 % 60) ++ [109] ++ pad2 (u % 60) ++ [115]).length = L
    have hLge : 4 ≤ L := by rw [← hL, hc]; simp [pad2]
    obtain ⟨f, rfl⟩ : ∃ f, L = f + 4 := ⟨L - 4, by omega⟩
    simp only [List.append_assoc, List.cons_append, List.nil_append]
    rw [group_natText (f + 4) _ 100 86400 0 _ hd, group_pad2 (f + 3) _ 104 3600 _ _ (by omega) hh,
      group_pad2 (f + 2) _ 109 60 _ _ (by omega) hm, group_pad2 (f + 1) _ 115 1 _ _ (by omega) hs, groups_end]
    simp only [Option.some.injEq]; omega
  · simp only [c1, Bool.false_eq_true, if_false]
    have d0 : u / 86400 = 0 := by simpa using c1
    by_cases c2 : (u / 3600 % 24 != 0) = true
    · simp only [c2, if_true]
      obtain ⟨c, cs, hc, _, _⟩ := natText_head (u / 3600 % 24)
      generalize hL : (natText (u / 3600 % 24) ++ [104] ++ pad2 (u / 60 % 60) ++ [109] ++ pad2 (u % 60) ++ [115]).length = L
      have hLge : 3 ≤ L := by rw [← hL, hc]; simp [pad2]
      obtain ⟨f, rfl⟩ : ∃ f, L = f + 3 := ⟨L - 3, by omega⟩
      simp only [List.append_assoc, List.cons_append, List.nil_append]
      rw [group_natText (f + 3) _ 104 3600 0 _ hh, group_pad2 (f + 2) _ 109 60 _ _ (by omega) hm,
        group_pad2 (f + 1) _ 115 1 _ _ (by omega) hs, groups_end]
      simp only [Option.some.injEq]; omega
    · simp only [c2, Bool.false_eq_true, if_false]
      have h0 : u / 3600 % 24 = 0 := by simpa using c2
      by_cases c3 : (u / 60 % 60 != 0) = true
      · simp only [c3, if_true]
        obtain ⟨c, cs, hc, _, _⟩ := natText_head (u / 60 % 60)
        generalize hL : (natText (u / 60 % 60) ++ [109] ++ pad2 (u % 60) ++ [115]).length = L
        have hLge : 2 ≤ L := by rw [← hL, hc]; simp [pad2]
        obtain ⟨f, rfl⟩ : ∃ f, L = f + 2 := ⟨L - 2, by omega⟩
        simp only [List.append_assoc, List.cons_append, List.nil_append]
        rw [group_natText (f + 2) _ 109 60 0 _ hm, group_pad2 (f + 1) _ 115 1 _ _ (by omega) hs, groups_end]
        simp only [Option.some.injEq]; omega
      · simp only [c3, Bool.false_eq_true, if_false]
        have m0 : u / 60 % 60 = 0 := by simpa using c3
        obtain ⟨c, cs, hc, _, _⟩ := natText_head (u % 60)
        generalize hL : (natText (u % 60) ++ [115]).length = L
        have hLge : 1 ≤ L := by rw [← hL, hc]; simp
        obtain ⟨f, rfl⟩ : ∃ f, L = f + 1 := ⟨L - 1, by omega⟩
        rw [group_natText (f + 1) _ 115 1 0 [] hs, groups_end]
        simp only [Option.some.injEq]; omega

theorem sec2dhms_neg (t : Int) (h : t < 0) : sec2dhms t = 45 :: sec2dhms (t.natAbs : Int) := by
  have hnn : ¬ (((t.natAbs : Nat) : Int) < 0) := by omega
  have habs : ((t.natAbs : Nat) : Int).natAbs = t.natAbs := Int.natAbs_natCast _
  unfold sec2dhms
  simp only [h, if_true, hnn, if_false, habs, List.nil_append]
  split <;> (try split) <;> (try split) <;> simp

theorem sec2dhms_nonneg_head (u : Nat) : ∃ c cs, sec2dhms (u : Int) = c :: cs ∧ 48 ≤ c ∧ c ≤ 57 := by
  have hnn : ¬ ((u : Int) < 0) := by omega
  unfold sec2dhms
  simp only [hnn, if_false, List.nil_append]
  split
  · obtain ⟨c, cs, hc, h1, h2⟩ := natText_head ((u : Int).natAbs / 86400)
    rw [hc]; exact ⟨c, _, rfl, h1, h2⟩
  · split
    · obtain ⟨c, cs, hc, h1, h2⟩ := natText_head ((u : Int).natAbs / 3600 % 24)
      rw [hc]; exact ⟨c, _, rfl, h1, h2⟩
    · split
      · obtain ⟨c, cs, hc, h1, h2⟩ := natText_head ((u : Int).natAbs / 60 % 60)
        rw [hc]; exact ⟨c, _, rfl, h1, h2⟩
      · obtain ⟨c, cs, hc, h1, h2⟩ := natText_head ((u : Int).natAbs % 60)
        rw [hc]; exact ⟨c, _, rfl, h1, h2⟩


end Lemmas.C16
end Miller
