/-
Lemmas for C16: the day-counting calendar and its inverse.
-/
import MillerModel.Model.Time
namespace Miller
namespace Lemmas.C16
open Time

theorem yearLen_ge (y : Nat) : 365 ≤ yearLen y ∧ yearLen y ≤ 366 := by unfold yearLen; split <;> omega

theorem daysBeforeYear_succ (y : Nat) (h : 1 ≤ y) : daysBeforeYear (y + 1) = daysBeforeYear y + yearLen y := by
  cases y with
  | zero => omega
  | succ k => rfl

theorem daysBeforeMonth_succ (y m : Nat) (h : 1 ≤ m) : daysBeforeMonth y (m + 1) = daysBeforeMonth y m + monthLen y m := by
  cases m with
  | zero => omega
  | succ k => rfl

theorem yearFrom_spec (fuel y n : Nat) (hy : 1 ≤ y) (hf : n < fuel * 365) :
    daysBeforeYear (yearFrom fuel y n).1 + (yearFrom fuel y n).2 = daysBeforeYear y + n ∧
    (yearFrom fuel y n).2 < yearLen (yearFrom fuel y n).1 ∧ y ≤ (yearFrom fuel y n).1 := by
  induction fuel generalizing y n with
  | zero => omega
  | succ fuel ih =>
    unfold yearFrom
    by_cases h : n < yearLen y
    · simp [h]
    · simp only [h, if_false]
      have hl := yearLen_ge y
      have := ih (y + 1) (n - yearLen y) (by omega) (by omega)
      rw [daysBeforeYear_succ y hy] at this
      omega

theorem daysBeforeMonth_13 (y : Nat) : daysBeforeMonth y 13 = yearLen y := by
  unfold yearLen
  simp only [daysBeforeMonth, monthLen]
  cases isLeap y <;> rfl

theorem monthFrom_spec (y fuel m r : Nat) (hm : 1 ≤ m) (hf : m + fuel = 13)
    (hr : daysBeforeMonth y m + r < yearLen y) :
    daysBeforeMonth y (monthFrom y fuel m r).1 + (monthFrom y fuel m r).2 = daysBeforeMonth y m + r ∧
    (monthFrom y fuel m r).2 < monthLen y (monthFrom y fuel m r).1 ∧
    m ≤ (monthFrom y fuel m r).1 ∧ (monthFrom y fuel m r).1 ≤ 12 := by
  induction fuel generalizing m r with
  | zero =>
    have : m = 13 := by omega
    subst this
    rw [daysBeforeMonth_13] at hr
    omega
  | succ fuel ih =>
    unfold monthFrom
    by_cases h : r < monthLen y m
    · simp [h]
      omega
    · simp only [h, if_false]
      have hs := daysBeforeMonth_succ y m hm
      have := ih (m + 1) (r - monthLen y m) (by omega) (by omega) (by omega)
      omega

/-- The civil date of a day number is a valid date, and counting its days gives the number back. -/
theorem civil_roundtrip (n : Nat) :
    let c := civilFromDays n
    daysFromCivil c.1 c.2.1 c.2.2 = n ∧ 1 ≤ c.1 ∧ 1 ≤ c.2.1 ∧ c.2.1 ≤ 12 ∧ 1 ≤ c.2.2 ∧ c.2.2 ≤ monthLen c.1 c.2.1 := by
  simp only [civilFromDays]
  have hy := yearFrom_spec (n / 365 + 1) 1 n (by omega) (by omega)
  generalize yearFrom (n / 365 + 1) 1 n = yr at hy
  obtain ⟨y, r⟩ := yr
  simp only at hy ⊢
  have hm := monthFrom_spec y 12 1 r (by omega) (by omega) (by simp [daysBeforeMonth]; omega)
  generalize monthFrom y 12 1 r = md at hm
  obtain ⟨m, d⟩ := md
  simp only at hm ⊢
  have h1 : daysBeforeYear 1 = 0 := rfl
  have h2 : daysBeforeMonth y 1 = 0 := rfl
  unfold daysFromCivil
  omega

end Lemmas.C16
end Miller
