/-
Helper definitions and lemmas for the variadic min/max theorems of Props/C08.
-/
import MillerModel.Spec.NullData
namespace Miller
namespace Lemmas.C08
open Gen Disp

abbrev U := Gen.bifs_uneg_dispositions
/-- Result class of a model outcome: ints and floats are one class, empty and strings one class. -/
def clsV : Out → Nat
  | .val (.int _) => 100 | .val (.float _) => 100 | .val .void => 101 | .val (.str _) => 101
  | .val v => v.kind | .panic => 200 | .unmodelled => 201
def vmax (vs : List Val) : Out := variadic bifs_max_dispositions bifs_max_unary_dispositions U vs
def vmin (vs : List Val) : Out := variadic bifs_min_dispositions bifs_min_unary_dispositions U vs
/-- The kinds `max`/`min` document an order for: numbers < booleans < empty < strings. -/
def ordered : Val → Bool
  | .int _ => true | .float _ => true | .bool _ => true | .void => true | .str _ => true | _ => false
def imax (a b : Int) : Int := if a > b then a else b

theorem fold_ints (acc : Int) (vs : List Int) :
   (vs.map Val.int).foldl (fun (acc : Out) (e : Val) =>
      match acc with
      | .val a =>
        match evalUnary bifs_max_unary_dispositions a, evalUnary bifs_max_unary_dispositions e with
        | .val a', .val e' => evalBinary bifs_max_dispositions U a' e'
        | .panic, _ => .panic
        | _, .panic => .panic
        | _, _ => .unmodelled
      | o => o) (.val (.int acc)) = .val (.int (vs.foldl imax acc)) := by
  induction vs generalizing acc with
  | nil => rfl
  | cons v vs ih => exact ih (imax acc v)

theorem foldl_imax (acc : Int) (vs : List Int) :
    acc ≤ vs.foldl imax acc ∧ (∀ m ∈ vs, m ≤ vs.foldl imax acc) ∧ (vs.foldl imax acc = acc ∨ vs.foldl imax acc ∈ vs) := by
  induction vs generalizing acc with
  | nil => simp
  | cons v vs ih =>
    have := ih (imax acc v)
    simp only [List.foldl_cons, List.mem_cons]
    have h1 : acc ≤ imax acc v := by unfold imax; split <;> omega
    have h2 : v ≤ imax acc v := by unfold imax; split <;> omega
    have h3 : imax acc v = acc ∨ imax acc v = v := by unfold imax; split <;> simp
    refine ⟨by omega, ?_, ?_⟩
    · intro m hm
      rcases hm with rfl | hm
      · omega
      · exact this.2.1 m hm
    · rcases this.2.2 with h | h
      · rcases h3 with h3 | h3
        · left; omega
        · right; left; omega
      · right; right; exact h

theorem vmax_ints (v : Int) (vs : List Int) : vmax ((v :: vs).map Val.int) = .val (.int ((v :: vs).foldl imax v)) :=
  fold_ints v (v :: vs)

end Lemmas.C08
end Miller
