import MillerModel.Spec.NumberGrammar
set_option linter.unusedSimpArgs false
namespace Miller
namespace Lemmas.C06
open Spec.NumberGrammar Scan Infer

/-! ### The four regenerated 128-entry tables are exactly the character classes -/

theorem dec_fin : ∀ c : Fin 128, Scan.isDecimalDigit c.val = isDec c.val := by decide
theorem oct_fin : ∀ c : Fin 128, Scan.isOctalDigit c.val = isOct c.val := by decide
theorem hex_fin : ∀ c : Fin 128, Scan.isHexDigit c.val = isHex c.val := by decide
theorem flt_fin : ∀ c : Fin 128, Scan.isFloatDigit c.val = isFloatChar c.val := by decide

theorem isDecimalDigit_eq (c : Nat) : Scan.isDecimalDigit c = isDec c := by
  by_cases h : c < 128
  · exact dec_fin ⟨c, h⟩
  · simp [Scan.isDecimalDigit, tableLookup, h, isDec]; omega

theorem isOctalDigit_eq (c : Nat) : Scan.isOctalDigit c = isOct c := by
  by_cases h : c < 128
  · exact oct_fin ⟨c, h⟩
  · simp [Scan.isOctalDigit, tableLookup, h, isOct]; omega

theorem isHexDigit_eq (c : Nat) : Scan.isHexDigit c = isHex c := by
  by_cases h : c < 128
  · exact hex_fin ⟨c, h⟩
  · simp [Scan.isHexDigit, tableLookup, h, isHex]; omega

theorem isFloatDigit_eq (c : Nat) : Scan.isFloatDigit c = isFloatChar c := by
  by_cases h : c < 128
  · exact flt_fin ⟨c, h⟩
  · simp [Scan.isFloatDigit, tableLookup, h, isFloatChar, isDec]; omega

theorem decFun : Scan.isDecimalDigit = isDec := funext isDecimalDigit_eq
theorem octFun : Scan.isOctalDigit = isOct := funext isOctalDigit_eq
theorem hexFun : Scan.isHexDigit = isHex := funext isHexDigit_eq
theorem fltFun : Scan.isFloatDigit = isFloatChar := funext isFloatDigit_eq

/-! ### The hand-written scanner state machine equals the declarative grammar -/

theorem oct_imp_dec (c : Nat) : isOct c = true → isDec c = true := by
  simp [isOct, isDec]; omega

theorem dec_imp_float (c : Nat) : isDec c = true → isFloatChar c = true := by
  simp [isFloatChar]; intro h; simp [h]

theorem all_dec_imp_all_float (l : Bytes) : l.all isDec = true → l.all isFloatChar = true := by
  simp only [List.all_eq_true]; intro h c hc; exact dec_imp_float c (h c hc)

theorem all_oct_imp_all_dec (l : Bytes) : l.all isOct = true → l.all isDec = true := by
  simp only [List.all_eq_true]; intro h c hc; exact oct_imp_dec c (h c hc)

theorem lzLoop_eq (l : Bytes) (ao : Bool) :
    Scan.lzLoop l ao = (ao && l.all isOct, l.all isDec) := by
  induction l generalizing ao with
  | nil => simp [Scan.lzLoop]
  | cons c cs ih =>
    simp only [Scan.lzLoop, isDecimalDigit_eq, isOctalDigit_eq]
    by_cases hd : isDec c = true
    · simp [hd, ih, Bool.and_assoc]
    · have ho : isOct c = false := by
        cases h : isOct c with
        | false => rfl
        | true => exact absurd (oct_imp_dec c h) hd
      simp [hd, ho]

theorem binClass (l : Bytes) : l.all (fun c => !(decide (c < 48) || decide (c > 49))) = l.all isBin := by
  congr 1; funext c; simp only [isBin]
  by_cases h1 : c < 48 <;> by_cases h2 : c > 49 <;> simp [h1, h2] <;> omega

theorem positiveDecimalOrFloatOrString_eq (l : Bytes) :
    Scan.positiveDecimalOrFloatOrString l =
      (if l.all isDec then .decimalInt else if l.all isFloatChar then .maybeFloat else .string) := by
  simp only [Scan.positiveDecimalOrFloatOrString, decFun, fltFun]
  by_cases hd : l.all isDec = true
  · simp [hd, all_dec_imp_all_float l hd]
  · by_cases hf : l.all isFloatChar = true <;> simp [hd, hf]

theorem positiveNumberOrString_eq (body : Bytes) :
    Scan.positiveNumberOrString body =
      (match body with
       | [] => .string
       | b0 :: rest =>
         if isDec b0 then
           if rest.isEmpty then .decimalInt
           else if b0 == 48 then
             match rest with
             | [] => .decimalInt
             | b1 :: ds =>
               if b1 == 120 || b1 == 88 then (if !ds.isEmpty && ds.all isHex then .hexInt else .string)
               else if b1 == 111 || b1 == 79 then (if !ds.isEmpty && ds.all isOct then .octalInt else .string)
               else if b1 == 98 || b1 == 66 then (if !ds.isEmpty && ds.all isBin then .binaryInt else .string)
               else if rest.all isOct then .lzOctalInt
               else if rest.all isDec then .lzDecimalInt
               else if body.all isFloatChar then .maybeFloat else .string
           else if body.all isDec then .decimalInt
           else if body.all isFloatChar then .maybeFloat else .string
         else if b0 == 46 then
           (if body.all isFloatChar then .maybeFloat else .string)
         else .string) := by
  match body with
  | [] => rfl
  | b0 :: rest =>
    by_cases h46 : b0 = 46
    · subst h46
      simp [Scan.positiveNumberOrString, Scan.positiveFloatOrString, fltFun, isDec]
    · have h46' : (b0 == 46) = false := by simp [h46]
      by_cases hd : isDec b0 = true
      · match rest with
        | [] => simp [Scan.positiveNumberOrString, h46', isDecimalDigit_eq, hd]
        | b1 :: ds =>
          by_cases h48 : b0 = 48
          · subst h48
            simp only [Scan.positiveNumberOrString, isDecimalDigit_eq, hd, Scan.positiveHexOrString,
              Scan.positiveOctalOrString, Scan.positiveBinaryOrString, binClass, hexFun, octFun,
              lzLoop_eq, positiveDecimalOrFloatOrString_eq]
            by_cases hx : (b1 == 120 || b1 == 88) = true
            · simp [hx]; cases ds <;> simp
            · by_cases ho : (b1 == 111 || b1 == 79) = true
              · simp [hx, ho]; cases ds <;> simp
              · by_cases hb : (b1 == 98 || b1 == 66) = true
                · simp [hx, ho, hb]; cases ds <;> simp
                · simp only [hx, ho, hb]
                  by_cases hao : (b1 :: ds).all isOct = true
                  · simp [hao]
                  · by_cases had : (b1 :: ds).all isDec = true
                    · simp [hao, had]
                    · have : (48 :: b1 :: ds).all isDec = false := by
                        simp only [List.all_cons] at had ⊢; simp [had]
                      simp [hao, had, this]
          · have h48' : (b0 == 48) = false := by simp [h48]
            simp [Scan.positiveNumberOrString, h46', isDecimalDigit_eq, hd, h48',
              positiveDecimalOrFloatOrString_eq]
      · simp [Scan.positiveNumberOrString, h46', isDecimalDigit_eq, hd]

theorem findScanType_eq (s : Bytes) : Scan.findScanType s = scanClass s := by
  match s with
  | [] => rfl
  | i0 :: rest =>
    by_cases hm : i0 = 45
    · subst hm
      simp only [Scan.findScanType, scanClass, splitSign, positiveNumberOrString_eq, hasSign]
      cases rest with
      | nil => rfl
      | cons b0 r => cases r <;> simp
    · by_cases hp : i0 = 43
      · subst hp
        simp only [Scan.findScanType, scanClass, splitSign, positiveNumberOrString_eq, hasSign]
        cases rest with
        | nil => rfl
        | cons b0 r => cases r <;> simp
      · have hm' : (i0 == 45) = false := by simp [hm]
        have hp' : (i0 == 43) = false := by simp [hp]
        have hs : splitSign (i0 :: rest) = (false, i0 :: rest) := by
          unfold splitSign; split <;> simp_all
        have hh : hasSign (i0 :: rest) = false := by
          unfold hasSign; split <;> simp_all
        by_cases hd : isDec i0 = true
        · have hr : (i0 ≥ 48 && i0 ≤ 57) = true := by simpa [isDec] using hd
          simp only [Scan.findScanType, hm', hp', hr, scanClass, hs, positiveNumberOrString_eq, hd]
          cases rest <;> simp
        · have hr : (i0 ≥ 48 && i0 ≤ 57) = false := by
            cases h : (i0 ≥ 48 && i0 ≤ 57) with
            | false => rfl
            | true => exact absurd (by simpa [isDec] using h) hd
          by_cases h46 : i0 = 46
          · subst h46
            simp [Scan.findScanType, scanClass, hs, hh, positiveDecimalOrFloatOrString_eq, isDec]
          · have h46' : (i0 == 46) = false := by simp [h46]
            simp [Scan.findScanType, hm', hp', hr, h46', scanClass, hs, hd]

/-! ### digit folds -/

/-- `c` is a valid digit of `base` on which Go's digit value and the grammar's agree. -/
def GoodDigit (base c : Nat) : Prop := Dec.digitVal c = some (digitVal c) ∧ digitVal c < base

theorem foldDigits_good (base : Nat) (l : Bytes) (acc : Nat) (h : ∀ c ∈ l, GoodDigit base c) :
    Dec.foldDigits base acc l = some (l.foldl (fun a c => a * base + digitVal c) acc) := by
  induction l generalizing acc with
  | nil => rfl
  | cons c cs ih =>
    have hc := h c (by simp)
    simp only [Dec.foldDigits, hc.1, hc.2, if_true, List.foldl_cons]
    exact ih _ (fun d hd => h d (by simp [hd]))

theorem natOfDigits_good (base : Nat) (l : Bytes) (hne : l ≠ []) (h : ∀ c ∈ l, GoodDigit base c) :
    Dec.natOfDigits base l = some (value base l) := by
  unfold Dec.natOfDigits value
  cases l with
  | nil => exact absurd rfl hne
  | cons c cs => simp [foldDigits_good base (c :: cs) 0 h]

theorem good_dec (c : Nat) (h : isDec c = true) : GoodDigit 10 c := by
  simp [isDec] at h
  unfold GoodDigit Dec.digitVal digitVal
  have h1 : 48 ≤ c ∧ c ≤ 57 := h
  simp [h1]; omega

theorem good_oct8 (c : Nat) (h : isOct c = true) : GoodDigit 8 c := by
  simp [isOct] at h
  unfold GoodDigit Dec.digitVal digitVal
  have h1 : 48 ≤ c ∧ c ≤ 57 := by omega
  have h2 : c ≤ 57 := by omega
  simp [h1, h2]; omega

theorem good_bin (c : Nat) (h : isBin c = true) : GoodDigit 2 c := by
  simp [isBin] at h
  unfold GoodDigit Dec.digitVal digitVal
  have h1 : 48 ≤ c ∧ c ≤ 57 := by omega
  have h2 : c ≤ 57 := by omega
  simp [h1, h2]; omega

theorem good_hex (c : Nat) (h : isHex c = true) : GoodDigit 16 c := by
  simp [isHex] at h
  unfold GoodDigit Dec.digitVal digitVal
  rcases h with h | h | h
  · have h1 : 48 ≤ c ∧ c ≤ 57 := h
    have h2 : c ≤ 57 := by omega
    simp [h1, h2]; omega
  · have h1 : ¬ (48 ≤ c ∧ c ≤ 57) := by omega
    have h2 : ¬ (97 ≤ c ∧ c ≤ 122) := by omega
    have h3 : 65 ≤ c ∧ c ≤ 90 := by omega
    have h4 : ¬ c ≤ 57 := by omega
    have h5 : ¬ c ≥ 97 := by omega
    simp [h1, h2, h3, h4, h5]; omega
  · have h1 : ¬ (48 ≤ c ∧ c ≤ 57) := by omega
    have h3 : 97 ≤ c ∧ c ≤ 122 := by omega
    have h4 : ¬ c ≤ 57 := by omega
    have h5 : c ≥ 97 := by omega
    simp [h1, h3, h4, h5]; omega

theorem all_good {P : Nat → Bool} {base : Nat} (l : Bytes) (hP : ∀ c, P c = true → GoodDigit base c)
    (h : l.all P = true) : ∀ c ∈ l, GoodDigit base c := by
  intro c hc; exact hP c (List.all_eq_true.mp h c hc)

/-! ### sign split and `strconv.ParseInt` -/

/-- What `ParseInt` makes of magnitude `n` under sign `neg`. -/
def rangeCheck (neg : Bool) (n : Nat) : Option Int :=
  if neg then (if n ≤ 9223372036854775808 then some (-(Int.ofNat n)) else none)
  else (if n < 9223372036854775808 then some (Int.ofNat n) else none)

theorem rangeCheck_eq (neg : Bool) (n : Nat) :
    rangeCheck neg n = if fitsI64 (signed neg n) then some (signed neg n) else none := by
  unfold rangeCheck signed fitsI64
  cases neg <;> simp <;> split <;> simp <;> omega

theorem notSign_of_dec {c : Nat} (h : isDec c = true) : c ≠ 43 ∧ c ≠ 45 := by
  simp [isDec] at h; omega
theorem notSign_of_hex {c : Nat} (h : isHex c = true) : c ≠ 43 ∧ c ≠ 45 := by
  simp [isHex] at h; omega
theorem notSign_of_oct {c : Nat} (h : isOct c = true) : c ≠ 43 ∧ c ≠ 45 := by
  simp [isOct] at h; omega
theorem notSign_of_bin {c : Nat} (h : isBin c = true) : c ≠ 43 ∧ c ≠ 45 := by
  simp [isBin] at h; omega

/-- `ParseInt` on an unsigned nonempty digit string. -/
theorem parseInt_unsigned (base : Nat) (c : Nat) (r : Bytes) (hc : c ≠ 43 ∧ c ≠ 45) :
    Dec.parseInt base (c :: r) =
      (match Dec.natOfDigits base (c :: r) with
       | none => none
       | some n => rangeCheck false n) := by
  have h1 : (c == 45) = false := by simp [hc.2]
  have h2 : (c == 43) = false := by simp [hc.1]
  simp only [Dec.parseInt, h1, h2, Bool.false_or, rangeCheck]
  cases hnd : Dec.natOfDigits base (c :: r) <;> simp [hnd]

/-- `ParseInt` on `s` in terms of the sign split, when the body starts with a non-sign byte. -/
theorem parseInt_split (base : Nat) (s : Bytes) (c : Nat) (r : Bytes)
    (hb : (splitSign s).2 = c :: r) (hc : c ≠ 43 ∧ c ≠ 45) :
    Dec.parseInt base s =
      (match Dec.natOfDigits base (c :: r) with
       | none => none
       | some n => rangeCheck (splitSign s).1 n) := by
  match s with
  | [] => simp [splitSign] at hb
  | 45 :: b =>
    simp only [splitSign] at hb ⊢
    subst hb
    simp only [Dec.parseInt, rangeCheck]
    cases hnd : Dec.natOfDigits base (c :: r) <;> simp [hnd]
  | 43 :: b =>
    simp only [splitSign] at hb ⊢
    subst hb
    simp only [Dec.parseInt, rangeCheck]
    cases hnd : Dec.natOfDigits base (c :: r) <;> simp [hnd]
  | x :: b =>
    by_cases h45 : x = 45
    · subst h45; simp only [splitSign] at hb ⊢; subst hb
      simp only [Dec.parseInt, rangeCheck]
      cases hnd : Dec.natOfDigits base (c :: r) <;> simp [hnd]
    · by_cases h43 : x = 43
      · subst h43; simp only [splitSign] at hb ⊢; subst hb
        simp only [Dec.parseInt, rangeCheck]
        cases hnd : Dec.natOfDigits base (c :: r) <;> simp [hnd]
      · have hs : splitSign (x :: b) = (false, x :: b) := by
          unfold splitSign; split <;> simp_all
        rw [hs] at hb ⊢
        simp only at hb
        rw [hb]
        exact parseInt_unsigned base c r hc


/-! ### inversion of `scanClass` -/

theorem scanClass_decimalInt (s : Bytes) (h : scanClass s = .decimalInt) :
    ∃ c r, (splitSign s).2 = c :: r ∧ (c :: r).all isDec = true := by
  unfold scanClass at h
  generalize (splitSign s).2 = body at *
  match body with
  | [] => simp at h
  | b0 :: rest =>
    refine ⟨b0, rest, rfl, ?_⟩
    simp only at h
    repeat' split at h
    all_goals simp_all

theorem scanClass_lzDecimalInt (s : Bytes) (h : scanClass s = .lzDecimalInt) :
    ∃ c r, (splitSign s).2 = c :: r ∧ (c :: r).all isDec = true := by
  unfold scanClass at h
  generalize (splitSign s).2 = body at *
  match body with
  | [] => simp at h
  | b0 :: rest =>
    refine ⟨b0, rest, rfl, ?_⟩
    simp only at h
    repeat' split at h
    all_goals simp_all

theorem scanClass_lzOctalInt (s : Bytes) (h : scanClass s = .lzOctalInt) :
    ∃ c r, (splitSign s).2 = c :: r ∧ (c :: r).all isOct = true := by
  unfold scanClass at h
  generalize (splitSign s).2 = body at *
  match body with
  | [] => simp at h
  | b0 :: rest =>
    refine ⟨b0, rest, rfl, ?_⟩
    simp only at h
    repeat' split at h
    all_goals simp_all [isOct]

theorem scanClass_hexInt (s : Bytes) (h : scanClass s = .hexInt) :
    ∃ x d0 dr, (splitSign s).2 = 48 :: x :: d0 :: dr ∧ (d0 :: dr).all isHex = true := by
  unfold scanClass at h
  generalize (splitSign s).2 = body at *
  match body with
  | [] => simp at h
  | [b0] =>
    exfalso
    simp only at h
    repeat' split at h
    all_goals simp_all
  | [b0, b1] =>
    exfalso
    simp only at h
    repeat' split at h
    all_goals simp_all
  | b0 :: b1 :: d0 :: dr =>
    refine ⟨b1, d0, dr, ?_, ?_⟩
    · simp only at h
      repeat' split at h
      all_goals simp_all
    · simp only at h
      repeat' split at h
      all_goals simp_all

theorem scanClass_octalInt (s : Bytes) (h : scanClass s = .octalInt) :
    ∃ x d0 dr, (splitSign s).2 = 48 :: x :: d0 :: dr ∧ (d0 :: dr).all isOct = true := by
  unfold scanClass at h
  generalize (splitSign s).2 = body at *
  match body with
  | [] => simp at h
  | [b0] =>
    exfalso
    simp only at h
    repeat' split at h
    all_goals simp_all
  | [b0, b1] =>
    exfalso
    simp only at h
    repeat' split at h
    all_goals simp_all
  | b0 :: b1 :: d0 :: dr =>
    refine ⟨b1, d0, dr, ?_, ?_⟩
    · simp only at h
      repeat' split at h
      all_goals simp_all
    · simp only at h
      repeat' split at h
      all_goals simp_all

theorem scanClass_binaryInt (s : Bytes) (h : scanClass s = .binaryInt) :
    ∃ x d0 dr, (splitSign s).2 = 48 :: x :: d0 :: dr ∧ (d0 :: dr).all isBin = true := by
  unfold scanClass at h
  generalize (splitSign s).2 = body at *
  match body with
  | [] => simp at h
  | [b0] =>
    exfalso
    simp only at h
    repeat' split at h
    all_goals simp_all
  | [b0, b1] =>
    exfalso
    simp only at h
    repeat' split at h
    all_goals simp_all
  | b0 :: b1 :: d0 :: dr =>
    refine ⟨b1, d0, dr, ?_, ?_⟩
    · simp only at h
      repeat' split at h
      all_goals simp_all
    · simp only at h
      repeat' split at h
      all_goals simp_all


/-! ### per-class behaviour of the inferrers -/

theorem decimal_like (s : Bytes) (c : Nat) (r : Bytes) (hb : (splitSign s).2 = c :: r)
    (hall : (c :: r).all isDec = true) :
    Dec.parseInt 10 s = rangeCheck (splitSign s).1 (value 10 ((splitSign s).2)) := by
  have hc : isDec c = true := by simp only [List.all_cons, Bool.and_eq_true] at hall; exact hall.1
  rw [parseInt_split 10 s c r hb (notSign_of_dec hc)]
  rw [natOfDigits_good 10 (c :: r) (by simp) (all_good _ good_dec hall), hb]

theorem octal_like (s : Bytes) (c : Nat) (r : Bytes) (hb : (splitSign s).2 = c :: r)
    (hall : (c :: r).all isOct = true) :
    Dec.parseInt 8 s = rangeCheck (splitSign s).1 (value 8 ((splitSign s).2)) := by
  have hc : isOct c = true := by simp only [List.all_cons, Bool.and_eq_true] at hall; exact hall.1
  rw [parseInt_split 8 s c r hb (notSign_of_oct hc)]
  rw [natOfDigits_good 8 (c :: r) (by simp) (all_good _ good_oct8 hall), hb]

/-- `skipPrefix` on `sign? 0 x digits`. -/
theorem skipPrefix_prefixed (s : Bytes) (x d0 : Nat) (dr : Bytes)
    (hb : (splitSign s).2 = 48 :: x :: d0 :: dr) :
    Infer.skipPrefix s = some (d0 :: dr, (splitSign s).1) ∧ prefixedDigits s = d0 :: dr := by
  unfold prefixedDigits
  rw [hb]
  match s with
  | [] => simp [splitSign] at hb
  | 45 :: b => simp only [splitSign] at hb ⊢; subst hb; simp [Infer.skipPrefix]
  | 43 :: b => simp only [splitSign] at hb ⊢; subst hb; simp [Infer.skipPrefix]
  | y :: b =>
    by_cases h45 : y = 45
    · subst h45; simp only [splitSign] at hb ⊢; subst hb; simp [Infer.skipPrefix]
    · by_cases h43 : y = 43
      · subst h43; simp only [splitSign] at hb ⊢; subst hb; simp [Infer.skipPrefix]
      · have hs : splitSign (y :: b) = (false, y :: b) := by
          unfold splitSign; split <;> simp_all
        rw [hs] at hb ⊢
        simp only at hb
        simp only [List.cons.injEq] at hb
        obtain ⟨hy, hb⟩ := hb
        subst hy; subst hb
        simp [Infer.skipPrefix]

/-! ### model = grammar outside the finding classes -/

theorem signed_small_wrap (neg : Bool) (n : Nat) (h : n < 9223372036854775808) :
    (if neg then wrap (-(Int.ofNat n)) else Int.ofNat n) = signed neg n := by
  unfold signed
  cases neg
  · simp
  · simp only [if_true]
    apply wrap_of_I64
    unfold I64; simp only [Int.ofNat_eq_natCast]; omega

theorem fits_of_small (neg : Bool) (n : Nat) (h : n < 9223372036854775808) :
    fitsI64 (signed neg n) = true := by
  unfold fitsI64 signed; cases neg <;> simp <;> omega

theorem inferBaseInt_eq (base : Nat) (isD : Nat → Bool)
    (hgood : ∀ c, isD c = true → GoodDigit base c) (hns : ∀ c, isD c = true → c ≠ 43 ∧ c ≠ 45)
    (s : Bytes) (x d0 : Nat) (dr : Bytes)
    (hb : (splitSign s).2 = 48 :: x :: d0 :: dr) (hall : (d0 :: dr).all isD = true)
    (hsmall : value base (prefixedDigits s) < 9223372036854775808) :
    Infer.inferBaseInt base s = .ok (.int (signed (splitSign s).1 (value base (prefixedDigits s)))) := by
  obtain ⟨h1, h2⟩ := skipPrefix_prefixed s x d0 dr hb
  have hd0 : isD d0 = true := by simp only [List.all_cons, Bool.and_eq_true] at hall; exact hall.1
  rw [h2] at hsmall ⊢
  simp only [Infer.inferBaseInt, h1, parseInt_unsigned base d0 dr (hns d0 hd0),
    natOfDigits_good base (d0 :: dr) (by simp) (all_good _ hgood hall), rangeCheck, hsmall, if_true]
  simp only [Bool.false_eq_true, if_false]
  rw [signed_small_wrap _ _ hsmall]

theorem inferHexInt_small (s : Bytes) (x d0 : Nat) (dr : Bytes)
    (hb : (splitSign s).2 = 48 :: x :: d0 :: dr) (hall : (d0 :: dr).all isHex = true)
    (hsmall : value 16 (prefixedDigits s) < 9223372036854775808) :
    Infer.inferHexInt s = .ok (.int (signed (splitSign s).1 (value 16 (prefixedDigits s)))) := by
  obtain ⟨h1, h2⟩ := skipPrefix_prefixed s x d0 dr hb
  have hd0 : isHex d0 = true := by simp only [List.all_cons, Bool.and_eq_true] at hall; exact hall.1
  rw [h2] at hsmall ⊢
  have hnat := natOfDigits_good 16 (d0 :: dr) (by simp) (all_good _ good_hex hall)
  simp only [Infer.inferHexInt, h1]
  split
  · -- 16 digits, first ≥ '8' : ParseUint
    have hu : Dec.parseUint 16 (d0 :: dr) = some (value 16 (d0 :: dr)) := by
      simp only [Dec.parseUint, hnat]
      have : value 16 (d0 :: dr) < 18446744073709551616 := by omega
      simp [this]
    simp only [hu]
    have hv : u2i (value 16 (d0 :: dr)) = Int.ofNat (value 16 (d0 :: dr)) := by
      unfold u2i
      have : value 16 (d0 :: dr) % 18446744073709551616 = value 16 (d0 :: dr) := by omega
      rw [this]; apply wrap_of_I64; unfold I64; simp only [Int.ofNat_eq_natCast]; omega
    rw [hv, signed_small_wrap _ _ hsmall]
  · simp only [parseInt_unsigned 16 d0 dr (notSign_of_hex hd0), hnat, rangeCheck, hsmall, if_true,
      Bool.false_eq_true, if_false]
    rw [signed_small_wrap _ _ hsmall]


theorem foldl_shift (base : Nat) (l : Bytes) (acc : Nat) :
    l.foldl (fun a c => a * base + digitVal c) acc
      = acc * base ^ l.length + l.foldl (fun a c => a * base + digitVal c) 0 := by
  induction l generalizing acc with
  | nil => simp
  | cons c cs ih =>
    simp only [List.foldl_cons, List.length_cons]
    rw [ih (acc * base + digitVal c), ih (0 * base + digitVal c)]
    simp only [Nat.zero_mul, Nat.zero_add, Nat.pow_succ, Nat.add_mul, Nat.add_assoc]
    rw [Nat.mul_assoc, Nat.mul_comm base]

theorem value_cons (base : Nat) (c : Nat) (l : Bytes) :
    value base (c :: l) = digitVal c * base ^ l.length + value base l := by
  unfold value
  simp only [List.foldl_cons, Nat.zero_mul, Nat.zero_add]
  exact foldl_shift base l (digitVal c)

theorem value_lt (base : Nat) (l : Bytes) (h : ∀ c ∈ l, digitVal c < base) :
    value base l < base ^ l.length := by
  induction l with
  | nil => simp [value]
  | cons c cs ih =>
    rw [value_cons]
    have h1 := ih (fun d hd => h d (by simp [hd]))
    have h2 : digitVal c < base := h c (by simp)
    simp only [List.length_cons, Nat.pow_succ]
    calc digitVal c * base ^ cs.length + value base cs
        < digitVal c * base ^ cs.length + base ^ cs.length := by omega
      _ = (digitVal c + 1) * base ^ cs.length := by rw [Nat.add_mul, Nat.one_mul]
      _ ≤ base * base ^ cs.length := Nat.mul_le_mul_right _ (by omega)
      _ = base ^ cs.length * base := Nat.mul_comm _ _

/-- For a 16-digit hex numeral: value ≥ 2^63 iff the leading digit is `8` or above, which for a hex
digit is Go's byte test `'8' <= c && c <= 'f'`. -/
theorem hex16_top (d0 : Nat) (dr : Bytes) (hall : (d0 :: dr).all isHex = true) (hlen : dr.length = 15) :
    (value 16 (d0 :: dr) ≥ 9223372036854775808 ↔ (56 ≤ d0 ∧ d0 ≤ 102))
    ∧ value 16 (d0 :: dr) < 18446744073709551616 := by
  have hd0 : isHex d0 = true := by simp only [List.all_cons, Bool.and_eq_true] at hall; exact hall.1
  have hdr : dr.all isHex = true := by simp only [List.all_cons, Bool.and_eq_true] at hall; exact hall.2
  have hlt := value_lt 16 dr (fun c hc => (good_hex c (List.all_eq_true.mp hdr c hc)).2)
  rw [hlen] at hlt
  rw [value_cons, hlen]
  have g := (good_hex d0 hd0).2
  have hv : (digitVal d0 ≥ 8 ↔ (56 ≤ d0 ∧ d0 ≤ 102)) := by
    simp [isHex] at hd0
    unfold digitVal
    rcases hd0 with h | h | h
    · have : d0 ≤ 57 := by omega
      simp [this]; omega
    · have h1 : ¬ d0 ≤ 57 := by omega
      have h2 : ¬ d0 ≥ 97 := by omega
      simp [h1, h2]; omega
    · have h1 : ¬ d0 ≤ 57 := by omega
      have h2 : d0 ≥ 97 := by omega
      simp [h1, h2]; omega
  have e : (16:Nat) ^ 15 = 1152921504606846976 := by decide
  rw [e] at hlt ⊢
  constructor
  · rw [← hv]; omega
  · omega


theorem inferHexInt_twos (s : Bytes) (x d0 : Nat) (dr : Bytes)
    (hb : (splitSign s).2 = 48 :: x :: d0 :: dr) (hall : (d0 :: dr).all isHex = true)
    (hlen : (prefixedDigits s).length = 16)
    (hbig : value 16 (prefixedDigits s) ≥ 9223372036854775808) :
    Infer.inferHexInt s = .ok (.int (if (splitSign s).1 then wrap (-(u2i (value 16 (prefixedDigits s))))
                                      else u2i (value 16 (prefixedDigits s)))) := by
  obtain ⟨h1, h2⟩ := skipPrefix_prefixed s x d0 dr hb
  rw [h2] at hbig hlen ⊢
  have hl15 : dr.length = 15 := by simpa using hlen
  obtain ⟨htop, hlt⟩ := hex16_top d0 dr hall hl15
  have hrange := htop.mp hbig
  have hnat := natOfDigits_good 16 (d0 :: dr) (by simp) (all_good _ good_hex hall)
  have hcond : ((d0 :: dr).length == 16 && (decide (56 ≤ d0) && decide (d0 ≤ 102))) = true := by
    simp [hl15, hrange.1, hrange.2]
  simp only [Infer.inferHexInt, h1, hcond, if_true, Dec.parseUint, hnat, hlt]

theorem nonempty_of_class (s : Bytes) (h : scanClass s ≠ .string) : s.isEmpty = false := by
  cases s with
  | nil => simp [scanClass, splitSign] at h
  | cons c r => rfl

theorem inferMaybeFloat_eq (s : Bytes) (hne : s.isEmpty = false)
    (h : (match ParseFloat.parseSat s with
          | some b => if F64.isInf b = true then some Finding.floatOverflow else none
          | none => none) = none) :
    Infer.inferMaybeFloat s = .ok (match ParseFloat.parseSat s with
                                   | some b => .float b
                                   | none => .string) := by
  unfold Infer.inferMaybeFloat ParseFloat.parse
  cases hp : ParseFloat.parseSat s with
  | none => simp [Infer.setFromString, hne]
  | some b =>
    simp only [hp] at h
    by_cases hi : F64.isInf b = true
    · simp [hi] at h
    · simp [hi]

/-- The mantissa loop of `readFloat` on a run of decimal digits (no dot seen, none coming). -/
theorem mantLoop_digits (l : Bytes) (m : ParseFloat.Mant) (hl : l.all isDec = true) (hd : m.sawdot = false) :
    ParseFloat.mantLoop l m =
      { m with digits := l.foldl (fun a c => a * 10 + digitVal c) m.digits,
               nd := m.nd + l.length,
               sawdigits := m.sawdigits || !l.isEmpty,
               rest := [] } := by
  induction l generalizing m with
  | nil => simp [ParseFloat.mantLoop]
  | cons c cs ih =>
    have hc : isDec c = true := by simp only [List.all_cons, Bool.and_eq_true] at hl; exact hl.1
    have hcs : cs.all isDec = true := by simp only [List.all_cons, Bool.and_eq_true] at hl; exact hl.2
    have h46 : (c == 46) = false := by simp [isDec] at hc; simp; omega
    have hdig : ParseFloat.isDigit c = true := by simpa [ParseFloat.isDigit, isDec] using hc
    have hv : c - 48 = digitVal c := by simp [isDec] at hc; unfold digitVal; simp [hc.2]
    simp only [ParseFloat.mantLoop, h46, hdig, Bool.false_eq_true, if_false, if_true]
    rw [ih _ hcs (by simpa using hd)]
    simp [hv, Nat.add_assoc, Nat.add_comm 1]

theorem parseSat_decimal (s : Bytes) (c : Nat) (r : Bytes) (hb : (splitSign s).2 = c :: r)
    (hall : (c :: r).all isDec = true) :
    ParseFloat.parseSat s = some (ParseFloat.roundDecimal (splitSign s).1 (value 10 (c :: r)) 0) := by
  have hss : ParseFloat.splitSign s = splitSign s := by
    unfold ParseFloat.splitSign splitSign; split <;> simp_all
  unfold ParseFloat.parseSat
  rw [hss, hb]
  unfold ParseFloat.parseBody
  rw [mantLoop_digits (c :: r) _ hall rfl]
  simp [value]


theorem byName_string (s : Bytes) : inferByName "inferString" s = inferString s := by simp [inferByName]
theorem byName_dec (s : Bytes) : inferByName "inferDecimalInt" s = inferDecimalInt s := by simp [inferByName]
theorem byName_lzdec (s : Bytes) : inferByName "inferLeadingZeroDecimalIntAsInt" s = inferLeadingZeroDecimalIntAsInt s := by simp [inferByName]
theorem byName_oct (s : Bytes) : inferByName "inferOctalInt" s = inferOctalInt s := by simp [inferByName]
theorem byName_lzoct (s : Bytes) : inferByName "inferFromLeadingZeroOctalIntAsInt" s = inferFromLeadingZeroOctalIntAsInt s := by simp [inferByName]
theorem byName_hex (s : Bytes) : inferByName "inferHexInt" s = inferHexInt s := by simp [inferByName]
theorem byName_bin (s : Bytes) : inferByName "inferBinaryInt" s = inferBinaryInt s := by simp [inferByName]
theorem byName_float (s : Bytes) : inferByName "inferMaybeFloat" s = inferMaybeFloat s := by simp [inferByName]

/-- Main lemma: outside the finding classes, table-driven inference with a table `tbl` whose
entries for the eight scan types are as stated equals the grammar's classification. -/
theorem inferWithTable_eq (f : Flag) (tbl : List String) (lz : Bool)
    (hf : f = .normal ∨ f = .octal)
    (hlz : lz = (f == .octal))
    (t0 : tbl[ScanType.string.index]? = some "inferString")
    (t1 : tbl[ScanType.decimalInt.index]? = some "inferDecimalInt")
    (t2 : tbl[ScanType.lzDecimalInt.index]? = some (if lz then "inferLeadingZeroDecimalIntAsInt" else "inferString"))
    (t3 : tbl[ScanType.octalInt.index]? = some "inferOctalInt")
    (t4 : tbl[ScanType.lzOctalInt.index]? = some (if lz then "inferFromLeadingZeroOctalIntAsInt" else "inferString"))
    (t5 : tbl[ScanType.hexInt.index]? = some "inferHexInt")
    (t6 : tbl[ScanType.binaryInt.index]? = some "inferBinaryInt")
    (t7 : tbl[ScanType.maybeFloat.index]? = some "inferMaybeFloat")
    (s : Bytes) (h : findingClass f s = none) :
    Infer.inferWithTable tbl s = .ok (classify f s) := by
  have hnS : (f == Flag.stringOnly) = false := by rcases hf with h | h <;> subst h <;> rfl
  have hnA : (f == Flag.intAsFloat) = false := by rcases hf with h | h <;> subst h <;> rfl
  unfold Infer.inferWithTable
  rw [findScanType_eq]
  unfold findingClass at h
  unfold classify
  simp only [hnS, hnA, Bool.false_eq_true, if_false] at h ⊢
  cases hc : scanClass s <;> simp only [hc] at h ⊢
  · -- string
    simp [t0, byName_string, Infer.inferString, Infer.setFromString, strOrVoid]
  · -- decimalInt
    have hne := nonempty_of_class s (by rw [hc]; decide)
    obtain ⟨c, r, hb, hall⟩ := scanClass_decimalInt s hc
    simp only [t1, byName_dec, Infer.inferDecimalInt, decimal_like s c r hb hall, rangeCheck_eq]
    by_cases hfit : fitsI64 (signed (splitSign s).1 (value 10 (splitSign s).2)) = true
    · simp [hfit]
    · have hps := parseSat_decimal s c r hb hall
      rw [← hb] at hps
      simp only [hfit, Bool.false_eq_true, if_false, Bool.not_false, Bool.true_and] at h ⊢
      simp only [Infer.inferMaybeFloat, ParseFloat.parse, hps]
      by_cases hinf : F64.isInf (ParseFloat.roundDecimal (splitSign s).1 (value 10 (splitSign s).2) 0) = true
      · simp [hinf] at h
      · simp [hinf]
  · -- lzDecimalInt
    have hne := nonempty_of_class s (by rw [hc]; decide)
    obtain ⟨c, r, hb, hall⟩ := scanClass_lzDecimalInt s hc
    rcases hf with hf | hf <;> subst hf <;> subst hlz
    · simp [t2, byName_string, Infer.inferString, Infer.setFromString, hne]
    · have t2' : tbl[ScanType.lzDecimalInt.index]? = some "inferLeadingZeroDecimalIntAsInt" := by simpa using t2
      simp only [t2', byName_lzdec, Infer.inferLeadingZeroDecimalIntAsInt,
        decimal_like s c r hb hall, rangeCheck_eq]
      simp at h
      simp [h]
  · -- octalInt
    obtain ⟨x, d0, dr, hb, hall⟩ := scanClass_octalInt s hc
    have hsmall : value 8 (prefixedDigits s) < 9223372036854775808 := by
      simp at h; omega
    simp only [t3, byName_oct, Infer.inferOctalInt]
    rw [inferBaseInt_eq 8 isOct good_oct8 (fun c => notSign_of_oct) s x d0 dr hb hall hsmall]
    simp [fits_of_small _ _ hsmall]
  · -- lzOctalInt
    have hne := nonempty_of_class s (by rw [hc]; decide)
    obtain ⟨c, r, hb, hall⟩ := scanClass_lzOctalInt s hc
    rcases hf with hf | hf <;> subst hf <;> subst hlz
    · simp [t4, byName_string, Infer.inferString, Infer.setFromString, hne]
    · have t4' : tbl[ScanType.lzOctalInt.index]? = some "inferFromLeadingZeroOctalIntAsInt" := by simpa using t4
      simp only [t4', byName_lzoct, Infer.inferFromLeadingZeroOctalIntAsInt,
        octal_like s c r hb hall, rangeCheck_eq]
      simp at h
      simp [h]
  · -- hexInt
    obtain ⟨x, d0, dr, hb, hall⟩ := scanClass_hexInt s hc
    simp only [t5, byName_hex]
    by_cases htw : ((prefixedDigits s).length == 16 && decide (value 16 (prefixedDigits s) ≥ 9223372036854775808)) = true
    · simp only [htw, if_true]
      simp only [Bool.and_eq_true, beq_iff_eq, decide_eq_true_eq] at htw
      rw [inferHexInt_twos s x d0 dr hb hall htw.1 htw.2]
    · simp only [htw, Bool.false_eq_true, if_false] at h ⊢
      have hsmall : value 16 (prefixedDigits s) < 9223372036854775808 := by
        simp at h; omega
      rw [inferHexInt_small s x d0 dr hb hall hsmall]
      simp [fits_of_small _ _ hsmall]
  · -- binaryInt
    obtain ⟨x, d0, dr, hb, hall⟩ := scanClass_binaryInt s hc
    have hsmall : value 2 (prefixedDigits s) < 9223372036854775808 := by
      simp at h; omega
    simp only [t6, byName_bin, Infer.inferBinaryInt]
    rw [inferBaseInt_eq 2 isBin good_bin (fun c => notSign_of_bin) s x d0 dr hb hall hsmall]
    simp [fits_of_small _ _ hsmall]
  · -- maybeFloat
    have hne := nonempty_of_class s (by rw [hc]; decide)
    simp only [t7, byName_float]
    rw [inferMaybeFloat_eq s hne h]
    cases ParseFloat.parseSat s <;> rfl


theorem findingClass_A (s : Bytes) : findingClass .intAsFloat s = findingClass .normal s := by
  unfold findingClass
  have h1 : (Flag.intAsFloat == Flag.stringOnly) = false := rfl
  have h2 : (Flag.normal == Flag.stringOnly) = false := rfl
  have h3 : (Flag.intAsFloat == Flag.octal) = false := rfl
  have h4 : (Flag.normal == Flag.octal) = false := rfl
  simp only [h1, h2, h3, h4, Bool.false_and]

theorem classify_A (s : Bytes) :
    classify .intAsFloat s = (match classify .normal s with
                              | .int v => .float (F64.ofInt v)
                              | o => o) := by
  unfold classify
  have h1 : (Flag.intAsFloat == Flag.stringOnly) = false := rfl
  have h2 : (Flag.normal == Flag.stringOnly) = false := rfl
  have h3 : (Flag.intAsFloat == Flag.octal) = false := rfl
  have h4 : (Flag.normal == Flag.octal) = false := rfl
  have h5 : (Flag.intAsFloat == Flag.intAsFloat) = true := rfl
  have h6 : (Flag.normal == Flag.intAsFloat) = false := rfl
  simp only [h1, h2, h3, h4, h5, h6, Bool.false_eq_true, if_false, if_true]
  cases scanClass s <;> simp only [strOrVoid] <;> (repeat' split) <;> simp_all


theorem inferDecimalInt_ok (s : Bytes) : Infer.inferDecimalInt s ≠ .panic := by
  unfold Infer.inferDecimalInt Infer.inferMaybeFloat; split <;> (try split) <;> simp
theorem inferLzDec_ok (s : Bytes) : Infer.inferLeadingZeroDecimalIntAsInt s ≠ .panic := by
  unfold Infer.inferLeadingZeroDecimalIntAsInt; split <;> simp
theorem inferLzOct_ok (s : Bytes) : Infer.inferFromLeadingZeroOctalIntAsInt s ≠ .panic := by
  unfold Infer.inferFromLeadingZeroOctalIntAsInt; split <;> simp
theorem inferMaybeFloat_ok (s : Bytes) : Infer.inferMaybeFloat s ≠ .panic := by
  unfold Infer.inferMaybeFloat; split <;> simp
theorem inferBaseInt_ok (base : Nat) (s : Bytes) (x d0 : Nat) (dr : Bytes)
    (hb : (splitSign s).2 = 48 :: x :: d0 :: dr) : Infer.inferBaseInt base s ≠ .panic := by
  obtain ⟨h1, _⟩ := skipPrefix_prefixed s x d0 dr hb
  simp only [Infer.inferBaseInt, h1]; split <;> simp
theorem inferHexInt_ok (s : Bytes) (x d0 : Nat) (dr : Bytes)
    (hb : (splitSign s).2 = 48 :: x :: d0 :: dr) : Infer.inferHexInt s ≠ .panic := by
  obtain ⟨h1, _⟩ := skipPrefix_prefixed s x d0 dr hb
  simp only [Infer.inferHexInt, h1]; split <;> split <;> simp

theorem inferWithTable_no_panic (tbl : List String) (lz : Bool)
    (t0 : tbl[ScanType.string.index]? = some "inferString")
    (t1 : tbl[ScanType.decimalInt.index]? = some "inferDecimalInt")
    (t2 : tbl[ScanType.lzDecimalInt.index]? = some (if lz then "inferLeadingZeroDecimalIntAsInt" else "inferString"))
    (t3 : tbl[ScanType.octalInt.index]? = some "inferOctalInt")
    (t4 : tbl[ScanType.lzOctalInt.index]? = some (if lz then "inferFromLeadingZeroOctalIntAsInt" else "inferString"))
    (t5 : tbl[ScanType.hexInt.index]? = some "inferHexInt")
    (t6 : tbl[ScanType.binaryInt.index]? = some "inferBinaryInt")
    (t7 : tbl[ScanType.maybeFloat.index]? = some "inferMaybeFloat")
    (s : Bytes) : Infer.inferWithTable tbl s ≠ .panic := by
  unfold Infer.inferWithTable
  rw [findScanType_eq]
  cases hc : scanClass s
  · simp [t0, byName_string, Infer.inferString]
  · simp only [t1, byName_dec]; exact inferDecimalInt_ok s
  · cases lz
    · simp [t2, byName_string, Infer.inferString]
    · simp only [t2, if_true, byName_lzdec]; exact inferLzDec_ok s
  · obtain ⟨x, d0, dr, hb, _⟩ := scanClass_octalInt s hc
    simp only [t3, byName_oct, Infer.inferOctalInt]; exact inferBaseInt_ok 8 s x d0 dr hb
  · cases lz
    · simp [t4, byName_string, Infer.inferString]
    · simp only [t4, if_true, byName_lzoct]; exact inferLzOct_ok s
  · obtain ⟨x, d0, dr, hb, _⟩ := scanClass_hexInt s hc
    simp only [t5, byName_hex]; exact inferHexInt_ok s x d0 dr hb
  · obtain ⟨x, d0, dr, hb, _⟩ := scanClass_binaryInt s hc
    simp only [t6, byName_bin, Infer.inferBinaryInt]; exact inferBaseInt_ok 2 s x d0 dr hb
  · simp only [t7, byName_float]; exact inferMaybeFloat_ok s


end Lemmas.C06
end Miller
