/-
Lemmas for C13: the left buckets are the groups of the left records by join key.
-/
import MillerModel.Model.Verbs.Join
import MillerModel.Lemmas.C11
namespace Miller
namespace Lemmas.C13
open Verbs Lemmas.C11

theorem bucketStep_none (keyOf : Rec → Option Bytes) (m : OMap (List Rec)) (r : Rec) (h : keyOf r = none) :
    bucketStep keyOf m r = m := by simp [bucketStep, h]

theorem bucketStep_some (keyOf : Rec → Option Bytes) (m : OMap (List Rec)) (r : Rec) (k : Bytes) (h : keyOf r = some k) :
    bucketStep keyOf m r = m.put k ((m.get? k).getD [] ++ [r]) := by simp [bucketStep, h]

theorem ginv_buckets_from (keyOf : Rec → Option Bytes) (m : OMap (List Rec)) (pre rest : List Rec)
    (h : GInv keyOf m pre) : GInv keyOf (rest.foldl (bucketStep keyOf) m) (pre ++ rest) := by
  induction rest generalizing m pre with
  | nil => simpa using h
  | cons r rest ih =>
    simp only [List.foldl_cons]
    have : GInv keyOf (bucketStep keyOf m r) (pre ++ [r]) := by
      cases hk : keyOf r with
      | none => rw [bucketStep_none keyOf m r hk]; exact ginv_skip _ m pre r hk h
      | some k => rw [bucketStep_some keyOf m r k hk]; exact ginv_step _ m pre r k hk h
    have := ih _ (pre ++ [r]) this
    simpa using this

theorem ginv_buckets (keyOf : Rec → Option Bytes) (ls : List Rec) : GInv keyOf (bucketsOf keyOf ls) ls := by
  have := ginv_buckets_from keyOf [] [] ls (ginv_init _)
  simpa [bucketsOf] using this

theorem nonempty_from (keyOf : Rec → Option Bytes) (m : OMap (List Rec)) (rest : List Rec)
    (hne : ∀ p ∈ m, p.2 ≠ []) : ∀ p ∈ rest.foldl (bucketStep keyOf) m, p.2 ≠ [] := by
  induction rest generalizing m with
  | nil => simpa using hne
  | cons r rest ih =>
    simp only [List.foldl_cons]
    apply ih
    cases hk : keyOf r with
    | none => rw [bucketStep_none keyOf m r hk]; exact hne
    | some k =>
      rw [bucketStep_some keyOf m r k hk]
      intro p hp
      unfold OMap.put at hp
      split at hp
      · obtain ⟨q, hq, rfl⟩ := List.mem_map.mp hp
        split
        · simp
        · exact hne q hq
      · rcases List.mem_append.mp hp with hp | hp
        · exact hne p hp
        · simp only [List.mem_singleton] at hp; subst hp; simp

/-- Looking a key up in the buckets gives exactly the left records with that key, in file order;
there is a bucket iff there is such a record. -/
theorem bucket_lookup (keyOf : Rec → Option Bytes) (ls : List Rec) (k : Bytes) :
    (bucketsOf keyOf ls).get? k = (if grp keyOf ls k = [] then none else some (grp keyOf ls k)) := by
  have hg := ginv_buckets keyOf ls
  have hne := nonempty_from keyOf [] ls (by simp)
  unfold OMap.get?
  cases hf : (bucketsOf keyOf ls).find? (·.1 == k) with
  | none =>
    have hnot : k ∉ (bucketsOf keyOf ls).map (·.1) := by
      intro hm
      obtain ⟨p, hp, hpk⟩ := List.mem_map.mp hm
      have := List.find?_eq_none.mp hf p hp
      simp [hpk] at this
    simp [hg.absent k hnot]
  | some p =>
    have hp := List.mem_of_find?_eq_some hf
    have hpk : p.1 = k := by simpa using List.find?_some hf
    have hv := hg.vals p hp
    have hn := hne p (by simpa [bucketsOf] using hp)
    rw [hpk] at hv
    simp only [Option.map_some]
    rw [← hv]
    simp [hn]

end Lemmas.C13
end Miller
