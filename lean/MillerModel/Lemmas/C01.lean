import MillerModel.Spec.Repr
set_option linter.unusedSimpArgs false
namespace Miller
namespace Lemmas.C01

/-! ### TSV codec -/

theorem tsv_decode_cons_ne (c : Nat) (rest : Bytes) (h : c ≠ 92) :
    Tsv.decode (c :: rest) = c :: Tsv.decode rest := by
  cases rest with
  | nil => simp [Tsv.decode]
  | cons d r => simp [Tsv.decode, h]

theorem tsv_decode_encode (s : Bytes) : Tsv.decode (Tsv.encode s) = s := by
  induction s with
  | nil => simp [Tsv.encode, Tsv.decode]
  | cons c rest ih =>
    unfold Tsv.encode
    split
    · next h => subst h; simp [Tsv.decode, ih]
    · split
      · next h => subst h; simp [Tsv.decode, ih]
      · split
        · next h => subst h; simp [Tsv.decode, ih]
        · split
          · next h => subst h; simp [Tsv.decode, ih]
          · next h1 h2 h3 h4 => rw [tsv_decode_cons_ne _ _ h1, ih]

theorem tsv_encode_no_sep (s : Bytes) : 9 ∉ Tsv.encode s ∧ 10 ∉ Tsv.encode s ∧ 13 ∉ Tsv.encode s := by
  induction s with
  | nil => simp [Tsv.encode]
  | cons c rest ih =>
    unfold Tsv.encode
    obtain ⟨h1, h2, h3⟩ := ih
    split
    · simp_all
    · split
      · simp_all
      · split
        · simp_all
        · split
          · simp_all
          · next a b c' d =>
            simp only [List.mem_cons, not_or]
            exact ⟨⟨fun h => d h.symm, h1⟩, ⟨fun h => b h.symm, h2⟩, ⟨fun h => c' h.symm, h3⟩⟩

theorem tsv_encode_eq_nil (s : Bytes) : Tsv.encode s = [] ↔ s = [] := by
  cases s with
  | nil => simp [Tsv.encode]
  | cons c r =>
    unfold Tsv.encode
    by_cases h1 : c = 92 <;> by_cases h2 : c = 10 <;> by_cases h3 : c = 13 <;> by_cases h4 : c = 9 <;> simp [h1, h2, h3, h4]

/-! ### split / join on a single byte -/

theorem splitByte_append_free (b : Nat) (x : Bytes) (hx : b ∉ x) (rest cur : Bytes) :
    Split.splitByte b (x ++ rest) cur = Split.splitByte b rest (cur ++ x) := by
  induction x generalizing cur with
  | nil => simp
  | cons c cs ih =>
    have hc : c ≠ b := fun h => hx (by simp [h])
    have hcs : b ∉ cs := fun h => hx (by simp [h])
    have : (c == b) = false := by simp [hc]
    simp only [List.cons_append, Split.splitByte, this, Bool.false_eq_true, if_false]
    rw [ih hcs]; simp

/-- Splitting the `b`-join of `b`-free pieces gives the pieces back. -/
theorem splitByte_join (b : Nat) (xs : List Bytes) (hne : xs ≠ []) (hfree : ∀ x ∈ xs, b ∉ x) (cur : Bytes) :
    Split.splitByte b (Split.join [b] xs) cur = (cur ++ xs.head hne) :: xs.tail := by
  induction xs generalizing cur with
  | nil => exact absurd rfl hne
  | cons x rest ih =>
    cases rest with
    | nil =>
      have hx := hfree x (by simp)
      have := splitByte_append_free b x hx [] cur
      simp only [List.append_nil] at this
      simp [Split.join, this, Split.splitByte]
    | cons y r =>
      have hx := hfree x (by simp)
      simp only [Split.join, List.append_assoc]
      rw [splitByte_append_free b x hx]
      simp only [List.singleton_append, Split.splitByte, beq_self_eq_true, if_true]
      rw [ih (by simp) (fun z hz => hfree z (by simp [hz]))]
      simp

/-! ### CSV -/
open Csv

/-- Hypotheses on the separator: an ASCII byte that is not `"`, CR or LF (Go's `validDelim`). -/
structure GoodComma (comma : Nat) : Prop where
  ne34 : comma ≠ 34
  ne10 : comma ≠ 10
  ne13 : comma ≠ 13
  ascii : comma < 128

theorem scanQuoted_step (comma c : Nat) (r acc : Bytes) (hc : c ≠ 34) :
    scanQuoted comma (c :: r) acc = scanQuoted comma r (acc ++ [c]) := by
  cases r with
  | nil => simp [scanQuoted, hc]
  | cons d r' => simp [scanQuoted, hc]

/-- A quoted field (LF mode) followed by the separator scans back to the field. -/
theorem scanQuoted_body_comma (comma : Nat) (g : GoodComma comma) (f rest acc : Bytes) :
    scanQuoted comma (quoteBody false f ++ 34 :: comma :: rest) acc = .ok ⟨acc ++ f, false, rest⟩ := by
  induction f generalizing acc with
  | nil =>
    have h1 : (comma == 34) = false := by simp [g.ne34]
    simp [quoteBody, scanQuoted, h1]
  | cons c cs ih =>
    by_cases h34 : c = 34
    · subst h34
      simp only [quoteBody, beq_self_eq_true, if_true, List.cons_append]
      simp only [scanQuoted, beq_self_eq_true, if_true]
      rw [ih]; simp
    · have e34 : (c == 34) = false := by simp [h34]
      by_cases h13 : c = 13
      · subst h13
        simp only [quoteBody, e34, Bool.false_eq_true, if_false, beq_self_eq_true, if_true, List.cons_append]
        rw [scanQuoted_step _ _ _ _ h34, ih]; simp
      · have e13 : (c == 13) = false := by simp [h13]
        by_cases h10 : c = 10
        · subst h10
          simp only [quoteBody, e34, e13, Bool.false_eq_true, if_false, beq_self_eq_true, if_true, List.cons_append]
          rw [scanQuoted_step _ _ _ _ h34, ih]; simp
        · have e10 : (c == 10) = false := by simp [h10]
          simp only [quoteBody, e34, e13, e10, Bool.false_eq_true, if_false, List.cons_append]
          rw [scanQuoted_step _ _ _ _ h34, ih]; simp

/-- … followed by the line end. -/
theorem scanQuoted_body_lf (comma : Nat) (g : GoodComma comma) (f rest acc : Bytes) :
    scanQuoted comma (quoteBody false f ++ 34 :: 10 :: rest) acc = .ok ⟨acc ++ f, true, rest⟩ := by
  induction f generalizing acc with
  | nil =>
    have h2 : (10 == comma) = false := by simp; exact fun h => g.ne10 h.symm
    simp [quoteBody, scanQuoted, h2]
  | cons c cs ih =>
    by_cases h34 : c = 34
    · subst h34
      simp only [quoteBody, beq_self_eq_true, if_true, List.cons_append]
      simp only [scanQuoted, beq_self_eq_true, if_true]
      rw [ih]; simp
    · have e34 : (c == 34) = false := by simp [h34]
      by_cases h13 : c = 13
      · subst h13
        simp only [quoteBody, e34, Bool.false_eq_true, if_false, beq_self_eq_true, if_true, List.cons_append]
        rw [scanQuoted_step _ _ _ _ h34, ih]; simp
      · have e13 : (c == 13) = false := by simp [h13]
        by_cases h10 : c = 10
        · subst h10
          simp only [quoteBody, e34, e13, Bool.false_eq_true, if_false, beq_self_eq_true, if_true, List.cons_append]
          rw [scanQuoted_step _ _ _ _ h34, ih]; simp
        · have e10 : (c == 10) = false := by simp [h10]
          simp only [quoteBody, e34, e13, e10, Bool.false_eq_true, if_false, List.cons_append]
          rw [scanQuoted_step _ _ _ _ h34, ih]; simp

/-- A field free of separator, quote and line-end bytes scans as itself. -/
def Plain (comma : Nat) (f : Bytes) : Prop := ∀ c ∈ f, c ≠ comma ∧ c ≠ 10 ∧ c ≠ 34

theorem scanUnquoted_comma (comma : Nat) (f rest acc : Bytes) (hp : Plain comma f) :
    scanUnquoted comma (f ++ comma :: rest) acc = .ok ⟨acc ++ f, false, rest⟩ := by
  induction f generalizing acc with
  | nil => simp [scanUnquoted]
  | cons c cs ih =>
    obtain ⟨h1, h2, h3⟩ := hp c (by simp)
    have e1 : (c == comma) = false := by simp [h1]
    have e2 : (c == 10) = false := by simp [h2]
    have e3 : (c == 34) = false := by simp [h3]
    simp only [List.cons_append, scanUnquoted, e1, e2, e3, Bool.false_eq_true, if_false]
    rw [ih _ (fun d hd => hp d (by simp [hd]))]; simp

theorem scanUnquoted_lf (comma : Nat) (g : GoodComma comma) (f rest acc : Bytes) (hp : Plain comma f) :
    scanUnquoted comma (f ++ 10 :: rest) acc = .ok ⟨acc ++ f, true, rest⟩ := by
  induction f generalizing acc with
  | nil =>
    have h2 : (10 == comma) = false := by simp; exact fun h => g.ne10 h.symm
    simp [scanUnquoted, h2]
  | cons c cs ih =>
    obtain ⟨h1, h2, h3⟩ := hp c (by simp)
    have e1 : (c == comma) = false := by simp [h1]
    have e2 : (c == 10) = false := by simp [h2]
    have e3 : (c == 34) = false := by simp [h3]
    simp only [List.cons_append, scanUnquoted, e1, e2, e3, Bool.false_eq_true, if_false]
    rw [ih _ (fun d hd => hp d (by simp [hd]))]; simp

theorem plain_of_not_needsQuotes (comma : Nat) (f : Bytes) (h : needsQuotes comma f = false) : Plain comma f := by
  unfold needsQuotes at h
  intro c hc
  by_cases he : f.isEmpty = true
  · simp [List.isEmpty_iff] at he; subst he; simp at hc
  · simp only [he, Bool.false_eq_true, if_false] at h
    by_cases hd : (f == [92, 46]) = true
    · simp [hd] at h
    · simp only [hd, Bool.false_eq_true, if_false] at h
      have := List.any_eq_false.mp h c hc
      simp at this
      exact ⟨this.2, this.1.1.1, this.1.2⟩

/-- FIELD ROUND TRIP (LF mode): whatever the field's bytes, the reader's field scanner recovers
exactly the field from the writer's rendering, with or without `--quote-all`, before a separator … -/
theorem field_roundtrip_comma (comma : Nat) (g : GoodComma comma) (quoteAll : Bool) (f rest : Bytes) :
    scanField comma (writeField comma quoteAll false f ++ comma :: rest) = .ok ⟨f, false, rest⟩ := by
  unfold writeField
  by_cases hq : (quoteAll || needsQuotes comma f) = true
  · simp only [hq, if_true, List.append_assoc, List.singleton_append, List.cons_append, scanField, List.nil_append]
    have := scanQuoted_body_comma comma g f rest []
    simpa using this
  · simp only [hq, Bool.false_eq_true, if_false]
    have hn : needsQuotes comma f = false := by
      cases h : needsQuotes comma f <;> simp_all
    have hp := plain_of_not_needsQuotes comma f hn
    have hu := scanUnquoted_comma comma f rest [] hp
    unfold scanField
    cases f with
    | nil => simp only [List.nil_append] at hu ⊢; split <;> simp_all [g.ne34]
    | cons c cs =>
      have h3 := (hp c (by simp)).2.2
      simp only [List.cons_append] at hu ⊢
      split
      · rename_i heq; simp only [List.cons.injEq] at heq; exact absurd heq.1 h3
      · simpa using hu

/-- … and before the line end. -/
theorem field_roundtrip_lf (comma : Nat) (g : GoodComma comma) (quoteAll : Bool) (f rest : Bytes) :
    scanField comma (writeField comma quoteAll false f ++ 10 :: rest) = .ok ⟨f, true, rest⟩ := by
  unfold writeField
  by_cases hq : (quoteAll || needsQuotes comma f) = true
  · simp only [hq, if_true, List.append_assoc, List.singleton_append, List.cons_append, scanField, List.nil_append]
    have := scanQuoted_body_lf comma g f rest []
    simpa using this
  · simp only [hq, Bool.false_eq_true, if_false]
    have hn : needsQuotes comma f = false := by
      cases h : needsQuotes comma f <;> simp_all
    have hp := plain_of_not_needsQuotes comma f hn
    have hu := scanUnquoted_lf comma g f rest [] hp
    unfold scanField
    cases f with
    | nil => simp only [List.nil_append] at hu ⊢; exact hu
    | cons c cs =>
      have h3 := (hp c (by simp)).2.2
      simp only [List.cons_append] at hu ⊢
      split
      · rename_i heq; simp only [List.cons.injEq] at heq; exact absurd heq.1 h3
      · simpa using hu


def wf (o : WOpts) (f : Bytes) : Bytes := writeField o.comma o.quoteAll false f

/-- RECORD ROUND TRIP: one written line (LF mode) scans back to exactly its fields. -/
theorem scanRecord_line (comma : Nat) (g : GoodComma comma) (quoteAll : Bool)
    (fields : List Bytes) (hne : fields ≠ []) (rest : Bytes) (acc : List Bytes) (fuel : Nat)
    (hfuel : fields.length ≤ fuel) :
    scanRecord comma fuel
      (Split.join [comma] (fields.map (writeField comma quoteAll false)) ++ 10 :: rest) acc
      = .ok (acc ++ fields, rest) := by
  induction fields generalizing acc fuel with
  | nil => exact absurd rfl hne
  | cons f fs ih =>
    cases fuel with
    | zero => simp at hfuel
    | succ fuel =>
      cases fs with
      | nil =>
        simp only [List.map, Split.join, scanRecord, field_roundtrip_lf comma g quoteAll f rest]
        rfl
      | cons f2 fs2 =>
        simp only [List.map, Split.join, List.append_assoc, List.singleton_append, List.cons_append, List.nil_append]
        simp only [scanRecord]
        have := field_roundtrip_comma comma g quoteAll f
          (Split.join [comma] (writeField comma quoteAll false f2 :: List.map (writeField comma quoteAll false) fs2) ++ 10 :: rest)
        rw [this]
        simp only [Bool.false_eq_true, if_false]
        have ih' := ih (by simp) (acc ++ [f]) fuel (by simp at hfuel ⊢; omega)
        simp only [List.map] at ih'
        rw [ih']; simp


theorem join_length_ge (c : Nat) (xs : List Bytes) : xs.length ≤ (Split.join [c] xs).length + 1 := by
  induction xs with
  | nil => simp
  | cons x rest ih =>
    cases rest with
    | nil => simp [Split.join]
    | cons y r =>
      simp only [Split.join, List.length_append, List.length_cons, List.length_nil] at ih ⊢
      omega

/-- The text of one LF-mode line. -/
def lineText (comma : Nat) (quoteAll : Bool) (fields : List Bytes) : Bytes :=
  Split.join [comma] (fields.map (writeField comma quoteAll false)) ++ [10]

/-- STREAM ROUND TRIP (cells): concatenated written lines scan back to the rows. -/
theorem scanAll_lines (comma : Nat) (g : GoodComma comma) (quoteAll : Bool)
    (rows : List (List Bytes)) (hne : ∀ r ∈ rows, r ≠ []) (acc : List (List Bytes)) (fuel : Nat)
    (hfuel : rows.length ≤ fuel) :
    scanAll comma fuel ((rows.map (lineText comma quoteAll)).flatten) acc = .ok (acc ++ rows) := by
  induction rows generalizing acc fuel with
  | nil => cases fuel <;> simp [scanAll]
  | cons row rest ih =>
    cases fuel with
    | zero => simp at hfuel
    | succ fuel =>
      have hrow : row ≠ [] := hne row (by simp)
      simp only [List.map, List.flatten_cons, scanAll]
      have hnonempty : (lineText comma quoteAll row ++ (rest.map (lineText comma quoteAll)).flatten).isEmpty = false := by
        simp [lineText]
      simp only [hnonempty, Bool.false_eq_true, if_false]
      have hline : lineText comma quoteAll row ++ (rest.map (lineText comma quoteAll)).flatten
          = Split.join [comma] (row.map (writeField comma quoteAll false)) ++ 10 :: (rest.map (lineText comma quoteAll)).flatten := by
        simp [lineText]
      rw [hline]
      have hlen : row.length ≤ (Split.join [comma] (row.map (writeField comma quoteAll false)) ++ 10 :: (rest.map (lineText comma quoteAll)).flatten).length + 1 := by
        have := join_length_ge comma (row.map (writeField comma quoteAll false))
        simp only [List.length_map] at this
        simp only [List.length_append, List.length_cons]
        omega
      rw [scanRecord_line comma g quoteAll row hrow _ [] _ hlen]
      simp only [List.nil_append]
      rw [ih (fun r hr => hne r (by simp [hr])) (acc ++ [row]) fuel (by simp at hfuel; omega)]
      simp


theorem any_key_false (acc : Rec) (k : Bytes) (h : k ∉ acc.keys) : acc.any (fun p => p.1 == k) = false := by
  apply List.any_eq_false.mpr
  intro p hp
  simp only [beq_iff_eq]
  intro he
  exact h (by unfold Rec.keys; exact List.mem_map.mpr ⟨p, hp, he⟩)

theorem putDedupe_fresh (d : Bool) (acc : Rec) (k v : Bytes) (h : k ∉ acc.keys) :
    Rec.putDedupe d acc k v = acc ++ [(k, v)] := by
  unfold Rec.putDedupe Rec.put
  simp [any_key_false acc k h]

theorem ofPairs_fold (d : Bool) (ps acc : Rec) (h : (acc ++ ps).keys.Nodup) :
    ps.foldl (fun r p => Rec.putDedupe d r p.1 p.2) acc = acc ++ ps := by
  induction ps generalizing acc with
  | nil => simp
  | cons p rest ih =>
    simp only [List.foldl_cons]
    have hk : p.1 ∉ acc.keys := by
      unfold Rec.keys at h ⊢
      simp only [List.map_append, List.map_cons] at h
      have := (List.nodup_append.mp h).2.2
      intro hm
      exact this _ hm _ (by simp) rfl
    rw [putDedupe_fresh d acc p.1 p.2 hk]
    have : (acc ++ [(p.1, p.2)] ++ rest) = acc ++ p :: rest := by simp
    rw [ih (acc ++ [(p.1, p.2)]) (by rw [this]; exact h), this]

/-- A record with pairwise distinct field names is rebuilt unchanged (no `_2` renaming). -/
theorem ofPairs_id (d : Bool) (r : Rec) (h : r.keys.Nodup) : Rec.ofPairs d r = r := by
  unfold Rec.ofPairs
  have := ofPairs_fold d r [] (by simpa using h)
  simpa using this

theorem zip_keys_vals (r : Rec) : r.keys.zip r.vals = r := by
  unfold Rec.keys Rec.vals
  induction r with
  | nil => rfl
  | cons p rest ih => simp [ih]


theorem toRecords_rect (o : ROpts) (keys : List Bytes) (rs acc : List Rec)
    (hk : ∀ r ∈ rs, r.keys = keys) (hnd : keys.Nodup) :
    toRecords o (some keys) (rs.map Rec.vals) acc = .ok (acc ++ rs) := by
  induction rs generalizing acc with
  | nil => simp [toRecords]
  | cons r rest ih =>
    have hr : r.keys = keys := hk r (by simp)
    have hlen : (keys.length == r.vals.length) = true := by
      rw [← hr]; simp [Rec.keys, Rec.vals]
    simp only [List.map, toRecords, hlen, if_true]
    have : Rec.ofPairs o.dedupe (keys.zip r.vals) = r := by
      rw [← hr, zip_keys_vals]; exact ofPairs_id _ r (by rw [hr]; exact hnd)
    rw [this, ih (acc ++ [r]) (fun x hx => hk x (by simp [hx]))]
    simp

theorem zip_self_eq {α : Type} (l : List α) : ∀ p ∈ l.zip l, p.1 = p.2 := by
  induction l with
  | nil => simp
  | cons k ks ih =>
    intro p hp
    simp only [List.zip_cons_cons, List.mem_cons] at hp
    rcases hp with hp | hp
    · rw [hp]
    · exact ih p hp

theorem dataFields_rect (keys : List Bytes) (r : Rec) (hr : r.keys = keys) :
    dataFields keys r = .ok r.vals := by
  unfold dataFields
  have h1 : ((r.keys.zip keys).any fun (k, fk) => k != fk) = false := by
    rw [hr]
    apply List.any_eq_false.mpr
    intro p hp
    have := zip_self_eq keys p hp
    simp [this]
  have h2 : keys.length - r.vals.length = 0 := by
    rw [← hr]; simp [Rec.keys, Rec.vals]
  simp [h1, h2]

/-- The writer's text for a rectangular stream (LF mode, header on): header line then one line per record. -/
theorem write_rect (o : WOpts) (hlf : o.crlf = false) (hh : o.headerless = false)
    (keys : List Bytes) (rs : List Rec) (hne : rs ≠ []) (hk : ∀ r ∈ rs, r.keys = keys) :
    write o rs = .ok (((keys :: rs.map Rec.vals).map (lineText o.comma o.quoteAll)).flatten) := by
  have hline : ∀ fs, writeLine o fs = lineText o.comma o.quoteAll fs := by
    intro fs; simp [writeLine, lineText, eol, hlf]
  have hfold : ∀ (l : List Rec) (acc : Bytes), (∀ r ∈ l, r.keys = keys) →
      l.foldlM (fun acc r => do let fs ← dataFields keys r; pure (acc ++ writeLine o fs)) acc
        = (.ok (acc ++ ((l.map Rec.vals).map (lineText o.comma o.quoteAll)).flatten) : Except WErr Bytes) := by
    intro l
    induction l with
    | nil => intro acc _; simp [List.foldlM]; rfl
    | cons r rest ih =>
      intro acc h
      simp only [List.foldlM, dataFields_rect keys r (h r (by simp))]
      show (rest.foldlM _ (acc ++ writeLine o r.vals)) = _
      rw [ih _ (fun x hx => h x (by simp [hx])), hline]
      simp
  cases rs with
  | nil => exact absurd rfl hne
  | cons first rest =>
    have hf : first.keys = keys := hk first (by simp)
    simp only [write, hf, hh, Bool.false_eq_true, if_false]
    rw [hfold (first :: rest) _ hk, hline]
    simp


theorem normalise_crfree (s : Bytes) (h : 13 ∉ s) (b : Bool) : normaliseAux b s = s := by
  induction s generalizing b with
  | nil => rfl
  | cons c r ih =>
    have hc : c ≠ 13 := fun e => h (by simp [e])
    have hr : 13 ∉ r := fun e => h (by simp [e])
    cases r with
    | nil => simp [normaliseAux, hc]
    | cons d r' =>
      have := ih hr (c == 10)
      unfold normaliseAux
      split
      · rename_i heq; simp at heq
      · rename_i heq; simp at heq
      · rename_i heq; simp only [List.cons.injEq] at heq; exact absurd heq.1 hc
      · rename_i heq
        simp only [List.cons.injEq] at heq
        obtain ⟨h1, h2⟩ := heq
        subst h1; subst h2
        rw [this]

theorem mem_quoteBody (x : Nat) (f : Bytes) (h : x ∈ quoteBody false f) : x ∈ f ∨ x = 34 := by
  induction f with
  | nil => simp [quoteBody] at h
  | cons c r ih =>
    unfold quoteBody at h
    by_cases h34 : (c == 34) = true
    · simp only [h34, if_true, List.mem_cons] at h
      rcases h with h | h | h
      · right; exact h
      · right; exact h
      · rcases ih h with h | h
        · left; simp [h]
        · right; exact h
    · simp only [h34, Bool.false_eq_true, if_false] at h
      by_cases h13 : (c == 13) = true
      · simp only [h13, if_true, List.mem_cons] at h
        have e13 : c = 13 := by simpa using h13
        rcases h with h | h
        · left; simp [h, e13]
        · rcases ih h with h | h
          · left; simp [h]
          · right; exact h
      · simp only [h13, Bool.false_eq_true, if_false] at h
        by_cases h10 : (c == 10) = true
        · simp only [h10, if_true, List.mem_cons] at h
          have e10 : c = 10 := by simpa using h10
          rcases h with h | h
          · left; simp [h, e10]
          · rcases ih h with h | h
            · left; simp [h]
            · right; exact h
        · simp only [h10, Bool.false_eq_true, if_false, List.mem_cons] at h
          rcases h with h | h
          · left; simp [h]
          · rcases ih h with h | h
            · left; simp [h]
            · right; exact h

theorem mem_writeField (comma : Nat) (q : Bool) (x : Nat) (f : Bytes)
    (h : x ∈ writeField comma q false f) : x ∈ f ∨ x = 34 := by
  unfold writeField at h
  split at h
  · have h' : x = 34 ∨ x ∈ quoteBody false f ∨ x = 34 := by
      simpa [List.mem_append, List.mem_cons] using h
    rcases h' with h1 | h1 | h1
    · right; exact h1
    · exact mem_quoteBody x f h1
    · right; exact h1
  · left; exact h

theorem mem_join (c x : Nat) (xs : List Bytes) (h : x ∈ Split.join [c] xs) : x = c ∨ ∃ y ∈ xs, x ∈ y := by
  induction xs with
  | nil => simp [Split.join] at h
  | cons y rest ih =>
    cases rest with
    | nil => right; exact ⟨y, by simp, by simpa [Split.join] using h⟩
    | cons z r =>
      simp only [Split.join, List.append_assoc, List.singleton_append, List.mem_append, List.mem_cons] at h
      rcases h with h | h | h
      · right; exact ⟨y, by simp, h⟩
      · left; exact h
      · rcases ih h with h | ⟨w, hw, hx⟩
        · left; exact h
        · right; exact ⟨w, by simp [hw], hx⟩

theorem lineText_crfree (comma : Nat) (g : GoodComma comma) (q : Bool) (fields : List Bytes)
    (h : ∀ f ∈ fields, 13 ∉ f) : 13 ∉ lineText comma q fields := by
  intro hm
  unfold lineText at hm
  simp only [List.mem_append, List.mem_cons, List.mem_nil_iff, or_false] at hm
  rcases hm with hm | hm
  · rcases mem_join comma 13 _ hm with h1 | ⟨y, hy, hx⟩
    · exact g.ne13 h1.symm
    · obtain ⟨f, hf, rfl⟩ := List.mem_map.mp hy
      rcases mem_writeField comma q 13 f hx with h2 | h2
      · exact h f hf h2
      · simp at h2
  · simp at hm


theorem stripBOM_id (t : Bytes) (h : t.head? ≠ some 0xEF) : stripBOM t = t := by
  unfold stripBOM
  split
  · simp at h
  · rfl

theorem head_writeField (comma : Nat) (q : Bool) (k more : Bytes) :
    (writeField comma q false k ++ more).head? = some 34 ∨
    (writeField comma q false k ++ more).head? = (k ++ more).head? := by
  unfold writeField
  split
  · left; simp
  · right; rfl

theorem head_lineText (comma : Nat) (q : Bool) (k : Bytes) (ks : List Bytes) (more : Bytes) :
    (lineText comma q (k :: ks) ++ more).head? = some 34 ∨
    (lineText comma q (k :: ks) ++ more).head? = some comma ∨
    (lineText comma q (k :: ks) ++ more).head? = some 10 ∨
    (lineText comma q (k :: ks) ++ more).head? = k.head? := by
  unfold lineText
  cases ks with
  | nil =>
    simp only [List.map, Split.join, List.append_assoc]
    rcases head_writeField comma q k ([10] ++ more) with h | h
    · left; exact h
    · rw [h]
      cases k with
      | nil => right; right; left; simp
      | cons c r => right; right; right; simp
  | cons k2 ks2 =>
    simp only [List.map, Split.join, List.append_assoc]
    rcases head_writeField comma q k ([comma] ++ (Split.join [comma] (writeField comma q false k2 :: List.map (writeField comma q false) ks2) ++ ([10] ++ more))) with h | h
    · left; exact h
    · rw [h]
      cases k with
      | nil => right; left; simp
      | cons c r => right; right; right; simp


theorem rows_le_text (comma : Nat) (q : Bool) (rows : List (List Bytes)) :
    rows.length ≤ ((rows.map (lineText comma q)).flatten).length + 1 := by
  induction rows with
  | nil => simp
  | cons r rest ih =>
    simp only [List.map, List.flatten_cons, List.length_append, List.length_cons]
    have : 1 ≤ (lineText comma q r).length := by simp [lineText]
    omega

end Lemmas.C01
end Miller
