/-
Lemmas for C20: association-list facts and the invariant of the fan-out manager.
-/
import MillerModel.Model.Fanout
namespace Miller
namespace Lemmas.C20
open Fanout

theorem docsOf_setDocs_same (fs : Files) (t : Nat) (ds : List Doc) : docsOf (setDocs fs t ds) t = ds := by
  induction fs with
  | nil => simp [docsOf, setDocs]
  | cons p fs ih =>
    unfold setDocs
    by_cases hp : (p.1 == t) = true
    · simp [hp, docsOf]
    · have hp' : (p.1 == t) = false := by simpa using hp
      simp only [hp', Bool.false_eq_true, if_false]
      unfold docsOf at ih ⊢
      simp only [List.find?_cons, hp']
      exact ih

theorem docsOf_setDocs_other (fs : Files) (t t' : Nat) (ds : List Doc) (hne : t' ≠ t) :
    docsOf (setDocs fs t ds) t' = docsOf fs t' := by
  have h1 : (t == t') = false := by simpa using (Ne.symm hne)
  induction fs with
  | nil => simp [docsOf, setDocs, h1]
  | cons p fs ih =>
    unfold setDocs
    by_cases hp : (p.1 == t) = true
    · have hpt : p.1 = t := by simpa using hp
      have h2 : (p.1 == t') = false := by rw [hpt]; exact h1
      simp [hp, docsOf, List.find?_cons, h1, h2]
    · have hp' : (p.1 == t) = false := by simpa using hp
      simp only [hp', Bool.false_eq_true, if_false]
      unfold docsOf at ih ⊢
      simp only [List.find?_cons]
      by_cases hq : (p.1 == t') = true
      · simp [hq]
      · have hq' : (p.1 == t') = false := by simpa using hq
        simp only [hq']
        exact ih

theorem flatten_appendLast (ds : List Doc) (r : Rec) : (appendLast ds r).flatten = ds.flatten ++ [r] := by
  induction ds with
  | nil => simp [appendLast]
  | cons d ds ih =>
    cases ds with
    | nil => simp [appendLast]
    | cons e es =>
      simp only [appendLast, List.flatten_cons] at ih ⊢
      rw [ih]; simp

theorem routed_snoc_same (seen : List (Nat × Rec)) (t : Nat) (r : Rec) :
    routed (seen ++ [(t, r)]) t = routed seen t ++ [r] := by simp [routed, List.filter_append]

theorem routed_snoc_other (seen : List (Nat × Rec)) (t t' : Nat) (r : Rec) (h : t' ≠ t) :
    routed (seen ++ [(t, r)]) t' = routed seen t' := by
  have : (t == t') = false := by simpa using (Ne.symm h)
  simp [routed, List.filter_append, this]

end Lemmas.C20
end Miller

namespace Miller
namespace Lemmas.C20
open Fanout

theorem split_last : ∀ (l : List Nat) (a : Nat), l.getLast? = some a → l = l.dropLast ++ [a]
  | [], a, h => by simp at h
  | [x], a, h => by simp at h; simp [h]
  | x :: y :: l, a, h => by
    have h' : (y :: l).getLast? = some a := by simpa [List.getLast?_cons_cons] using h
    have := split_last (y :: l) a h'
    simp only [List.dropLast_cons_cons, List.cons_append]
    rw [← this]

theorem evict_facts (cap : Nat) (openT evicted : List Nat) :
    (∀ x, x ∈ (evictStep cap openT evicted).1 → x ∈ openT) ∧
    (∀ x, x ∈ openT → x ∈ (evictStep cap openT evicted).1 ∨ x ∈ (evictStep cap openT evicted).2) ∧
    (∀ x, x ∈ (evictStep cap openT evicted).2 → x ∈ evicted ∨ x ∈ openT) ∧
    (∀ x, x ∈ evicted → x ∈ (evictStep cap openT evicted).2) := by
  unfold evictStep
  by_cases hc : openT.length ≥ cap
  · simp only [hc, if_true]
    cases hl : openT.getLast? with
    | none =>
      exact ⟨fun x hx => hx, fun x hx => Or.inl hx, fun x hx => Or.inl hx, fun x hx => hx⟩
    | some tail =>
      simp only
      have hsplit : openT = openT.dropLast ++ [tail] := split_last openT tail hl
      refine ⟨fun x hx => by rw [hsplit]; exact List.mem_append_left _ hx, ?_, ?_, ?_⟩
      · intro x hx
        rw [hsplit] at hx
        rcases List.mem_append.mp hx with h | h
        · left; exact h
        · right; simp at h; simp [h]
      · intro x hx
        rcases List.mem_cons.mp hx with h | h
        · right; rw [h]; exact List.mem_of_getLast? hl
        · left; exact h
      · intro x hx; simp [hx]
  · simp only [hc, if_false]
    exact ⟨fun x hx => hx, fun x hx => Or.inl hx, fun x hx => Or.inl hx, fun x hx => hx⟩

def base (am : Bool) (f0 : Files) (t : Nat) : List Rec := if am then (docsOf f0 t).flatten else []

structure Inv (am : Bool) (f0 : Files) (s : St) (seen : List (Nat × Rec)) : Prop where
  live : ∀ t, routed seen t ≠ [] → t ∈ s.openT ∨ t ∈ s.evicted
  content : ∀ t, routed seen t ≠ [] → (docsOf s.files t).flatten = base am f0 t ++ routed seen t
  fresh : ∀ t, routed seen t = [] → docsOf s.files t = docsOf f0 t ∧ t ∉ s.openT ∧ t ∉ s.evicted

theorem inv_init (am : Bool) (f0 : Files) : Inv am f0 { files := f0 } [] :=
  ⟨by intro t h; simp [routed] at h, by intro t h; simp [routed] at h, by intro t _; simp⟩

theorem inv_step (cap : Nat) (am : Bool) (f0 : Files) (s : St) (seen : List (Nat × Rec)) (t : Nat) (r : Rec)
    (h : Inv am f0 s seen) : Inv am f0 (write cap am s t r) (seen ++ [(t, r)]) := by
  have hsame := routed_snoc_same seen t r
  have hne_t : routed (seen ++ [(t, r)]) t ≠ [] := by rw [hsame]; simp
  unfold write
  by_cases ho : s.openT.contains t = true
  · simp only [ho, if_true]
    have hto : t ∈ s.openT := by simpa using ho
    have hro : routed seen t ≠ [] := by
      intro he; exact (h.fresh t he).2.1 hto
    refine ⟨?_, ?_, ?_⟩
    · intro t' ht'
      by_cases htt : t' = t
      · left; simp [htt]
      · rw [routed_snoc_other seen t t' r htt] at ht'
        rcases h.live t' ht' with h1 | h1
        · left; exact List.mem_cons_of_mem _ ((List.mem_erase_of_ne htt).mpr h1)
        · right; exact h1
    · intro t' ht'
      by_cases htt : t' = t
      · subst htt
        simp only
        rw [docsOf_setDocs_same, flatten_appendLast, h.content t' hro, hsame, List.append_assoc]
      · simp only
        rw [docsOf_setDocs_other _ _ _ _ htt, routed_snoc_other seen t t' r htt]
        rw [routed_snoc_other seen t t' r htt] at ht'
        exact h.content t' ht'
    · intro t' ht'
      have htt : t' ≠ t := by intro he; subst he; exact hne_t ht'
      rw [routed_snoc_other seen t t' r htt] at ht'
      have hf := h.fresh t' ht'
      refine ⟨by simp only; rw [docsOf_setDocs_other _ _ _ _ htt]; exact hf.1, ?_, hf.2.2⟩
      intro hm
      rcases List.mem_cons.mp hm with h1 | h1
      · exact htt h1
      · exact hf.2.1 (List.mem_of_mem_erase h1)
  · have ho' : s.openT.contains t = false := by simpa using ho
    have hto : t ∉ s.openT := by simpa using ho'
    simp only [ho', Bool.false_eq_true, if_false]
    obtain ⟨e1, e2, e3, e4⟩ := evict_facts cap s.openT s.evicted
    refine ⟨?_, ?_, ?_⟩
    · intro t' ht'
      by_cases htt : t' = t
      · left; simp [htt]
      · rw [routed_snoc_other seen t t' r htt] at ht'
        rcases h.live t' ht' with h1 | h1
        · rcases e2 t' h1 with h2 | h2
          · left; exact List.mem_cons_of_mem _ h2
          · right; exact List.mem_filter.mpr ⟨h2, by simpa using htt⟩
        · right; exact List.mem_filter.mpr ⟨e4 t' h1, by simpa using htt⟩
    · intro t' ht'
      by_cases htt : t' = t
      · subst htt
        simp only
        rw [docsOf_setDocs_same, hsame]
        by_cases hr : routed seen t' = []
        · have hf := h.fresh t' hr
          have hnev : (evictStep cap s.openT s.evicted).2.contains t' = false := by
            apply Bool.eq_false_iff.mpr
            intro hc
            have : t' ∈ (evictStep cap s.openT s.evicted).2 := by simpa using hc
            rcases e3 t' this with h1 | h1
            · exact hf.2.2 h1
            · exact hf.2.1 h1
          simp only [hnev, Bool.or_false, hr, List.nil_append]
          unfold base
          cases am <;> simp [hf.1]
        · have hev : (evictStep cap s.openT s.evicted).2.contains t' = true := by
            rcases h.live t' hr with h1 | h1
            · exact absurd h1 hto
            · simpa using e4 t' h1
          simp only [hev, Bool.or_true, if_true, List.flatten_append, List.flatten_cons, List.flatten_nil,
            List.append_nil]
          rw [h.content t' hr, List.append_assoc]
      · simp only
        rw [docsOf_setDocs_other _ _ _ _ htt, routed_snoc_other seen t t' r htt]
        rw [routed_snoc_other seen t t' r htt] at ht'
        exact h.content t' ht'
    · intro t' ht'
      have htt : t' ≠ t := by intro he; subst he; exact hne_t ht'
      rw [routed_snoc_other seen t t' r htt] at ht'
      have hf := h.fresh t' ht'
      refine ⟨by simp only; rw [docsOf_setDocs_other _ _ _ _ htt]; exact hf.1, ?_, ?_⟩
      · intro hm
        rcases List.mem_cons.mp hm with h1 | h1
        · exact htt h1
        · exact hf.2.1 (e1 t' h1)
      · intro hm
        have := (List.mem_filter.mp hm).1
        rcases e3 t' this with h1 | h1
        · exact hf.2.2 h1
        · exact hf.2.1 h1

theorem inv_run (cap : Nat) (am : Bool) (f0 : Files) (s : St) (seen hist : List (Nat × Rec))
    (h : Inv am f0 s seen) : Inv am f0 (run cap am s hist) (seen ++ hist) := by
  induction hist generalizing s seen with
  | nil => simpa [run] using h
  | cons w hist ih =>
    have := ih (write cap am s w.1 w.2) (seen ++ [(w.1, w.2)]) (inv_step cap am f0 s seen w.1 w.2 h)
    simpa [run] using this

end Lemmas.C20
end Miller
